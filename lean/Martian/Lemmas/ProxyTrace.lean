import Martian.Lemmas.Proxy
/-! Trace-order checkers and state tracking for the exchange machine. -/
namespace Martian.Proxy

/-- "Every upstream contact (round trip or dial) of exchange `j` happens after the request modifier
ran for `j`": `seen` = exchanges whose request modifier has already run. -/
def okUp : List Nat → List Ev → Bool
  | _, [] => true
  | seen, e :: r =>
    match e with
    | .reqmod j _ _ _ _ _ => okUp (j :: seen) r
    | .upstream j _ => seen.contains j && okUp seen r
    | .dial j _ => seen.contains j && okUp seen r
    | _ => okUp seen r

/-- After a `hijacked` event the proxy does nothing on the connection but bookkeeping and close. -/
def isBookkeeping : Ev → Bool | .unlink _ => true | .closeConn => true | _ => false
def quiet : List Ev → Bool
  | [] => true
  | e :: r =>
    match e with
    | .hijacked _ _ _ => r.all isBookkeeping
    | _ => quiet r

theorem okUp_mono (l : List Ev) : ∀ (a b : List Nat), (∀ x ∈ a, x ∈ b) → okUp a l = true → okUp b l = true := by
  induction l with
  | nil => intros; rfl
  | cons e r ih =>
    intro a b hab h
    cases e <;> simp only [okUp, Bool.and_eq_true] at * <;>
      first
        | exact ih _ _ hab h
        | (exact ih _ _ (by intro x hx; rcases List.mem_cons.mp hx with h1 | h1
                            · subst h1; exact List.mem_cons_self
                            · exact List.mem_cons_of_mem _ (hab x h1)) h)
        | (refine ⟨?_, ih _ _ hab h.2⟩
           have := h.1
           simp only [List.contains_iff_mem] at *
           exact hab _ this)

def reqmodsOf (l : List Ev) : List Nat := l.filterMap fun | .reqmod j _ _ _ _ _ => some j | _ => none

theorem okUp_append (a b : List Ev) (seen : List Nat) (ha : okUp seen a = true)
    (hb : ∀ seen', okUp seen' b = true) : okUp seen (a ++ b) = true := by
  induction a generalizing seen with
  | nil => exact hb seen
  | cons e r ih =>
    cases e <;> simp only [okUp, List.cons_append, Bool.and_eq_true] at * <;>
      first
        | exact ih _ ha
        | exact ⟨ha.1, ih _ ha.2⟩

theorem okUp_bookkeeping (opn : List Nat) (seen : List Nat) :
    okUp seen (opn.map Ev.unlink ++ [Ev.closeConn]) = true := by
  induction opn with
  | nil => rfl
  | cons c r ih => simpa [okUp] using ih

theorem okUp_item (sd : Bool) (s : St) (i c : Nat) (it : Item) (seen : List Nat) :
    okUp seen (handleItem sd s i c it).1 = true := by
  item_cases it then (simp [okUp])

theorem okUp_run (sd : Bool) (base : Nat) (s : St) (i : Nat) (opn : List Nat) (items : List Item) :
    ∀ seen, okUp seen (run sd base s i opn items) = true := by
  induction items generalizing s i opn with
  | nil => intro seen; simpa [run] using okUp_bookkeeping opn seen
  | cons it rest ih =>
    intro seen
    simp only [run]
    cases hn : (handleItem sd s i (base + i) it).2 with
    | again s' => simp only [hn]; exact okUp_append _ _ _ (okUp_item ..) (ih _ _ _)
    | close =>
      simp only [hn, List.append_assoc]
      exact okUp_append _ _ _ (okUp_item ..) (fun sn => okUp_bookkeeping opn sn)
    | hijack =>
      simp only [hn, List.append_assoc]
      exact okUp_append _ _ _ (okUp_item ..) (fun sn => okUp_bookkeeping opn sn)

theorem all_bookkeeping_tail (opn : List Nat) : (opn.map Ev.unlink ++ [Ev.closeConn]).all isBookkeeping = true := by
  induction opn with
  | nil => rfl
  | cons c r ih => simpa [isBookkeeping] using ih

theorem quiet_of_all (l : List Ev) (h : l.all isBookkeeping = true) : quiet l = true := by
  induction l with
  | nil => rfl
  | cons e r ih =>
    simp only [List.all_cons, Bool.and_eq_true] at h
    obtain ⟨h1, h2⟩ := h
    cases e <;> simp [isBookkeeping] at h1 <;> simp only [quiet] <;> exact ih h2

/-- Per item: either the item hijacks and its trace ends `…, hijacked, unlink`, or it has no
`hijacked` event at all. Stated through `quiet` on the item trace followed by any tail `t`. -/
def Next.isHijack : Next → Bool | .hijack => true | _ => false

@[simp] theorem isHijack_hijack : Next.hijack.isHijack = true := rfl
@[simp] theorem isHijack_close : Next.close.isHijack = false := rfl
@[simp] theorem isHijack_again (s : St) : (Next.again s).isHijack = false := rfl
@[simp] theorem isHijack_ite (c : Prop) [Decidable c] (s : St) :
    (if c then Next.close else Next.again s).isHijack = false := by split <;> rfl

theorem quiet_item (sd : Bool) (s : St) (i c : Nat) (it : Item) (t : List Ev) :
    quiet ((handleItem sd s i c it).1 ++ t) =
      (if (handleItem sd s i c it).2.isHijack then t.all isBookkeeping else quiet t) := by
  item_cases it then (simp [quiet, isBookkeeping])

theorem quiet_run (sd : Bool) (base : Nat) (s : St) (i : Nat) (opn : List Nat) (items : List Item) :
    quiet (run sd base s i opn items) = true := by
  induction items generalizing s i opn with
  | nil => simpa [run] using quiet_of_all _ (all_bookkeeping_tail opn)
  | cons it rest ih =>
    simp only [run]
    cases hn : (handleItem sd s i (base + i) it).2 with
    | again s' => simp only [hn]; rw [quiet_item, hn]; simpa using ih _ _ _
    | close =>
      simp only [hn, List.append_assoc]; rw [quiet_item, hn]
      simpa using quiet_of_all _ (all_bookkeeping_tail opn)
    | hijack =>
      simp only [hn, List.append_assoc]; rw [quiet_item, hn]
      simpa using all_bookkeeping_tail opn

/-- The context id carried by a modifier event of exchange `k` is `base + k`. -/
def ctxOK (base : Nat) (e : Ev) : Bool :=
  match e with
  | .reqmod k c _ _ _ _ => c == base + k
  | .resmod k c _ => c == base + k
  | _ => true

theorem ctxOK_item (sd : Bool) (base : Nat) (s : St) (i : Nat) (it : Item) :
    (handleItem sd s i (base + i) it).1.all (ctxOK base) = true := by
  item_cases it then (simp [ctxOK])

end Martian.Proxy
