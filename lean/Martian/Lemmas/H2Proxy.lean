import Martian.Model.H2Proxy
import Martian.Lemmas.H2Session
/-! Lemmas about the stages of `Config.Proxy` around the relay machine. -/
namespace Martian.H2Session

theorem reach_init_closing (b : Bool) : Reach { init with closing := b } := by
  cases b
  · exact Reach.init
  · exact Reach.step .closing Reach.init rfl

/-- Invariant of the wrapper: in the `running` stage the embedded machine is in a reachable state and
    agrees with the wrapper on `closing`. -/
def PGood (p : Proxy) : Prop :=
  p.stage = .running → Reach p.sys ∧ p.sys.closing = p.closing

theorem closing_step {s s' : Sys} {l : Label} (hl : l ≠ .closing) (h : step s l = some s') : s'.closing = s.closing := by
  obtain ⟨⟨cr, cw, cf, co, ce, cl, cs, cx, cm, cq⟩, ⟨sr, sw, sf, so, se, sl, ss, sx, sm, sq⟩, dn, clg, wt, rt, scc, ccc⟩ := s
  step_cases (first | rfl | (exfalso; exact hl rfl))

theorem pgood_step {p p' : Proxy} {l : PLabel} (hg : PGood p) (h : pstep p l = some p') : PGood p' := by
  obtain ⟨st, clg, ccc, sys⟩ := p
  cases l
  case dial ok => cases st <;> simp [pstep] at h; subst h; intro h'; cases ok <;> simp at h'
  case prefaceIn ok => cases st <;> simp [pstep] at h; subst h; intro h'; cases ok <;> simp at h'
  case prefaceOut ok =>
    cases st <;> simp [pstep] at h
    cases ok <;> simp at h <;> subst h
    · intro h'; simp at h'
    · intro _; exact ⟨reach_init_closing clg, rfl⟩
  case closing =>
    cases st <;> simp [pstep] at h
    all_goals (try (subst h; intro h'; simp at h'))
    obtain ⟨s', hs, rfl⟩ := h
    intro _
    have ⟨hr, _⟩ := hg rfl
    refine ⟨Reach.step _ hr hs, ?_⟩
    simp [step] at hs; subst hs; rfl
  case callerClose =>
    cases st <;> simp [pstep] at h
    · subst h; intro h'; simp at h'
    · obtain ⟨s', hs, rfl⟩ := h
      intro _
      have ⟨hr, hc⟩ := hg rfl
      exact ⟨Reach.step _ hr hs, by rw [closing_step (by simp) hs]; exact hc⟩
  case retErr => cases st <;> simp [pstep] at h; subst h; intro h'; simp at h'
  case relay l =>
    cases st <;> simp [pstep] at h
    have hl : l ≠ .closing := by intro e; subst e; simp at h
    have hl2 : l ≠ .callerClose := by intro e; subst e; simp at h
    have h2 : ∃ s', step sys l = some s' ∧ { stage := Stage.running, closing := clg, ccClosed := ccc, sys := s' : Proxy } = p' := by
      cases l <;> simp_all
    obtain ⟨s', hs, rfl⟩ := h2
    intro _
    have ⟨hr, hc⟩ := hg rfl
    exact ⟨Reach.step _ hr hs, by rw [closing_step hl hs]; exact hc⟩

theorem pgood_init : PGood pinit := by intro h; simp [pinit] at h

theorem pgood_reach {p : Proxy} (hr : PReach p) : PGood p := by
  induction hr with
  | init => exact pgood_init
  | step l _ h ih => exact pgood_step ih h

theorem pstep_decreases {p p' : Proxy} {l : PLabel} (hp : l.isProc = true) (h : pstep p l = some p') :
    pmu p' < pmu p := by
  obtain ⟨st, clg, ccc, sys⟩ := p
  cases l <;> simp [PLabel.isProc] at hp
  case retErr => cases st <;> simp [pstep] at h; subst h; simp [pmu]
  case relay l =>
    cases st <;> simp [pstep] at h
    have h2 : ∃ s', step sys l = some s' ∧ { stage := Stage.running, closing := clg, ccClosed := ccc, sys := s' : Proxy } = p' := by
      cases l <;> simp_all
    obtain ⟨s', hs, rfl⟩ := h2
    simpa [pmu] using step_decreases hp hs

end Martian.H2Session
