import Martian.Model.Http1
import Martian.Lemmas.Chunked
/-!
Lemmas about the HTTP/1 reader model, layer by layer: `cut` / lines, one field line, the header
section, decimal and hexadecimal numbers, the chunked body, the trailer.
-/
namespace Martian.Http1
open Martian Martian.Go Martian.MessageView

/-! ### `cut` and lines -/

theorem cut_append (sep : UInt8) (a b : Bytes) (h : ∀ c ∈ a, c ≠ sep) :
    cut sep (a ++ sep :: b) = some (a, b) := by
  induction a with
  | nil => simp [cut]
  | cons c r ih =>
    have hc : (c == sep) = false := by simpa using h c (by simp)
    simp [cut, hc, ih (fun x hx => h x (by simp [hx]))]

theorem cut_none (sep : UInt8) (a : Bytes) (h : ∀ c ∈ a, c ≠ sep) : cut sep a = none := by
  induction a with
  | nil => simp [cut]
  | cons c r ih =>
    have hc : (c == sep) = false := by simpa using h c (by simp)
    simp [cut, hc, ih (fun x hx => h x (by simp [hx]))]

/-- `cut` returns the pieces around the first separator. -/
theorem cut_eq_some (sep : UInt8) (s a b : Bytes) (h : cut sep s = some (a, b)) :
    s = a ++ sep :: b ∧ ∀ c ∈ a, c ≠ sep := by
  induction s generalizing a with
  | nil => simp [cut] at h
  | cons c r ih =>
    unfold cut at h
    split at h
    · rename_i hc
      have : c = sep := by simpa using hc
      simp at h; obtain ⟨rfl, rfl⟩ := h; simp [this]
    · rename_i hc
      cases hr : cut sep r with
      | none => simp [hr] at h
      | some p =>
        obtain ⟨a', b'⟩ := p
        simp [hr] at h
        obtain ⟨rfl, rfl⟩ := h
        have ⟨h1, h2⟩ := ih a' hr
        refine ⟨by rw [h1]; simp, ?_⟩
        intro x hx
        rcases List.mem_cons.mp hx with rfl | hx
        · simpa using hc
        · exact h2 x hx

theorem cut_eq_none (sep : UInt8) (s : Bytes) (h : cut sep s = none) : ∀ c ∈ s, c ≠ sep := by
  induction s with
  | nil => simp
  | cons c r ih =>
    unfold cut at h
    split at h
    · simp at h
    · rename_i hc
      cases hr : cut sep r with
      | some p => simp [hr] at h
      | none =>
        intro x hx
        rcases List.mem_cons.mp hx with rfl | hx
        · simpa using hc
        · exact ih hr x hx

theorem stripCR_append_cr (l : Bytes) : stripCR (l ++ [13]) = l := by
  simp [stripCR]

/-- A CRLF-terminated line is read back, whatever follows. -/
theorem readLine_crlf (l rest : Bytes) (h : ∀ c ∈ l, c ≠ 10) :
    readLine (l ++ crlf ++ rest) = some (l, rest) := by
  have h' : ∀ c ∈ l ++ [13], c ≠ 10 := by
    intro c hc
    rcases List.mem_append.mp hc with hc | hc
    · exact h c hc
    · simp at hc; simp [hc]
  have : l ++ crlf ++ rest = (l ++ [13]) ++ 10 :: rest := by simp [crlf]
  rw [this]
  unfold readLine
  rw [cut_append 10 _ rest h']
  simp [stripCR_append_cr]

/-! ### one field line -/

/-- A field as a well-behaved sender writes it: canonical token name; value of HT / SP / VCHAR /
obs-text bytes without optional white space at either end. -/
def keyOK (k : Bytes) : Bool := !k.isEmpty && k.all isTokenByte && canonLoop true k == k
def valueOK (v : Bytes) : Bool := v.all validValueByte && trimOWS v == v
def ValidKV (kv : KV) : Bool := keyOK kv.1 && valueOK kv.2

/-- A property of all bytes, checked on the 256 of them. -/
theorem forall_byte (P : UInt8 → Prop) (h : ∀ n, n < 256 → P (UInt8.ofNat n)) : ∀ c, P c := by
  intro c
  have := h c.toNat (UInt8.toNat_lt c)
  simpa using this

set_option maxRecDepth 8192 in
theorem isTokenByte_ne : ∀ c : UInt8, isTokenByte c = true →
    c ≠ 58 ∧ c ≠ 10 ∧ c ≠ 32 ∧ c ≠ 9 ∧ c ≠ 13 :=
  forall_byte _ (by decide)

set_option maxRecDepth 8192 in
theorem validValueByte_ne : ∀ c : UInt8, validValueByte c = true → c ≠ 10 ∧ c ≠ 13 :=
  forall_byte _ (by decide)

theorem trimOWS_cons_sp (v : Bytes) : trimOWS (32 :: v) = trimOWS v := by
  simp [trimOWS, List.dropWhile, isOWS]

theorem parseFieldLine_field (k v : Bytes) (h : ValidKV (k, v) = true) :
    parseFieldLine (k ++ colonSp ++ v) = .field k v := by
  simp only [ValidKV, keyOK, valueOK, Bool.and_eq_true, Bool.not_eq_true', beq_iff_eq] at h
  obtain ⟨⟨⟨h1, h2⟩, h3⟩, h4, h5⟩ := h
  have hk : ∀ c ∈ k, c ≠ 58 := fun c hc => (isTokenByte_ne c (List.all_eq_true.mp h2 c hc)).1
  have : k ++ colonSp ++ v = k ++ 58 :: (32 :: v) := by simp [colonSp]
  rw [this]
  unfold parseFieldLine
  rw [cut_append 58 k _ hk]
  have hv : (32 :: v).all validValueByte = true := by
    simp only [List.all_cons, h4, Bool.and_true]; decide
  simp only [h1, h2, hv, if_true, trimOWS_cons_sp, h3, h5]
  simp

/-- No byte of a valid field line is a line feed; its first byte is not white space. -/
theorem fieldLine_no_lf (k v : Bytes) (h : ValidKV (k, v) = true) : ∀ c ∈ k ++ colonSp ++ v, c ≠ 10 := by
  simp only [ValidKV, keyOK, valueOK, Bool.and_eq_true, Bool.not_eq_true', beq_iff_eq] at h
  obtain ⟨⟨⟨_, h2⟩, _⟩, h4, _⟩ := h
  intro c hc
  simp only [List.mem_append, colonSp] at hc
  rcases hc with (hc | hc) | hc
  · exact (isTokenByte_ne c (List.all_eq_true.mp h2 c hc)).2.1
  · simp at hc; rcases hc with rfl | rfl <;> decide
  · exact (validValueByte_ne c (List.all_eq_true.mp h4 c hc)).1

/-! ### the header section -/

theorem fields_cons (kv : KV) (l : List KV) : fields (kv :: l) = field kv ++ fields l := by
  simp [fields]

theorem fields_append (a b : List KV) : fields (a ++ b) = fields a ++ fields b := by
  simp [fields]

/-- The header section a sender writes — valid fields in any order, then the blank line — is read
back as exactly that list, in order, and nothing after the blank line is consumed. -/
theorem readHeaderLines_fields (hs : List KV) (hv : ∀ kv ∈ hs, ValidKV kv = true) (rest : Bytes)
    (fuel : Nat) (first : Bool) (hf : hs.length < fuel) :
    readHeaderLines fuel first (fields hs ++ crlf ++ rest) = .complete hs rest := by
  induction hs generalizing fuel first with
  | nil =>
    obtain ⟨f, rfl⟩ : ∃ f, fuel = f + 1 := ⟨fuel - 1, by simp at hf; omega⟩
    have := readLine_crlf [] rest (by simp)
    simp only [List.nil_append] at this
    simp [readHeaderLines, fields, this]
  | cons kv r ih =>
    obtain ⟨f, rfl⟩ : ∃ f, fuel = f + 1 := ⟨fuel - 1, by simp at hf; omega⟩
    obtain ⟨k, v⟩ := kv
    have hkv : ValidKV (k, v) = true := hv (k, v) (by simp)
    have hform : fields ((k, v) :: r) ++ crlf ++ rest
        = (k ++ colonSp ++ v) ++ crlf ++ (fields r ++ crlf ++ rest) := by
      simp [fields_cons, field]
    rw [hform]
    unfold readHeaderLines
    rw [readLine_crlf _ _ (fieldLine_no_lf k v hkv)]
    have hk1 : k ≠ [] := by
      simp only [ValidKV, keyOK, valueOK, Bool.and_eq_true, Bool.not_eq_true'] at hkv
      intro hk; simp [hk] at hkv
    obtain ⟨c, k', rfl⟩ := List.exists_cons_of_ne_nil hk1
    have hc : isOWS c = false := by
      simp only [ValidKV, keyOK, valueOK, Bool.and_eq_true, Bool.not_eq_true'] at hkv
      have := isTokenByte_ne c (List.all_eq_true.mp hkv.1.1.2 c (by simp))
      simp [isOWS, this.2.2.1, this.2.2.2.1]
    have hp := parseFieldLine_field (c :: k') v hkv
    simp only [List.cons_append] at hp ⊢
    simp only [hc, Bool.false_eq_true, if_false, hp]
    rw [ih (fun kv hkv => hv kv (by simp [hkv])) f false (by simp at hf; omega)]

theorem readHeader_fields (hs : List KV) (hv : ∀ kv ∈ hs, ValidKV kv = true) (rest : Bytes) :
    readHeader (fields hs ++ crlf ++ rest) = .complete hs rest := by
  unfold readHeader
  apply readHeaderLines_fields hs hv rest
  have : hs.length ≤ (fields hs).length := by
    induction hs with
    | nil => simp
    | cons kv r ih =>
      have := ih (fun kv h => hv kv (by simp [h]))
      simp [fields_cons, field, crlf] at this ⊢
      omega
  simp; omega

/-! ### decimal numbers (`strconv.Itoa` / `ParseUint`) -/

/-- The ASCII digit of `d < 10`. -/
def dg (d : Nat) : UInt8 := UInt8.ofNat (48 + d)

theorem digitChar_byte : ∀ d, d < 10 → UInt8.ofNat (Nat.digitChar d).toNat = dg d := by decide

theorem natDigits_eq (n : Nat) :
    natDigits n = if n < 10 then [dg n] else natDigits (n / 10) ++ [dg (n % 10)] := by
  unfold natDigits
  rw [Nat.toDigits_eq_if (by decide)]
  split
  · rename_i h; simp [digitChar_byte n h]
  · simp [digitChar_byte (n % 10) (Nat.mod_lt _ (by decide))]

theorem isDigit_dg : ∀ d, d < 10 → isDigit (dg d) = true ∧ (dg d).toNat - 48 = d := by
  decide

theorem digitsVal_append (a : Bytes) (c : UInt8) (acc : Nat) :
    digitsVal (a ++ [c]) acc = digitsVal a acc * 10 + (c.toNat - 48) := by
  induction a generalizing acc with
  | nil => simp [digitsVal]
  | cons x r ih => simp [digitsVal, ih]

theorem natDigits_spec (n : Nat) : (natDigits n).all isDigit = true ∧ digitsVal (natDigits n) 0 = n := by
  induction n using Nat.strongRecOn with
  | _ n ih =>
    rw [natDigits_eq]
    split
    · rename_i h
      have := isDigit_dg n h
      simp only [List.all_cons, List.all_nil, Bool.and_true, digitsVal, Nat.zero_mul, Nat.zero_add]
      exact this
    · rename_i h
      have h1 := ih (n / 10) (by omega)
      have h2 := isDigit_dg (n % 10) (Nat.mod_lt _ (by decide))
      refine ⟨by simp only [List.all_append, h1.1, List.all_cons, h2.1, List.all_nil, Bool.and_true], ?_⟩
      rw [digitsVal_append, h1.2, h2.2]; omega

theorem natDigits_ne_nil (n : Nat) : natDigits n ≠ [] := by
  rw [natDigits_eq]; split <;> simp

theorem atoiUnsigned_natDigits (n : Nat) : atoiUnsigned (natDigits n) = some n := by
  have := natDigits_spec n
  have hne := natDigits_ne_nil n
  unfold atoiUnsigned
  cases h : natDigits n with
  | nil => exact absurd h hne
  | cons c r => rw [← h]; simp [this.1, this.2, hne]

set_option maxRecDepth 8192 in
theorem isDigit_props : ∀ c : UInt8, isDigit c = true →
    isLineWs c = false ∧ isOWS c = false ∧ validValueByte c = true ∧ isTokenByte c = true :=
  forall_byte _ (by decide)

theorem dropWhile_eq_self {α} (p : α → Bool) (l : List α) (h : ∀ c, l.head? = some c → p c = false) :
    l.dropWhile p = l := by
  cases l with
  | nil => rfl
  | cons c r => simp [List.dropWhile, h c (by simp)]

/-- Trimming does nothing to a string whose first and last bytes are not in the trimmed class. -/
theorem trim_eq_self (p : UInt8 → Bool) (l : Bytes) (h : ∀ c ∈ l, p c = false) :
    ((l.dropWhile p).reverse.dropWhile p).reverse = l := by
  rw [dropWhile_eq_self p l (fun c hc => h c (List.mem_of_mem_head? hc))]
  rw [dropWhile_eq_self p l.reverse (fun c hc => h c (by
    have := List.mem_of_mem_head? hc; simpa using this))]
  simp

theorem trimLWS_digits (l : Bytes) (h : l.all isDigit = true) : trimLWS l = l :=
  trim_eq_self _ l fun c hc => (isDigit_props c (List.all_eq_true.mp h c hc)).1

theorem trimOWS_digits (l : Bytes) (h : l.all isDigit = true) : trimOWS l = l :=
  trim_eq_self _ l fun c hc => (isDigit_props c (List.all_eq_true.mp h c hc)).2.1

theorem parseCL_natDigits (n : Nat) (h : n < 2 ^ 63) : parseCL (natDigits n) = some n := by
  unfold parseCL
  rw [trimLWS_digits _ (natDigits_spec n).1, atoiUnsigned_natDigits]
  simp [h]

theorem itoa_ofNat (n : Nat) : itoa (n : Int) = natDigits n := by
  simp [itoa]

/-! ### header lists -/

@[simp] theorem vals_nil (k : Bytes) : vals [] k = [] := rfl
@[simp] theorem has_nil (k : Bytes) : has [] k = false := rfl
@[simp] theorem del_nil (k : Bytes) : del [] k = [] := rfl

theorem vals_append (a b : List KV) (k : Bytes) : vals (a ++ b) k = vals a k ++ vals b k := by
  simp [vals]

theorem has_append (a b : List KV) (k : Bytes) : has (a ++ b) k = (has a k || has b k) := by
  simp [has]

theorem del_append (a b : List KV) (k : Bytes) : del (a ++ b) k = del a k ++ del b k := by
  simp [del]

theorem vals_cons (kv : KV) (l : List KV) (k : Bytes) :
    vals (kv :: l) k = if kv.1 == k then kv.2 :: vals l k else vals l k := by
  simp only [vals, List.filter_cons]; split <;> simp

theorem del_cons (kv : KV) (l : List KV) (k : Bytes) :
    del (kv :: l) k = if kv.1 == k then del l k else kv :: del l k := by
  simp only [del, List.filter_cons]; split <;> simp_all

theorem has_cons (kv : KV) (l : List KV) (k : Bytes) : has (kv :: l) k = (kv.1 == k || has l k) := by
  simp [has]

theorem has_eq_false_iff (l : List KV) (k : Bytes) : has l k = false ↔ ∀ kv ∈ l, (kv.1 == k) = false := by
  simp [has]

theorem vals_eq_nil_of_has (l : List KV) (k : Bytes) (h : has l k = false) : vals l k = [] := by
  rw [has_eq_false_iff] at h
  simp only [vals, List.map_eq_nil_iff, List.filter_eq_nil_iff]
  intro kv hkv; simp [h kv hkv]

theorem del_eq_self_of_has (l : List KV) (k : Bytes) (h : has l k = false) : del l k = l := by
  rw [has_eq_false_iff] at h
  simp only [del, List.filter_eq_self]
  intro kv hkv; simp [h kv hkv]

theorem has_of_vals_nil (l : List KV) (k : Bytes) (h : vals l k = []) : has l k = false := by
  rw [has_eq_false_iff]
  simp only [vals, List.map_eq_nil_iff, List.filter_eq_nil_iff] at h
  intro kv hkv; simpa using h kv hkv

theorem has_del_self (l : List KV) (k : Bytes) : has (del l k) k = false := by
  rw [has_eq_false_iff]; intro kv hkv; simp [del] at hkv; simp [hkv.2]

theorem has_del_of_has (l : List KV) (k k' : Bytes) (h : has l k = false) : has (del l k') k = false := by
  rw [has_eq_false_iff] at h ⊢
  intro kv hkv; simp only [del, List.mem_filter] at hkv; exact h kv hkv.1

theorem vals_del_ne (l : List KV) (k k' : Bytes) (h : (k' == k) = false) : vals (del l k') k = vals l k := by
  induction l with
  | nil => rfl
  | cons kv r ih =>
    rw [del_cons]
    by_cases h1 : kv.1 == k'
    · have : (kv.1 == k) = false := by
        have e : kv.1 = k' := by simpa using h1
        rw [e]; exact h
      simp [h1, ih, vals_cons, this]
    · simp [h1, vals_cons, ih]

theorem del_comm (l : List KV) (k k' : Bytes) : del (del l k) k' = del (del l k') k := by
  simp only [del, List.filter_filter]; congr 1; funext kv; exact Bool.and_comm _ _

/-! ### `bytesLt`, `sortKV`: a stable sort by key -/

theorem bytesLt_irrefl (a : Bytes) : bytesLt a a = false := by
  induction a with
  | nil => rfl
  | cons c r ih => simp [bytesLt, ih]

theorem filter_insertKV_self (x : KV) (l : List KV) :
    (insertKV x l).filter (fun kv => kv.1 == x.1) = x :: l.filter (fun kv => kv.1 == x.1) := by
  induction l with
  | nil => simp [insertKV]
  | cons y ys ih =>
    unfold insertKV
    split
    · rename_i hlt
      have hne : (y.1 == x.1) = false := by
        cases hq : y.1 == x.1 with
        | false => rfl
        | true =>
          have : y.1 = x.1 := by simpa using hq
          rw [this, bytesLt_irrefl] at hlt; simp at hlt
      simp [List.filter_cons, hne, ih]
    · simp [List.filter_cons]

theorem filter_insertKV_ne (x : KV) (l : List KV) (k : Bytes) (h : (x.1 == k) = false) :
    (insertKV x l).filter (fun kv => kv.1 == k) = l.filter (fun kv => kv.1 == k) := by
  induction l with
  | nil => simp [insertKV, h]
  | cons y ys ih =>
    unfold insertKV
    split
    · simp [List.filter_cons, ih]
    · simp [List.filter_cons, h]

/-- Sorting by key keeps, for every key, its values in their original order. -/
theorem vals_sortKV (l : List KV) (k : Bytes) : vals (sortKV l) k = vals l k := by
  induction l with
  | nil => rfl
  | cons x r ih =>
    have hs : sortKV (x :: r) = insertKV x (sortKV r) := rfl
    rw [hs]
    simp only [vals] at ih ⊢
    by_cases h : x.1 == k
    · have e : x.1 = k := by simpa using h
      subst e
      rw [filter_insertKV_self]
      simp [List.filter_cons, ih]
    · have h' : (x.1 == k) = false := by simpa using h
      rw [filter_insertKV_ne x _ k h']
      simp [List.filter_cons, h', ih]

theorem has_sortKV (l : List KV) (k : Bytes) : has (sortKV l) k = has l k := by
  cases h : has l k with
  | false =>
    rw [has_eq_false_iff] at h ⊢
    intro kv hkv; exact h kv ((mem_sortKV kv l).mp hkv)
  | true =>
    simp only [has, List.any_eq_true] at h ⊢
    obtain ⟨kv, hkv, hk⟩ := h
    exact ⟨kv, (mem_sortKV kv l).mpr hkv, hk⟩

/-! ### `readTransfer` on the framings in scope -/

/-- Request with a `Content-Length` field and no `Transfer-Encoding`. -/
theorem readTransfer_req_cl (meth : Bytes) (maj min : Nat) (c0 : Bool) (hs : List KV) (v : Bytes) (n : Nat)
    (hte : has hs teKey = false) (hcl : vals hs clKey = [v])
    (hv : (trimLWS v).isEmpty = false) (hp : parseCL v = some n) :
    readTransfer false meth 200 maj min c0 hs =
      .ok { hdr := hs, chunked := false, cl := n, close := c0, decl := none,
            body := if n = 0 then .none else .len n } := by
  unfold readTransfer
  simp only [vals_eq_nil_of_has hs teKey hte, del_eq_self_of_has hs teKey hte, hcl, hv, hp]
  by_cases h0 : n = 0
  · subst h0; simp
  · have : ¬ ((n : Int) = 0) := by omega
    have h2 : (n : Int) > 0 := by omega
    simp [h0, this, h2]

/-- Request with neither: no body. -/
theorem readTransfer_req_none (meth : Bytes) (maj min : Nat) (c0 : Bool) (hs : List KV)
    (hte : has hs teKey = false) (hcl : has hs clKey = false) :
    readTransfer false meth 200 maj min c0 hs =
      .ok { hdr := hs, chunked := false, cl := 0, close := c0, decl := none, body := .none } := by
  unfold readTransfer
  simp [vals_eq_nil_of_has hs teKey hte, del_eq_self_of_has hs teKey hte, vals_eq_nil_of_has hs clKey hcl]

/-- A message with `Transfer-Encoding: chunked` (HTTP/1.1 and up), no `Content-Length`, no `Trailer`
announcement, whose body is not suppressed by the method or the status. -/
theorem readTransfer_chunked (isResp : Bool) (meth : Bytes) (code maj min : Nat) (c0 : Bool) (hs : List KV)
    (v : Bytes) (hte : vals hs teKey = [v]) (hv : toLower v = chunkedTok)
    (h11 : ((maj == 0 && min == 0) || decide (maj > 1) || (maj == 1 && decide (min ≥ 1))) = true)
    (hcl : has (del hs teKey) clKey = false) (htr : has (del hs teKey) trailerKey = false)
    (hhead : (isResp && meth == headTok) = false)
    (hst : (code / 100 == 1 || code == 204 || code == 304) = false) :
    readTransfer isResp meth code maj min c0 hs =
      .ok { hdr := del hs teKey, chunked := true, cl := -1, close := c0, decl := none, body := .chunked } := by
  have hba : bodyAllowedForStatus code = true := by
    simp only [Bool.or_eq_false_iff, beq_eq_false_iff_ne] at hst
    simp only [bodyAllowedForStatus, Bool.not_eq_true', Bool.or_eq_false_iff, Bool.and_eq_false_iff,
      decide_eq_false_iff_not, beq_eq_false_iff_ne]
    omega
  unfold readTransfer
  simp only [hte, hv, h11, vals_eq_nil_of_has _ clKey hcl,
    del_eq_self_of_has _ clKey hcl, hhead, hst, hba]
  simp [htr]

/-- Response with a `Content-Length` field, a body allowed by method and status. -/
theorem readTransfer_res_cl (meth : Bytes) (code maj min : Nat) (c0 : Bool) (hs : List KV) (v : Bytes) (n : Nat)
    (hte : has hs teKey = false) (hcl : vals hs clKey = [v])
    (hv : (trimLWS v).isEmpty = false) (hp : parseCL v = some n)
    (hhead : (meth == headTok) = false)
    (hst : (code / 100 == 1 || code == 204 || code == 304) = false) :
    readTransfer true meth code maj min c0 hs =
      .ok { hdr := hs, chunked := false, cl := n, close := c0, decl := none,
            body := if n = 0 then .none else .len n } := by
  unfold readTransfer
  simp only [vals_eq_nil_of_has hs teKey hte, del_eq_self_of_has hs teKey hte, hcl, hv, hp, hhead, hst]
  by_cases h0 : n = 0
  · subst h0; simp
  · have h2 : ¬ ((n : Int) = -1) := by omega
    simp [h0, h2]

/-- Response with neither framing field, a body allowed by method and status: close-delimited. -/
theorem readTransfer_res_eof (meth : Bytes) (code maj min : Nat) (c0 : Bool) (hs : List KV)
    (hte : has hs teKey = false) (hcl : has hs clKey = false)
    (hhead : (meth == headTok) = false)
    (hst : (code / 100 == 1 || code == 204 || code == 304) = false) :
    readTransfer true meth code maj min c0 hs =
      .ok { hdr := hs, chunked := false, cl := -1, close := true, decl := none, body := .eof } := by
  have hba : bodyAllowedForStatus code = true := by
    simp only [Bool.or_eq_false_iff, beq_eq_false_iff_ne] at hst
    simp only [bodyAllowedForStatus, Bool.not_eq_true', Bool.or_eq_false_iff, Bool.and_eq_false_iff,
      decide_eq_false_iff_not, beq_eq_false_iff_ne]
    omega
  unfold readTransfer
  simp [vals_eq_nil_of_has hs teKey hte, del_eq_self_of_has hs teKey hte, vals_eq_nil_of_has hs clKey hcl,
    hhead, hst, hba]

/-- Answer to HEAD without `Transfer-Encoding`: no body whatever the length field says; the
`ContentLength` field reports the announced length, `-1` when there is none. -/
theorem readTransfer_res_head_cl (code maj min : Nat) (c0 : Bool) (hs : List KV) (v : Bytes) (n : Nat)
    (hte : has hs teKey = false) (hcl : vals hs clKey = [v])
    (hv : (trimLWS v).isEmpty = false) (hp : parseCL v = some n) :
    readTransfer true headTok code maj min c0 hs =
      .ok { hdr := hs, chunked := false, cl := n, close := c0, decl := none, body := .none } := by
  unfold readTransfer
  simp [vals_eq_nil_of_has hs teKey hte, del_eq_self_of_has hs teKey hte, hcl, hv, hp]

theorem readTransfer_res_head_none (code maj min : Nat) (c0 : Bool) (hs : List KV)
    (hte : has hs teKey = false) (hcl : has hs clKey = false) :
    readTransfer true headTok code maj min c0 hs =
      .ok { hdr := hs, chunked := false, cl := -1, close := c0, decl := none, body := .none } := by
  unfold readTransfer
  simp [vals_eq_nil_of_has hs teKey hte, del_eq_self_of_has hs teKey hte, vals_eq_nil_of_has hs clKey hcl]

/-! ### hexadecimal chunk sizes -/

theorem hexDigits_length_le (n : Nat) : ∀ k, n < 16 ^ (k + 1) → (hexDigits n).length ≤ k + 1 := by
  fun_induction hexDigits n with
  | case1 n h => intro k _; simp
  | case2 n h ih =>
    intro k hk
    cases k with
    | zero => simp at hk; omega
    | succ k =>
      have hk' : n / 16 < 16 ^ (k + 1) := by
        rw [Nat.pow_succ] at hk
        exact Nat.div_lt_of_lt_mul (by rw [Nat.mul_comm]; exact hk)
      have := ih k hk'
      simp; omega

theorem hexDigits_length_16 (n : Nat) (h : n < 2 ^ 62) : (hexDigits n).length ≤ 16 :=
  hexDigits_length_le n 15 (by
    have : (2:Nat) ^ 62 < 16 ^ 16 := by decide
    omega)

theorem chunkSize_hexDigits (n : Nat) (h : n < 2 ^ 62) : chunkSize (hexDigits n) = some n := by
  have := hexDigits_length_16 n h
  unfold chunkSize
  simp [parseHexUint_hexDigits, show ¬ (hexDigits n).length > 16 by omega]

theorem isHex_ne_lf (c : UInt8) (h : IsHex c) : c ≠ 10 := by
  obtain ⟨d, hd, rfl⟩ := h
  have := hexDigitB_ne_lf d hd
  simpa using this

/-- A canonical chunk-size line is read as such. -/
theorem chunkLine_hex (n : Nat) (h : n < 2 ^ 62) (X : Bytes) :
    chunkLine (hexDigits n ++ 13 :: 10 :: X) = .complete (hexDigits n ++ [13]) X := by
  have hlen := hexDigits_length_16 n h
  have hall := hexDigits_all_hex n
  have hnolf : ∀ c ∈ hexDigits n ++ [13], c ≠ 10 := by
    intro c hc
    rcases List.mem_append.mp hc with hc | hc
    · exact isHex_ne_lf c (hall c hc)
    · simp at hc; simp [hc]
  have hform : hexDigits n ++ 13 :: 10 :: X = (hexDigits n ++ [13]) ++ 10 :: X := by simp
  have htake : (hexDigits n ++ 13 :: 10 :: X).take bufSize
      = (hexDigits n ++ [13]) ++ 10 :: X.take (bufSize - (hexDigits n).length - 2) := by
    rw [hform, List.take_append]
    have h1 : (hexDigits n ++ [13]).take bufSize = hexDigits n ++ [13] :=
      List.take_of_length_le (by simp [bufSize]; omega)
    rw [h1]
    have h2 : bufSize - (hexDigits n ++ [13]).length = (bufSize - (hexDigits n).length - 2) + 1 := by
      simp [bufSize]; omega
    rw [h2, List.take_succ_cons]
  unfold chunkLine
  rw [htake, cut_append 10 _ _ hnolf]
  have h3 : (hexDigits n ++ [13]).length + 2 ≤ bufSize := by simp [bufSize]; omega
  simp only [h3, if_true]
  congr 1
  rw [hform, List.drop_append]
  simp

/-! ### the chunked body -/

/-- The overhead budget never moves off zero on canonical size lines. -/
theorem excess_zero (n : Nat) (h : n < 2 ^ 62) (hn : 0 < n) :
    (0 : Int) + ((hexDigits n ++ [13]).length + 1) + 2 - (16 + 2 * (n : Int)) ≤ 0 := by
  have hlen := hexDigits_length_16 n h
  by_cases h1 : n = 1
  · subst h1
    have : hexDigits 1 = [49] := by rw [hexDigits]; simp [hexDigitB]
    rw [this]; simp
  · simp; omega

/-- Every chunking of a body (non-empty chunks below 2^62 bytes) is read back as the body, and
nothing after the last-chunk line is consumed. -/
theorem readChunks_stream (cs : List Bytes) (hne : ∀ c ∈ cs, c ≠ [] ∧ c.length < 2 ^ 62) (rest : Bytes)
    (fuel : Nat) (hf : cs.length < fuel) :
    readChunks fuel (chunkStream cs ++ rest) 0 = .complete cs.flatten rest := by
  induction cs generalizing fuel with
  | nil =>
    obtain ⟨f, rfl⟩ : ∃ f, fuel = f + 1 := ⟨fuel - 1, by simp at hf; omega⟩
    have hl := chunkLine_hex 0 (by decide) rest
    have h0 : hexDigits 0 = [48] := by rw [hexDigits]; simp [hexDigitB]
    rw [h0] at hl
    have hcs : chunkSize (removeChunkExt (trimRightWs [48, 13])) = some 0 := by decide
    simp only [chunkStream, List.cons_append, List.nil_append] at hl ⊢
    unfold readChunks
    simp only [hl, hcs]
    simp
  | cons d r ih =>
    obtain ⟨f, rfl⟩ : ∃ f, fuel = f + 1 := ⟨fuel - 1, by simp at hf; omega⟩
    have ⟨hd, hdl⟩ := hne d (by simp)
    have hall := hexDigits_all_hex d.length
    have hpos : 0 < d.length := List.length_pos_iff.mpr hd
    have hform : chunkStream (d :: r) ++ rest =
        hexDigits d.length ++ 13 :: 10 :: (d ++ 13 :: 10 :: (chunkStream r ++ rest)) := by
      simp [chunkStream]
    rw [hform]
    unfold readChunks
    rw [chunkLine_hex d.length hdl]
    simp only [trimRightWs_hex _ hall, removeChunkExt_hex _ hall, chunkSize_hexDigits _ hdl]
    have hex := excess_zero d.length hdl hpos
    have hn62 : ¬ d.length ≥ 2 ^ 62 := by omega
    have hn0 : (d.length == 0) = false := by simp; omega
    have h1 : ¬ (d ++ 13 :: 10 :: (chunkStream r ++ rest)).length < d.length := by simp
    have h2 : (d ++ 13 :: 10 :: (chunkStream r ++ rest)).drop d.length = 13 :: 10 :: (chunkStream r ++ rest) := by
      simp
    have h3 : (d ++ 13 :: 10 :: (chunkStream r ++ rest)).take d.length = d := by simp
    simp only [hn62, if_false, hn0, Bool.false_eq_true]
    have hex2 : nextExcess 0 (hexDigits d.length ++ [13]).length d.length = 0 := by
      unfold nextExcess
      simp only
      split
      · rfl
      · omega
    rw [hex2]
    simp only [h1, if_false, h2, h3]
    have h4 : ¬ ((13 : UInt8) :: 10 :: (chunkStream r ++ rest)).length < 2 := by simp
    have h5 : (((13 : UInt8) :: 10 :: (chunkStream r ++ rest)).take 2 != crlf) = false := by simp [crlf]
    have h6 : ((13 : UInt8) :: 10 :: (chunkStream r ++ rest)).drop 2 = chunkStream r ++ rest := by simp
    simp only [h4, if_false, h5, Bool.false_eq_true, h6]
    rw [ih (fun c hc => hne c (by simp [hc])) f (by simp at hf; omega)]
    simp

/-! ### the trailer -/

theorem readTrailer_none (decl : Option (List Bytes)) (rest : Bytes) :
    readTrailer decl (crlf ++ rest) = .complete (decl.map fun _ => []) rest := by
  simp [readTrailer, crlf]

theorem hasDoubleCRLF_append (A B : Bytes) : hasDoubleCRLF (A ++ 13 :: 10 :: 13 :: 10 :: B) = true := by
  induction A with
  | nil => simp [hasDoubleCRLF]
  | cons c r ih =>
    simp only [List.cons_append]
    unfold hasDoubleCRLF
    split
    · rfl
    · rename_i heq; simp only [List.cons.injEq] at heq; rw [← heq.2]; exact ih
    · rename_i heq; simp at heq

theorem fields_ends_crlf (t : List KV) (h : t ≠ []) : ∃ A, fields t = A ++ crlf := by
  induction t with
  | nil => exact absurd rfl h
  | cons kv r ih =>
    by_cases hr : r = []
    · subst hr; exact ⟨kv.1 ++ colonSp ++ kv.2, by simp [fields, field]⟩
    · obtain ⟨A, hA⟩ := ih hr
      exact ⟨field kv ++ A, by rw [fields_cons, hA]; simp⟩

theorem fields_head_token (t : List KV) (h : t ≠ []) (hv : ∀ kv ∈ t, ValidKV kv = true) :
    ∃ c r, fields t = c :: r ∧ isTokenByte c = true := by
  obtain ⟨kv, r, rfl⟩ := List.exists_cons_of_ne_nil h
  have hkv := hv kv (by simp)
  simp only [ValidKV, keyOK, valueOK, Bool.and_eq_true, Bool.not_eq_true'] at hkv
  have hk1 : kv.1 ≠ [] := by intro hk; simp [hk] at hkv
  obtain ⟨c, k', hk⟩ := List.exists_cons_of_ne_nil hk1
  refine ⟨c, k' ++ colonSp ++ kv.2 ++ crlf ++ fields r, by simp [fields_cons, field, hk], ?_⟩
  exact List.all_eq_true.mp hkv.1.1.2 c (by simp [hk])

/-- A non-empty trailer section of valid fields that fits the buffer window is read back (sorted by
key, as the `Trailer` map is flattened), and nothing after its blank line is consumed. -/
theorem readTrailer_fields (decl : Option (List Bytes)) (t : List KV) (ht : t ≠ [])
    (hv : ∀ kv ∈ t, ValidKV kv = true) (hlen : (fields t).length + 2 ≤ bufSize) (rest : Bytes) :
    readTrailer decl (fields t ++ crlf ++ rest) = .complete (some (sortKV t)) rest := by
  obtain ⟨c, r, hcr, hc⟩ := fields_head_token t ht hv
  obtain ⟨A, hA⟩ := fields_ends_crlf t ht
  have hc13 : c ≠ 13 := (isTokenByte_ne c hc).2.2.2.2
  have h1 : ((fields t ++ crlf ++ rest).take 2 == crlf) = false := by
    rw [hcr]; simp [crlf]
    intro h; exact absurd h hc13
  have h2 : ¬ (fields t ++ crlf ++ rest).length < 2 := by simp [crlf]; omega
  have h3 : hasDoubleCRLF ((fields t ++ crlf ++ rest).take bufSize) = true := by
    have : (fields t ++ crlf ++ rest).take bufSize
        = A ++ 13 :: 10 :: 13 :: 10 :: rest.take (bufSize - (fields t).length - 2) := by
      rw [List.append_assoc, List.take_append, List.take_of_length_le (by omega)]
      rw [List.take_append]
      have : crlf.length = 2 := rfl
      rw [List.take_of_length_le (by omega)]
      rw [hA]; simp [crlf]
    rw [this]; exact hasDoubleCRLF_append _ _
  unfold readTrailer
  simp only [h1, Bool.false_eq_true, if_false, h2, h3, Bool.not_true, readHeader_fields t hv rest]

/-! ### `io.ReadAll(Body)` -/

theorem readBody_len (b rest : Bytes) :
    readBody (.len b.length) none (b ++ rest) = .complete (b, none) rest := by
  simp [readBody]

theorem readBody_none (decl : Option (List Bytes)) (rest : Bytes) :
    readBody .none decl rest = .complete ([], decl.map fun _ => []) rest := rfl

theorem readBody_eof (b : Bytes) : readBody .eof none b = .complete (b, none) [] := rfl

/-- Chunked body in any chunking, then either no trailer or a valid trailer section. -/
theorem readBody_chunked (cs : List Bytes) (hne : ∀ c ∈ cs, c ≠ [] ∧ c.length < 2 ^ 62)
    (tr : Bytes) (trv : Option (List KV)) (rest : Bytes)
    (htr : readTrailer none (tr ++ rest) = .complete trv rest) :
    readBody .chunked none (chunkStream cs ++ tr ++ rest) = .complete (cs.flatten, trv) rest := by
  unfold readBody
  have := readChunks_stream cs hne (tr ++ rest) ((chunkStream cs ++ tr ++ rest).length + 1) (by
    have := chunkStream_length_ge cs
    simp; omega)
  simp only [List.append_assoc] at this ⊢
  rw [this]
  simp only [htr]

end Martian.Http1
