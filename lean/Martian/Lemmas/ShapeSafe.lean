import Martian.Lemmas.ShapeInter
/-! C18: no round of any interleaved history ends in a Go panic (core Lean only). -/
namespace Martian.Shape
open Martian Martian.Go

/-! ### The association list -/

theorem mapGet_mapSet {β : Type} (k k' : Nat) (v : β) : ∀ m : List (Nat × β),
    mapGet k (mapSet k' v m) = if k = k' then some v else mapGet k m
  | [] => by simp [mapSet, mapGet]
  | (k2, v2) :: rest => by
    unfold mapSet
    by_cases h1 : k' = k2
    · subst h1
      simp only [if_true, mapGet]
      by_cases h2 : k = k' <;> simp [h2]
    · simp only [h1, if_false]
      by_cases h3 : k' < k2
      · simp only [h3, if_true, mapGet]
      · simp only [h3, if_false, mapGet, mapGet_mapSet k k' v rest]
        by_cases h4 : k = k2
        · subst h4
          have : ¬ k = k' := fun h => h1 h.symm
          simp [this]
        · simp [h4]

/-! ### Rounds keep the offsets of the actions -/

def bytesOf (acts : List Action) : List Int := acts.map Action.byte

theorem set_dec_bytes (l : List Action) (i : Nat) (a : Action) (h : l[i]? = some a) :
    bytesOf (l.set i a.dec) = bytesOf l := by
  unfold bytesOf
  apply List.ext_getElem?
  intro n
  simp only [List.getElem?_map, List.getElem?_set]
  by_cases hn : i = n
  · subst hn
    have hlt : i < l.length := by
      rcases Nat.lt_or_ge i l.length with h' | h'
      · exact h'
      · rw [List.getElem?_eq_none h'] at h; cases h
    have h' := h
    rw [List.getElem?_eq_getElem hlt] at h'
    cases h'
    simp [hlt, dec_byte]
  · simp [hn]

theorem stepLoop_bytes (valid : Bool) (cap : Nat) (s : Loop) (b : Bytes) :
    bytesOf (stepLoop valid cap s b).loop.acts = bytesOf s.acts := by
  unfold stepLoop
  simp only
  split
  · rfl
  · split
    · rfl
    · split
      · split
        · rfl
        · split
          · rfl
          · rename_i a hget
            split
            · split
              · exact set_dec_bytes _ _ _ hget
              · exact set_dec_bytes _ _ _ hget
              · exact set_dec_bytes _ _ _ hget
            · rfl
      · rfl

theorem sorted_of_bytes {a b : List Action} (h : bytesOf a = bytesOf b) (hs : SortedBy Action.byte b) :
    SortedBy Action.byte a := by
  unfold SortedBy at hs ⊢
  have hb : (bytesOf b).Pairwise (· ≤ ·) := by unfold bytesOf; exact List.pairwise_map.2 hs
  rw [← h] at hb
  unfold bytesOf at hb
  exact List.pairwise_map.1 hb

theorem bytes_getElem {a b : List Action} (h : bytesOf a = bytesOf b) (i : Nat) (nb : Int)
    (hb : ∃ hi : i < b.length, b[i].byte = nb) : ∃ hi : i < a.length, a[i].byte = nb := by
  obtain ⟨hi, hbb⟩ := hb
  have hl : a.length = b.length := by
    have := congrArg List.length h
    simpa [bytesOf] using this
  refine ⟨by omega, ?_⟩
  have h1 : (bytesOf a)[i]? = (bytesOf b)[i]? := by rw [h]
  simp only [bytesOf, List.getElem?_map] at h1
  rw [List.getElem?_eq_getElem (by omega), List.getElem?_eq_getElem hi] at h1
  simp only [Option.map_some, Option.some.injEq] at h1
  rw [h1]; exact hbb

/-- A round of a connection the shapes do not apply to never panics if the pending action is not
behind the write position, and keeps that. -/
def AheadOK (off : Int) (next : Option (Nat × Int)) : Prop := ∀ i nb, next = some (i, nb) → off ≤ nb

def InvalidOK (s : Loop) : StepRes → Prop
  | .cont s' _ => AheadOK s'.off s'.next ∧ s'.shaping = s.shaping
  | .done s' st => st = .ok ∧ AheadOK s'.off s'.next

theorem stepLoop_invalid_ok (cap : Nat) (s : Loop) (b : Bytes) (h : AheadOK s.off s.next) :
    InvalidOK s (stepLoop false cap s b) := by
  have hab := amount_bounds (len := b.length) (off := s.off) (next := s.next) h
  obtain ⟨ha0, ha1, ha2, _⟩ := hab
  unfold stepLoop
  simp only [show ¬ amount b.length s.off s.next < 0 by omega, if_false, Bool.not_false, if_true]
  generalize hm : min (cap + 1) (amount b.length s.off s.next).toNat = m
  have hm_amt : (m : Int) ≤ amount b.length s.off s.next := by omega
  split
  · rename_i hn
    refine ⟨?_, rfl⟩
    intro i nb hh; simp only [hn] at hh; cases hh
  · rename_i ind nb hn
    have := ha2 ind nb hn
    split
    · refine ⟨rfl, ?_⟩
      intro i nb' hh
      simp only [hn] at hh; cases hh
      simp only; omega
    · rename_i hnot
      refine ⟨?_, rfl⟩
      intro i nb' hh
      simp only [hn] at hh; cases hh
      simp only; omega

/-! ### The invariant -/

/-- Every shape of the listener has its actions sorted by offset. -/
def ShapesSorted (l : Listener) : Prop := ∀ r sh, mapGet r l.shapes = some sh → SortedBy Action.byte sh.actions

/-- The context of a connection fits the listener: the pending action is not behind the write
position, and if a shape is valid for the connection the pending index exists in its action list
and carries the recorded offset. -/
def CtxGood (l : Listener) (c : Conn) : Prop :=
  AheadOK c.ctx.off c.ctx.next ∧
  ∀ r sh, c.ctx.regex = some r → validShape l c r = some sh →
    ∀ i nb, c.ctx.next = some (i, nb) → ∃ hi : i < sh.actions.length, sh.actions[i].byte = nb

/-- `l'` has the same time stamp and the same shapes as `l` up to the counts of the actions. -/
def SameShapes (l l' : Listener) : Prop :=
  l'.lastMod = l.lastMod ∧ ∀ r,
    match mapGet r l.shapes, mapGet r l'.shapes with
    | some a, some b => bytesOf b.actions = bytesOf a.actions
    | none, none => True
    | _, _ => False

theorem sameShapes_refl (l : Listener) : SameShapes l l := by
  refine ⟨rfl, ?_⟩
  intro r
  cases mapGet r l.shapes <;> simp

theorem sameShapes_sorted {l l' : Listener} (h : SameShapes l l') (hs : ShapesSorted l) : ShapesSorted l' := by
  intro r sh hget
  have := h.2 r
  rw [hget] at this
  cases hl : mapGet r l.shapes with
  | none => rw [hl] at this; exact this.elim
  | some a => rw [hl] at this; exact sorted_of_bytes this (hs r a hl)

theorem sameShapes_ctx {l l' : Listener} (h : SameShapes l l') (c : Conn) (hc : CtxGood l c) : CtxGood l' c := by
  refine ⟨hc.1, ?_⟩
  intro r sh hr hv i nb hn
  unfold validShape at hv
  rw [h.1] at hv
  split at hv
  · rename_i hlt
    have hrel := h.2 r
    rw [hv] at hrel
    cases hl : mapGet r l.shapes with
    | none => rw [hl] at hrel; exact hrel.elim
    | some a =>
      rw [hl] at hrel
      have := hc.2 r a hr (by unfold validShape; simp [hlt, hl]) i nb hn
      exact bytes_getElem hrel i nb this
  · cases hv

theorem setShapeActions_same (l : Listener) (r : Nat) (sh : Shape) (acts : List Action)
    (hg : mapGet r l.shapes = some sh) (hb : bytesOf acts = bytesOf sh.actions) :
    SameShapes l (setShapeActions l r acts) ∧
    mapGet r (setShapeActions l r acts).shapes = some { sh with actions := acts } := by
  unfold setShapeActions
  simp only [hg]
  refine ⟨⟨rfl, ?_⟩, by simp [mapGet_mapSet]⟩
  intro r'
  simp only [mapGet_mapSet]
  by_cases hr : r' = r
  · subst hr; simp [hg, hb]
  · simp only [hr, if_false]
    cases mapGet r' l.shapes <;> simp

/-- What a round guarantees under the invariant. -/
structure RoundSafe (l : Listener) (c : Conn) (r : Listener × Conn × Pending × Option Status) : Prop where
  same : SameShapes l r.1
  good : r.2.2.2 ≠ some .closed → CtxGood r.1 r.2.1
  nopanic : r.2.2.2 ≠ some .panic

theorem applyCap_ctx (c : Conn) (r : Nat) (x : Option Int) :
    (applyCap c r x).ctx.off = c.ctx.off ∧ (applyCap c r x).ctx.next = c.ctx.next ∧
    (applyCap c r x).ctx.regex = c.ctx.regex ∧ (applyCap c r x).established = c.established := by
  unfold applyCap
  split <;> exact ⟨rfl, rfl, rfl, rfl⟩

theorem validShape_congr (l : Listener) (c c' : Conn) (h : c'.established = c.established) (r : Nat) :
    validShape l c' r = validShape l c r := by
  unfold validShape; rw [h]

theorem roundStep_safe (cap : Nat) (l : Listener) (c : Conn) (pd : Pending)
    (hL : ShapesSorted l) (hC : CtxGood l c) : RoundSafe l c (roundStep cap l c pd) := by
  unfold roundStep
  by_cases he : pd.rest.isEmpty = true
  · simp only [he, if_true]
    exact ⟨sameShapes_refl l, fun _ => hC, by simp⟩
  · simp only [he, Bool.false_eq_true, if_false]
    have hne : pd.rest ≠ [] := by intro h; apply he; simp [h]
    have flushOK : RoundSafe l c
        (l, c, { pd with rest := [], delivered := pd.delivered ++ pd.rest, round := pd.round + 1 }, some .ok) :=
      ⟨sameShapes_refl l, fun _ => hC, by simp⟩
    split
    · exact flushOK
    · split
      · exact flushOK
      · rename_i r hreg
        cases hv : validShape l c r with
        | none =>
          simp only [Option.isSome_none, Bool.false_eq_true, if_false]
          have io := stepLoop_invalid_ok cap
            { off := c.ctx.off, next := c.ctx.next, acts := [], delivered := pd.delivered, evs := pd.evs } pd.rest hC.1
          cases hst : stepLoop false cap
              { off := c.ctx.off, next := c.ctx.next, acts := [], delivered := pd.delivered, evs := pd.evs } pd.rest with
          | cont s' b' =>
            rw [hst] at io
            refine ⟨sameShapes_refl l, fun _ => ⟨?_, ?_⟩, by simp⟩
            · have := applyCap_ctx { c with ctx := { c.ctx with off := s'.off, next := s'.next, shaping := s'.shaping } } r s'.cap
              simp only [this.1, this.2.1]; exact io.1
            · intro r' sh hr' hv'
              have ac := applyCap_ctx { c with ctx := { c.ctx with off := s'.off, next := s'.next, shaping := s'.shaping } } r s'.cap
              rw [ac.2.2.1] at hr'
              simp only at hr'
              rw [hreg] at hr'; cases hr'
              rw [validShape_congr l c _ ac.2.2.2, hv] at hv'; cases hv'
          | done s' st =>
            rw [hst] at io
            obtain ⟨hok, hah⟩ := io
            subst hok
            refine ⟨sameShapes_refl l, fun _ => ⟨?_, ?_⟩, by simp⟩
            · -- after the fallback the pending action stays where it was and the offset has reached it
              have ac := applyCap_ctx { c with ctx := { c.ctx with off := s'.off, next := s'.next, shaping := s'.shaping } } r s'.cap
              simp only [ac.1, ac.2.1]
              exact hah
            · intro r' sh hr' hv'
              have ac := applyCap_ctx { c with ctx := { c.ctx with off := s'.off, next := s'.next, shaping := s'.shaping } } r s'.cap
              rw [ac.2.2.1] at hr'
              simp only at hr'
              rw [hreg] at hr'; cases hr'
              rw [validShape_congr l c _ ac.2.2.2, hv] at hv'; cases hv'
        | some sh =>
          simp only [Option.isSome_some, if_true]
          have hg : mapGet r l.shapes = some sh := by
            unfold validShape at hv; split at hv
            · exact hv
            · cases hv
          have hI : LInv { off := c.ctx.off, next := c.ctx.next, acts := sh.actions, delivered := pd.delivered, evs := pd.evs } := by
            refine ⟨hL r sh hg, ?_⟩
            intro i nb hn
            obtain ⟨hi, hb⟩ := hC.2 r sh hreg hv i nb hn
            exact ⟨hi, hb, hC.1 i nb hn⟩
          have sc := step_cases true cap _ pd.rest hI hne
          have sb := stepLoop_bytes true cap
            { off := c.ctx.off, next := c.ctx.next, acts := sh.actions, delivered := pd.delivered, evs := pd.evs } pd.rest
          cases hst : stepLoop true cap
              { off := c.ctx.off, next := c.ctx.next, acts := sh.actions, delivered := pd.delivered, evs := pd.evs } pd.rest with
          | cont s' b' =>
            rw [hst] at sc sb
            simp only [StepRes.loop] at sb
            obtain ⟨hsame, hget'⟩ := setShapeActions_same l r sh s'.acts hg sb
            refine ⟨hsame, fun _ => ⟨?_, ?_⟩, by simp⟩
            · have ac := applyCap_ctx { c with ctx := { c.ctx with off := s'.off, next := s'.next, shaping := s'.shaping } } r s'.cap
              simp only [ac.1, ac.2.1]
              intro i nb hn
              obtain ⟨_, _, h3⟩ := sc.inv.next i nb hn
              exact h3
            · intro r' sh' hr' hv' i nb hn
              have ac := applyCap_ctx { c with ctx := { c.ctx with off := s'.off, next := s'.next, shaping := s'.shaping } } r s'.cap
              rw [ac.2.2.1] at hr'
              simp only at hr'
              rw [hreg] at hr'; cases hr'
              rw [ac.2.1] at hn
              simp only at hn
              rw [validShape_congr _ c _ ac.2.2.2] at hv'
              have hsh' : sh' = { sh with actions := s'.acts } := by
                unfold validShape at hv' hv
                rw [hsame.1] at hv'
                split at hv'
                · rw [hget'] at hv'; cases hv'; rfl
                · cases hv'
              subst hsh'
              obtain ⟨h1, h2, _⟩ := sc.inv.next i nb hn
              exact ⟨h1, h2⟩
          | done s' st =>
            rw [hst] at sc sb
            simp only [StepRes.loop] at sb
            obtain ⟨hsame, _⟩ := setShapeActions_same l r sh s'.acts hg sb
            rcases sc with ⟨_, h2, _⟩ | ⟨h1, _⟩
            · cases h2
            · subst h1
              exact ⟨hsame, fun h => (h rfl).elim, by simp⟩

/-! ### The other steps -/

theorem parseShape_sorted (si : Nat) (x : Option RawShape) (p : Nat × Shape) (h : parseShape si x = .ok p) :
    SortedBy Action.byte p.2.actions := by
  unfold parseShape at h
  split at h
  · cases h
  · rename_i rs
    split at h
    · cases h
    · cases h
    · split at h
      · cases h
      · simp only at h
        split at h
        · cases h
        · split at h
          · cases h
          · split at h
            · cases h
            · split at h
              · cases h
              · cases h; exact stableSort_sorted _ _

theorem foldl_mapSet_all {Q : Shape → Prop} : ∀ (ps : List (Nat × Shape)) (m : List (Nat × Shape)),
    (∀ p ∈ ps, Q p.2) → (∀ r v, mapGet r m = some v → Q v) →
    ∀ r v, mapGet r (ps.foldl (fun m p => mapSet p.1 p.2 m) m) = some v → Q v
  | [], m, _, hm => by simpa using hm
  | p :: rest, m, hp, hm => by
    simp only [List.foldl_cons]
    apply foldl_mapSet_all rest (mapSet p.1 p.2 m) (fun q hq => hp q (List.mem_cons_of_mem _ hq))
    intro r v hg
    rw [mapGet_mapSet] at hg
    split at hg
    · cases hg; exact hp p (List.mem_cons_self ..)
    · exact hm r v hg

theorem configure_sorted (l l' : Listener) (cfg : RawConfig) (h : configure l cfg = .ok l') : ShapesSorted l' := by
  unfold configure at h
  simp only at h
  split at h
  · cases h
  · cases hp : parseShapes 0 cfg.shapes with
    | error e => simp [hp] at h
    | ok ps =>
      simp only [hp] at h
      cases h
      intro r sh hg
      simp only at hg
      refine foldl_mapSet_all (Q := fun s => SortedBy Action.byte s.actions) ps [] ?_ ?_ r sh hg
      · intro p hpm
        obtain ⟨k, hk, rfl⟩ := List.mem_iff_getElem.1 hpm
        obtain ⟨hlen, hall⟩ := parseShapes_ok_all cfg.shapes 0 ps hp
        obtain ⟨q, hq1, hq2⟩ := hall k (by omega)
        rw [List.getElem?_eq_getElem hk] at hq2
        cases hq2
        exact parseShape_sorted _ _ _ hq1
      · intro r v hv; simp [mapGet] at hv

theorem nextFromByte_good (acts : List Action) (rs : Int) (ha : SortedBy Action.byte acts) (i : Nat) (nb : Int)
    (h : nextFromByte acts rs = some (i, nb)) : ∃ hi : i < acts.length, acts[i].byte = nb ∧ rs ≤ nb := by
  unfold nextFromByte at h
  have sp := searchGo_spec _ _ (mono_byte acts ha rs) acts.length 0 acts.length rfl (Nat.zero_le _)
    (Nat.le_refl _) (by intro m hm; omega) (by intro m h1 h2; omega)
  have ns := nextFromIndex_spec acts _ (searchGo (fun i => decide (byteAt acts i ≥ rs)) 0 acts.length) rfl
  rw [h] at ns
  obtain ⟨h1, h2, h3, _, _⟩ := ns
  refine ⟨h2, h3, ?_⟩
  have := sp.2.2.2 i h1 h2
  simp only [decide_eq_true_eq] at this
  rw [byteAt_eq h2, h3] at this
  omega

theorem ctxGood_of_next_none (l : Listener) (c : Conn) (h : c.ctx.next = none) : CtxGood l c :=
  ⟨by (intro i nb hh; rw [h] at hh; cases hh), by (intro r sh _ _ i nb hh; rw [h] at hh; cases hh)⟩

/-- What `setContext` leaves behind: no pending action, or the first action at/after the range
start of the shape that is valid for the connection. -/
theorem setContext_shape (l : Listener) (c : Conn) (u : Option Nat) (rs hl : Int) (f : Option Int) :
    (setContext l c u rs hl f).established = c.established ∧
    ((setContext l c u rs hl f).ctx.next = none ∨
     ∃ r s, (setContext l c u rs hl f).ctx.regex = some r ∧ validShape l c r = some s ∧
       (setContext l c u rs hl f).ctx.off = rs ∧ (setContext l c u rs hl f).ctx.next = nextFromByte s.actions rs) := by
  unfold setContext
  split
  · exact ⟨rfl, Or.inl rfl⟩
  · rename_i r
    split
    · exact ⟨rfl, Or.inl rfl⟩
    · split
      · cases hv : validShape l c r with
        | none => exact ⟨rfl, Or.inl rfl⟩
        | some s => exact ⟨rfl, Or.inr ⟨r, s, rfl, hv, rfl, by simp only [hv]⟩⟩
      · exact ⟨rfl, Or.inl rfl⟩

theorem setContext_good (l : Listener) (c : Conn) (u : Option Nat) (rs hl : Int) (f : Option Int)
    (hL : ShapesSorted l) : CtxGood l (setContext l c u rs hl f) := by
  obtain ⟨he, hn | ⟨r, s, hr, hv, hoff, hnx⟩⟩ := setContext_shape l c u rs hl f
  · exact ctxGood_of_next_none _ _ hn
  · have hg : mapGet r l.shapes = some s := by
      unfold validShape at hv; split at hv
      · exact hv
      · cases hv
    have hs := hL r s hg
    refine ⟨?_, ?_⟩
    · intro i nb h
      rw [hnx] at h
      obtain ⟨_, _, h3⟩ := nextFromByte_good s.actions rs hs i nb h
      rw [hoff]; exact h3
    · intro r' sh hr' hv' i nb h
      rw [hr] at hr'; cases hr'
      rw [validShape_congr l c _ he, hv] at hv'
      cases hv'
      rw [hnx] at h
      obtain ⟨h1, h2, _⟩ := nextFromByte_good s.actions rs hs i nb h
      exact ⟨h1, h2⟩

theorem beginWrite_good (l : Listener) (c : Conn) (b : Bytes) (h : CtxGood l c) : CtxGood l (beginWrite c b).1 := by
  unfold beginWrite
  split
  · refine ⟨h.1, ?_⟩
    intro r sh hr hv i nb hn
    exact h.2 r sh hr (by unfold validShape at hv ⊢; exact hv) i nb hn
  · exact h

/-- The invariant of the world. -/
def ConnSafe (l : Listener) (ic : IConn) : Prop :=
  ic.panicked = false ∧ (ic.pend.isSome = true → ic.dead = false) ∧ (ic.dead = false → CtxGood l ic.c)

def WorldSafe (w : World) : Prop :=
  ShapesSorted w.l ∧ ClockOK w ∧ ∀ ic ∈ w.conns, ConnSafe w.l ic

theorem worldSafe_init : WorldSafe {} :=
  ⟨by (intro r sh h; simp [mapGet] at h), clockOK_init, by (intro ic h; cases h)⟩

theorem step_safe_aux (w : World) (st : Step) (hL : ShapesSorted w.l) (hK : ClockOK w)
    (hC : ∀ ic ∈ w.conns, ConnSafe w.l ic) :
    ∀ w', w' = w.step st → ShapesSorted w'.l ∧ ∀ ic ∈ w'.conns, ConnSafe w'.l ic := by
  intro w' hw'
  cases st with
  | configure cfg =>
    simp only [World.step, configureSt] at hw'
    cases hc : configure w.l cfg with
    | error e =>
      simp only [hc] at hw'; subst hw'; exact ⟨hL, hC⟩
    | ok l' =>
      simp only [hc] at hw'; subst hw'
      refine ⟨configure_sorted _ _ _ hc, ?_⟩
      intro ic hic
      have h0 := hC ic hic
      refine ⟨h0.1, h0.2.1, ?_⟩
      intro hd
      have hlm := (configure_ok_lastMod _ _ _ hc).1
      have he := hK.2 ic hic
      refine ⟨(h0.2.2 hd).1, ?_⟩
      intro r sh _ hv
      have : validShape l' ic.c r = none := validShape_old l' ic.c (by omega) r
      simp only at hv
      rw [this] at hv
      cases hv
  | accept =>
    simp only [World.step] at hw'; subst hw'
    have hsame : SameShapes w.l (accept w.l).1 := by
      refine ⟨rfl, ?_⟩
      intro r; simp only [accept]
      cases mapGet r w.l.shapes <;> simp
    refine ⟨sameShapes_sorted hsame hL, ?_⟩
    intro ic hic
    simp only [List.mem_append, List.mem_singleton] at hic
    rcases hic with hic | rfl
    · have h0 := hC ic hic
      exact ⟨h0.1, h0.2.1, fun hd => sameShapes_ctx hsame _ (h0.2.2 hd)⟩
    · exact ⟨rfl, by (intro h; cases h), fun _ => ctxGood_of_next_none _ _ rfl⟩
  | setCtx i u rs hl f =>
    simp only [World.step] at hw'
    split at hw'
    · subst hw'; exact ⟨hL, hC⟩
    · rename_i ic0 hget
      have h0 := hC ic0 (List.mem_of_getElem? hget)
      split at hw'
      · subst hw'; exact ⟨hL, hC⟩
      · subst hw'
        refine ⟨hL, ?_⟩
        intro ic hic
        rcases mem_set_cases hic with hic | rfl
        · exact hC ic hic
        · exact ⟨h0.1, h0.2.1, fun _ => setContext_good _ _ _ _ _ _ hL⟩
  | «begin» i b =>
    simp only [World.step] at hw'
    split at hw'
    · subst hw'; exact ⟨hL, hC⟩
    · rename_i ic0 hget
      have h0 := hC ic0 (List.mem_of_getElem? hget)
      split at hw'
      · subst hw'; exact ⟨hL, hC⟩
      · rename_i hcond
        subst hw'
        refine ⟨hL, ?_⟩
        intro ic hic
        rcases mem_set_cases hic with hic | rfl
        · exact hC ic hic
        · have hd : ic0.dead = false := by
            cases hdd : ic0.dead <;> simp_all
          exact ⟨h0.1, fun _ => hd, fun _ => beginWrite_good _ _ _ (h0.2.2 hd)⟩
  | round i cap =>
    simp only [World.step] at hw'
    split at hw'
    · subst hw'; exact ⟨hL, hC⟩
    · rename_i ic0 hget
      have h0 := hC ic0 (List.mem_of_getElem? hget)
      split at hw'
      · subst hw'; exact ⟨hL, hC⟩
      · rename_i pd hpd
        have hd := h0.2.1 (by simp [hpd])
        have rs := roundStep_safe cap w.l ic0.c pd hL (h0.2.2 hd)
        split at hw'
        · rename_i l' c' pd' heq
          rw [heq] at rs
          subst hw'
          refine ⟨sameShapes_sorted rs.same hL, ?_⟩
          intro ic hic
          rcases mem_set_cases hic with hic | rfl
          · have h1 := hC ic hic
            exact ⟨h1.1, h1.2.1, fun hd' => sameShapes_ctx rs.same _ (h1.2.2 hd')⟩
          · exact ⟨h0.1, fun _ => hd, fun _ => rs.good (by simp)⟩
        · rename_i l' c' pd' st' heq
          rw [heq] at rs
          subst hw'
          refine ⟨sameShapes_sorted rs.same hL, ?_⟩
          intro ic hic
          rcases mem_set_cases hic with hic | rfl
          · have h1 := hC ic hic
            exact ⟨h1.1, h1.2.1, fun hd' => sameShapes_ctx rs.same _ (h1.2.2 hd')⟩
          · refine ⟨?_, by (intro h; cases h), ?_⟩
            · have := rs.nopanic
              simp only [h0.1, Bool.false_or, decide_eq_false_iff_not]
              intro hp; apply this; simp [hp]
            · intro hdead
              simp only [hd, Bool.false_or, decide_eq_false_iff_not, Decidable.not_not] at hdead
              subst hdead
              exact rs.good (by simp)

theorem step_worldSafe (w : World) (st : Step) (h : WorldSafe w) : WorldSafe (w.step st) := by
  obtain ⟨hL, hK, hC⟩ := h
  have := step_safe_aux w st hL hK hC _ rfl
  exact ⟨this.1, (step_clockOK w st hK).1, this.2⟩

theorem run_worldSafe : ∀ (steps : List Step) (w : World), WorldSafe w → WorldSafe (w.run steps)
  | [], _, h => h
  | s :: rest, w, h => by
    unfold World.run
    simp only [List.foldl_cons]
    exact run_worldSafe rest (w.step s) (step_worldSafe w s h)

/-! ### A connection older than the shapes is never cut -/

theorem roundStep_stale_ok (cap : Nat) (l : Listener) (c : Conn) (pd : Pending)
    (h : ∀ r, validShape l c r = none) (ha : AheadOK c.ctx.off c.ctx.next) :
    (roundStep cap l c pd).2.2.2 = none ∨ (roundStep cap l c pd).2.2.2 = some .ok := by
  unfold roundStep
  by_cases he : pd.rest.isEmpty = true
  · simp [he]
  · simp only [he, Bool.false_eq_true, if_false]
    split
    · simp
    · split
      · simp
      · rename_i r _
        simp only [h r, Option.isSome_none, Bool.false_eq_true, if_false]
        have io := stepLoop_invalid_ok cap
          { off := c.ctx.off, next := c.ctx.next, acts := [], delivered := pd.delivered, evs := pd.evs } pd.rest ha
        split
        · left; rfl
        · rename_i s' st hst
          rw [hst] at io
          right; simp [io.1]

/-- Connection `i` exists, was accepted at `e`, its `dead` flag is `d`, and the shapes are newer. -/
def DeadAt (w : World) (i : Nat) (e : Nat) (d : Bool) : Prop :=
  ∃ ic, w.conns[i]? = some ic ∧ ic.c.established = e ∧ ic.dead = d ∧ e ≤ w.l.lastMod

theorem step_deadAt (w : World) (st : Step) (hs : WorldSafe w) (i e : Nat) (d : Bool) (h : DeadAt w i e d) :
    DeadAt (w.step st) i e d := by
  obtain ⟨ic, hget, hest, hdead, hle⟩ := h
  have hc := hs.2.1
  have hmono := (step_clockOK w st hc).2
  have keep : ∀ (w' : World), w'.conns[i]? = some ic → w.l.lastMod ≤ w'.l.lastMod → DeadAt w' i e d := by
    intro w' h1 h2; exact ⟨ic, h1, hest, hdead, by omega⟩
  cases st with
  | configure cfg => exact keep _ (by simpa [World.step] using hget) hmono
  | accept =>
    apply keep _ _ hmono
    simp only [World.step]
    have hi : i < w.conns.length := by
      rcases Nat.lt_or_ge i w.conns.length with h' | h'
      · exact h'
      · rw [List.getElem?_eq_none h'] at hget; cases hget
    rw [List.getElem?_append_left hi]; exact hget
  | setCtx j u rs hl f =>
    by_cases hj : j = i
    · subst hj
      simp only [World.step, hget]
      split
      · exact keep _ hget (Nat.le_refl _)
      · exact ⟨_, getElem?_set_self' _ _ _ _ hget, by (simp only [setContext_established]; exact hest), hdead, hle⟩
    · apply keep _ _ hmono
      simp only [World.step]
      split
      · exact hget
      · split
        · exact hget
        · simp only [List.getElem?_set_ne hj]; exact hget
  | «begin» j b =>
    by_cases hj : j = i
    · subst hj
      simp only [World.step, hget]
      split
      · exact keep _ hget (Nat.le_refl _)
      · exact ⟨_, getElem?_set_self' _ _ _ _ hget, by (simp only [beginWrite_established]; exact hest), hdead, hle⟩
    · apply keep _ _ hmono
      simp only [World.step]
      split
      · exact hget
      · split
        · exact hget
        · simp only [List.getElem?_set_ne hj]; exact hget
  | round j cap =>
    by_cases hj : j = i
    · subst hj
      simp only [World.step, hget]
      split
      · exact keep _ hget (Nat.le_refl _)
      · rename_i pd hpd
        have h0 := hs.2.2 ic (List.mem_of_getElem? hget)
        have hd0 : ic.dead = false := h0.2.1 (by simp [hpd])
        have hold := validShape_old w.l ic.c (by omega)
        have hst := roundStep_stale cap w.l ic.c pd hold
        have hok := roundStep_stale_ok cap w.l ic.c pd hold (h0.2.2 hd0).1
        obtain ⟨_, he, _, _⟩ := roundStep_basic cap w.l ic.c pd
        split
        · rename_i l' c' pd' heq
          rw [heq] at hst he
          simp only at hst he
          exact ⟨_, getElem?_set_self' _ _ _ _ hget, by (simp only [he]; exact hest), hdead, by (rw [hst.1]; exact hle)⟩
        · rename_i l' c' pd' st' heq
          rw [heq] at hst he hok
          simp only at hst he hok
          rcases hok with hok | hok
          · cases hok
          · cases hok
            refine ⟨_, getElem?_set_self' _ _ _ _ hget, by (simp only [he]; exact hest), ?_, by (rw [hst.1]; exact hle)⟩
            simp [hdead]
    · apply keep _ _ hmono
      simp only [World.step]
      split
      · exact hget
      · split
        · exact hget
        · split
          · simp only [List.getElem?_set_ne hj]; exact hget
          · simp only [List.getElem?_set_ne hj]; exact hget

theorem run_deadAt : ∀ (steps : List Step) (w : World), WorldSafe w → ∀ (i e : Nat) (d : Bool),
    DeadAt w i e d → DeadAt (w.run steps) i e d
  | [], _, _, _, _, _, h => h
  | s :: rest, w, hs, i, e, d, h => by
    unfold World.run
    simp only [List.foldl_cons]
    exact run_deadAt rest (w.step s) (step_worldSafe w s hs) i e d (step_deadAt w s hs i e d h)

end Martian.Shape
