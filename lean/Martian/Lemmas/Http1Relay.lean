import Martian.Lemmas.Http1Wire
/-!
The relay functions (`relayRequest`, `relayResponse`: what `martian.Proxy.handle` + `Request.write` /
`Response.Write` make of a parsed message) composed with the serialiser and the reader.
-/
namespace Martian.Http1
open Martian Martian.Go Martian.MessageView

/-- The field names the relay rewrites or drops on a request: everything else is end-to-end. -/
def reqRewritten : List Bytes := [hostKey, uaKey, clKey, teKey, trailerKey, connKey]
/-- …on a response. -/
def resRewritten : List Bytes := [clKey, teKey, trailerKey, connKey]

theorem vals_filter_notin (l : List KV) (ex : List Bytes) (k : Bytes) (hk : ex.contains k = false) :
    vals (l.filter fun kv => !ex.contains kv.1) k = vals l k := by
  simp only [vals, List.filter_filter]
  congr 1
  apply List.filter_congr
  intro kv _
  cases hq : kv.1 == k with
  | false => simp
  | true =>
    have : kv.1 = k := by simpa using hq
    simp only [this, Bool.and_true, Bool.not_eq_true']
    simpa using hk

theorem vals_connCloseField (c : Bool) (h : List KV) (k : Bytes) (hk : (connKey == k) = false) :
    vals (connCloseField c h) k = [] := by
  unfold connCloseField; split <;> simp [vals_cons, hk]

theorem vals_trailerField (c : Bool) (d : Option (List Bytes)) (k : Bytes) (hk : (trailerKey == k) = false) :
    vals (trailerField c d) k = [] := by
  unfold trailerField
  cases d with
  | none => rfl
  | some ks => simp only; split <;> simp [vals_cons, hk]

/-- End-to-end header values of a relayed request are those of the request, per name, with
multiplicity and in order. -/
theorem relayRequest_e2e_vals (p : Parsed) (x : Relayed) (hx : relayRequest p = some x) (k : Bytes)
    (hk : reqRewritten.contains k = false) : vals x.msg.hdr k = vals p.msg.hdr k := by
  simp only [relayRequest] at hx
  split at hx
  · cases hx
  · simp only [Option.some.injEq] at hx
    subst hx
    simp only [reqRewritten, List.contains_cons, List.contains_nil, Bool.or_false, Bool.or_eq_false_iff] at hk
    obtain ⟨h1, h2, h3, h4, h5, h6⟩ := hk
    have e1 : (connKey == k) = false := by rw [BEq.comm]; exact h6
    have e2 : (trailerKey == k) = false := by rw [BEq.comm]; exact h5
    have e3 : (uaKey == k) = false := by rw [BEq.comm]; exact h2
    simp only [vals_append, vals_connCloseField _ _ k e1, vals_trailerField _ _ k e2]
    have hua : ∀ l : List KV, (∀ kv ∈ l, kv.1 = uaKey) → vals l k = [] := by
      intro l hl
      apply vals_eq_nil_of_has
      rw [has_eq_false_iff]; intro kv hkv; rw [hl kv hkv]; exact e3
    rw [hua _ (by
      intro kv hkv
      split at hkv
      · simp at hkv; rw [hkv]
      · split at hkv
        · simp at hkv
        · simp at hkv; rw [hkv])]
    simp only [List.nil_append]
    apply vals_filter_notin
    simp only [List.contains_cons, List.contains_nil, Bool.or_false, Bool.or_eq_false_iff]
    exact ⟨h1, h2, h3, h4, h5⟩

theorem relayResponse_e2e_vals (meth : Bytes) (closing : Bool) (p : Parsed) (x : Relayed)
    (hx : relayResponse meth closing p = some x) (k : Bytes)
    (hk : resRewritten.contains k = false) : vals x.msg.hdr k = vals p.msg.hdr k := by
  simp only [relayResponse] at hx
  split at hx
  · cases hx
  · simp only [Option.some.injEq] at hx
    subst hx
    simp only [resRewritten, List.contains_cons, List.contains_nil, Bool.or_false, Bool.or_eq_false_iff] at hk
    obtain ⟨h3, h4, h5, h6⟩ := hk
    have e1 : (connKey == k) = false := by rw [BEq.comm]; exact h6
    have e2 : (trailerKey == k) = false := by rw [BEq.comm]; exact h5
    simp only [vals_append, vals_connCloseField _ _ k e1, vals_trailerField _ _ k e2, List.nil_append]
    apply vals_filter_notin
    simp only [List.contains_cons, List.contains_nil, Bool.or_false, Bool.or_eq_false_iff]
    exact ⟨h3, h4, h5⟩

/-- What the relay keeps of a request: method, body; the target in origin form; HTTP/1.1. -/
theorem relayRequest_fields (p : Parsed) (x : Relayed) (hx : relayRequest p = some x) :
    x.msg.method = p.msg.method ∧ x.msg.url = originForm p.msg.url ∧ x.msg.body = p.msg.body ∧
    x.msg.host = p.msg.host ∧ isChunked x.msg.te = isChunked p.msg.te ∧ x.noBody = false := by
  simp only [relayRequest] at hx
  split at hx
  · cases hx
  · simp only [Option.some.injEq] at hx
    subst hx
    refine ⟨rfl, rfl, rfl, rfl, ?_, rfl⟩
    cases h : isChunked p.msg.te <;> simp [h, isChunked, chunkedTok]

theorem relayResponse_fields (meth : Bytes) (closing : Bool) (p : Parsed) (x : Relayed)
    (hx : relayResponse meth closing p = some x) :
    x.msg.code = p.msg.code ∧ x.msg.major = p.msg.major ∧ x.msg.minor = p.msg.minor ∧
    (meth == headTok) = x.noBody ∧ ((meth == headTok) = false → x.msg.body = p.msg.body) ∧
    isChunked x.msg.te = isChunked p.msg.te := by
  simp only [relayResponse] at hx
  split at hx
  · cases hx
  · simp only [Option.some.injEq] at hx
    subst hx
    refine ⟨rfl, rfl, rfl, rfl, ?_, ?_⟩
    · intro h; simp [h]
    · cases h : isChunked p.msg.te <;> simp [h, isChunked, chunkedTok]

end Martian.Http1
