import Martian.Model.Marbl
/-! Helper lemmas for C19 (core Lean only). -/
namespace Martian.Marbl
open Martian

theorem rd32_be32 (n : Nat) : rd32 (be32 n) = n % two32 := by
  simp only [be32, rd32, two32, UInt8.toNat_ofNat']
  omega

theorem be32_length (n : Nat) : (be32 n).length = 4 := rfl

theorem hasAtLeast_iff (n : Nat) (bs : Bytes) : hasAtLeast n bs = true ↔ n ≤ bs.length := by
  induction n generalizing bs with
  | zero => simp [hasAtLeast]
  | succ k ih =>
    cases bs with
    | nil => simp [hasAtLeast]
    | cons x t => simp [hasAtLeast, ih]

theorem readFull_append (a b : Bytes) : readFull a.length (a ++ b) = .ok (a, b) := by
  have : hasAtLeast a.length (a ++ b) = true := (hasAtLeast_iff _ _).mpr (by simp)
  simp [readFull, this]

theorem readFull_append' {n : Nat} (a b : Bytes) (h : a.length = n) : readFull n (a ++ b) = .ok (a, b) := by
  subst h; exact readFull_append a b

theorem readFull_ok {n : Nat} {bs a b : Bytes} (h : readFull n bs = .ok (a, b)) :
    n ≤ bs.length ∧ a = bs.take n ∧ b = bs.drop n := by
  unfold readFull at h
  split at h
  · rename_i hh
    simp at h; exact ⟨(hasAtLeast_iff _ _).mp hh, h.1.symm, h.2.symm⟩
  · split at h <;> simp at h

theorem frameHead_length (ft mt : UInt8) (id : Bytes) (h : id.length = 8) : (frameHead ft mt id).length = 10 := by
  simp [frameHead, h]

theorem take8 (id : Bytes) (h : id.length = 8) : id.take 8 = id := by
  rw [← h]; exact List.take_length

/-! ### round trip of the two payload decoders -/

theorem readHeaderBody_encode (sum : Nat → Nat → Nat) (hsum : ∀ a b, a < two32 → b < two32 → sum a b = a + b)
    (mt : UInt8) (id n v rest : Bytes) (hn : n.length < two32) (hv : v.length < two32) :
    readHeaderBody sum mt id ((be32 n.length ++ be32 v.length) ++ ((n ++ v) ++ rest)) = .ok (.header mt id n v) rest := by
  have hn' : n.length % two32 = n.length := Nat.mod_eq_of_lt hn
  have hv' : v.length % two32 = v.length := Nat.mod_eq_of_lt hv
  unfold readHeaderBody
  rw [readFull_append' (n := 8) (be32 n.length ++ be32 v.length) _ (by simp [be32_length])]
  simp only [List.take_left' (be32_length _), List.drop_left' (be32_length _), rd32_be32, hn', hv']
  rw [hsum _ _ hn hv, ← List.length_append, readFull_append]
  simp

theorem desc_take4 (a c : Bytes) (tb : UInt8) (h : a.length = 4) : (a ++ [tb] ++ c).take 4 = a := by
  rw [List.append_assoc]; exact List.take_left' h

theorem desc_drop4 (a c : Bytes) (tb : UInt8) (h : a.length = 4) : (a ++ [tb] ++ c).drop 4 = tb :: c := by
  rw [List.append_assoc]; exact List.drop_left' h

theorem desc_drop5 (a c : Bytes) (tb : UInt8) (h : a.length = 4) : (a ++ [tb] ++ c).drop 5 = c :=
  List.drop_left' (by simp [h])

theorem readDataBody_encode (mt : UInt8) (id : Bytes) (i : Nat) (tb : UInt8) (p rest : Bytes)
    (hi : i < two32) (hp : p.length < two32) :
    readDataBody mt id ((be32 i ++ [tb] ++ be32 p.length) ++ (p ++ rest)) = .ok (.data mt id i (tb == 1) p) rest := by
  have hi' : i % two32 = i := Nat.mod_eq_of_lt hi
  have hp' : p.length % two32 = p.length := Nat.mod_eq_of_lt hp
  unfold readDataBody
  rw [readFull_append' (n := 9) (be32 i ++ [tb] ++ be32 p.length) _ (by simp [be32_length])]
  simp only [desc_take4 _ _ _ (be32_length _), desc_drop4 _ _ _ (be32_length _), desc_drop5 _ _ _ (be32_length _),
    rd32_be32, hi', hp', List.headD_cons]
  rw [readFull_append]

/-! ### whole frames -/

theorem encode_header_eq (mt : UInt8) (id n v : Bytes) (hn : n.length < two32) (hv : v.length < two32) :
    encode (.header mt id n v) = frameHead 1 mt id ++ (be32 n.length ++ be32 v.length) ++ (n ++ v) := by
  simp only [encode, Nat.mod_eq_of_lt hn, Nat.mod_eq_of_lt hv, List.take_length]

theorem encode_data_eq (mt : UInt8) (id : Bytes) (i : Nat) (t : Bool) (p : Bytes) :
    encode (.data mt id i t p) = frameHead 2 mt id ++ (be32 i ++ [if t then 1 else 0] ++ be32 p.length) ++ p := rfl

theorem readFrameWith_frameHead (sum : Nat → Nat → Nat) (ft mt : UInt8) (id r1 : Bytes) (hid : id.length = 8) :
    readFrameWith sum (frameHead ft mt id ++ r1) =
      if ft = 1 then readHeaderBody sum mt id r1 else if ft = 2 then readDataBody mt id r1 else .err .unknownType := by
  unfold readFrameWith
  rw [readFull_append' _ _ (frameHead_length ft mt id hid)]
  simp only [frameHead, take8 id hid, List.headD_cons, List.drop_succ_cons, List.drop_zero]

theorem readFrameWith_encode (sum : Nat → Nat → Nat) (hsum : ∀ a b, a < two32 → b < two32 → sum a b = a + b)
    (f : Frame) (hf : f.Valid) (rest : Bytes) : readFrameWith sum (encode f ++ rest) = .ok f rest := by
  cases f with
  | header mt id n v =>
    obtain ⟨hid, hn, hv⟩ := hf
    rw [encode_header_eq mt id n v hn hv, List.append_assoc, List.append_assoc, readFrameWith_frameHead sum 1 mt id _ hid,
      if_pos rfl]
    exact readHeaderBody_encode sum hsum mt id n v rest hn hv
  | data mt id i t p =>
    obtain ⟨hid, hi, hp⟩ := hf
    rw [encode_data_eq, List.append_assoc, List.append_assoc, readFrameWith_frameHead sum 2 mt id _ hid,
      if_neg (by simp), if_pos rfl, readDataBody_encode mt id i _ p rest hi hp]
    cases t <;> simp

/-! ### totality, progress -/

theorem readHeaderBody_sumInt_ne_panic (mt : UInt8) (id r1 : Bytes) : readHeaderBody sumInt mt id r1 ≠ .panic := by
  unfold readHeaderBody
  dsimp only
  split
  · simp
  · split
    · simp
    · rename_i nv r3 h
      have hnv := (readFull_ok h).2.1
      have hl := (readFull_ok h).1
      split
      · simp
      · rename_i hn
        exfalso; apply hn
        rw [hnv, List.length_take]
        simp only [sumInt] at hl ⊢
        omega

theorem readDataBody_ne_panic (mt : UInt8) (id r1 : Bytes) : readDataBody mt id r1 ≠ .panic := by
  unfold readDataBody
  dsimp only
  split
  · simp
  · split <;> simp

theorem readFrameWith_sumInt_ne_panic (bs : Bytes) : readFrameWith sumInt bs ≠ .panic := by
  unfold readFrameWith
  dsimp only
  split
  · simp
  · split
    · exact readHeaderBody_sumInt_ne_panic _ _ _
    · split
      · exact readDataBody_ne_panic _ _ _
      · simp

theorem readHeaderBody_rest {sum : Nat → Nat → Nat} {mt : UInt8} {id r1 rest : Bytes} {f : Frame}
    (h : readHeaderBody sum mt id r1 = .ok f rest) : rest.length ≤ r1.length := by
  unfold readHeaderBody at h
  dsimp only at h
  split at h
  · simp at h
  · rename_i lens r2 h2
    have ⟨_, _, e2⟩ := readFull_ok h2
    split at h
    · simp at h
    · rename_i nv r3 h3
      have ⟨_, _, e3⟩ := readFull_ok h3
      split at h
      · simp at h
        rw [← h.2, e3, List.length_drop, e2, List.length_drop]; omega
      · simp at h

theorem readDataBody_rest {mt : UInt8} {id r1 rest : Bytes} {f : Frame}
    (h : readDataBody mt id r1 = .ok f rest) : rest.length ≤ r1.length := by
  unfold readDataBody at h
  dsimp only at h
  split at h
  · simp at h
  · rename_i desc r2 h2
    have ⟨_, _, e2⟩ := readFull_ok h2
    split at h
    · simp at h
    · rename_i d r3 h3
      have ⟨_, _, e3⟩ := readFull_ok h3
      simp at h
      rw [← h.2, e3, List.length_drop, e2, List.length_drop]; omega

/-- Every successful `ReadFrame` consumes at least the 10-byte frame header. -/
theorem readFrameWith_rest_lt {sum : Nat → Nat → Nat} {bs rest : Bytes} {f : Frame}
    (h : readFrameWith sum bs = .ok f rest) : rest.length + 10 ≤ bs.length := by
  unfold readFrameWith at h
  dsimp only at h
  split at h
  · simp at h
  · rename_i fh r1 h1
    have ⟨l1, _, e1⟩ := readFull_ok h1
    have hr1 : r1.length + 10 = bs.length := by rw [e1, List.length_drop]; omega
    split at h
    · have := readHeaderBody_rest h; omega
    · split at h
      · have := readDataBody_rest h; omega
      · simp at h

/-! ### reading a whole stream -/

theorem readFrame_encode (f : Frame) (hf : f.Valid) (rest : Bytes) : readFrame (encode f ++ rest) = .ok f rest :=
  readFrameWith_encode sumInt (fun _ _ _ _ => rfl) f hf rest

theorem encode_length_pos (f : Frame) : 0 < (encode f).length := by
  cases f <;> simp [encode, frameHead]

theorem readAllFuel_encodeAll (fs : List Frame) (hv : ∀ f ∈ fs, f.Valid) :
    ∀ fuel, (encodeAll fs).length < fuel → readAllFuel fuel (encodeAll fs) = (fs, .err .eof) := by
  induction fs with
  | nil =>
    intro fuel h
    cases fuel with
    | zero => simp at h
    | succ k => simp [readAllFuel, encodeAll, readFrame, readFrameWith, readFull, hasAtLeast]
  | cons f fs ih =>
    intro fuel h
    cases fuel with
    | zero => simp at h
    | succ k =>
      have hcons : encodeAll (f :: fs) = encode f ++ encodeAll fs := by simp [encodeAll]
      rw [hcons] at h ⊢
      have hpos := encode_length_pos f
      rw [List.length_append] at h
      simp only [readAllFuel, readFrame_encode f (hv f (by simp))]
      rw [ih (fun g hg => hv g (by simp [hg])) k (by omega)]

theorem readAllFuel_stop : ∀ (fuel : Nat) (bs : Bytes), bs.length < fuel → ∃ e, (readAllFuel fuel bs).2 = .err e := by
  intro fuel
  induction fuel with
  | zero => intro bs h; simp at h
  | succ k ih =>
    intro bs h
    simp only [readAllFuel]
    cases hr : readFrame bs with
    | ok f rest =>
      have := readFrameWith_rest_lt hr
      exact ih rest (by omega)
    | err e => exact ⟨e, rfl⟩
    | panic => exact absurd hr (readFrameWith_sumInt_ne_panic bs)

/-! ### interleavings -/

theorem Shuffle.filter {α : Type} (p : α → Bool) {ms : List (List α)} {l : List α} (h : Shuffle ms l) :
    Shuffle (ms.map (List.filter p)) (l.filter p) := by
  induction h with
  | nil hall =>
    apply Shuffle.nil
    intro m hm
    rw [List.mem_map] at hm
    obtain ⟨m', hm', rfl⟩ := hm
    rw [hall m' hm']; rfl
  | @cons ms l i x m hi _ ih =>
    rw [List.map_set] at ih
    have hget : (ms.map (List.filter p))[i]? = some ((x :: m).filter p) := by
      rw [List.getElem?_map, hi]; rfl
    by_cases hp : p x = true
    · rw [List.filter_cons_of_pos hp] at hget ⊢
      exact Shuffle.cons i x _ hget ih
    · rw [List.filter_cons_of_neg hp] at hget ⊢
      have : (ms.map (List.filter p)).set i (m.filter p) = ms.map (List.filter p) := by
        apply List.ext_getElem?
        intro j
        by_cases hj : i = j
        · subst hj
          rw [hget]
          have hlt : i < (ms.map (List.filter p)).length := by
            rcases Nat.lt_or_ge i (ms.map (List.filter p)).length with h | h
            · exact h
            · rw [List.getElem?_eq_none h] at hget; cases hget
          simp [List.getElem?_set_self hlt]
        · rw [List.getElem?_set_ne hj]
      rw [this] at ih
      exact ih

theorem Shuffle.single {α : Type} {ms : List (List α)} {l : List α} (h : Shuffle ms l) :
    ∀ i : Nat, (∀ (j : Nat) (m : List α), j ≠ i → ms[j]? = some m → m = []) → l = (ms[i]?).getD [] := by
  induction h with
  | @nil ms hall =>
    intro i _
    cases hm : ms[i]? with
    | none => rfl
    | some m => simp [hall m (List.mem_of_getElem? hm)]
  | @cons ms l k x m hk _ ih =>
    intro i hothers
    have hki : k = i := by
      by_cases hki : k = i
      · exact hki
      · have := hothers k _ hki hk; cases this
    subst hki
    have hlt : k < ms.length := by
      rcases Nat.lt_or_ge k ms.length with h | h
      · exact h
      · rw [List.getElem?_eq_none h] at hk; cases hk
    have := ih k (by
      intro j m' hj hm'
      rw [List.getElem?_set_ne (Ne.symm hj)] at hm'
      exact hothers j m' hj hm')
    rw [this, hk, List.getElem?_set_self hlt]
    rfl

theorem Shuffle.mem {α : Type} {ms : List (List α)} {l : List α} (h : Shuffle ms l) :
    ∀ x ∈ l, ∃ m ∈ ms, x ∈ m := by
  induction h with
  | nil _ => intro x hx; cases hx
  | @cons ms l i x m hi _ ih =>
    intro y hy
    have hxm : (x :: m) ∈ ms := List.mem_of_getElem? hi
    rcases List.mem_cons.mp hy with rfl | hy
    · exact ⟨_, hxm, by simp⟩
    · obtain ⟨m', hm', hym⟩ := ih y hy
      rcases List.mem_or_eq_of_mem_set hm' with h | h
      · exact ⟨m', h, hym⟩
      · subst h; exact ⟨_, hxm, List.mem_cons_of_mem _ hym⟩

/-- An interleaving of mapped sequences is the map of an interleaving: when every channel send carries one
complete item (`f x`), whatever order the items arrive in is an order of whole items. -/
theorem Shuffle.of_map {α β : Type} (f : α → β) {cs : List (List β)} {l : List β} (h : Shuffle cs l) :
    ∀ ms : List (List α), cs = ms.map (List.map f) → ∃ fl, Shuffle ms fl ∧ l = fl.map f := by
  induction h with
  | @nil cs hall =>
    intro ms hcs
    refine ⟨[], Shuffle.nil ?_, rfl⟩
    intro m hm
    have : m.map f ∈ cs := by rw [hcs]; exact List.mem_map_of_mem hm
    have := hall _ this
    simpa using this
  | @cons cs l i x m hi _ ih =>
    intro ms hcs
    subst hcs
    rw [List.getElem?_map] at hi
    cases hmi : ms[i]? with
    | none => rw [hmi] at hi; cases hi
    | some mi =>
      rw [hmi] at hi
      simp only [Option.map_some, Option.some.injEq] at hi
      cases mi with
      | nil => simp at hi
      | cons y m' =>
        simp only [List.map_cons, List.cons.injEq] at hi
        obtain ⟨hy, hm'⟩ := hi
        have hset : (ms.map (List.map f)).set i m = (ms.set i m').map (List.map f) := by
          rw [List.map_set, hm']
        obtain ⟨fl, hfl, hl⟩ := ih (ms.set i m') hset
        exact ⟨y :: fl, Shuffle.cons i y m' hmi hfl, by simp [hy, hl]⟩

/-! ### the goroutine system -/

theorem Sys.step_take {α : Type} {s s1 : Sys α} {i : Nat} (h : s.take i = some s1) :
    ∃ c m, s.writer.inflight = [] ∧ s.senders[i]? = some (c :: m) ∧
      s1.senders = s.senders.set i m ∧ s1.writer.inflight = [c] ∧ s1.out = s.out := by
  unfold Sys.take at h
  split at h
  · rename_i c m hw hs
    cases h
    exact ⟨c, m, by rw [hw]; rfl, hs, rfl, rfl, rfl⟩
  · cases h

theorem Sys.step_write {α : Type} {s s1 : Sys α} (h : s.write = some s1) :
    ∃ c, s.writer.inflight = [c] ∧ s1.senders = s.senders ∧ s1.writer.inflight = [] ∧ s1.out = s.out ++ [c] := by
  unfold Sys.write at h
  split at h
  · rename_i c hw
    cases h
    exact ⟨c, by rw [hw]; rfl, rfl, rfl, rfl⟩
  · cases h

theorem Sys.step_close {α : Type} {s s1 : Sys α} (h : s.close = some s1) :
    s.writer.inflight = [] ∧ s1.senders = s.senders ∧ s1.writer.inflight = [] ∧ s1.out = s.out := by
  unfold Sys.close at h
  split at h
  · rename_i hw
    cases h
    exact ⟨by rw [hw]; rfl, rfl, rfl, rfl⟩
  · cases h

/-- Every run of the goroutine system to quiescence writes, after what was already written and the slice in
flight, an interleaving (`Shuffle`) of the senders' remaining sends: each sender's sends in its program
order, nothing lost, nothing duplicated, nothing else. -/
theorem Sys.exec_shuffle {α : Type} (steps : List Step) : ∀ (s s' : Sys α), s.exec steps = some s' → s'.quiescent = true →
    ∃ l, Shuffle s.senders l ∧ s'.out = s.out ++ s.writer.inflight ++ l := by
  induction steps with
  | nil =>
    intro s s' h hq
    simp only [Sys.exec, Option.some.injEq] at h
    subst h
    simp only [Sys.quiescent, Bool.and_eq_true, List.all_eq_true, List.isEmpty_iff] at hq
    exact ⟨[], Shuffle.nil hq.1, by simp [hq.2]⟩
  | cons st rest ih =>
    intro s s' h hq
    simp only [Sys.exec] at h
    cases hs : s.step st with
    | none => rw [hs] at h; cases h
    | some s1 =>
      rw [hs] at h
      obtain ⟨l, hl, hout⟩ := ih s1 s' h hq
      cases st with
      | take i =>
        obtain ⟨c, m, hw, hi, hsend, hw1, ho1⟩ := Sys.step_take hs
        rw [hsend] at hl
        exact ⟨c :: l, Shuffle.cons i c m hi hl, by rw [hout, hw, hw1, ho1]; simp⟩
      | write =>
        obtain ⟨c, hw, hsend, hw1, ho1⟩ := Sys.step_write hs
        rw [hsend] at hl
        exact ⟨l, hl, by rw [hout, hw, hw1, ho1]; simp⟩
      | close =>
        obtain ⟨hw, hsend, hw1, ho1⟩ := Sys.step_close hs
        rw [hsend] at hl
        exact ⟨l, hl, by rw [hout, hw, hw1, ho1]⟩

/-- Conversely every interleaving is the output of a run (the model does not exclude any order). -/
theorem Sys.shuffle_reachable {α : Type} {ms : List (List α)} {l : List α} (h : Shuffle ms l) :
    ∀ o : List α, ∃ steps s', (Sys.mk ms .idle o).exec steps = some s' ∧ s'.quiescent = true ∧ s'.out = o ++ l := by
  induction h with
  | @nil ms hall =>
    intro o
    refine ⟨[], _, rfl, ?_, by simp⟩
    simp only [Sys.quiescent, Bool.and_eq_true, List.all_eq_true, List.isEmpty_iff]
    exact ⟨hall, rfl⟩
  | @cons ms l i x m hi _ ih =>
    intro o
    obtain ⟨steps, s', he, hq, ho⟩ := ih (o ++ [x])
    refine ⟨.take i :: .write :: steps, s', ?_, hq, by rw [ho]; simp⟩
    simp only [Sys.exec, Sys.step, Sys.take, Sys.write, hi]
    exact he

theorem senderChunks_whole (m : List Frame) : senderChunks true m = m.map encode := by
  induction m with
  | nil => rfl
  | cons f m ih =>
    simp only [senderChunks, List.flatMap_cons, chunksOf, if_true, List.map_cons] at ih ⊢
    rw [ih]; rfl

/-! ### body logger -/

theorem bodyRun_returns (mt : UInt8) (id : Bytes) (rs : List ReadRes) : ∀ ctr, (bodyRun mt id ctr rs).1 = rs := by
  induction rs with
  | nil => intro ctr; rfl
  | cons r rs ih => intro ctr; simp [bodyRun, bodyRead, ih]

theorem bodyRun_length (mt : UInt8) (id : Bytes) (rs : List ReadRes) : ∀ ctr, (bodyRun mt id ctr rs).2.length = rs.length := by
  induction rs with
  | nil => intro ctr; rfl
  | cons r rs ih => intro ctr; simp [bodyRun, bodyRead, ih]

/-- Indices count up from the counter's start while the 32-bit counter has not wrapped. -/
theorem bodyRun_index (mt : UInt8) (id : Bytes) (rs : List ReadRes) :
    ∀ ctr, ctr + rs.length ≤ two32 → (bodyRun mt id ctr rs).2.map Frame.index = List.range' ctr rs.length := by
  induction rs with
  | nil => intro ctr _; rfl
  | cons r rs ih =>
    intro ctr h
    simp only [List.length_cons] at h
    cases rs with
    | nil => simp [bodyRun, bodyRead, Frame.index, List.range']
    | cons r2 rs2 =>
      simp only [List.length_cons] at h ih
      have hlt : ctr + 1 < two32 := by omega
      have := ih (ctr + 1) (by omega)
      simp only [bodyRun, bodyRead, Nat.mod_eq_of_lt hlt, List.map_cons, Frame.index, List.length_cons, List.range'_succ] at this ⊢
      rw [this]

theorem bodyRun_payload (mt : UInt8) (id : Bytes) (rs : List ReadRes) :
    ∀ ctr, (bodyRun mt id ctr rs).2.map Frame.payload = rs.map ReadRes.data := by
  induction rs with
  | nil => intro ctr; rfl
  | cons r rs ih => intro ctr; simp [bodyRun, bodyRead, Frame.payload, ih]

theorem bodyRun_terminal (mt : UInt8) (id : Bytes) (rs : List ReadRes) :
    ∀ ctr, (bodyRun mt id ctr rs).2.map Frame.terminal = rs.map (fun r => r.err == .eof) := by
  induction rs with
  | nil => intro ctr; rfl
  | cons r rs ih => intro ctr; simp [bodyRun, bodyRead, Frame.terminal, ih]

theorem bodyRun_key (mt : UInt8) (id : Bytes) (rs : List ReadRes) :
    ∀ ctr, ∀ f ∈ (bodyRun mt id ctr rs).2, f.key = (id, mt) ∧ f.isData = true := by
  induction rs with
  | nil => intro ctr f hf; simp [bodyRun] at hf
  | cons r rs ih =>
    intro ctr f hf
    simp only [bodyRun, bodyRead, List.mem_cons] at hf
    rcases hf with rfl | hf
    · simp [Frame.key, Frame.isData]
    · exact ih _ f hf

theorem bodyRun_valid (mt : UInt8) (id : Bytes) (hid : id.length = 8) (rs : List ReadRes)
    (hd : ∀ r ∈ rs, r.data.length < two32) :
    ∀ ctr, ctr < two32 → ∀ f ∈ (bodyRun mt id ctr rs).2, f.Valid := by
  induction rs with
  | nil => intro ctr _ f hf; simp [bodyRun] at hf
  | cons r rs ih =>
    intro ctr hc f hf
    simp only [bodyRun, bodyRead, List.mem_cons] at hf
    rcases hf with rfl | hf
    · exact ⟨hid, hc, hd r (by simp)⟩
    · exact ih (fun r' hr' => hd r' (by simp [hr'])) _ (Nat.mod_lt _ (by decide)) f hf

/-- With `Close` the pass-through it is, the wrapper returns for every call what the wrapped body returns, and
the frames are those of the reads alone: `Close` calls, wherever they fall, change nothing. -/
theorem callRun_spec (mt : UInt8) (id : Bytes) (cs : List Call) : ∀ ctr closed,
    (callRun false mt id ctr closed cs).1 = cs ∧
    (callRun false mt id ctr closed cs).2 = (bodyRun mt id ctr (Call.reads cs)).2 := by
  induction cs with
  | nil => intro ctr closed; exact ⟨rfl, rfl⟩
  | cons c cs ih =>
    intro ctr closed
    cases c with
    | read r =>
      have := ih ((ctr + 1) % two32) closed
      simp [callRun, bodyRead, Call.reads, bodyRun, this.1, this.2]
    | close e =>
      have := ih ctr true
      simp [callRun, Call.reads, this.1, this.2]

/-! ## buffers handed to the writer -/

/-- `Alloc.fresh` (a `make` per frame): the retaining writer's view stays equal to the copying
writer's, and every reference it holds is a buffer of the heap. -/
structure WState.Ok (s : WState) : Prop where
  view : s.retained = s.copied
  inRange : ∀ i ∈ s.kept, i < s.heap.length

theorem sendFrame_fresh_copied (s : WState) (f : Bytes) : (sendFrame .fresh s f).copied = s.copied ++ [f] := by
  simp [sendFrame]

theorem sendFrame_fresh_ok (s : WState) (f : Bytes) (h : s.Ok) : (sendFrame .fresh s f).Ok := by
  constructor
  · have hv := h.view
    simp only [sendFrame, WState.retained, List.map_append, List.map_cons, List.map_nil] at hv ⊢
    rw [← hv]
    congr 1
    · apply List.map_congr_left
      intro i hi
      rw [List.getElem?_append_left (h.inRange i hi)]
    · simp
  · intro i hi
    simp only [sendFrame, List.mem_append, List.mem_singleton, List.length_append, List.length_cons, List.length_nil] at hi ⊢
    rcases hi with hi | hi
    · have := h.inRange i hi; omega
    · omega

theorem foldl_sendFrame_fresh (fs : List Bytes) : ∀ s : WState, s.Ok →
    (fs.foldl (sendFrame .fresh) s).Ok ∧ (fs.foldl (sendFrame .fresh) s).copied = s.copied ++ fs := by
  induction fs with
  | nil => intro s h; simp [h]
  | cons f fs ih =>
    intro s h
    have := ih (sendFrame .fresh s f) (sendFrame_fresh_ok s f h)
    simp only [List.foldl_cons]
    refine ⟨this.1, ?_⟩
    rw [this.2, sendFrame_fresh_copied]; simp

theorem sendAll_fresh_retained (fs : List Bytes) : (sendAll .fresh fs).retained = fs := by
  have h0 : ({} : WState).Ok := ⟨by simp [WState.retained], by simp⟩
  have := foldl_sendFrame_fresh fs {} h0
  unfold sendAll
  rw [this.1.view, this.2]; simp

end Martian.Marbl
