import Martian.Lemmas.Shape
/-! Helper lemmas for the interleaved histories of C18 (core Lean only). -/
namespace Martian.Shape
open Martian Martian.Go

/-! ### One round, whatever the listener looks like -/

/-- Whatever a round does, what it delivers are the next bytes of the call; a round that ends the
call with `ok` has delivered all of them. -/
def DelOK (s : Loop) (b : Bytes) : StepRes → Prop
  | .cont s' b' => ∃ m, m ≤ b.length ∧ s'.delivered = s.delivered ++ b.take m ∧ b' = b.drop m
  | .done s' st => ∃ m, m ≤ b.length ∧ s'.delivered = s.delivered ++ b.take m ∧ (st = .ok → m = b.length)

theorem stepLoop_delivered (valid : Bool) (cap : Nat) (s : Loop) (b : Bytes) :
    DelOK s b (stepLoop valid cap s b) := by
  unfold stepLoop
  simp only
  generalize hm : min (cap + 1) (amount b.length s.off s.next).toNat = m
  have hmle : m ≤ b.length := by
    have : amount b.length s.off s.next ≤ (b.length : Int) := by
      unfold amount; split <;> (try split) <;> omega
    omega
  split
  · exact ⟨0, by omega, by simp, by intro h; cases h⟩
  · split
    · exact ⟨m, hmle, rfl, rfl⟩
    · split
      · split
        · refine ⟨b.length, Nat.le_refl _, ?_, by intro _; rfl⟩
          simp only [List.append_assoc, List.take_append_drop, List.take_length]
        · split
          · exact ⟨m, hmle, rfl, by intro h; cases h⟩
          · split
            · split
              · exact ⟨m, hmle, rfl, rfl⟩
              · exact ⟨m, hmle, rfl, by intro h; cases h⟩
              · exact ⟨m, hmle, rfl, rfl⟩
            · exact ⟨m, hmle, rfl, rfl⟩
      · exact ⟨m, hmle, rfl, rfl⟩

theorem beginWrite_split (c : Conn) (b : Bytes) :
    (beginWrite c b).2.delivered ++ (beginWrite c b).2.rest = b ∧ (beginWrite c b).2.evs = [] := by
  unfold beginWrite
  split <;> simp

theorem beginWrite_established (c : Conn) (b : Bytes) : (beginWrite c b).1.established = c.established := by
  unfold beginWrite
  split <;> rfl

theorem setContext_established (l : Listener) (c : Conn) (u : Option Nat) (rs hl : Int) (f : Option Int) :
    (setContext l c u rs hl f).established = c.established := by
  unfold setContext
  split
  · rfl
  · split
    · rfl
    · split <;> rfl

theorem applyCap_established (c : Conn) (r : Nat) (x : Option Int) : (applyCap c r x).established = c.established := by
  unfold applyCap
  split <;> rfl

theorem setShapeActions_lastMod (l : Listener) (r : Nat) (acts : List Action) :
    (setShapeActions l r acts).lastMod = l.lastMod ∧ (setShapeActions l r acts).clock = l.clock := by
  unfold setShapeActions
  split <;> exact ⟨rfl, rfl⟩

/-- What every round guarantees, with no assumption on the state. -/
def RoundOK (l : Listener) (c : Conn) (pd : Pending) (r : Listener × Conn × Pending × Option Status) : Prop :=
  (∃ m, m ≤ pd.rest.length ∧ r.2.2.1.delivered = pd.delivered ++ pd.rest.take m ∧
    (r.2.2.2 = none → r.2.2.1.rest = pd.rest.drop m) ∧ (r.2.2.2 = some .ok → m = pd.rest.length)) ∧
  r.2.1.established = c.established ∧ r.1.lastMod = l.lastMod ∧ r.1.clock = l.clock

theorem roundStep_basic (cap : Nat) (l : Listener) (c : Conn) (pd : Pending) :
    RoundOK l c pd (roundStep cap l c pd) := by
  unfold roundStep
  by_cases he : pd.rest.isEmpty = true
  · simp only [he, if_true]
    have : pd.rest = [] := by simpa using he
    refine ⟨⟨0, by omega, by simp, ?_, ?_⟩, rfl, rfl, rfl⟩
    · intro h; cases h
    · intro _; simp [this]
  · simp only [he, Bool.false_eq_true, if_false]
    have flushOK : RoundOK l c pd
        (l, c, { pd with rest := [], delivered := pd.delivered ++ pd.rest, round := pd.round + 1 }, some .ok) := by
      refine ⟨⟨pd.rest.length, Nat.le_refl _, by simp, ?_, ?_⟩, rfl, rfl, rfl⟩
      · intro h; cases h
      · intro _; rfl
    split
    · exact flushOK
    · split
      · exact flushOK
      · rename_i r _
        have key : ∀ (v : Bool) (acts : List Action) (l0 : List Action → Listener),
            (∀ a, (l0 a).lastMod = l.lastMod ∧ (l0 a).clock = l.clock) →
            RoundOK l c pd
              (match stepLoop v cap { off := c.ctx.off, next := c.ctx.next, acts := acts, delivered := pd.delivered, evs := pd.evs } pd.rest with
               | .cont s' b' =>
                 (l0 s'.acts,
                  applyCap { c with ctx := { c.ctx with off := s'.off, next := s'.next, shaping := s'.shaping } } r s'.cap,
                  { rest := b', delivered := s'.delivered, evs := s'.evs, round := pd.round + 1 }, none)
               | .done s' st =>
                 (l0 s'.acts,
                  applyCap { c with ctx := { c.ctx with off := s'.off, next := s'.next, shaping := s'.shaping } } r s'.cap,
                  { rest := [], delivered := s'.delivered, evs := s'.evs, round := pd.round + 1 }, some st)) := by
          intro v acts l0 hl
          have sd := stepLoop_delivered v cap
            { off := c.ctx.off, next := c.ctx.next, acts := acts, delivered := pd.delivered, evs := pd.evs } pd.rest
          cases hst : stepLoop v cap { off := c.ctx.off, next := c.ctx.next, acts := acts, delivered := pd.delivered, evs := pd.evs } pd.rest with
          | cont s' b' =>
            rw [hst] at sd
            obtain ⟨m, h1, h2, h3⟩ := sd
            refine ⟨⟨m, h1, h2, ?_, ?_⟩, ?_, (hl _).1, (hl _).2⟩
            · intro _; exact h3
            · intro h; cases h
            · simp only [applyCap_established]
          | done s' st =>
            rw [hst] at sd
            obtain ⟨m, h1, h2, h3⟩ := sd
            refine ⟨⟨m, h1, h2, ?_, ?_⟩, ?_, (hl _).1, (hl _).2⟩
            · intro h; cases h
            · intro h; exact h3 (by simpa using h)
            · simp only [applyCap_established]
        cases hv : validShape l c r with
        | none =>
          simp only [Option.isSome_none, Bool.false_eq_true, if_false]
          exact key false [] (fun _ => l) (by intro _; exact ⟨rfl, rfl⟩)
        | some sh =>
          simp only [Option.isSome_some, if_true]
          exact key true sh.actions (fun a => setShapeActions l r a) (by intro a; exact setShapeActions_lastMod l r a)

/-- A round of a connection that the current shapes do not apply to (accepted before the last
configuration, or its pattern is gone): no action, the listener untouched. -/
theorem roundStep_stale (cap : Nat) (l : Listener) (c : Conn) (pd : Pending)
    (h : ∀ r, validShape l c r = none) :
    (roundStep cap l c pd).1 = l ∧ (roundStep cap l c pd).2.2.1.evs = pd.evs := by
  unfold roundStep
  by_cases he : pd.rest.isEmpty = true
  · simp [he]
  · simp only [he, Bool.false_eq_true, if_false]
    split
    · simp
    · split
      · simp
      · rename_i r _
        simp only [h r, Option.isSome_none, Bool.false_eq_true, if_false]
        have si := step_invalid cap
          { off := c.ctx.off, next := c.ctx.next, acts := [], delivered := pd.delivered, evs := pd.evs } pd.rest
        split
        · rename_i s' b' hst
          rw [hst] at si
          exact ⟨rfl, by simpa [StepRes.loop] using si.1⟩
        · rename_i s' st hst
          rw [hst] at si
          exact ⟨rfl, by simpa [StepRes.loop] using si.1⟩

/-! ### Invariants of the world -/

/-- Per connection: what reached the client is a prefix of what was written; as long as no call
was cut, delivered ++ still-pending = written. -/
def ConnOK (ic : IConn) : Prop :=
  ic.delivered <+: ic.written ∧ (ic.dead = false → ic.delivered ++ ic.rest = ic.written) ∧
  (ic.pend.isSome = true → ic.dead = false)

theorem mem_set_cases {α : Type} {l : List α} {i : Nat} {x a : α} (h : a ∈ l.set i x) : a ∈ l ∨ a = x :=
  List.mem_or_eq_of_mem_set h

theorem step_connOK (w : World) (st : Step) (h : ∀ ic ∈ w.conns, ConnOK ic) : ∀ ic ∈ (w.step st).conns, ConnOK ic := by
  cases st with
  | configure cfg => exact h
  | accept =>
    intro ic hic
    simp only [World.step, List.mem_append, List.mem_singleton] at hic
    rcases hic with hic | rfl
    · exact h ic hic
    · exact ⟨by simp [IConn.delivered], by intro _; simp [IConn.delivered, IConn.rest], by intro h; cases h⟩
  | setCtx i u rs hl f =>
    intro ic hic
    simp only [World.step] at hic
    split at hic
    · exact h ic hic
    · rename_i ic0 hget
      split at hic
      · exact h ic hic
      · rcases mem_set_cases hic with hic | rfl
        · exact h ic hic
        · exact h ic0 (List.mem_of_getElem? hget)
  | «begin» i b =>
    intro ic hic
    simp only [World.step] at hic
    split at hic
    · exact h ic hic
    · rename_i ic0 hget
      split at hic
      · exact h ic hic
      · rename_i hcond
        rcases mem_set_cases hic with hic | rfl
        · exact h ic hic
        · have h0 := h ic0 (List.mem_of_getElem? hget)
          have hd : ic0.dead = false := by
            cases hdd : ic0.dead <;> simp_all
          have hp : ic0.pend = none := by
            cases hpp : ic0.pend <;> simp_all
          have hw : ic0.out = ic0.written := by
            have := h0.2.1 hd
            simpa [IConn.delivered, IConn.rest, hp] using this
          have sp := beginWrite_split ic0.c b
          refine ⟨?_, ?_, by intro _; exact hd⟩
          · refine ⟨(beginWrite ic0.c b).2.rest, ?_⟩
            simp only [IConn.delivered, List.append_assoc, sp.1, hw]
          · intro _
            simp only [IConn.delivered, IConn.rest, List.append_assoc, sp.1, hw]
  | round i cap =>
    intro ic hic
    simp only [World.step] at hic
    split at hic
    · exact h ic hic
    · rename_i ic0 hget
      have h0 := h ic0 (List.mem_of_getElem? hget)
      split at hic
      · exact h ic hic
      · rename_i pd hpd
        have hd : ic0.dead = false := h0.2.2 (by simp [hpd])
        have hall := h0.2.1 hd
        simp only [IConn.delivered, IConn.rest, hpd] at hall
        obtain ⟨⟨m, hm1, hm2, hm3, hm4⟩, _⟩ := roundStep_basic cap w.l ic0.c pd
        have hsplit : pd.rest = pd.rest.take m ++ pd.rest.drop m := (List.take_append_drop m pd.rest).symm
        split at hic
        · rename_i l' c' pd' heq
          rw [heq] at hm2 hm3
          simp only at hm2 hm3 hic
          rcases mem_set_cases hic with hic | rfl
          · exact h ic hic
          · refine ⟨?_, ?_, by intro _; exact hd⟩
            · refine ⟨pd.rest.drop m, ?_⟩
              simp only [IConn.delivered, hm2, List.append_assoc, List.take_append_drop]
              simpa [List.append_assoc] using hall
            · intro _
              simp only [IConn.delivered, IConn.rest, hm2, hm3 trivial, List.append_assoc, List.take_append_drop]
              simpa [List.append_assoc] using hall
        · rename_i l' c' pd' st heq
          rw [heq] at hm2 hm4
          simp only at hm2 hm4 hic
          rcases mem_set_cases hic with hic | rfl
          · exact h ic hic
          · refine ⟨?_, ?_, by intro h; cases h⟩
            · refine ⟨pd.rest.drop m, ?_⟩
              simp only [IConn.delivered, hm2, List.append_assoc, List.append_nil, List.take_append_drop]
              simpa [List.append_assoc] using hall
            · intro hdead
              simp only [hd, Bool.false_or, decide_eq_false_iff_not, Decidable.not_not] at hdead
              subst hdead
              have := hm4 rfl
              subst this
              simp only [IConn.delivered, IConn.rest, hm2, List.append_assoc, List.append_nil, List.take_length]
              simpa [List.append_assoc] using hall

theorem run_connOK : ∀ (steps : List Step) (w : World), (∀ ic ∈ w.conns, ConnOK ic) →
    ∀ ic ∈ (w.run steps).conns, ConnOK ic
  | [], _, h => h
  | s :: rest, w, h => by
    unfold World.run
    simp only [List.foldl_cons]
    exact run_connOK rest (w.step s) (step_connOK w s h)

/-! ### Time stamps: a configuration is newer than every connection that exists when it is swapped in -/

/-- The logical clock is ahead of every time stamp handed out so far. -/
def ClockOK (w : World) : Prop :=
  w.l.lastMod < w.l.clock ∧ ∀ ic ∈ w.conns, ic.c.established < w.l.clock

theorem configureSt_clock (l : Listener) (cfg : RawConfig) :
    ((configureSt l cfg).1 = l) ∨
    ((configureSt l cfg).1.lastMod = l.clock ∧ (configureSt l cfg).1.clock = l.clock + 1) := by
  unfold configureSt
  cases hc : configure l cfg with
  | error e => left; rfl
  | ok l' =>
    right
    unfold configure at hc
    simp only at hc
    split at hc
    · cases hc
    · split at hc
      · cases hc
      · cases hc; exact ⟨rfl, rfl⟩

macro "domega" : tactic => `(tactic| first | omega | (dsimp only; omega) | (simp only []; omega))

theorem step_clockOK (w : World) (st : Step) (h : ClockOK w) :
    ClockOK (w.step st) ∧ w.l.lastMod ≤ (w.step st).l.lastMod := by
  obtain ⟨h1, h2⟩ := h
  cases st with
  | configure cfg =>
    simp only [World.step]
    rcases configureSt_clock w.l cfg with he | ⟨ha, hb⟩
    · rw [he]; exact ⟨⟨h1, h2⟩, Nat.le_refl _⟩
    · refine ⟨⟨by rw [ha, hb]; domega, ?_⟩, by rw [ha]; domega⟩
      intro ic hic; have := h2 ic hic; rw [hb]; domega
  | accept =>
    simp only [World.step, accept]
    refine ⟨⟨by domega, ?_⟩, Nat.le_refl _⟩
    intro ic hic
    simp only [List.mem_append, List.mem_singleton] at hic
    rcases hic with hic | rfl
    · have := h2 ic hic; domega
    · simp
  | setCtx i u rs hl f =>
    simp only [World.step]
    split
    · exact ⟨⟨h1, h2⟩, Nat.le_refl _⟩
    · rename_i ic0 hget
      split
      · exact ⟨⟨h1, h2⟩, Nat.le_refl _⟩
      · refine ⟨⟨h1, ?_⟩, Nat.le_refl _⟩
        intro ic hic
        rcases mem_set_cases hic with hic | rfl
        · exact h2 ic hic
        · simp only [setContext_established]; exact h2 ic0 (List.mem_of_getElem? hget)
  | «begin» i b =>
    simp only [World.step]
    split
    · exact ⟨⟨h1, h2⟩, Nat.le_refl _⟩
    · rename_i ic0 hget
      split
      · exact ⟨⟨h1, h2⟩, Nat.le_refl _⟩
      · refine ⟨⟨h1, ?_⟩, Nat.le_refl _⟩
        intro ic hic
        rcases mem_set_cases hic with hic | rfl
        · exact h2 ic hic
        · simp only [beginWrite_established]; exact h2 ic0 (List.mem_of_getElem? hget)
  | round i cap =>
    simp only [World.step]
    split
    · exact ⟨⟨h1, h2⟩, Nat.le_refl _⟩
    · rename_i ic0 hget
      split
      · exact ⟨⟨h1, h2⟩, Nat.le_refl _⟩
      · rename_i pd hpd
        obtain ⟨_, he, hlm, hck⟩ := roundStep_basic cap w.l ic0.c pd
        have h0 := h2 ic0 (List.mem_of_getElem? hget)
        split
        · rename_i l' c' pd' heq
          rw [heq] at he hlm hck
          simp only at he hlm hck ⊢
          refine ⟨⟨by domega, ?_⟩, by domega⟩
          intro ic hic
          rcases mem_set_cases hic with hic | rfl
          · have := h2 ic hic; domega
          · simp only [he]; domega
        · rename_i l' c' pd' st heq
          rw [heq] at he hlm hck
          simp only at he hlm hck ⊢
          refine ⟨⟨by domega, ?_⟩, by domega⟩
          intro ic hic
          rcases mem_set_cases hic with hic | rfl
          · have := h2 ic hic; domega
          · simp only [he]; domega

theorem run_clockOK : ∀ (steps : List Step) (w : World), ClockOK w → ClockOK (w.run steps)
  | [], _, h => h
  | s :: rest, w, h => by
    unfold World.run
    simp only [List.foldl_cons]
    exact run_clockOK rest (w.step s) (step_clockOK w s h).1

theorem clockOK_init : ClockOK {} := ⟨by decide, by intro ic h; cases h⟩

/-- Connection `i` exists, was accepted at `e`, performed the actions `evs` so far, and the current
shapes are newer than it. -/
def OldAt (w : World) (i : Nat) (e : Nat) (evs : List Ev) : Prop :=
  ∃ ic, w.conns[i]? = some ic ∧ ic.c.established = e ∧ ic.events = evs ∧ e ≤ w.l.lastMod

theorem validShape_old (l : Listener) (c : Conn) (h : c.established ≤ l.lastMod) : ∀ r, validShape l c r = none := by
  intro r; unfold validShape
  split
  · omega
  · rfl

theorem getElem?_set_self' {α : Type} (l : List α) (i : Nat) (x y : α) (h : l[i]? = some y) : (l.set i x)[i]? = some x := by
  have : i < l.length := by
    rcases Nat.lt_or_ge i l.length with h' | h'
    · exact h'
    · rw [List.getElem?_eq_none h'] at h; cases h
  simp [List.getElem?_set, this]

/-- Once the shapes are newer than a connection, no step makes that connection perform an action. -/
theorem step_oldAt (w : World) (st : Step) (hc : ClockOK w) (i e : Nat) (evs : List Ev) (h : OldAt w i e evs) :
    OldAt (w.step st) i e evs := by
  obtain ⟨ic, hget, hest, hev, hle⟩ := h
  have hmono := (step_clockOK w st hc).2
  have keep : ∀ (w' : World), w'.conns[i]? = some ic → w.l.lastMod ≤ w'.l.lastMod → OldAt w' i e evs := by
    intro w' h1 h2; exact ⟨ic, h1, hest, hev, by omega⟩
  cases st with
  | configure cfg => exact keep _ (by simpa [World.step] using hget) hmono
  | accept =>
    apply keep _ _ hmono
    simp only [World.step]
    have hi : i < w.conns.length := by
      rcases Nat.lt_or_ge i w.conns.length with h' | h'
      · exact h'
      · rw [List.getElem?_eq_none h'] at hget; cases hget
    rw [List.getElem?_append_left hi]; exact hget
  | setCtx j u rs hl f =>
    by_cases hj : j = i
    · subst hj
      simp only [World.step, hget]
      split
      · exact keep _ hget (Nat.le_refl _)
      · refine ⟨_, getElem?_set_self' _ _ _ _ hget, ?_, ?_, hle⟩
        · simp only [setContext_established]; exact hest
        · simpa [IConn.events] using hev
    · have hmono' := hmono
      apply keep _ _ hmono'
      simp only [World.step]
      split
      · exact hget
      · split
        · exact hget
        · simp only [List.getElem?_set_ne hj]; exact hget
  | «begin» j b =>
    by_cases hj : j = i
    · subst hj
      simp only [World.step, hget]
      split
      · exact keep _ hget (Nat.le_refl _)
      · rename_i hcond
        have hp : ic.pend = none := by
          cases hpp : ic.pend <;> simp_all
        refine ⟨_, getElem?_set_self' _ _ _ _ hget, ?_, ?_, hle⟩
        · simp only [beginWrite_established]; exact hest
        · simp only [IConn.events, (beginWrite_split ic.c b).2, List.append_nil]
          simpa [IConn.events, hp] using hev
    · apply keep _ _ hmono
      simp only [World.step]
      split
      · exact hget
      · split
        · exact hget
        · simp only [List.getElem?_set_ne hj]; exact hget
  | round j cap =>
    by_cases hj : j = i
    · subst hj
      simp only [World.step, hget]
      split
      · exact keep _ hget (Nat.le_refl _)
      · rename_i pd hpd
        have hold := validShape_old w.l ic.c (by omega)
        have hs := roundStep_stale cap w.l ic.c pd hold
        obtain ⟨_, he, _, _⟩ := roundStep_basic cap w.l ic.c pd
        split
        · rename_i l' c' pd' heq
          rw [heq] at hs he
          simp only at hs he
          refine ⟨_, getElem?_set_self' _ _ _ _ hget, by simp only [he]; exact hest, ?_, by rw [hs.1]; exact hle⟩
          simp only [IConn.events, hs.2]
          simpa [IConn.events, hpd] using hev
        · rename_i l' c' pd' st heq
          rw [heq] at hs he
          simp only at hs he
          refine ⟨_, getElem?_set_self' _ _ _ _ hget, by simp only [he]; exact hest, ?_, by rw [hs.1]; exact hle⟩
          simp only [IConn.events, hs.2, List.append_nil]
          simpa [IConn.events, hpd] using hev
    · apply keep _ _ hmono
      simp only [World.step]
      split
      · exact hget
      · split
        · exact hget
        · split
          · simp only [List.getElem?_set_ne hj]; exact hget
          · simp only [List.getElem?_set_ne hj]; exact hget

theorem run_oldAt : ∀ (steps : List Step) (w : World), ClockOK w → ∀ (i e : Nat) (evs : List Ev),
    OldAt w i e evs → OldAt (w.run steps) i e evs
  | [], _, _, _, _, _, h => h
  | s :: rest, w, hc, i, e, evs, h => by
    unfold World.run
    simp only [List.foldl_cons]
    exact run_oldAt rest (w.step s) (step_clockOK w s hc).1 i e evs (step_oldAt w s hc i e evs h)

theorem configure_ok_lastMod (l l' : Listener) (cfg : RawConfig) (h : configure l cfg = .ok l') :
    l'.lastMod = l.clock ∧ (configureSt l cfg).1 = l' := by
  refine ⟨?_, by simp [configureSt, h]⟩
  unfold configure at h
  simp only at h
  split at h
  · cases h
  · split at h
    · cases h
    · cases h; rfl

end Martian.Shape
