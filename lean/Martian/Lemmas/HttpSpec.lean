import Martian.Model.HttpSpec
/-!
Helper lemmas for C14: byte tables (by `decide` over the 256 bytes — finite tables), the
`http.Header` algebra (`index`/`delete`/`assign`/`set`/`del`), hop-by-hop removal as a filter,
the members of the stack one by one, and the unfolding of the generated stack order.
Core-only.
-/
namespace Martian.HttpSpec
open Martian Martian.Go Martian.Go.Header

/-! ### finite byte tables -/

theorem byte_forall {p : UInt8 → Prop} (h : ∀ n : Fin 256, p (UInt8.ofNat n.val)) : ∀ c : UInt8, p c := by
  intro c
  have := h ⟨c.toNat, c.toNat_lt⟩
  simpa using this

set_option maxRecDepth 100000 in
theorem toUpperB_idem : ∀ c : UInt8, toUpperB (toUpperB c) = toUpperB c := by
  apply byte_forall; decide
set_option maxRecDepth 100000 in
theorem toLowerB_idem : ∀ c : UInt8, toLowerB (toLowerB c) = toLowerB c := by
  apply byte_forall; decide
set_option maxRecDepth 100000 in
theorem toUpperB_toLowerB : ∀ c : UInt8, toUpperB (toLowerB c) = toUpperB c := by
  apply byte_forall; decide
set_option maxRecDepth 100000 in
theorem toUpperB_toUpperB' : ∀ c : UInt8, toUpperB (toUpperB c) = toUpperB c := toUpperB_idem
set_option maxRecDepth 100000 in
theorem toLowerB_toUpperB : ∀ c : UInt8, toLowerB (toUpperB c) = toLowerB c := by
  apply byte_forall; decide
set_option maxRecDepth 100000 in
theorem valid_toUpperB : ∀ c : UInt8, validHeaderFieldByte (toUpperB c) = validHeaderFieldByte c := by
  apply byte_forall; decide
set_option maxRecDepth 100000 in
theorem valid_toLowerB : ∀ c : UInt8, validHeaderFieldByte (toLowerB c) = validHeaderFieldByte c := by
  apply byte_forall; decide

/-! ### `CanonicalHeaderKey` -/

theorem canonLoop_all_valid (s : Bytes) : ∀ up, (canonLoop up s).all validHeaderFieldByte = s.all validHeaderFieldByte := by
  induction s with
  | nil => intro up; simp [canonLoop]
  | cons c r ih =>
    intro up
    simp only [canonLoop, List.all_cons, ih]
    cases up <;> simp [valid_toUpperB, valid_toLowerB]

theorem canonLoop_idem (s : Bytes) : ∀ up, canonLoop up (canonLoop up s) = canonLoop up s := by
  induction s with
  | nil => intro up; simp [canonLoop]
  | cons c r ih =>
    intro up
    cases up <;> simp [canonLoop, toUpperB_idem, toLowerB_idem, ih]

/-- `CanonicalHeaderKey` is idempotent. -/
theorem canonKey_idem (s : Bytes) : canonKey (canonKey s) = canonKey s := by
  unfold canonKey
  by_cases h : s.all validHeaderFieldByte = true
  · simp [h, canonLoop_all_valid, canonLoop_idem]
  · simp [h]

theorem canonLoop_toLower (s : Bytes) : ∀ up, canonLoop up (s.map toLowerB) = canonLoop up s := by
  induction s with
  | nil => intro up; simp [canonLoop]
  | cons c r ih =>
    intro up
    cases up <;> simp [canonLoop, toUpperB_toLowerB, toLowerB_idem, ih]

theorem canonKey_toLower (s : Bytes) (hs : s.all validHeaderFieldByte = true) : canonKey (toLower s) = canonKey s := by
  have : (s.map toLowerB).all validHeaderFieldByte = true := by
    rw [List.all_map]
    rw [List.all_eq_true] at hs ⊢
    intro c hc
    simpa [valid_toLowerB] using hs c hc
  simp [canonKey, toLower, hs, this, canonLoop_toLower]

/-- "In any case": two names that differ only in letter case have the same canonical key (the
key under which net/http stores the header), provided one of them is a token. -/
theorem canonKey_eq_of_toLower_eq (name tok : Bytes) (hn : name.all validHeaderFieldByte = true)
    (hc : toLower tok = toLower name) : canonKey tok = canonKey name := by
  have ht : tok.all validHeaderFieldByte = true := by
    have h1 : (toLower tok).all validHeaderFieldByte = tok.all validHeaderFieldByte := by
      simp only [toLower, List.all_map]; congr 1; funext c; simp [valid_toLowerB]
    have h2 : (toLower name).all validHeaderFieldByte = name.all validHeaderFieldByte := by
      simp only [toLower, List.all_map]; congr 1; funext c; simp [valid_toLowerB]
    rw [← h1, hc, h2, hn]
  rw [← canonKey_toLower tok ht, hc, canonKey_toLower name hn]

/-! ### header algebra -/

theorem mem_keys_delete {h : Header} {k k' : Bytes} : k' ∈ keys (delete h k) ↔ k' ∈ keys h ∧ k' ≠ k := by
  simp only [keys, delete, List.mem_map, List.mem_filter]
  constructor
  · rintro ⟨e, ⟨he, hne⟩, rfl⟩
    exact ⟨⟨e, he, rfl⟩, by simpa using hne⟩
  · rintro ⟨⟨e, he, rfl⟩, hne⟩
    exact ⟨e, ⟨he, by simpa using hne⟩, rfl⟩

@[simp] theorem index_nil (k : Bytes) : index [] k = [] := rfl

theorem index_cons (e : Bytes × List Bytes) (r : Header) (k : Bytes) :
    index (e :: r) k = if e.1 = k then e.2 else index r k := by
  unfold index
  by_cases hk : e.1 = k
  · subst hk
    simp only [List.find?_cons, BEq.rfl, if_true]
  · have : (e.1 == k) = false := by simpa using hk
    simp only [List.find?_cons, this, hk, if_false]

@[simp] theorem keys_nil : keys ([] : Header) = [] := rfl
@[simp] theorem keys_cons (e : Bytes × List Bytes) (r : Header) : keys (e :: r) = e.1 :: keys r := rfl

theorem index_filter_of_keep {h : Header} {p : Bytes × List Bytes → Bool} {k : Bytes}
    (hp : ∀ e ∈ h, e.1 = k → p e = true) : index (h.filter p) k = index h k := by
  induction h with
  | nil => rfl
  | cons e r ih =>
    have ihr := ih (fun e' he' => hp e' (List.mem_cons_of_mem _ he'))
    by_cases hk : e.1 = k
    · have hpe := hp e (List.mem_cons_self) hk
      rw [List.filter_cons, if_pos hpe, index_cons, index_cons, if_pos hk, if_pos hk]
    · by_cases hpe : p e = true
      · rw [List.filter_cons, if_pos hpe, index_cons, index_cons, if_neg hk, if_neg hk]
        exact ihr
      · rw [List.filter_cons, if_neg hpe, index_cons, if_neg hk]
        exact ihr

theorem index_of_not_mem_keys {h : Header} {k : Bytes} (hk : k ∉ keys h) : index h k = [] := by
  induction h with
  | nil => rfl
  | cons e r ih =>
    rw [keys_cons, List.mem_cons, not_or] at hk
    have hne : ¬ e.1 = k := fun h' => hk.1 h'.symm
    rw [index_cons, if_neg hne]
    exact ih hk.2

theorem index_delete (h : Header) (k k' : Bytes) :
    index (delete h k) k' = if k' = k then [] else index h k' := by
  by_cases hk : k' = k
  · subst hk
    simp only [if_true]
    apply index_of_not_mem_keys
    intro hm
    exact (mem_keys_delete.mp hm).2 rfl
  · simp only [hk, if_false]
    apply index_filter_of_keep
    intro e _ he
    subst he
    simpa using hk

theorem index_append (h g : Header) (k : Bytes) :
    index (h ++ g) k = if k ∈ keys h then index h k else index g k := by
  induction h with
  | nil => simp
  | cons e r ih =>
    by_cases hk : e.1 = k
    · rw [List.cons_append, index_cons, index_cons, if_pos hk, if_pos hk, keys_cons, if_pos (by simp [hk])]
    · have hne : ¬ k = e.1 := fun h' => hk h'.symm
      rw [List.cons_append, index_cons, index_cons, if_neg hk, if_neg hk, ih, keys_cons]
      simp only [List.mem_cons, hne, false_or]

theorem index_assign (h : Header) (k k' : Bytes) (vs : List Bytes) :
    index (assign h k vs) k' = if k' = k then vs else index h k' := by
  unfold assign
  rw [index_append]
  by_cases hk : k' = k
  · subst hk
    have : k' ∉ keys (delete h k') := fun hm => (mem_keys_delete.mp hm).2 rfl
    rw [if_neg this, index_cons]
    simp
  · simp only [hk, if_false]
    by_cases hm : k' ∈ keys (delete h k)
    · rw [if_pos hm, index_delete, if_neg hk]
    · rw [if_neg hm]
      have hne : ¬ k = k' := fun h' => hk h'.symm
      have : k' ∉ keys h := fun h' => hm (mem_keys_delete.mpr ⟨h', hk⟩)
      rw [index_cons, if_neg hne, index_of_not_mem_keys this]
      rfl

theorem mem_keys_assign {h : Header} {k k' : Bytes} {vs : List Bytes} :
    k' ∈ keys (assign h k vs) ↔ k' = k ∨ k' ∈ keys h := by
  unfold assign
  simp only [keys, List.map_append, List.mem_append, List.map_cons, List.map_nil, List.mem_singleton]
  have := @mem_keys_delete h k k'
  simp only [keys] at this
  rw [this]
  by_cases hk : k' = k <;> simp [hk]

theorem index_set (h : Header) (k v k' : Bytes) :
    index (set h k v) k' = if k' = canonKey k then [v] else index h k' := index_assign _ _ _ _

theorem index_del (h : Header) (k k' : Bytes) :
    index (del h k) k' = if k' = canonKey k then [] else index h k' := index_delete _ _ _

theorem mem_keys_set {h : Header} {k v k' : Bytes} :
    k' ∈ keys (set h k v) ↔ k' = canonKey k ∨ k' ∈ keys h := mem_keys_assign

theorem mem_keys_del {h : Header} {k k' : Bytes} :
    k' ∈ keys (del h k) ↔ k' ∈ keys h ∧ k' ≠ canonKey k := mem_keys_delete

/-- Several deletions are one filter: order and values of everything else are kept. -/
theorem foldl_del_eq_filter (ks : List Bytes) : ∀ h : Header,
    ks.foldl del h = h.filter (fun e => !(ks.map canonKey).contains e.1) := by
  induction ks with
  | nil => intro h; exact (List.filter_eq_self.mpr (by simp)).symm
  | cons k r ih =>
    intro h
    simp only [List.foldl_cons, ih, del, delete, List.filter_filter, List.map_cons, List.contains_cons]
    congr 1
    funext e
    cases (e.1 == canonKey k) <;> simp

/-! ### constants -/

theorem canon_kVia : canonKey kVia = kVia := by decide
theorem canon_kCL : canonKey kCL = kCL := by decide
theorem canon_kTE : canonKey kTE = kTE := by decide
theorem canon_kXFF : canonKey kXFF = kXFF := by decide
theorem canon_kXFProto : canonKey kXFProto = kXFProto := by decide
theorem canon_kXFHost : canonKey kXFHost = kXFHost := by decide
theorem canon_kXFUrl : canonKey kXFUrl = kXFUrl := by decide

/-- The headers the stack itself writes (stamps). -/
def stampedKeys : List Bytes := [kVia, kXFF, kXFProto, kXFHost, kXFUrl]

theorem stamped_distinct : stampedKeys.Nodup ∧ kCL ∉ stampedKeys ∧ kTE ∉ stampedKeys := by decide

/-! ### hop-by-hop removal -/

/-- Every key `removeHopByHopHeaders` deletes: the canonicalised Connection tokens and the fixed list. -/
def removedKeys (h : Header) : List Bytes := (connTokens h ++ fixedList).map canonKey

theorem removeHopByHop_eq_filter (h : Header) :
    removeHopByHop h = h.filter (fun e => !(removedKeys h).contains e.1) := by
  unfold removeHopByHop
  rw [foldl_del_eq_filter, foldl_del_eq_filter, List.filter_filter]
  congr 1
  funext e
  simp only [removedKeys, List.map_append, List.contains_eq_mem, List.mem_append]
  by_cases h1 : e.1 ∈ List.map canonKey (connTokens h) <;> by_cases h2 : e.1 ∈ List.map canonKey fixedList <;> simp [h1, h2]

theorem removed_not_in_keys {h : Header} {k : Bytes} (hk : k ∈ removedKeys h) : k ∉ keys (removeHopByHop h) := by
  rw [removeHopByHop_eq_filter]
  simp only [keys, List.mem_map, List.mem_filter]
  rintro ⟨e, ⟨_, hp⟩, rfl⟩
  simp [hk] at hp

theorem kept_index {h : Header} {k : Bytes} (hk : k ∉ removedKeys h) : index (removeHopByHop h) k = index h k := by
  rw [removeHopByHop_eq_filter]
  apply index_filter_of_keep
  intro e _ he
  subst he
  simp [hk]

theorem removed_index {h : Header} {k : Bytes} (hk : k ∈ removedKeys h) : index (removeHopByHop h) k = [] :=
  index_of_not_mem_keys (removed_not_in_keys hk)

/-- RFC 7230 §6.1 (and the field definitions that say "hop-by-hop"): the fixed set. -/
def rfcHopByHop : List Bytes := ["Connection", "Keep-Alive", "Proxy-Authenticate", "Proxy-Authorization", "TE", "Trailer",
  "Transfer-Encoding", "Upgrade"].map strBytes

theorem keys_removeHopByHop_subset {h : Header} {k : Bytes} (hk : k ∈ keys (removeHopByHop h)) : k ∈ keys h := by
  rw [removeHopByHop_eq_filter] at hk
  simp only [keys, List.mem_map, List.mem_filter] at hk ⊢
  obtain ⟨e, ⟨he, _⟩, rfl⟩ := hk
  exact ⟨e, he, rfl⟩

/-! ### Via -/

theorem hasLoop_nil (t : Bytes) : hasLoop [] t = false := by
  simp [hasLoop, split, splitAux, trimSpace, field2]

/-- The single `Via` line written for a request that is forwarded. -/
def viaLine (env : Env) (old : List Bytes) : Bytes :=
  if join old commaSp = [] then viaEntry env else join old commaSp ++ commaSp ++ viaEntry env

theorem viaReq_loop (env : Env) (s : RS) (hl : hasLoop (join (index s.hdr kVia) commaSp) (tag env) = true) :
    viaReq env s = ({ s with loopKey := true, skip := true }, some .loop) := by
  have hv : join (index s.hdr kVia) commaSp ≠ [] := by
    intro h0; rw [h0, hasLoop_nil] at hl; exact Bool.noConfusion hl
  simp [viaReq, hv, hl]

theorem viaReq_noloop (env : Env) (s : RS) (hl : hasLoop (join (index s.hdr kVia) commaSp) (tag env) = false) :
    viaReq env s = ({ s with hdr := set s.hdr kVia (viaLine env (index s.hdr kVia)) }, none) := by
  by_cases hv : join (index s.hdr kVia) commaSp = []
  · simp [viaReq, viaLine, hv]
  · simp [viaReq, viaLine, hv, hl]

/-! ### X-Forwarded-* -/

def fwdKeys : List Bytes := [kXFF, kXFProto, kXFHost, kXFUrl]

/-- The single `X-Forwarded-For` line written. -/
def xffLine (env : Env) (old : List Bytes) : Bytes :=
  if join old commaSp = [] then clientOf env.remote else join old commaSp ++ commaSp ++ clientOf env.remote

theorem kne : kXFProto ≠ kXFF ∧ kXFHost ≠ kXFF ∧ kXFUrl ≠ kXFF ∧ kXFHost ≠ kXFProto ∧ kXFUrl ≠ kXFProto ∧ kXFUrl ≠ kXFHost
    ∧ kVia ≠ kXFF ∧ kVia ≠ kXFProto ∧ kVia ≠ kXFHost ∧ kVia ≠ kXFUrl ∧ kVia ≠ kCL ∧ kCL ≠ kXFF ∧ kCL ≠ kXFProto ∧ kCL ≠ kXFHost
    ∧ kCL ≠ kXFUrl ∧ kTE ≠ kXFF ∧ kTE ≠ kXFProto ∧ kTE ≠ kXFHost ∧ kTE ≠ kXFUrl ∧ kTE ≠ kCL ∧ kTE ≠ kVia := by decide

theorem kVia_notin_fwdKeys : kVia ∉ fwdKeys := by decide
theorem kCL_notin_fwdKeys : kCL ∉ fwdKeys := by decide
theorem kTE_notin_fwdKeys : kTE ∉ fwdKeys := by decide
theorem kVia_ne_kCL : kVia ≠ kCL := by decide
theorem kTE_ne_kCL : kTE ≠ kCL := by decide
theorem fwdKeys_ne_kCL : ∀ k ∈ fwdKeys, k ≠ kCL := by decide
theorem fwdKeys_ne_kVia : ∀ k ∈ fwdKeys, k ≠ kVia := by decide

theorem fwd_index_other {env : Env} {h : Header} {k : Bytes} (hk : k ∉ fwdKeys) :
    index (fwdHeader env h) k = index h k := by
  simp only [fwdKeys, List.mem_cons, List.not_mem_nil, or_false, not_or] at hk
  obtain ⟨h1, h2, h3, h4⟩ := hk
  unfold fwdHeader
  simp only [index_set, canon_kXFF, h1, if_false]
  split <;> split <;> split <;> simp [index_set, canon_kXFProto, canon_kXFHost, canon_kXFUrl, h2, h3, h4]

theorem fwd_index_xff (env : Env) (h : Header) :
    index (fwdHeader env h) kXFF = [xffLine env (index h kXFF)] := by
  have := kne
  unfold fwdHeader
  simp only [index_set, canon_kXFF, if_true, xffLine]
  have hx : ∀ g : Header, index (if get g kXFUrl == [] then set g kXFUrl env.url else g) kXFF = index g kXFF := by
    intro g; split <;> simp [index_set, canon_kXFUrl, Ne.symm this.2.2.1]
  have hh : ∀ g : Header, index (if get g kXFHost == [] then set g kXFHost env.host else g) kXFF = index g kXFF := by
    intro g; split <;> simp [index_set, canon_kXFHost, Ne.symm this.2.1]
  have hp : ∀ g : Header, index (if get g kXFProto == [] then set g kXFProto env.scheme else g) kXFF = index g kXFF := by
    intro g; split <;> simp [index_set, canon_kXFProto, Ne.symm this.1]
  simp only [hx, hh, hp]
  by_cases hv : join (index h kXFF) commaSp = [] <;> simp [hv]

theorem index_condset_ne {g : Header} {c : Prop} [Decidable c] {k v k' : Bytes} (hne : k' ≠ canonKey k) :
    index (if c then set g k v else g) k' = index g k' := by
  split <;> simp [index_set, hne]

theorem index_condset_eq {g : Header} {c : Prop} [Decidable c] {k v : Bytes} :
    index (if c then set g k v else g) (canonKey k) = if c then [v] else index g (canonKey k) := by
  split <;> simp [index_set]

theorem fwd_index_proto (env : Env) (h : Header) :
    index (fwdHeader env h) kXFProto = if get h kXFProto = [] then [env.scheme] else index h kXFProto := by
  have := kne
  unfold fwdHeader
  simp only [index_set, canon_kXFF, this.1, if_false]
  rw [index_condset_ne (by rw [canon_kXFUrl]; exact Ne.symm this.2.2.2.2.1),
      index_condset_ne (by rw [canon_kXFHost]; exact Ne.symm this.2.2.2.1)]
  have := @index_condset_eq h (get h kXFProto == []) _ kXFProto env.scheme
  rw [canon_kXFProto] at this
  rw [this]
  simp

theorem fwd_index_host (env : Env) (h : Header) :
    index (fwdHeader env h) kXFHost = if get h kXFHost = [] then [env.host] else index h kXFHost := by
  have hk := kne
  unfold fwdHeader
  simp only [index_set, canon_kXFF, hk.2.1, if_false]
  rw [index_condset_ne (by rw [canon_kXFUrl]; exact Ne.symm hk.2.2.2.2.2.1)]
  have hg : ∀ g : Header, get (if get g kXFProto == [] then set g kXFProto env.scheme else g) kXFHost = get g kXFHost := by
    intro g
    show (index _ (canonKey kXFHost)).headD [] = (index g (canonKey kXFHost)).headD []
    rw [canon_kXFHost, index_condset_ne (by rw [canon_kXFProto]; exact hk.2.2.2.1)]
  have hi : ∀ g : Header, index (if get g kXFProto == [] then set g kXFProto env.scheme else g) kXFHost = index g kXFHost := by
    intro g
    rw [index_condset_ne (by rw [canon_kXFProto]; exact hk.2.2.2.1)]
  have := @index_condset_eq (if get h kXFProto == [] then set h kXFProto env.scheme else h)
    (get (if get h kXFProto == [] then set h kXFProto env.scheme else h) kXFHost == []) _ kXFHost env.host
  rw [canon_kXFHost] at this
  rw [this, hg, hi]
  simp

theorem fwd_index_url (env : Env) (h : Header) :
    index (fwdHeader env h) kXFUrl = if get h kXFUrl = [] then [env.url] else index h kXFUrl := by
  have hk := kne
  unfold fwdHeader
  simp only [index_set, canon_kXFF, hk.2.2.1, if_false]
  have hg : ∀ g : Header, get (if get g kXFProto == [] then set g kXFProto env.scheme else g) kXFUrl = get g kXFUrl := by
    intro g
    show (index _ (canonKey kXFUrl)).headD [] = (index g (canonKey kXFUrl)).headD []
    rw [canon_kXFUrl, index_condset_ne (by rw [canon_kXFProto]; exact hk.2.2.2.2.1)]
  have hi : ∀ g : Header, index (if get g kXFProto == [] then set g kXFProto env.scheme else g) kXFUrl = index g kXFUrl := by
    intro g
    rw [index_condset_ne (by rw [canon_kXFProto]; exact hk.2.2.2.2.1)]
  have hg2 : ∀ g : Header, get (if get g kXFHost == [] then set g kXFHost env.host else g) kXFUrl = get g kXFUrl := by
    intro g
    show (index _ (canonKey kXFUrl)).headD [] = (index g (canonKey kXFUrl)).headD []
    rw [canon_kXFUrl, index_condset_ne (by rw [canon_kXFHost]; exact hk.2.2.2.2.2.1)]
  have hi2 : ∀ g : Header, index (if get g kXFHost == [] then set g kXFHost env.host else g) kXFUrl = index g kXFUrl := by
    intro g
    rw [index_condset_ne (by rw [canon_kXFHost]; exact hk.2.2.2.2.2.1)]
  generalize hh1 : (if get h kXFProto == [] then set h kXFProto env.scheme else h) = h1
  generalize hh2 : (if get h1 kXFHost == [] then set h1 kXFHost env.host else h1) = h2
  have := @index_condset_eq h2 (get h2 kXFUrl == []) _ kXFUrl env.url
  rw [canon_kXFUrl] at this
  rw [this, ← hh2, hg2, hi2, ← hh1, hg, hi]
  simp

theorem mem_keys_condset {g : Header} {c : Prop} [Decidable c] {k v k' : Bytes}
    (hm : k' ∈ keys (if c then set g k v else g)) : k' = canonKey k ∨ k' ∈ keys g := by
  split at hm
  · exact mem_keys_set.mp hm
  · exact Or.inr hm

theorem fwd_keys {env : Env} {h : Header} {k : Bytes} (hm : k ∈ keys (fwdHeader env h)) : k ∈ fwdKeys ∨ k ∈ keys h := by
  unfold fwdHeader at hm
  simp only [fwdKeys, List.mem_cons, List.not_mem_nil, or_false]
  rcases mem_keys_set.mp hm with h1 | h1
  · rw [canon_kXFF] at h1; exact Or.inl (Or.inl h1)
  · rcases mem_keys_condset h1 with h2 | h2
    · rw [canon_kXFUrl] at h2; exact Or.inl (Or.inr (Or.inr (Or.inr h2)))
    · rcases mem_keys_condset h2 with h3 | h3
      · rw [canon_kXFHost] at h3; exact Or.inl (Or.inr (Or.inr (Or.inl h3)))
      · rcases mem_keys_condset h3 with h4 | h4
        · rw [canon_kXFProto] at h4; exact Or.inl (Or.inr (Or.inl h4))
        · exact Or.inr h4

/-! ### framing -/

theorem clScan_some_nonempty : ∀ (ts : List Bytes) (len r : Bytes), len ≠ [] → clScan ts len = some r →
    r = len ∧ ∀ t ∈ ts, trimSpace t = len := by
  intro ts
  induction ts with
  | nil => intro len r _ h; simp [clScan] at h; simp [h]
  | cons l rest ih =>
    intro len r hne h
    have hb : (len == []) = false := by simpa using hne
    simp only [clScan, hb] at h
    by_cases hl : len = trimSpace l
    · simp [hl] at h
      rw [← hl] at h
      have := ih len r hne h
      refine ⟨this.1, ?_⟩
      intro t ht
      rcases List.mem_cons.mp ht with rfl | ht
      · exact hl.symm
      · exact this.2 t ht
    · simp [hl] at h

theorem clScan_some_empty : ∀ (ts : List Bytes) (r : Bytes), clScan ts [] = some r →
    ∀ t ∈ ts, trimSpace t = [] ∨ trimSpace t = r := by
  intro ts
  induction ts with
  | nil => intro r _ t ht; simp at ht
  | cons l rest ih =>
    intro r h t ht
    simp only [clScan] at h
    simp at h
    by_cases hl : trimSpace l = []
    · rw [hl] at h
      rcases List.mem_cons.mp ht with rfl | ht
      · exact Or.inl hl
      · exact ih r h t ht
    · have := clScan_some_nonempty rest (trimSpace l) r hl h
      rcases List.mem_cons.mp ht with rfl | ht
      · exact Or.inr this.1.symm
      · exact Or.inr ((this.2 t ht).trans this.1.symm)

/-- Two different non-empty Content-Length values among all lines and comma pieces. -/
def clConflict (h : Header) : Prop :=
  ∃ a ∈ clTokens h, ∃ b ∈ clTokens h, trimSpace a ≠ [] ∧ trimSpace b ≠ [] ∧ trimSpace a ≠ trimSpace b

theorem clScan_conflict {h : Header} (hc : clConflict h) : clScan (clTokens h) [] = none := by
  obtain ⟨a, ha, b, hb, hae, hbe, hab⟩ := hc
  cases hs : clScan (clTokens h) [] with
  | none => rfl
  | some r =>
    have := clScan_some_empty _ r hs
    rcases this a ha with h1 | h1
    · exact absurd h1 hae
    · rcases this b hb with h2 | h2
      · exact absurd h2 hbe
      · exact absurd (h1.trans h2.symm) hab

theorem clTokens_ne_nil_index {h : Header} (hc : clConflict h) : index h kCL ≠ [] := by
  obtain ⟨a, ha, _⟩ := hc
  intro h0
  simp [clTokens, h0] at ha

theorem framingCL_conflict {h : Header} (hc : clConflict h) : framingCL h = none := by
  have h1 := clTokens_ne_nil_index hc
  have h2 := clScan_conflict hc
  have : (index h kCL).length > 0 := List.length_pos_iff.mpr h1
  simp [framingCL, this, h2]

theorem framingCL_of_absent {h : Header} (h0 : index h kCL = []) : framingCL h = some h := by
  simp [framingCL, h0]

theorem framingCL_some {h h1 : Header} (hs : framingCL h = some h1) :
    (∀ k, k ≠ kCL → index h1 k = index h k) ∧ (∀ k, k ∈ keys h1 → k ∈ keys h) := by
  unfold framingCL at hs
  split at hs
  · next hpos =>
    split at hs
    · cases hs
    · next len _ =>
      injection hs with hs
      subst hs
      refine ⟨fun k hk => by simp [index_set, canon_kCL, hk], fun k hk => ?_⟩
      rcases mem_keys_set.mp hk with h1 | h1
      · rw [canon_kCL] at h1
        subst h1
        apply Classical.byContradiction
        intro hn
        rw [index_of_not_mem_keys hn] at hpos
        simp at hpos
      · exact h1
  · injection hs with hs
    subst hs
    exact ⟨fun _ _ => rfl, fun _ hk => hk⟩

theorem framingTE_other (h1 : Header) :
    (∀ k, k ≠ kCL → index (framingTE h1).1 k = index h1 k) ∧ (∀ k, k ∈ keys (framingTE h1).1 → k ∈ keys h1) := by
  unfold framingTE
  split
  · split
    · exact ⟨fun _ _ => rfl, fun _ hk => hk⟩
    · refine ⟨fun k hk => by simp [index_del, canon_kCL, hk], fun k hk => (mem_keys_del.mp hk).1⟩
  · exact ⟨fun _ _ => rfl, fun _ hk => hk⟩

theorem framingTE_absent {h1 : Header} (h0 : index h1 kTE = []) : framingTE h1 = (h1, none) := by
  simp [framingTE, h0]

theorem framingTE_bad {h1 : Header} (hp : index h1 kTE ≠ []) (hb : teLast h1 ≠ chunked) : framingTE h1 = (h1, some .te) := by
  have : (index h1 kTE).length > 0 := List.length_pos_iff.mpr hp
  simp [framingTE, this, hb]

theorem framingTE_err (h1 : Header) : (framingTE h1).2 = none ∨ (framingTE h1).2 = some .te := by
  unfold framingTE
  split
  · split
    · exact Or.inr rfl
    · exact Or.inl rfl
  · exact Or.inl rfl

theorem framing_other (h : Header) :
    (∀ k, k ≠ kCL → index (framingHeader h).1 k = index h k) ∧ (∀ k, k ∈ keys (framingHeader h).1 → k ∈ keys h) := by
  unfold framingHeader
  cases hs : framingCL h with
  | none => exact ⟨fun _ _ => rfl, fun _ hk => hk⟩
  | some h1 =>
    have a := framingCL_some hs
    have b := framingTE_other h1
    exact ⟨fun k hk => (b.1 k hk).trans (a.1 k hk), fun k hk => a.2 k (b.2 k hk)⟩

/-! ### the generated stack order, unfolded -/

/-- `NewStack`'s request side, as the composition the generated order denotes. If the order in
the source changes (or error aggregation is switched off) these lemmas, and everything stated
about the stack, stop checking. -/
theorem reqMod_hbh : reqMod "header.NewHopByHopModifier" = hbhReq := by simp [reqMod]
theorem reqMod_fwd : reqMod "header.NewForwardedModifier" = fwdReq := by simp [reqMod]
theorem reqMod_framing : reqMod "header.NewBadFramingModifier" = framingReq := by simp [reqMod]
theorem reqMod_via : reqMod "header.NewViaModifier" = viaReq := by simp [reqMod]
theorem reqMod_inner : reqMod "fifo.NewGroup" = fun _ s => (s, none) := by simp [reqMod]

/-- What the via modifier is handed inside the stack: the framing modifier ran first (on the
header as received), then hop-by-hop removal, then the forwarded modifier. -/
def preVia (env : Env) (h : Header) : Header := fwdHeader env (removeHopByHop (framingHeader h).1)

/-- The framing modifier's verdict on the header as received, as a list of errors. -/
def framingErrs (h : Header) : List Err := (framingHeader h).2.toList

theorem stackReq_unfold (env : Env) (h : Header) :
    stackReq env h =
      ((viaReq env { hdr := preVia env h }).1, framingErrs h ++ (viaReq env { hdr := preVia env h }).2.toList) := by
  have ho : Generated.HttpSpec.requestOrder.map reqMod = [framingReq, hbhReq, fwdReq, viaReq, fun _ s => (s, none)] := by
    simp only [Generated.HttpSpec.requestOrder, List.map_cons, List.map_nil, reqMod_hbh, reqMod_fwd, reqMod_framing, reqMod_via, reqMod_inner]
  have ha : Generated.HttpSpec.aggregateErrors = true := rfl
  unfold stackReq preVia framingErrs
  rw [ho, ha]
  rcases hf : framingHeader h with ⟨h1, e1⟩
  rcases hv : viaReq env { hdr := fwdHeader env (removeHopByHop h1) } with ⟨s4, e2⟩
  cases e1 <;> cases e2 <;> simp [runReq, framingReq, hbhReq, fwdReq, hf, hv]

theorem resMod_hbh : resMod "header.NewHopByHopModifier" = hbhRes := by simp [resMod]
theorem resMod_via : resMod "header.NewViaModifier" = viaRes := by simp [resMod]
theorem resMod_inner : resMod "fifo.NewGroup" = fun _ s => (s, none) := by simp [resMod]

/-- Response side: user group, via, hop-by-hop; all of them run (errors are aggregated). -/
theorem stackRes_unfold (key : Bool) (s : ResS) :
    stackRes key s = if key then ({ hdr := removeHopByHop s.hdr, status := 400 }, [.loop])
      else ({ s with hdr := removeHopByHop s.hdr }, []) := by
  have ho : Generated.HttpSpec.responseOrder.map resMod = [fun _ s => (s, none), viaRes, hbhRes] := by
    simp only [Generated.HttpSpec.responseOrder, List.map_cons, List.map_nil, resMod_hbh, resMod_via, resMod_inner]
  have ha : Generated.HttpSpec.aggregateErrors = true := rfl
  unfold stackRes
  rw [ho, ha]
  cases key <;> simp [runRes, viaRes, hbhRes]

/-- The two ways the request side of the stack can end (the framing verdict is reported in both). -/
theorem stackReq_cases (env : Env) (h : Header) :
    (hasLoop (join (index (preVia env h) kVia) commaSp) (tag env) = true ∧
        stackReq env h = ({ hdr := preVia env h, skip := true, loopKey := true }, framingErrs h ++ [.loop])) ∨
    (hasLoop (join (index (preVia env h) kVia) commaSp) (tag env) = false ∧
        stackReq env h = ({ hdr := set (preVia env h) kVia (viaLine env (index (preVia env h) kVia)) }, framingErrs h)) := by
  rw [stackReq_unfold]
  cases hl : hasLoop (join (index (preVia env h) kVia) commaSp) (tag env) with
  | true =>
    refine Or.inl ⟨rfl, ?_⟩
    rw [viaReq_loop env { hdr := preVia env h } hl]
    rfl
  | false =>
    refine Or.inr ⟨rfl, ?_⟩
    rw [viaReq_noloop env { hdr := preVia env h } hl]
    simp

/-! ### what reaches the via modifier -/

theorem kConnection_ne_kCL : kConnection ≠ kCL := by decide

theorem connTokens_framing (h : Header) : connTokens (framingHeader h).1 = connTokens h := by
  unfold connTokens
  rw [(framing_other h).1 kConnection kConnection_ne_kCL]

/-- The framing modifier writes `Content-Length` only, so it does not change what is hop-by-hop. -/
theorem removedKeys_framing (h : Header) : removedKeys (framingHeader h).1 = removedKeys h := by
  unfold removedKeys
  rw [connTokens_framing]

theorem preVia_index_other {env : Env} {h : Header} {k : Bytes} (hf : k ∉ fwdKeys) :
    index (preVia env h) k = if k ∈ removedKeys h then [] else index (framingHeader h).1 k := by
  unfold preVia
  rw [fwd_index_other hf]
  split
  · next hm => exact removed_index (by rw [removedKeys_framing]; exact hm)
  · next hm => exact kept_index (by rw [removedKeys_framing]; exact hm)

theorem preVia_keys {env : Env} {h : Header} {k : Bytes} (hm : k ∈ keys (preVia env h)) :
    k ∈ fwdKeys ∨ (k ∈ keys h ∧ k ∉ removedKeys h) := by
  unfold preVia at hm
  rcases fwd_keys hm with h1 | h1
  · exact Or.inl h1
  · refine Or.inr ⟨(framing_other h).2 k (keys_removeHopByHop_subset h1), ?_⟩
    intro hr
    exact removed_not_in_keys (by rw [removedKeys_framing]; exact hr) h1

/-! ### helper lemmas of the element-level and exchange theorems -/

theorem framingErrs_no_loop (h : Header) : Err.loop ∉ framingErrs h := by
  unfold framingErrs framingHeader
  cases hc : framingCL h with
  | none => simp
  | some h1 =>
    rcases framingTE_err h1 with h0 | h0 <;> simp [h0]

theorem removeHopByHop_nil : removeHopByHop [] = [] := by rw [removeHopByHop_eq_filter]; rfl

/-- `strings.Split` distributes over a separator: the pieces of `a ++ sep ++ b` are the pieces of
`a` followed by the pieces of `b`. -/
theorem splitAux_append_sep (sep : UInt8) (b : Bytes) : ∀ (a cur : Bytes),
    splitAux sep (a ++ sep :: b) cur = splitAux sep a cur ++ splitAux sep b [] := by
  intro a
  induction a with
  | nil => intro cur; simp [splitAux]
  | cons c r ih =>
    intro cur
    by_cases hc : c = sep
    · subst hc; simp [splitAux, ih]
    · have : (c == sep) = false := by simpa using hc
      simp [splitAux, this, ih]

theorem split_append_sep (a b : Bytes) (sep : UInt8) : split (a ++ sep :: b) sep = split a sep ++ split b sep :=
  splitAux_append_sep sep b a []

theorem splitAux_no_sep (sep : UInt8) : ∀ (a cur : Bytes), sep ∉ a → splitAux sep a cur = [cur.reverse ++ a] := by
  intro a
  induction a with
  | nil => intro cur _; simp [splitAux]
  | cons c r ih =>
    intro cur hn
    have hc : ¬ c = sep := fun h => hn (by simp [h])
    have hr : sep ∉ r := fun h => hn (by simp [h])
    have : (c == sep) = false := by simpa using hc
    simp [splitAux, this, ih (c :: cur) hr]

theorem split_no_sep (a : Bytes) (sep : UInt8) (hn : sep ∉ a) : split a sep = [a] := by
  show splitAux sep a [] = [a]
  simpa using splitAux_no_sep sep a [] hn

/-- A line written as "existing chain, entry": its comma-separated elements are the elements of
the existing chain, unchanged and in order, followed by exactly one more — the entry behind the
space of ", ". -/
theorem appended_elements (chain entry : Bytes) (hc : comma ∉ entry) :
    split (chain ++ commaSp ++ entry) comma = split chain comma ++ [32 :: entry] := by
  have h32 : comma ∉ (32 :: entry) := by
    intro hm
    rcases List.mem_cons.mp hm with h | h
    · exact absurd h (by decide)
    · exact hc h
  have : chain ++ commaSp ++ entry = chain ++ comma :: (32 :: entry) := by
    simp [commaSp, comma, strBytes, List.append_assoc]
  rw [this, split_append_sep, split_no_sep _ _ h32]

theorem digit_bounds (c : Char) (hd : c.isDigit = true) : 48 ≤ c.toNat ∧ c.toNat ≤ 57 := by
  unfold Char.isDigit at hd
  simp only [Bool.and_eq_true, decide_eq_true_eq, ge_iff_le] at hd
  exact ⟨UInt32.le_iff_toNat_le.mp hd.1, UInt32.le_iff_toNat_le.mp hd.2⟩

/-- Decimal digits contain no comma. -/
theorem natDigits_no_comma (n : Nat) : comma ∉ natDigits n := by
  unfold natDigits
  intro hm
  obtain ⟨c, hc, he⟩ := List.mem_map.mp hm
  have hb := digit_bounds c (Nat.isDigit_of_mem_toDigits (by decide) (by decide) hc)
  have h44 : (UInt8.ofNat c.toNat).toNat = 44 := by rw [he]; rfl
  rw [UInt8.toNat_ofNat'] at h44
  omega

/-- The proxy's own Via entry contains no comma when its name and boundary contain none (the
protocol version is digits and a dot). -/
theorem viaEntry_no_comma (env : Env) (hn : comma ∉ env.name) (hb : comma ∉ env.boundary) : comma ∉ viaEntry env := by
  have hd : ∀ n, comma ∉ natDigits n := natDigits_no_comma
  unfold viaEntry tag
  simp only [List.mem_append, List.mem_cons, List.not_mem_nil, not_or]
  refine ⟨⟨⟨⟨hd _, by decide⟩, hd _⟩, by decide⟩, ⟨hn, by decide⟩, hb⟩

end Martian.HttpSpec
