import Martian.Go.Path
namespace Martian.Go
open Martian

/-- A component that `Clean` keeps verbatim. -/
def Plain (c : Bytes) : Prop := c ≠ [] ∧ c ≠ dot ∧ c ≠ dotdot

theorem cleanStep_rooted_plain (stk : List Bytes) (c : Bytes) (h : ∀ x ∈ stk, Plain x) :
    ∀ x ∈ cleanStep true stk c, Plain x := by
  unfold cleanStep
  by_cases h1 : (c == [] || c == dot) = true
  · simp only [h1, if_true]; exact h
  · simp only [h1]
    by_cases h2 : (c == dotdot) = true
    · simp only [h2, if_true]
      cases stk with
      | nil => simp
      | cons top rest =>
        have ht := h top (by simp)
        have : (top == dotdot) = false := by
          have := ht.2.2; simp [this]
        simp only [this]
        intro x hx; exact h x (List.mem_cons_of_mem _ hx)
    · simp only [h2]
      intro x hx
      rcases List.mem_cons.mp hx with hx | hx
      · subst hx
        simp only [Bool.or_eq_true, beq_iff_eq, not_or] at h1
        simp only [beq_iff_eq] at h2
        exact ⟨h1.1, h1.2, h2⟩
      · exact h x hx

theorem foldl_cleanStep_rooted_plain (cs : List Bytes) (stk : List Bytes) (h : ∀ x ∈ stk, Plain x) :
    ∀ x ∈ cs.foldl (cleanStep true) stk, Plain x := by
  induction cs generalizing stk with
  | nil => simpa using h
  | cons c r ih => simp only [List.foldl_cons]; exact ih _ (cleanStep_rooted_plain stk c h)

/-- On a rooted path no `..`, `.` or empty component survives cleaning. -/
theorem cleanComps_rooted_plain (cs : List Bytes) : ∀ x ∈ cleanComps true cs, Plain x := by
  intro x hx
  unfold cleanComps at hx
  exact foldl_cleanStep_rooted_plain cs [] (by simp) x (List.mem_reverse.mp hx)

theorem cleanStep_plain (r : Bool) (stk : List Bytes) (c : Bytes) (hc : Plain c) :
    cleanStep r stk c = c :: stk := by
  unfold cleanStep
  obtain ⟨h1, h2, h3⟩ := hc
  simp [h1, h2, h3]

theorem foldl_cleanStep_plain (r : Bool) (cs stk : List Bytes) (h : ∀ x ∈ cs, Plain x) :
    cs.foldl (cleanStep r) stk = cs.reverse ++ stk := by
  induction cs generalizing stk with
  | nil => simp
  | cons c rest ih =>
    simp only [List.foldl_cons, cleanStep_plain r stk c (h c (by simp))]
    rw [ih _ (fun x hx => h x (List.mem_cons_of_mem _ hx))]
    simp

/-- Cleaning plain components is the identity; in particular `Clean` is idempotent and a
cleaned root followed by a cleaned rooted path keeps the root as a prefix. -/
theorem cleanComps_plain (r : Bool) (cs : List Bytes) (h : ∀ x ∈ cs, Plain x) :
    cleanComps r cs = cs := by
  unfold cleanComps; rw [foldl_cleanStep_plain r cs [] h]; simp

theorem cleanComps_append_rooted (rc pc : List Bytes) (hr : ∀ x ∈ rc, Plain x) :
    cleanComps true (rc ++ cleanComps true pc) = rc ++ cleanComps true pc := by
  apply cleanComps_plain
  intro x hx
  rcases List.mem_append.mp hx with h | h
  · exact hr x h
  · exact cleanComps_rooted_plain pc x h

/-- Empty components (doubled or trailing slashes) are invisible to cleaning. -/
theorem foldl_cleanStep_filter (r : Bool) (cs stk : List Bytes) :
    (cs.filter (· ≠ [])).foldl (cleanStep r) stk = cs.foldl (cleanStep r) stk := by
  induction cs generalizing stk with
  | nil => rfl
  | cons c rest ih =>
    by_cases hc : c = []
    · subst hc
      have : cleanStep r stk [] = stk := by simp [cleanStep]
      simp only [ne_eq, not_true_eq_false, decide_false, List.filter_cons_of_neg, Bool.false_eq_true,
        not_false_eq_true, List.foldl_cons, this]
      exact ih stk
    · have hf : List.filter (fun x : Bytes => decide (x ≠ [])) (c :: rest)
          = c :: List.filter (fun x : Bytes => decide (x ≠ [])) rest := by
        simp [List.filter_cons, hc]
      rw [hf]
      simp only [List.foldl_cons]
      exact ih _

theorem cleanComps_filter (r : Bool) (cs : List Bytes) :
    cleanComps r (cs.filter (· ≠ [])) = cleanComps r cs := by
  unfold cleanComps; rw [foldl_cleanStep_filter]

end Martian.Go
