import Martian.Model.MessageView
/-! Helper lemmas for C15 / C16 about the messageview model. -/
namespace Martian.MessageView
open Martian Martian.Go

theorem snapshotMsg_id (o : Opts) (m : Msg) : snapshotMsg o m = m := by
  unfold snapshotMsg
  split
  · rename_i hc
    cases hb : m.body with
    | none => simp [captures, hb] at hc
    | some d => cases m; simp_all [readAll]
  · rfl

theorem harReadPost_id (m : Msg) : harReadPost m = m := by
  unfold harReadPost
  rw [snapshotMsg_id]
  cases hb : m.body with
  | none => cases m; simp_all [readAll]
  | some d => cases m; simp_all [readAll]

theorem bodyReader_snapshot (o : Opts) (m : Msg) (hc : captures o m = true) :
    bodyReader (snapshot o m) = framedBody m (m.body.getD []) := by
  simp [snapshot, hc, bodyReader, sectionOf]

theorem mem_insertKV (x y : KV) (l : List KV) : y ∈ insertKV x l ↔ y = x ∨ y ∈ l := by
  induction l with
  | nil => simp [insertKV]
  | cons z zs ih =>
    unfold insertKV
    split
    · simp [ih]; constructor <;> (intro h; rcases h with h | h | h <;> simp [h])
    · simp

/-- Sorting the header list only permutes it. -/
theorem mem_sortKV (y : KV) (l : List KV) : y ∈ sortKV l ↔ y ∈ l := by
  induction l with
  | nil => simp [sortKV]
  | cons z zs ih =>
    have : sortKV (z :: zs) = insertKV z (sortKV zs) := rfl
    rw [this, mem_insertKV, ih]; simp

theorem hexValB_hexDigitB : ∀ d, d < 16 → hexValB (hexDigitB d) = some d := by decide
theorem hexDigitB_ne_lf : ∀ d, d < 16 → (hexDigitB d == 10) = false := by decide
theorem hexDigitB_not_ws : ∀ d, d < 16 → isLineWs (hexDigitB d) = false := by decide
theorem hexDigitB_ne_semi : ∀ d, d < 16 → (hexDigitB d != 59) = true := by decide

def IsHex (c : UInt8) : Prop := ∃ d, d < 16 ∧ c = hexDigitB d

theorem hexDigits_all_hex (n : Nat) : ∀ c ∈ hexDigits n, IsHex c := by
  fun_induction hexDigits n with
  | case1 n h => intro c hc; simp at hc; exact ⟨n, h, hc⟩
  | case2 n h ih =>
    intro c hc
    simp at hc
    rcases hc with hc | hc
    · exact ih c hc
    · exact ⟨n % 16, by omega, hc⟩

theorem hexDigits_ne_nil (n : Nat) : hexDigits n ≠ [] := by
  fun_induction hexDigits n <;> simp

theorem parseHexAcc_append (a b : Bytes) (acc : Nat) :
    parseHexAcc (a ++ b) acc = (parseHexAcc a acc).bind (parseHexAcc b) := by
  induction a generalizing acc with
  | nil => simp [parseHexAcc]
  | cons c r ih =>
    simp only [List.cons_append, parseHexAcc]
    cases hexValB c with
    | none => simp
    | some d => simp [ih]

theorem parseHexAcc_hexDigits (n : Nat) : parseHexAcc (hexDigits n) 0 = some n := by
  fun_induction hexDigits n with
  | case1 n h => simp [parseHexAcc, hexValB_hexDigitB n h]
  | case2 n h ih =>
    rw [parseHexAcc_append, ih]
    simp [parseHexAcc, hexValB_hexDigitB (n % 16) (by omega)]
    omega

theorem parseHexUint_hexDigits (n : Nat) : parseHexUint (hexDigits n) = some n := by
  unfold parseHexUint
  have := hexDigits_ne_nil n
  cases h : hexDigits n with
  | nil => exact absurd h this
  | cons c r => rw [← h]; simp [parseHexAcc_hexDigits, this]

theorem splitLine_hex (h rest : Bytes) (hh : ∀ c ∈ h, IsHex c) :
    splitLine (h ++ 13 :: 10 :: rest) = some (h ++ [13], rest) := by
  induction h with
  | nil => simp [splitLine]
  | cons c r ih =>
    obtain ⟨d, hd, rfl⟩ := hh c (by simp)
    simp [splitLine, hexDigitB_ne_lf d hd, ih (fun x hx => hh x (by simp [hx]))]

theorem dropWhile_of_all_not {α} (p : α → Bool) (l : List α) (h : ∀ c ∈ l, p c = false) :
    l.dropWhile p = l := by
  cases l with
  | nil => rfl
  | cons c r => simp [List.dropWhile, h c (by simp)]

theorem trimRightWs_hex (h : Bytes) (hh : ∀ c ∈ h, IsHex c) : trimRightWs (h ++ [13]) = h := by
  unfold trimRightWs
  simp only [List.reverse_append, List.reverse_cons, List.reverse_nil, List.nil_append, List.singleton_append]
  have : isLineWs 13 = true := by decide
  simp only [List.dropWhile, this]
  rw [dropWhile_of_all_not]
  · simp
  · intro c hc
    obtain ⟨d, hd, rfl⟩ := hh c (by simpa using hc)
    exact hexDigitB_not_ws d hd

theorem removeChunkExt_hex (h : Bytes) (hh : ∀ c ∈ h, IsHex c) : removeChunkExt h = h := by
  induction h with
  | nil => rfl
  | cons c r ih =>
    obtain ⟨d, hd, rfl⟩ := hh c (by simp)
    simp [removeChunkExt, List.takeWhile, hexDigitB_ne_semi d hd]
    exact ih (fun x hx => hh x (by simp [hx]))

/-- The last chunk: `0 CRLF` ends the body whatever follows. -/
theorem dechunkAux_last (fuel : Nat) (rest acc : Bytes) :
    dechunkAux (fuel + 1) (48 :: 13 :: 10 :: rest) acc = some acc := by
  simp [dechunkAux, splitLine, trimRightWs, removeChunkExt, isLineWs, parseHexUint, parseHexAcc, hexValB]

theorem dechunkAux_one (fuel : Nat) (d rest : Bytes) (hne : d ≠ []) :
    dechunkAux (fuel + 2) (hexDigits d.length ++ 13 :: 10 :: (d ++ 13 :: 10 :: 48 :: 13 :: 10 :: rest)) [] = some d := by
  have hall := hexDigits_all_hex d.length
  obtain ⟨n, hn⟩ : ∃ n, d.length = n + 1 := ⟨d.length - 1, by
    have : 0 < d.length := List.length_pos_iff.mpr hne
    omega⟩
  rw [dechunkAux]
  simp only [splitLine_hex _ _ hall, trimRightWs_hex _ hall, removeChunkExt_hex _ hall, parseHexUint_hexDigits]
  rw [hn]
  have h1 : ¬ (d ++ 13 :: 10 :: 48 :: 13 :: 10 :: rest).length < n + 1 + 2 := by simp; omega
  have h2 : ((d ++ 13 :: 10 :: 48 :: 13 :: 10 :: rest).drop (n + 1)).take 2 = crlf := by
    rw [← hn]; simp [crlf]
  have h3 : (d ++ 13 :: 10 :: 48 :: 13 :: 10 :: rest).drop (n + 1 + 2) = 48 :: 13 :: 10 :: rest := by
    rw [← hn, List.drop_append]
    have hd : List.drop (d.length + 2) d = [] := List.drop_eq_nil_of_le (by omega)
    rw [hd]; simp
  have h4 : (d ++ 13 :: 10 :: 48 :: 13 :: 10 :: rest).take (n + 1) = d := by
    rw [← hn]; simp
  simp only [h1, if_false, h2, bne_self_eq_false, Bool.false_eq_true, h3, h4, List.nil_append]
  exact dechunkAux_last _ _ _

/-- The chunked reader gives back exactly what the chunked writer was given. -/
theorem dechunk_chunkedWrite (d rest : Bytes) : dechunk (chunkedWrite d ++ rest) = some d := by
  unfold dechunk
  cases d with
  | nil => exact dechunkAux_last _ _ _
  | cons c r =>
    have hform : chunkedWrite (c :: r) ++ rest =
        hexDigits (c :: r).length ++ 13 :: 10 :: ((c :: r) ++ 13 :: 10 :: 48 :: 13 :: 10 :: rest) := by
      simp [chunkedWrite, crlf]
    rw [hform]
    generalize hf : List.length (hexDigits (c :: r).length ++ 13 :: 10 :: ((c :: r) ++ 13 :: 10 :: 48 :: 13 :: 10 :: rest)) = L
    have hL : 1 ≤ L := by rw [← hf]; simp; omega
    obtain ⟨k, rfl⟩ : ∃ k, L = k + 1 := ⟨L - 1, by omega⟩
    exact dechunkAux_one k (c :: r) rest (by simp)


/-- `BodyReader(Decode())` of a snapshot that captured the body: the body itself, inflated when the
message announces gzip/deflate — for every framing. -/
theorem decodeBody_snapshot (infl : Bytes → Bytes → Option Bytes) (o : Opts) (m : Msg) (b : Bytes)
    (hc : captures o m = true) (hb : m.body = some b) :
    decodeBody infl (snapshot o m) =
      if compressOf m == gzipTok || compressOf m == deflateTok then infl (compressOf m) b else some b := by
  have hbr := bodyReader_snapshot o m hc
  have h1 : (snapshot o m).chunked = isChunked m.te := by simp [snapshot, hc]
  have h2 : (snapshot o m).compress = compressOf m := by simp [snapshot, hc]
  unfold decodeBody
  rw [hbr, h1, h2, hb]
  cases hch : isChunked m.te
  · simp [framedBody, hch]
  · have : dechunk (chunkedWrite b) = some b := by
      have := dechunk_chunkedWrite b []
      simpa using this
    simp [framedBody, hch, this]

end Martian.MessageView
