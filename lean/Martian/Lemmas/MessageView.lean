import Martian.Model.MessageView
/-! Helper lemmas for C15 / C16 about the messageview model. -/
namespace Martian.MessageView
open Martian Martian.Go

theorem snapshotMsg_id (o : Opts) (m : Msg) : snapshotMsg o m = m := by
  unfold snapshotMsg
  split
  · rename_i hc
    cases hb : m.body with
    | none => simp [captures, hb] at hc
    | some d => cases m; simp_all [readAll]
  · rfl

end Martian.MessageView
