import Martian.Model.MessageView
/-! Helper lemmas for C15 / C16 about the messageview model. -/
namespace Martian.MessageView
open Martian Martian.Go

theorem snapshotMsg_id (o : Opts) (m : Msg) : snapshotMsg o m = m := by
  unfold snapshotMsg
  split
  · rename_i hc
    cases hb : m.body with
    | none => simp [captures, hb] at hc
    | some d => cases m; simp_all [readAll]
  · rfl

theorem bodyReader_snapshot (o : Opts) (m : Msg) (hc : captures o m = true) :
    bodyReader (snapshot o m) = framedBody m (m.body.getD []) := by
  simp [snapshot, hc, bodyReader, sectionOf]

theorem mem_insertKV (x y : KV) (l : List KV) : y ∈ insertKV x l ↔ y = x ∨ y ∈ l := by
  induction l with
  | nil => simp [insertKV]
  | cons z zs ih =>
    unfold insertKV
    split
    · simp [ih]; constructor <;> (intro h; rcases h with h | h | h <;> simp [h])
    · simp

/-- Sorting the header list only permutes it. -/
theorem mem_sortKV (y : KV) (l : List KV) : y ∈ sortKV l ↔ y ∈ l := by
  induction l with
  | nil => simp [sortKV]
  | cons z zs ih =>
    have : sortKV (z :: zs) = insertKV z (sortKV zs) := rfl
    rw [this, mem_insertKV, ih]; simp

end Martian.MessageView
