import Martian.Model.H2Relay
/-! Line-protocol driver of the h2 relay model (shared by C08 and C09); see go/internal/h2relay. -/
namespace Martian.Drv.H2Relay
open Martian Martian.H2Relay
open Martian.H2Hpack (Rep Ent Dec EncSig DynTab)

def fnv1a (b : Bytes) : UInt32 :=
  b.foldl (fun h x => (h ^^^ x.toUInt32) * 16777619) 2166136261

def digest (b : Bytes) : String :=
  if b.isEmpty then "-"
  else if b.length ≤ 48 then "x" ++ hex b
  else s!"n{b.length}.{(fnv1a b).toNat}"

def genBytes (seed n : Nat) : Bytes :=
  (List.range n).map fun i => UInt8.ofNat ((seed * 31 + i * 7 + i / 256) % 256)

def parseBytes (t : String) : Option Bytes :=
  if t = "-" then some []
  else match t.toList with
    | 'x' :: rest => unhexAux rest []
    | 'g' :: rest =>
      match (String.ofList rest).splitOn "." with
      | [a, b] => do
        let s ← a.toNat?
        let n ← b.toNat?
        if n > 16777216 then none else some (genBytes s n)
      | _ => none
    | _ => none

def parsePrio (t : String) : Option (Option Prio) :=
  if t = "-" then some none
  else match t.splitOn "/" with
    | [a, b, c] => do
      let d ← a.toNat?
      let e ← b.toNat?
      let w ← c.toNat?
      if e > 1 then none else some (some ⟨d, e == 1, w⟩)
    | _ => none

def parseBool (t : String) : Option Bool :=
  if t = "1" then some true else if t = "0" then some false else none

def parseDir (t : String) : Option Dir :=
  if t = "c" then some .c2s else if t = "s" then some .s2c else none

def parseKVs (t : String) : Option (List (Nat × Nat)) :=
  if t = "-" then some []
  else (t.splitOn ",").mapM fun kv =>
    match kv.splitOn "=" with
    | [a, b] => do let i ← a.toNat?; let v ← b.toNat?; some (i, v)
    | _ => none

def b01 (b : Bool) : String := if b then "1" else "0"
def showPrio (p : Prio) : String := s!"{p.dep}/{b01 p.excl}/{p.weight}"
def joinOr (l : List String) (sep : String) : String := if l.isEmpty then "-" else sep.intercalate l
def showLens (cs : List Bytes) : String := "+".intercalate (cs.map fun c => toString c.length)

def showUpd (log : List (List Nat)) (stamp : Nat) : String :=
  match log[stamp]? with
  | some (u :: us) => "^u" ++ ".".intercalate ((u :: us).map toString)
  | _ => ""

/-- `hz`: a header block of this direction has been encoded while an earlier one was still queued
on another stream (F08b class); from then on what the receiver decodes is not predicted.
`log`: the size updates the direction's encoder wrote in front of each block it produced. -/
def showQ (hz : Bool) (log : List (List Nat)) : QFrame → String
  | .data s es p => s!"D{s}:{b01 es}:{digest p}"
  | .headers s es prio st fields chunks =>
    s!"H{s}:{b01 es}:{if prio.isZero then "-" else showPrio prio}:{if hz then "~" else digest fields}:{showLens chunks}{showUpd log st}"
  | .push s pr st fields chunks => s!"U{s}:{pr}:{if hz then "~" else digest fields}:{showLens chunks}{showUpd log st}"
  | .priority s p => s!"P{s}:{showPrio p}"
  | .rst s c => s!"R{s}:{c}"

def showKVs (kvs : List (Nat × Nat)) : String := joinOr (kvs.map fun kv => s!"{kv.1}={kv.2}") ","

def showCtl : Ctl → String
  | .settings kvs => s!"S:{showKVs kvs}"
  | .settingsAck => "SA"
  | .ping ack d => s!"PING:{b01 ack}:{digest d}"
  | .goaway l c d => s!"GA:{l}:{c}:{digest d}"
  | .windowUpdate s i => s!"W{s}:{i}"

def qLetter : QFrame → String
  | .data .. => "d" | .headers .. => "h" | .push .. => "u" | .priority .. => "p" | .rst .. => "r"

def sortedKeys (r : Relay) : List Nat := r.keys.mergeSort (fun a b => decide (a ≤ b))

def showSnap (r : Relay) : String :=
  let streams := (sortedKeys r).map fun s =>
    let o := r.ob s
    s!"{s}:{o.win}:{joinOr (o.q.map fun f => qLetter f ++ toString f.size) "+"}"
  s!"{r.connWin}/{r.initWin}/{r.maxFrame};{joinOr streams ","}"

/-- Frames that reached `dest` of the relay during one step. -/
def newOut (hz : Bool) (log : List (List Nat)) (old new : Relay) : List String :=
  (new.emitted.drop old.emitted.length).map (showQ hz log) ++ (new.wrote.drop old.wrote.length).map showCtl

def render (status : String) (hzC hzS : Bool) (old new : Sys) : String :=
  s!"{status} S[{joinOr (newOut hzC new.flushC old.c2s new.c2s) ","}] C[{joinOr (newOut hzS new.flushS old.s2c new.s2c) ","}] " ++
  "c{" ++ showSnap new.c2s ++ "} s{" ++ showSnap new.s2c ++ "}"

/-- Split trailing `enc=<n>` / `ord=<sids>` arguments off an op. -/
def splitExtras (toks : List String) : List String × Option Nat × Option (List Nat) :=
  toks.foldl (fun (acc : List String × Option Nat × Option (List Nat)) t =>
    if t.startsWith "enc=" then (acc.1, (t.drop 4).toString.toNat?, acc.2.2)
    else if t.startsWith "ord=" then (acc.1, acc.2.1, natList (t.drop 4).toString)
    else (acc.1 ++ [t], acc.2.1, acc.2.2)) ([], none, none)

def parseRep (t : String) : Option Rep :=
  match t.toList with
  | 'u' :: rest => (String.ofList rest).toNat?.map Rep.sizeUpdate
  | 'i' :: rest => (String.ofList rest).toNat?.map Rep.indexed
  | 'a' :: rest =>
    match (String.ofList rest).splitOn ":" with
    | [n, v] => do let nb ← unhexAux n.toList []; let vb ← unhexAux v.toList []; some (.litInc nb vb)
    | _ => none
  | 'l' :: rest =>
    match (String.ofList rest).splitOn ":" with
    | [n, v] => do let nb ← unhexAux n.toList []; let vb ← unhexAux v.toList []; some (.lit nb vb)
    | _ => none
  | 'r' :: rest =>
    match (String.ofList rest).splitOn ":" with
    | [k, v] => do let kk ← k.toNat?; let vb ← unhexAux v.toList []; some (.litIncRef kk vb)
    | _ => none
  | _ => none

def parseReps (t : String) : Option (List Rep) :=
  if t = "-" then some [] else (t.splitOn ",").mapM parseRep

def parseFrame : List String → Option (Dir × Frame)
  | ["hbc", e, sid, es, prio, reps]   -- the same block sent as HEADERS + an empty CONTINUATION
  | ["hb", e, sid, es, prio, reps] => do
    let d ← parseDir e; let s ← sid.toNat?; let b ← parseBool es
    let p ← parsePrio prio; let r ← parseReps reps
    some (d, .headersRep s b p r)
  | ["cdata", e, sid, es, pad, payload]   -- DATA from a sender that keeps its own send window (harness-side check)
  | ["data", e, sid, es, pad, payload] => do
    let d ← parseDir e; let s ← sid.toNat?; let b ← parseBool es; let p ← parseBytes payload
    let pl ← if pad = "-" then some none else pad.toNat?.map some
    some (d, .data s b p pl)
  | ["headers", e, sid, es, eh, prio, frag] => do
    let d ← parseDir e; let s ← sid.toNat?; let b ← parseBool es; let h ← parseBool eh
    let p ← parsePrio prio; let f ← parseBytes frag
    some (d, .headers s b h p f)
  | ["pp", e, sid, prom, eh, frag] => do
    let d ← parseDir e; let s ← sid.toNat?; let pr ← prom.toNat?; let h ← parseBool eh; let f ← parseBytes frag
    some (d, .pushPromise s pr h f)
  | ["cont", e, sid, eh, frag] => do
    let d ← parseDir e; let s ← sid.toNat?; let h ← parseBool eh; let f ← parseBytes frag
    some (d, .continuation s h f)
  | ["prio", e, sid, prio] => do
    let d ← parseDir e; let s ← sid.toNat?; let p ← parsePrio prio
    match p with | some p => some (d, .priority s p) | none => none
  | ["rst", e, sid, code] => do
    let d ← parseDir e; let s ← sid.toNat?; let c ← code.toNat?
    some (d, .rst s c)
  | ["settings", e, kvs] => do
    let d ← parseDir e; let k ← parseKVs kvs
    some (d, .settings k)
  | ["settingsack", e] => do let d ← parseDir e; some (d, .settingsAck)
  | ["ping", e, ack, data] => do
    let d ← parseDir e; let a ← parseBool ack; let b ← parseBytes data
    some (d, .ping a b)
  | ["goaway", e, last, code, dbg] => do
    let d ← parseDir e; let l ← last.toNat?; let c ← code.toNat?; let b ← parseBytes dbg
    some (d, .goaway l c b)
  | ["wu", e, sid, inc] => do
    let d ← parseDir e; let s ← sid.toNat?; let i ← inc.toNat?
    some (d, .windowUpdate s i)
  | _ => none

/-- Is `b` a sequence of "literal without indexing, new name" fields without Huffman (what the
model-compared harness endpoints send)? Other blocks are opaque to the model. -/
def litStr (fuel : Nat) : Bytes → Option Bytes
  | [] => none
  | c :: rest =>
    if c.toNat ≥ 128 then none
    else if c.toNat < 127 then (if c.toNat ≤ rest.length then some (rest.drop c.toNat) else none)
    else
      let rec go (fuel m acc : Nat) : Bytes → Option (Nat × Bytes)
        | [] => none
        | x :: xs =>
          match fuel with
          | 0 => none
          | fuel + 1 =>
            let acc' := acc + (x.toNat % 128) * 2 ^ m
            if x.toNat ≥ 128 then go fuel (m + 7) acc' xs else some (acc', xs)
      match go fuel 0 127 rest with
      | some (n, r) => if n ≤ r.length then some (r.drop n) else none
      | none => none

def isLiteralBlock : Nat → Bytes → Bool
  | _, [] => true
  | 0, _ => false
  | fuel + 1, c :: rest =>
    if c != 0 then false
    else match litStr 5 rest with
      | none => false
      | some r1 => match litStr 5 r1 with
        | none => false
        | some r2 => isLiteralBlock fuel r2

structure DrvSt where
  sys : Sys := {}
  oom : Bool := false          -- an input outside the model's domain was seen: nothing is predicted any more
  pendC : Option Nat := none   -- stream of the header block the client is in the middle of sending
  pendS : Option Nat := none
  hzC : Bool := false          -- F08b class reached on the client-to-server relay
  hzS : Bool := false
  hpDec : Dec := {}            -- `hp.*` ops: a decoder and an encoder on their own
  hpEnc : EncSig := {}

/-- `none` once the model reached a Go panic. -/
abbrev St := Option DrvSt
def init : St := some {}

/-- Inputs for which the Go loops do not terminate or unsigned arithmetic wraps: outside the model. -/
def outOfModel (s : Sys) (d : Dir) : Frame → Bool
  | .data .. | .headers .. | .pushPromise .. | .continuation .. => (s.relay d).maxFrame < 5
  | _ => false

/-- Stream whose header block this frame completes / leaves unfinished. -/
def blockEnd : Frame → Option Nat
  | .headers sid _ true _ _ | .pushPromise sid _ true _ | .continuation sid true _ => some sid
  | .headersRep sid _ _ _ => some sid
  | _ => none
def blockOpen : Frame → Option Nat
  | .headers sid _ false _ _ | .pushPromise sid _ false _ | .continuation sid false _ => some sid
  | _ => none

def hazard (r : Relay) (sid : Nat) : Bool :=
  r.keys.any fun t => t != sid && (r.ob t).q.any fun f => f.stamp?.isSome

def showTab (t : DynTab) : String :=
  s!"{t.ents.length}:{digest (H2Hpack.litEncode t.ents.reverse)}"

/-- `hp.*` ops (see go/internal/h2relay/hp.go). -/
def hpStep (ds : DrvSt) : List String → Option (DrvSt × String)
  | ["hp.new", m, a] => do
    let mm ← m.toNat?; let aa ← a.toNat?
    let d : Dec := { tab := { maxSize := mm }, allowed := aa }
    some ({ ds with hpDec := d, hpEnc := {} }, s!"ok tab={showTab d.tab}")
  | ["hp.allow", v] => do
    let vv ← v.toNat?
    let d := { ds.hpDec with allowed := vv }
    some ({ ds with hpDec := d }, s!"ok tab={showTab d.tab}")
  | ["hp.setmax", v] => do
    let vv ← v.toNat?
    let d := { ds.hpDec with tab := ds.hpDec.tab.setMax vv }
    some ({ ds with hpDec := d }, s!"ok tab={showTab d.tab}")
  | ["hp.encmax", v] => do
    let vv ← v.toNat?
    some ({ ds with hpEnc := ds.hpEnc.setMax vv }, s!"ok tab={showTab ds.hpDec.tab}")
  | ["hp.enclimit", v] => do
    let vv ← v.toNat?
    some ({ ds with hpEnc := ds.hpEnc.setLimit vv }, s!"ok tab={showTab ds.hpDec.tab}")
  | ["hp.block", reps] => do
    let rs ← parseReps reps
    match ds.hpDec.decodeFull rs with
    | none => some ({ ds with hpDec := {}, hpEnc := {} }, "err")
    | some (d, fs) => some ({ ds with hpDec := d }, s!"ok f={digest (H2Hpack.litEncode fs)} tab={showTab d.tab}")
  | ["hp.enc"] =>
    let r := ds.hpEnc.flush
    some ({ ds with hpEnc := r.1 }, s!"ok upd={joinOr (r.2.map toString) "."}")
  | _ => none

def step (st : St) (toks : List String) : St × String :=
  match st with
  | none => (none, "dead")
  | some ds =>
    if ds.oom then (st, "out-of-model") else
    if (toks.head?.getD "").startsWith "hp." then
      match hpStep ds toks with
      | some (ds', line) => (some ds', line)
      | none => (st, "bad-op")
    else
    let s := ds.sys
    let (ts, enc, ord) := splitExtras toks
    match parseFrame ts with
    | none => (st, "bad-op")
    | some (d, f) =>
      let pend := match d with | .c2s => ds.pendC | .s2c => ds.pendS
      let isCont := match f with | .continuation .. => true | _ => false
      let contSid := match f with | .continuation sid _ _ => some sid | _ => none
      -- the endpoints only send a CONTINUATION inside a header block, and nothing else inside one
      if (isCont && (pend.isNone || pend != contSid)) || (!isCont && pend.isSome) then (st, "bad-op") else
      if outOfModel s d f then (st, "out-of-model") else
      let seen := ord.getD []
      let peerKeys := sortedKeys (s.relay d.peer)
      let order := seen ++ peerKeys.filter (fun k => !seen.contains k)
      match sysStep s d f (List.replicate (enc.getD 0) 0) order with
      | none => (none, "panic")
      | some s' =>
        -- F08b class: (1) another stream still holds an encoded block; (2) this block carries a
        -- size update (the encoder had one pending) and stays queued itself
        let hz := match blockEnd f with
          | some sid => hazard (s'.relay d) sid ||
              (((s'.flushLog d)[(s.relay d).nextStamp]?.getD []) != [] &&
               ((s'.relay d).ob sid).q.any fun q => q.stamp? == some (s.relay d).nextStamp)
          | none => false
        let pend' := blockOpen f
        let ds' : DrvSt := match d with
          | .c2s => { ds with sys := s', pendC := pend', hzC := ds.hzC || hz }
          | .s2c => { ds with sys := s', pendS := pend', hzS := ds.hzS || hz }
        -- an opaque block that is not literal-only (hand-written or shrunk input): not predicted
        let opaqueBad := match f with
          | .headers _ _ true _ frag => !isLiteralBlock frag.length frag
          | .pushPromise _ _ true frag => !isLiteralBlock frag.length frag
          | .continuation _ true _ =>
            let b := (match d with | .c2s => s'.dc | .s2c => s'.ds).hbuf
            !isLiteralBlock b.length b
          | _ => false
        if opaqueBad then (some { ds' with oom := true }, "out-of-model") else
        if (s'.errC && !s.errC) || (s'.errS && !s.errS) then
          (none, render "err" ds'.hzC ds'.hzS s s')   -- the direction ends; the harness abandons the case
        else (some ds', render "ok" ds'.hzC ds'.hzS s s')

end Martian.Drv.H2Relay
