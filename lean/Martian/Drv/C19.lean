import Martian.Model.Marbl
/-!
Driver for C19. Ops (kept in step with go/internal/c19):

* `read <hex>` — feed the bytes to the frame reader until it fails:
  `<frame> <frame> … end=<eof|ueof|unknown|panic>`
* `m <msg>` … `run` — same as `log`, the messages given one per op
* `m <msg>` … `runmod` / `runws` — the same through marbl.Modifier / into marbl.Handler with a websocket
  subscriber (the model reads back `subscriberStream .fresh`: the buffers the retaining writer kept)
* `log <msg> <msg> …` — the messages are logged concurrently; the model writes the frames of the
  messages one message after the other (one of the interleavings; by
  `interleaved_messages_recovered` the projection below does not depend on which), reads the
  stream back with `readAll` and prints per message the projection on its (id, type):
  header frames sorted, data frames in stream order, what the wrapper returned to the consumer.
  msg = kind/id/api/pseudo,…/host/cl/te/hdrs/reads  (see `parseMsg`).
* `m <msg>` … `rung <n>` — the same under a controlled schedule of the harness.
* `m <msg>` … `runstall <ms>.<k>` — the same, the stream's writer blocked for `ms` milliseconds inside its k-th `Write`
  (in the model a pending send stays pending for as long as `Write` takes: nothing is lost).
* `runpx <spec> ids=<class,…>` — exchanges through a real proxy with marbl.Modifier installed; `ids` = the equality
  classes of the context IDs the proxy allocated, as far as a frame keeps them (8 bytes). See `pxOp`.
* every run op may carry what the run decided: `ord=<i,i,…>` (the message each `Write` of the writer goroutine belonged
  to, in order) and `ts=<hex,…>` (each message's `:timestamp` value), `ho=<names>/…` (the iteration order of each message's header map). With `ord` the model's goroutine system
  (`Marbl.Sys`) replays that schedule — each sender's channel sends in program order, `take i; write` per entry, then
  `Close` — and must be at rest afterwards (else `sched-invalid`); the stream is what its writer wrote, and the line
  ends with `writes=<n> stream=<len>:<fnv>` of it. Without `ord` the messages are written one after the other.
-/
namespace Martian.Drv.C19
open Martian Martian.Marbl

/-- messages queued by `m` ops for the next `run` -/
abbrev St := List String
def init : St := []

def fnv (bs : Bytes) : UInt64 :=
  bs.foldl (fun h b => (h ^^^ b.toUInt64) * 1099511628211) 14695981039346656037

def hex64 (x : UInt64) : String :=
  String.ofList ((List.range 16).map fun i => hexDigit ((x >>> (UInt64.ofNat (60 - 4 * i))).toNat % 16))

def bit (b : Bool) : String := if b then "1" else "0"

def showFrame : Frame → String
  | .header mt id n v => s!"h.{mt.toNat}.{hex id}.{hex n}.{hex v}"
  | .data mt id i t p => s!"d.{mt.toNat}.{hex id}.{i}.{bit t}.{p.length}.{hex64 (fnv p)}"

def showStop : Stop → String
  | .err .eof => "eof"
  | .err .unexpectedEOF => "ueof"
  | .err .unknownType => "unknown"
  | .panic => "panic"
  | .fuel => "fuel"

def readOp (bs : Bytes) : String :=
  let r := readAll bs
  " ".intercalate (r.1.map showFrame ++ [s!"end={showStop r.2}"])

/-! ### parsing of a `log` message token -/

/-- `p<len>.<start>` = `len` bytes `(start+i) % 251`, otherwise hex. -/
def dataTok (s : String) : Option Bytes :=
  if s.startsWith "p" then
    match (s.drop 1).toString.splitOn "." with
    | [l, st] => do
      let l ← l.toNat?; let st ← st.toNat?
      pure ((List.range l).map fun i => UInt8.ofNat ((st + i) % 251))
    | _ => none
  else unhex s

def hexList (s : String) : Option (List Bytes) :=
  if s = "_" then some [] else (s.splitOn ",").mapM unhex

def parseErr : String → Option RdErr
  | "n" => some .none
  | "e" => some .eof
  | "x" => some .other
  | _ => none

/-- `N<k>`: the body is `http.NoBody` and the consumer reads it k times (each `(0, io.EOF)`). -/
def parseNoBody (s : String) : Option (List ReadRes) :=
  if s.startsWith "N" then (s.drop 1).toString.toNat?.map fun k => List.replicate k ⟨[], .eof⟩ else none

/-- consumer calls: `data:err:extra` = a `Read` (what the wrapped body returns for it), `C` / `Cx` = a `Close`
(the wrapped body's `Close` returns nil / an error) -/
def parseCalls (s : String) : Option (List Call) :=
  if s.startsWith "N" then (parseNoBody s).map (·.map Call.read) else
  if s = "_" then some [] else
  (s.splitOn ";").mapM fun r =>
    if r = "C" then some (Call.close .none) else if r = "Cx" then some (Call.close .other) else
    match r.splitOn ":" with
    | [d, e, _extra] => do let d ← dataTok d; let e ← parseErr e; pure (Call.read ⟨d, e⟩)
    | _ => none

def parseHdrs (s : String) : Option (List (Bytes × List Bytes)) :=
  if s = "_" then some [] else
  (s.splitOn ";").mapM fun kv =>
    match kv.splitOn ":" with
    | [k, vs] => do let k ← unhex k; let vs ← hexList vs; pure (k, vs)
    | _ => none

def parseTE (s : String) : Option (Option (List Bytes)) :=
  if s = "n" then some none else if s = "e" then some (some []) else (hexList s).map some

structure Msg where
  mt : UInt8
  id : Bytes
  hdrs : List (Bytes × Bytes)
  reads : List ReadRes
  noBody : Bool
  calls : List Call := []

def tsName : Bytes := strBytes ":timestamp"

/-- The header map in the iteration order the run had (`ko`: header names in order of their last occurrence in the
message's frames); keys the run did not show keep their place at the end. `Fields.hdr` is "the Go map in one
iteration order": this picks the one. -/
def orderMap (m : List (Bytes × List Bytes)) (ko : List Bytes) : List (Bytes × List Bytes) :=
  (ko.filterMap fun k => m.find? fun kv => kv.1 == k) ++ m.filter fun kv => !ko.contains kv.1

def parseMsg (tok : String) (ts : Bytes := []) (ko : List Bytes := []) : Option Msg :=
  match tok.splitOn "/" with
  | [kind, id, api, pseudo, host, cl, te, hdrs, reads] => do
    let id ← unhex id
    let api ← (if api = "1" then some true else if api = "0" then some false else none)
    let host ← unhex host
    let cl ← cl.toInt?
    let te ← parseTE te
    let hdr ← parseHdrs hdrs
    let nb := reads.startsWith "N"
    let calls ← parseCalls reads
    let reads := Call.reads calls
    let f0 : Fields := { hdr := hdr, host := host, cl := cl, clText := strBytes (toString cl.toNat), te := te }
    let f : Fields := if ko.isEmpty then f0 else { hdr := orderMap f0.map ko, host := [], cl := 0, clText := [], te := none }
    let ps := pseudo.splitOn ","
    if kind = "q" then
      match ps with
      | [m, sch, au, pa, qu, pr, rem] => do
        let m ← unhex m; let sch ← unhex sch; let au ← unhex au; let pa ← unhex pa
        let qu ← unhex qu; let pr ← unhex pr; let rem ← unhex rem
        pure ⟨1, id, requestHeaders m sch au pa qu pr rem ts api f, reads, nb, calls⟩
      | _ => none
    else if kind = "s" then
      match ps with
      | [pr, st, reason] => do
        let pr ← unhex pr; let st ← st.toNat?; let reason ← unhex reason
        pure ⟨2, id, responseHeaders pr (strBytes (toString st)) reason ts api f, reads, nb, calls⟩
      | _ => none
    else none
  | _ => none

def showHdr (f : Frame) : String :=
  let (n, v) := f.nameValue
  if n == tsName then s!"{hex n}:ts" else s!"{hex n}:{hex v}:{hex64 (fnv (encode f))}"

def showData (f : Frame) : String :=
  s!"{f.index}:{bit f.terminal}:{f.payload.length}:{hex64 (fnv f.payload)}:{hex64 (fnv (encode f))}"

def errLetter : RdErr → String
  | .none => "n" | .eof => "e" | .other => "x"

def showRet (r : ReadRes) : String := s!"{r.data.length}" ++ errLetter r.err

/-- what a call returned to the consumer: a read as `<n><err>`, a close as `C<err>` -/
def showCall : Call → String
  | .read r => showRet r
  | .close e => "C" ++ errLetter e

def joinOr (sep : String) (l : List String) : String := if l.isEmpty then "-" else sep.intercalate l

def showMsg (got : List Frame) (i : Nat) (m : Msg) : String :=
  let mine := got.filter fun f => f.key == (m.id.take 8, m.mt)
  let hs := ((mine.filter fun f => !f.isData).map showHdr).mergeSort (fun a b => decide (a ≤ b))
  let ds := (mine.filter Frame.isData).map showData
  -- a request's http.NoBody is not wrapped: the consumer reads it directly
  let rets := (if m.noBody && m.mt == 1 then m.calls else (callRun false m.mt (m.id.take 8) 0 false m.calls).1).map showCall
  s!"m{i}=" ++ joinOr "," hs ++ "|" ++ joinOr "," ds ++ "|" ++ joinOr "," rets

/-- what the run decided (`ord=…`, `ts=…` tokens), split from the message tokens -/
structure Obs where
  ord : Option (List String) := none
  ts : List String := []
  ho : List String := []

def splitObs (toks : List String) : List String × Obs :=
  toks.foldl (fun (acc : List String × Obs) t =>
    if t.startsWith "ord=" then (acc.1, { acc.2 with ord := some (if t == "ord=-" then [] else ((t.drop 4).toString.splitOn ",")) })
    else if t.startsWith "ts=" then (acc.1, { acc.2 with ts := (t.drop 3).toString.splitOn "," })
    else if t.startsWith "ho=" then (acc.1, { acc.2 with ho := (t.drop 3).toString.splitOn "/" })
    else (acc.1 ++ [t], acc.2)) ([], {})

def parseMsgs (toks : List String) (obs : Obs) : Option (List Msg) :=
  ((List.range toks.length).zip toks).mapM fun p => do
    let t ← (match obs.ts[p.1]? with | some h => unhex h | none => some [])
    let ko ← (match obs.ho[p.1]? with
      | some h => if h == "_" then some [] else (h.splitOn ",").mapM unhex
      | none => some [])
    parseMsg p.2 t ko

/-- `viaHandler`: the stream's writer retains the slices (marbl.Handler); what is parsed back is what its
subscriber receives (`subscriberStream`, equal to `encodeAll` by `retaining_writer_sees_written`). -/
def logOp (toks : List String) (obs : Obs := {}) (viaHandler : Bool := false) : String :=
  match parseMsgs toks obs with
  | none => "bad-op"
  | some ms =>
    if ms.any (fun m => !idOk m.id) then "panic" else     -- newFrame: id[:8]
    let senders := ms.map fun m =>
      if m.mt == 1 then requestFrames m.id m.hdrs m.noBody m.reads else messageFrames m.mt m.id m.hdrs m.reads
    -- the frames in the order the writer goroutine wrote them: the observed schedule replayed by `Marbl.Sys`
    -- (one channel send per frame), or, when the op carries none, one message after the other
    let written : Option (List Frame) :=
      match obs.ord with
      | none => some senders.flatten
      | some ord =>
        match ord.mapM String.toNat? with
        | none => none          -- a write that was not the start of a frame of a logged message
        | some o => replayWrites senders o
    match written with
    | none => "sched-invalid"
    | some frames =>
    let stream := if viaHandler then subscriberStream .fresh frames else encodeAll frames
    let r := readAll stream
    let idx := List.range ms.length
    " ".intercalate ((idx.zip ms).map (fun p => showMsg r.1 p.1 p.2) ++
      [s!"end={showStop r.2}", s!"frames={r.1.length}"] ++
      (if obs.ord.isSome then [s!"writes={frames.length}", s!"stream={stream.length}:{hex64 (fnv stream)}"] else []))

/-! ### `runpx`: exchanges through a real proxy, logged under the IDs its contexts got -/

def patBytes (len start : Nat) : Bytes := (List.range len).map fun i => UInt8.ofNat ((start + i) % 251)

/-- `conn;conn;…`, conn = `req.res,req.res,…` → (connection, exchange, request body length, response body length) -/
def parsePx (spec : String) : Option (List (Nat × Nat × Nat × Nat)) := do
  let conns := spec.splitOn ";"
  let per ← ((List.range conns.length).zip conns).mapM fun (c, cs) =>
    let es := cs.splitOn ","
    ((List.range es.length).zip es).mapM fun (x, e) =>
      match e.splitOn "." with
      | [a, b] => do let a ← a.toNat?; let b ← b.toNat?; pure (c, x, a, b)
      | _ => none
  pure per.flatten

def digits8 (n : Nat) : Bytes := strBytes ((toString (10000000 + n % 10000000)))

/-- The messages of the run with the observed equality classes of the IDs (in the 8 bytes a frame keeps), written
connection by connection, exchange by exchange (request, then response: the order one connection's exchanges have
on the stream); decoded per (id, type). Per exchange and side: number of messages whose marker header is in the
group, number of index-0 frames, number of terminal frames, length and hash of the concatenated payloads. -/
def pxOp (spec : String) (ids : List String) : String :=
  match parsePx spec with
  | none => "bad-op"
  | some exs =>
    match ids.mapM String.toNat? with
    | none => "out-of-model"        -- a message without frames: the oracle has spoken
    | some cls =>
      if cls.length ≠ exs.length then "bad-op" else
      let msgs := (exs.zip cls).map fun ((c, x, a, b), k) =>
        let marker := strBytes s!"/c{c}/x{x}"
        let id := digits8 k
        (id,
         messageFrames 1 id [(strBytes ":path", marker)] [⟨patBytes a ((7 * c + 3 * x) % 251), .eof⟩],
         messageFrames 2 id [(strBytes "X-Ex", marker)] [⟨patBytes b ((11 * c + 5 * x + 1) % 251), .eof⟩])
      let r := readAll (encodeAll (msgs.flatMap fun m => m.2.1 ++ m.2.2))
      let side (id : Bytes) (mt : UInt8) : String :=
        let g := r.1.filter fun f => f.key == (id, mt)
        let ds := g.filter Frame.isData
        let cat := (ds.map Frame.payload).flatten
        s!"{(g.filter fun f => !f.isData).length}.{(ds.filter fun f => f.index == 0).length}.{(ds.filter Frame.terminal).length}.{cat.length}.{hex64 (fnv cat)}"
      " ".intercalate (((exs.zip msgs).map fun ((c, x, _, _), m) => s!"{c}.{x}={side m.1 1}|{side m.1 2}") ++ [s!"end={showStop r.2}"])

def runOp (s : St) (extra : List String) (viaHandler : Bool := false) : String :=
  if s.isEmpty then "bad-op" else
  let (rest, obs) := splitObs extra
  if !rest.isEmpty then "bad-op" else logOp s obs viaHandler

def step (s : St) (toks : List String) : St × String :=
  match toks with
  | ["read", h] => (s, match unhex h with | some b => readOp b | none => "bad-op")
  | "log" :: ms => (s, let (m, obs) := splitObs ms; if m.isEmpty then "bad-op" else logOp m obs)
  | ["m", tok] => (s ++ [tok], "queued")                  -- same as `log`, one message per op (shrinks better)
  | "run" :: x => ([], runOp s x)
  | "runmod" :: x => ([], runOp s x)   -- through marbl.Modifier: same frames, ids canonicalised by the harness
  | "runws" :: x => ([], runOp s x true)    -- into marbl.Handler (retains the slices) + websocket subscriber: same frames
  | "rung" :: _ :: x => ([], runOp s x)     -- controlled schedule: same frames
  | ["runpx", spec, ids] => (s, if ids.startsWith "ids=" then pxOp spec ((ids.drop 4).toString.splitOn ",") else "bad-op")
  | "runstall" :: _ :: x => ([], runOp s x) -- the writer is stalled (wall clock) inside one Write: same frames, senders wait
  | _ => (s, "bad-op")

end Martian.Drv.C19
