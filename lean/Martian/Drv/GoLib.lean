import Martian.Go.Strings
import Martian.Go.Strconv
import Martian.Go.Path
import Martian.Model.MessageView
import Martian.Drv.Http1
/-! Driver ops that expose the stdlib models so the harness can compare them with real Go. -/
namespace Martian.Drv.GoLib
open Martian Martian.Go

def showBytesList (l : List Bytes) : String := "|".intercalate (l.map hex)

def step (toks : List String) : Option String :=
  match toks with
  | ["golib.clean", p] => (unhex p).map fun b => hex (clean b)
  | ["golib.join2", a, b] => do let a ← unhex a; let b ← unhex b; pure (hex (join2 a b))
  | ["golib.atoi", s] => (unhex s).map fun b => match atoi b with | some v => s!"some {v}" | none => "none"
  | ["golib.itoa", s] => s.toInt?.map fun i => hex (itoa i)
  | ["golib.split", s, sep] => do
      let b ← unhex s; let n ← sep.toNat?
      pure (showBytesList (split b (UInt8.ofNat n)))
  | ["golib.trimleft", s, cut] => do let b ← unhex s; let c ← unhex cut; pure (hex (trimLeft b c))
  | ["golib.trimspace", s] => (unhex s).map fun b => hex (trimSpace b)
  | ["golib.dechunk", s] => (unhex s).map fun b =>
      match MessageView.dechunk b with | some d => s!"some {hex d}" | none => "none"
  | ["golib.tolower", s] => (unhex s).map fun b => hex (toLower b)
  | ["golib.hassuffix", s, p] => do let b ← unhex s; let c ← unhex p; pure (toString (hasSuffix b c))
  | _ => Http1.step toks

end Martian.Drv.GoLib
