import Martian.Util
import Martian.Model.HarLog
/-! Driver for C17: runs the pointer-level model (`HarLog.step`) and, beside it, the abstract
    list specification; a difference between the two (excluded by `Props.C17.heap_refines_spec`)
    would be printed as `levels-differ`. -/
namespace Martian.Drv.C17
open Martian Martian.HarLog

def showEnt (e : Ent) : String :=
  e.id ++ ":" ++ toString e.rq ++ (match e.rs with | some t => "+" ++ toString t | none => "-")

def showObs : Obs → String
  | .ok => "ok"
  | .dup => "err dup"
  | .log es => if es.isEmpty then "log -" else "log " ++ ",".intercalate (es.map showEnt)
  | .panic => "panic"
  | .diverge => "diverge"

structure St where
  h : Heap
  l : Log
  t : Nat

def init : St := ⟨HarLog.init, [], 0⟩

def parseOp : List String → Option Op
  | ["req", id] => some (.req id)
  | ["res", id] => some (.res id)
  | ["export"] => some .exp
  | ["xreset"] => some .xreset
  | ["reset"] => some .reset
  | _ => none

def doOp (s : St) (o : Op) : St × String :=
  let (h', ob) := HarLog.step s.h s.t o
  let (l', ob') := Spec.step s.l s.t o
  (⟨h', l', s.t + 1⟩, if ob = ob' then showObs ob else "levels-differ " ++ showObs ob ++ " / " ++ showObs ob')

/-- compact op alphabet of `seq`: a b c = request, A B C = response, e x r. -/
def charOp (c : Char) : Option Op :=
  if c = 'e' then some .exp else if c = 'x' then some .xreset else if c = 'r' then some .reset
  else if c.isLower then some (.req (String.singleton c))
  else if c.isUpper then some (.res (String.singleton c.toLower))
  else none

def seqOp (w : String) : String :=
  match w.toList.mapM charOp with
  | none => "bad-op"
  | some ops =>
    let (_, outs) := ops.foldl (fun (acc : St × List String) o =>
      let (s', line) := doOp acc.1 o
      (s', line :: acc.2)) (init, [])
    "|".intercalate outs.reverse

def step (s : St) (toks : List String) : St × String :=
  match toks with
  | ["seq", w] => (s, seqOp w)
  | _ => match parseOp toks with
    | some o => doOp s o
    | none => (s, "bad-op")

end Martian.Drv.C17
