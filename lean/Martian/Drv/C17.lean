import Martian.Util
import Martian.Model.HarLog
/-! Driver for C17: runs the API-level pointer model (`HarLog.Logger.step`: options, NewRequest /
    NewResponse failure paths, ring + index) and, beside it, the abstract list specification
    (`SLogger.step`); a difference between the two (excluded by `Props.C17.logger_refines_spec`)
    would be printed as `levels-differ`.

    ops
      req <id> | res <id>                       bodiless request / `http.NoBody` response
      reqm <id> <framed 0|1> <ctype hex> <fault n|r|d>
      resm <id> <ctype hex> <fault n|r|d>
      opt post|body all 0|1 | only <hex,hex,…> | skip <hex,…>
      export | xreset | reset
      seq <word>        compact alphabet, fresh Logger (see `charCall`)
      lin <tag>:<k>[:<id>] …   a tagged sequential history on a fresh Logger (the linearisation the
                        harness found for a concurrent run): k = q s (plain req/res), Q S (read
                        fault on a framed request / on a response), e x r -/
namespace Martian.Drv.C17
open Martian Martian.HarLog

def showEnt (e : Ent) : String :=
  e.id ++ ":" ++ toString e.rq ++ (match e.rs with | some t => "+" ++ toString t | none => "-")

def showObs : Obs → String
  | .ok => "ok"
  | .dup => "err dup"
  | .err => "err msg"
  | .log es => if es.isEmpty then "log -" else "log " ++ ",".intercalate (es.map showEnt)
  | .panic => "panic"
  | .diverge => "diverge"

structure St where
  lg : Logger
  sl : SLogger
  t : Nat

def init : St := ⟨Logger.init, ⟨Cfg.default, []⟩, 0⟩

def parseFault : String → Option Fault
  | "n" => some .none
  | "r" => some .read
  | "d" => some .decode
  | _ => none

def parseStr (s : String) : Option String := (unhex s).map bytesStr

def parseStrs (s : String) : Option (List String) :=
  if s = "-" then some [] else (s.splitOn ",").mapM parseStr

def parseOpt : List String → Option LogOpt
  | ["all", "0"] => some (.all false)
  | ["all", "1"] => some (.all true)
  | ["only", l] => (parseStrs l).map .only
  | ["skip", l] => (parseStrs l).map .skip
  | _ => none

def mkReq (id fr ct f sh : String) : Option Call := do
  let ct ← parseStr ct
  let f ← parseFault f
  let sh ← sh.toNat?
  if fr = "1" then some (.req id ⟨true, ct, f, sh⟩) else if fr = "0" then some (.req id ⟨false, ct, f, sh⟩) else none

def mkRes (id ct f sh : String) : Option Call := do
  let ct ← parseStr ct
  let f ← parseFault f
  let sh ← sh.toNat?
  some (.res id ⟨false, ct, f, sh⟩)

def parseCall : List String → Option Call
  | ["req", id] => some (.req id Msg.plain)
  | ["res", id] => some (.res id Msg.plain)
  | ["reqm", id, fr, ct, f] => mkReq id fr ct f "0"
  | ["reqm", id, fr, ct, f, sh] => mkReq id fr ct f sh
  | ["resm", id, ct, f] => mkRes id ct f "0"
  | ["resm", id, ct, f, sh] => mkRes id ct f sh
  | "opt" :: "post" :: rest => (parseOpt rest).map .setPost
  | "opt" :: "body" :: rest => (parseOpt rest).map .setBody
  | ["export"] => some .exp
  | ["xreset"] => some .xreset
  | ["reset"] => some .reset
  | _ => none

def stepAt (s : St) (t : Nat) (c : Call) : St × String :=
  let (l', ob) := s.lg.step t c
  let (g', ob') := s.sl.step t c
  (⟨l', g', s.t⟩, if ob = ob' then showObs ob else "levels-differ " ++ showObs ob ++ " / " ++ showObs ob')

def doCall (s : St) (c : Call) : St × String :=
  let (s', line) := stepAt s s.t c
  ({ s' with t := s.t + 1 }, line)

/-- compact alphabet of `seq`: a b c … = request, A B C … = response, e x r,
    1 2 3 = response for a b c whose body reader fails, 4 5 6 = framed request for a b c whose
    body reader fails, `-` / `+` = body and post-data logging off / on. -/
def charCalls (c : Char) : Option (List Call) :=
  if c = 'e' then some [.exp] else if c = 'x' then some [.xreset] else if c = 'r' then some [.reset]
  else if c = '1' then some [.res "a" ⟨false, "", .read, 0⟩]
  else if c = '2' then some [.res "b" ⟨false, "", .read, 0⟩]
  else if c = '3' then some [.res "c" ⟨false, "", .read, 0⟩]
  else if c = '4' then some [.req "a" ⟨true, "", .read, 0⟩]
  else if c = '5' then some [.req "b" ⟨true, "", .read, 0⟩]
  else if c = '6' then some [.req "c" ⟨true, "", .read, 0⟩]
  else if c = '-' then some [.setPost (.all false), .setBody (.all false)]
  else if c = '+' then some [.setPost (.all true), .setBody (.all true)]
  else if c.isLower then some [.req (String.singleton c) Msg.plain]
  else if c.isUpper then some [.res (String.singleton c.toLower) Msg.plain]
  else none

/-- one letter = one tag (the two SetOption calls of `-`/`+` share it; they record nothing). -/
def doLetter (s : St) (cs : List Call) : St × String :=
  let (s', lines) := cs.foldl (fun (acc : St × List String) c =>
    let (s1, line) := stepAt acc.1 acc.1.t c
    (s1, line :: acc.2)) (s, [])
  ({ s' with t := s.t + 1 }, lines.headD "bad-op")

def seqOp (w : String) : String :=
  match w.toList.mapM charCalls with
  | none => "bad-op"
  | some ops =>
    let (_, outs) := ops.foldl (fun (acc : St × List String) cs =>
      let (s', line) := doLetter acc.1 cs
      (s', line :: acc.2)) (init, [])
    "|".intercalate outs.reverse

def parseTagged (tok : String) : Option (Nat × Call) :=
  match tok.splitOn ":" with
  | [t, "q", id] => t.toNat?.map (·, .req id Msg.plain)
  | [t, "s", id] => t.toNat?.map (·, .res id Msg.plain)
  | [t, "Q", id] => t.toNat?.map (·, .req id ⟨true, "", .read, 0⟩)
  | [t, "S", id] => t.toNat?.map (·, .res id ⟨false, "", .read, 0⟩)
  | [t, "e"] => t.toNat?.map (·, .exp)
  | [t, "x"] => t.toNat?.map (·, .xreset)
  | [t, "r"] => t.toNat?.map (·, .reset)
  | _ => none

def linOp (toks : List String) : String :=
  match toks.mapM parseTagged with
  | none => "bad-op"
  | some cs =>
    let (_, outs) := cs.foldl (fun (acc : St × List String) tc =>
      let (s', line) := stepAt acc.1 tc.1 tc.2
      (s', line :: acc.2)) (init, [])
    "lin " ++ "|".intercalate outs.reverse

/-- long lists are compared through a summary: length, first and last entry, a checksum over all. -/
def showObsShort : Obs → String
  | .log es =>
    if es.length ≤ 8 then showObs (.log es) else
    let sum := es.foldl (fun acc e => (acc * 31 + e.rq * 7 + (match e.rs with | some t => t + 1 | none => 0)) % 1000003) 0
    "log n=" ++ toString es.length ++ " " ++ (es.head?.map showEnt).getD "" ++ " .. " ++
      (es.getLast?.map showEnt).getD "" ++ " sum=" ++ toString sum
  | o => showObs o

/-- `bulk N i1,i2,…`: on a fresh Logger, requests b0 … b(N-1); a response for every one except the
    listed indices; export-and-reset; export; then for every listed (still pending) entry a
    duplicate request and a response; export, export-and-reset, export. -/
def bulkCalls (n : Nat) (pend : List Nat) : List Call :=
  let ids := List.range n
  let bid (i : Nat) : String := "b" ++ toString i
  ids.map (fun i => Call.req (bid i) Msg.plain) ++
  (ids.filter (fun i => !pend.contains i)).map (fun i => Call.res (bid i) Msg.plain) ++
  [.xreset, .exp] ++
  pend.flatMap (fun i => [Call.req (bid i) Msg.plain, Call.res (bid i) Msg.plain]) ++
  [.exp, .xreset, .exp]

def bulkOp (n : Nat) (pend : List Nat) : String :=
  let (_, outs) := (bulkCalls n pend).foldl (fun (acc : St × List String) c =>
    let (l', ob) := acc.1.lg.step acc.1.t c
    let (g', ob') := acc.1.sl.step acc.1.t c
    let line := if ob = ob' then showObsShort ob else "levels-differ " ++ showObsShort ob ++ " / " ++ showObsShort ob'
    -- the n requests and the responses are summarised as counts below
    (⟨l', g', acc.1.t + 1⟩, line :: acc.2)) (init, [])
  let outs := outs.reverse
  let oks := (outs.filter (· == "ok")).length
  "bulk ok=" ++ toString oks ++ " " ++ "|".intercalate (outs.filter (· != "ok"))

/-- checksum of a line (kept in step with the harness's `lineSum`). -/
def lineSum (acc : Nat) (s : String) : Nat :=
  s.toList.foldl (fun a c => (a * 131 + c.toNat) % 1000003) ((acc * 7 + 1) % 1000003)

def runLetters (s : St) (w : String) : Option (St × List String) :=
  (w.toList.mapM charCalls).map fun ops =>
    let (s', outs) := ops.foldl (fun (acc : St × List String) cs =>
      let (s1, line) := doLetter acc.1 cs
      (s1, line :: acc.2)) (s, [])
    (s', outs.reverse)

/-- `rep n pre unit post`: on a fresh Logger the word `pre`, then the word `unit` n times, then
    `post` (seq letters; `-` = empty).  The n repetitions are printed as first round, last round
    and a checksum over all their lines. -/
def repOp (n : Nat) (pre unit post : String) : String :=
  let fix (w : String) : String := if w = "-" then "" else w
  match runLetters init (fix pre) with
  | none => "bad-op"
  | some (s1, o1) =>
    let rec loop : Nat → St → Nat → List String → List String → Option (St × Nat × List String × List String)
      | 0, s, sum, first, last => some (s, sum, first, last)
      | k + 1, s, sum, first, _ =>
        match runLetters s (fix unit) with
        | none => none
        | some (s', o) => loop k s' (o.foldl lineSum sum) (if first.isEmpty then o else first) o
    match loop n s1 0 [] [] with
    | none => "bad-op"
    | some (s2, sum, first, last) =>
      match runLetters s2 (fix post) with
      | none => "bad-op"
      | some (_, o3) =>
        "rep " ++ "|".intercalate o1 ++ " ;n=" ++ toString n ++ " first=" ++ "|".intercalate first ++
          " last=" ++ "|".intercalate last ++ " sum=" ++ toString sum ++ "; " ++ "|".intercalate o3

def step (s : St) (toks : List String) : St × String :=
  match toks with
  | ["seq", w] => (s, seqOp w)
  | ["rep", n, pre, unit, post] =>
    match n.toNat? with
    | some n => (s, repOp n pre unit post)
    | none => (s, "bad-op")
  | ["bulk", n, pend] =>
    match n.toNat?, natList pend with
    | some n, some pend => (s, bulkOp n pend)
    | _, _ => (s, "bad-op")
  | "lin" :: rest => (s, linOp rest)
  | _ => match parseCall toks with
    | some c => doCall s c
    | none => (s, "bad-op")

end Martian.Drv.C17
