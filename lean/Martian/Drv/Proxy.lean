import Martian.Model.Proxy
import Martian.Drv.GoLib
/-! Shared driver of the exchange machine (C01, C02, C03, C05 use the same op language). -/
namespace Martian.Drv.Proxy
open Martian Martian.Proxy

structure St where
  shutdown : Bool := false
  tlsListener : Bool := false
  quiet : Bool := false        -- the client hangs up after the last scripted request (no probe)
  items : List Item := []     -- reversed
  bad : Bool := false

def init : St := {}

def kv (toks : List String) (k : String) : Option String :=
  toks.findSome? fun t => if t.startsWith (k ++ "=") then some ((t.drop (k.length + 1)).toString) else none

def parseRq : String → Option ReqB
  | "pass" => some .pass | "err" => some .err | "skip" => some .skip
  | "errskip" => some .errSkip | "hijack" => some .hijack | _ => none
def parseRs : String → Option ResB
  | "pass" => some .pass | "err" => some .err | "hijack" => some .hijack | _ => none
def parseBool : String → Option Bool | "1" => some true | "0" => some false | _ => none

def parseItem (toks : List String) : Option Item := do
  let rq ← (kv toks "rq").bind parseRq
  let rs ← (kv toks "rs").bind parseRs
  match toks.head? with
  | some "x" =>
    let rc ← (kv toks "rc").bind parseBool
    let o ← kv toks "o"
    let st ← (kv toks "st").bind String.toNat?
    let cl ← (kv toks "rcl").bind parseBool
    let org ← (if o = "ok" then some (Org.ok st cl)
               else if o = "fail" then some Org.fail
               else if o = "trunc" then some (Org.trunc st) else none)
    pure (.x rc rq rs org)
  | some "cmitm" => do let t ← (kv toks "tls").bind parseBool; pure (.connectMitm t rq rs)
  | some "cblind" => do let d ← (kv toks "dial").bind parseBool; pure (.connectBlind d rq rs)
  | _ => none

def b (x : Bool) : String := if x then "1" else "0"

def isRead (i : Nat) : Ev → Bool | .read j => j == i | _ => false

def writeInfo (i : Nat) : List Ev → String
  | [] => "st=-,cm=-,cp=-"
  | .write j st cm cp :: r => if j == i then s!"st={st},cm={b cm},cp={b cp}" else writeInfo i r
  | _ :: r => writeInfo i r

def reqInfo (i : Nat) : List Ev → String
  | [] => "https=-,sec=-,tls=-"
  | .reqmod j _ h s t :: r => if j == i then s!"https={b h},sec={b s},tls={b t}" else reqInfo i r
  | _ :: r => reqInfo i r

def hijInfo (i : Nat) : List Ev → String
  | [] => "hij=-"
  | .hijacked j t :: r => if j == i then (if t then "hij=tls" else "hij=raw") else hijInfo i r
  | _ :: r => hijInfo i r

def upTls (i : Nat) : List Ev → String
  | [] => "-"
  | .upstream j t :: r => if j == i then b t else upTls i r
  | _ :: r => upTls i r

def summary (evs : List Ev) (i : Nat) : String :=
  if !(evs.any (isRead i)) then s!"{i}:unserved" else
  s!"{i}:rq={countP (isReqmod i) evs},up={b (countP (isUpstream i) evs > 0)},uptls={upTls i evs}," ++
  -- response-side warnings are observable only on a response that is written to the client
  let written := countP (isWrite i) evs > 0
  s!"rs={countP (isResmod i) evs},wq={countP (isWarnReq i) evs},wt={if written then countP (isWarnRt i) evs else 0}," ++
  s!"ws={if written then countP (isWarnRes i) evs else 0},{writeInfo i evs},{reqInfo i evs},{hijInfo i evs}"

/-- Does the connection still serve a further request after the listed items? -/
def stillOpen (s0 : Martian.Proxy.St) (shutdown : Bool) (items : List Item) : Bool :=
  let evs := runConnOn s0 shutdown 0 (items ++ [.x false .pass .pass (.ok 200 false)])
  evs.any (isRead items.length)

def links (evs : List Ev) : List Nat := evs.filterMap fun | .link c => some c | _ => none
def unlinks (evs : List Ev) : List Nat := evs.filterMap fun | .unlink c => some c | _ => none

def finish (s : St) : String :=
  let items := s.items.reverse
  let s0 : Martian.Proxy.St := if s.tlsListener then tlsListenerState else {}
  let evs := runConnOn s0 s.shutdown 0 items
  let per := (List.range items.length).map (summary evs)
  let left := (links evs).filter (fun c => !(unlinks evs).contains c)
  " | ".intercalate per ++ s!" | open={b (!s.quiet && stillOpen s0 s.shutdown items)} ctxleft={left.length} distinct={b (links evs).Nodup}"

def step (s : St) (toks : List String) : St × String :=
  match toks with
  | "conn" :: rest =>
    let tl := (kv rest "listener") == some "tls"
    let q := (kv rest "quiet") == some "1"
    match (kv rest "shutdown").bind parseBool with
    | some sd => ({ shutdown := sd, tlsListener := tl, quiet := q }, "ok")
    | none => ({ tlsListener := tl, quiet := q }, "ok")
  | ["end"] => if s.bad then (init, "bad-op") else (init, finish s)
  | _ =>
    match GoLib.step toks with
    | some o => (s, o)
    | none =>
    match parseItem toks with
    | some it => ({ s with items := it :: s.items }, "queued")
    | none => ({ s with bad := true }, "bad-op")

end Martian.Drv.Proxy
