import Martian.Model.Proxy
import Martian.Model.ProxyWire
import Martian.Drv.GoLib
/-! Shared driver of the exchange machine (C01, C02, C03, C05 use the same op language). -/
namespace Martian.Drv.Proxy
open Martian Martian.Proxy Martian.Proxy.Wire

structure St where
  shutdown : Bool := false
  tlsListener : Bool := false
  quiet : Bool := false        -- the client hangs up after the last scripted request (no probe)
  items : List Item := []     -- reversed
  xws : List (Option XW) := [] -- reversed; wire attributes of the non-CONNECT items
  replay : List Bool := []     -- reversed; can `http.Transport` replay the request (bodiless and idempotent)?
  flags : List String := []    -- reversed; the context flags after the request modifier's calls
  oom : Bool := false          -- the case has an item outside the model's domain (answer `out-of-model`)
  bad : Bool := false

def init : St := {}

def kv (toks : List String) (k : String) : Option String :=
  toks.findSome? fun t => if t.startsWith (k ++ "=") then some ((t.drop (k.length + 1)).toString) else none

/-- The error value a scripted modifier returns (`ek=` / `sek=`; default: an ordinary error). -/
def parseErrVal : Option String → Option ErrVal
  | none | some "plain" => some .plain
  | some "wrapped" => some .wrapped | some "multi" => some .multi | some "multieof" => some .multiEof
  | some "ueof" => some .unexpectedEof | some "canceled" => some .canceled | some "refused" => some .refused
  | some "eof" => some .eof | some "pipe" => some .closedPipe | some "timeout" => some .timeout
  | some "optimeout" => some .opTimeout | some "deadline" => some .deadline
  | some "ctxdeadline" => some .ctxDeadline | some "dnstimeout" => some .dnsTimeout
  | some "ctl" => some .controlText | some "nonascii" => some .nonAsciiText
  | _ => none

def parseRq (ek : Option String) : String → Option ReqB
  | "pass" => some .pass | "err" => (parseErrVal ek).map .err | "skip" => some .skip
  | "errskip" => (parseErrVal ek).map .errSkip | "hijack" => some .hijack
  | "insec" => some .insecure | _ => none
def parseRs (sek : Option String) : String → Option ResB
  | "pass" => some .pass | "err" => (parseErrVal sek).map .err | "hijack" => some .hijack | _ => none
def parseBool : String → Option Bool | "1" => some true | "0" => some false | _ => none

def parseMinor : Option String → Option Nat
  | none | some "11" => some 1 | some "10" => some 0 | _ => none

def splitLines (b : Bytes) : List Bytes := Go.split b 10

/-- Connection lines: `<key>=<hex of the lines joined by LF>` or `-`; when the key is absent the
legacy flag (`rc=1` / `oc=1`) stands for a single `close`. -/
def parseConn (toks : List String) (key legacy : String) : Option (List Bytes) :=
  match kv toks key with
  | some "-" => some []
  | some h => (unhex h).map splitLines
  | none => some (if kv toks legacy == some "1" then [tokClose] else [])

def parseFraming : Option String → Option OFraming
  | none | some "cl" => some .cl | some "ch" => some .chunked | some "close" => some .eof | _ => none

def parseXW (toks : List String) : Option XW := do
  let rm ← parseMinor (kv toks "pv")
  let rc ← parseConn toks "ct" "rc"
  let om ← parseMinor (kv toks "opv")
  let oc ← parseConn toks "oct" "oc"
  let fr ← parseFraming (kv toks "of")
  let st ← (kv toks "st").bind String.toNat?
  pure { reqMinor := rm, reqConn := rc, head := kv toks "m" == some "HEAD", status := st,
         resMinor := om, resConn := oc, framing := fr }

def parseItem (toks : List String) : Option (Item × Option XW) := do
  let rq ← (kv toks "rq").bind (parseRq (kv toks "ek"))
  let rs ← (kv toks "rs").bind (parseRs (kv toks "sek"))
  match toks.head? with
  | some "x" =>
    let o ← kv toks "o"
    let x ← parseXW toks
    let org ← (if o = "ok" then some (Org.ok x.status false)
               else if o = "fail" then some Org.fail
               else if o = "trunc" then some (Org.trunc x.status) else none)
    -- `req.Close` / `res.Close` are computed from the versions and Connection tokens
    pure (toItem x rq rs org, some x)
  | some "cmitm" => do
    let t ← (kv toks "tls").bind parseBool
    -- `hf=<kind>`: the tunnel starts with a TLS handshake that fails
    pure (if (kv toks "hf").isSome && t then .connectMitmFail rq rs else .connectMitm t rq rs, none)
  | some "cblind" => do let d ← (kv toks "dial").bind parseBool; pure (.connectBlind d rq rs, none)
  | _ => none

def b (x : Bool) : String := if x then "1" else "0"

def isRead (i : Nat) : Ev → Bool | .read j => j == i | _ => false

def showFraming : WFraming → String
  | .contentLength => "cl" | .chunked => "ch" | .untilClose => "eof" | .noBody => "none"

/-- Was the response of this exchange made by `proxyutil.NewResponse` (skip round trip, 502)? -/
def synthetic : Item → Bool
  | .x _ rq _ org => rqSkip rq || org == .fail
  | _ => false

/-- Status, close mark as a client parsing the response reads it, completeness. For a non-CONNECT
exchange the mark is that of the written header (`Wire.written`). -/
def writeInfo (i : Nat) (it : Option Item) (xw : Option XW) : List Ev → String × String
  | [] => ("st=-,cm=-,cp=-", "pv=-,fr=-")
  | .write j st cm cp :: r =>
    if j == i then
      match it, xw with
      | some it, some x =>
        let w := written x (synthetic it) cm
        (s!"st={st},cm={b w.saysClose},cp={b cp}", s!"pv=1{w.minor},fr={showFraming w.framing}")
      | _, _ => (s!"st={st},cm={b cm},cp={b cp}", "pv=-,fr=-")
    else writeInfo i it xw r
  | _ :: r => writeInfo i it xw r

def reqInfo (i : Nat) : List Ev → String × String
  | [] => ("https=-,sec=-,tls=-", "tid=-")
  | .reqmod j _ h s t tid :: r =>
    if j == i then (s!"https={b h},sec={b s},tls={b t}", s!"tid={tid}") else reqInfo i r
  | _ :: r => reqInfo i r

def hijInfo (i : Nat) : List Ev → String
  | [] => "hij=-,htid=-"
  | .hijacked j t tid :: r => if j == i then (if t then s!"hij=tls,htid={tid}" else s!"hij=raw,htid={tid}") else hijInfo i r
  | _ :: r => hijInfo i r

def upTls (i : Nat) : List Ev → String
  | [] => "-"
  | .upstream j t :: r => if j == i then b t else upTls i r
  | _ :: r => upTls i r

def summaryAt (it : Option Item) (xw : Option XW) (evs : List Ev) (i : Nat) : String :=
  if !(evs.any (isRead i)) then s!"{i}:unserved" else
  let (wi, wattr) := writeInfo i it xw evs
  let (ri, tid) := reqInfo i evs
  s!"{i}:rq={countP (isReqmod i) evs},up={b (countP (isUpstream i) evs > 0)},uptls={upTls i evs}," ++
  -- response-side warnings are observable only on a response that is written to the client
  let written := countP (isWrite i) evs > 0
  s!"rs={countP (isResmod i) evs},wq={countP (isWarnReq i) evs},wt={if written then countP (isWarnRt i) evs else 0}," ++
  s!"ws={if written then countP (isWarnRes i) evs else 0},{wi},{ri},{hijInfo i evs},{tid},{wattr}"

/-- The differential ops of the wire functions (`go/internal/pxy/wire.go`, against the real net/http). -/
def wireOp : List String → Option String
  | ["h1.reqclose", pv, ct] => some <|
    match parseMinor (some pv), parseConn [s!"ct={ct}"] "ct" "rc" with
    | some m, some c => s!"close={b (shouldClose 1 m c)}"
    | _, _ => "bad-op"
  | ["h1.reswrite", m, st, opv, oct, fr, ask] => some <|
    match st.toNat?, parseMinor (some opv), parseConn [s!"oct={oct}"] "oct" "oc", parseFraming (some fr), parseBool ask with
    | some st, some om, some oc, some fr, some ask =>
      let x : XW := { head := m == "HEAD", status := st, resMinor := om, resConn := oc, framing := fr }
      let w := written x false (ask || resClose x)
      s!"rclose={b (resClose x)} pv=1{w.minor} fr={showFraming w.framing} cm={b w.saysClose}"
    | _, _, _, _, _ => "bad-op"
  | ["pu.warning", n, hexLines, pre] => some <|
    match n.toNat?, (if hexLines == "-" then some [] else unhex hexLines), pre.toNat? with
    | some n, some raw, some pre =>
      let dates : List Bytes := if n == 0 then [] else splitLines raw
      let h : Go.Header := (if dates.isEmpty then [] else [(kDate, dates)]) ++
        (if pre == 0 then [] else [(kWarning, List.replicate pre (strBytes "pre"))])
      let h' := puWarning (fun m d => m ++ d) h (strBytes "e") (strBytes "now")
      s!"n={(Go.Header.values h' kWarning).length} echo={b (!(Go.Header.get h kDate == []))}"
    | _, _, _ => "bad-op"
  | _ => none

/-- Does the connection still serve a further request after the listed items? -/
def stillOpen (s0 : Martian.Proxy.St) (shutdown : Bool) (items : List Item) : Bool :=
  let evs := runConnOn s0 shutdown 0 (items ++ [.x false .pass .pass (.ok 200 false)])
  evs.any (isRead items.length)

def links (evs : List Ev) : List Nat := evs.filterMap fun | .link c => some c | _ => none
def unlinks (evs : List Ev) : List Nat := evs.filterMap fun | .unlink c => some c | _ => none

/-- The trace cut at its `read` events: the events of exchange `i` are the `i`-th piece (every
exchange starts with its `read`; the bookkeeping at the end of the connection rides on the last
piece, where nothing counts it). Only there to keep the summaries linear in the length of a long
connection - `summary` sees exactly the events that carry index `i`. -/
def pieces : List Ev → List (List Ev) → List Ev → List (List Ev)
  | [], acc, cur => (cur.reverse :: acc).reverse
  | .read i :: r, acc, cur => pieces r (cur.reverse :: acc) [.read i]
  | e :: r, acc, cur => pieces r acc (e :: cur)

/-- The session state in which each request of the script is handled (`none` once the connection
has ended), in one pass. -/
def statesOf (sd : Bool) : Martian.Proxy.St → Nat → List Item → List (Option Martian.Proxy.St)
  | _, _, [] => []
  | s, i, it :: rest =>
    some s :: (match (handleItem sd s i i it).2 with
      | .again s' => statesOf sd s' (i + 1) rest
      | _ => rest.map fun _ => none)

/-- `dropped=<i,j,…>` on `end`: the exchanges for which the origin dropped a REUSED upstream connection
without answering (an observation of the run). `http.Transport` retries such a request on a fresh
connection iff it can replay it; otherwise the round trip fails. -/
def applyDrops (items : List Item) (replay : List Bool) (dropped : List Nat) : List Item :=
  (List.range items.length).zip (items.zip replay) |>.map fun (i, it, rp) =>
    if dropped.contains i && !rp then
      match it with
      | .x rc rq rs (.ok _ _) => .x rc rq rs .fail
      | it => it
    else it

def numWrites (evs : List Ev) : Nat := countP (fun e => match e with | .write .. => true | _ => false) evs

/-- The context flags after the scripted calls of the request modifier (`rq=skip|errskip` calls
`SkipRoundTrip`; `api=` lists further calls in order). -/
def flagsOf (toks : List String) : String :=
  let rq := (kv toks "rq").getD "pass"
  let api := ((kv toks "api").getD "").splitOn ","
  let cs : List CtxCall := (if rq == "skip" || rq == "errskip" then [.skipRoundTrip] else []) ++
    api.filterMap fun a => match a with
      | "skiprt" => some .skipRoundTrip | "skiplog" => some .skipLogging | "apireq" => some .apiRequest | _ => none
  let f := ({} : Flags).calls cs
  s!"{b f.skipRoundTrip}{b f.skipLogging}{b f.apiRequest}"

def isStrictlyIncreasing : List Nat → Bool
  | a :: b :: r => a < b && isStrictlyIncreasing (b :: r)
  | _ => true

/-- `burst n=<N>`: N pipelined bodiless requests whose request modifier skips the round trip, on one
connection; only counts and the uniqueness of the context ids are observed. -/
def burst (s : St) (n : Nat) : String :=
  let s0 : Martian.Proxy.St := if s.tlsListener then tlsListenerState else {}
  let evs := runConnOn s0 s.shutdown 0 (List.replicate n (.x false .skip .pass (.ok 200 false)))
  let ls := links evs
  s!"served={numWrites evs} distinct={b (isStrictlyIncreasing ls && ls.length == n)} samectx=1 sessions=1 ctxleft={ls.length - (unlinks evs).length}"

def finish (s : St) (dropped : List Nat) : String :=
  if s.oom then "out-of-model" else
  let items := applyDrops s.items.reverse s.replay.reverse dropped
  let s0 : Martian.Proxy.St := if s.tlsListener then tlsListenerState else {}
  let evs := runConnOn s0 s.shutdown 0 items
  let ps := ((pieces evs [] []).drop 1).toArray        -- piece 0 is what precedes the first read: nothing
  let xws := s.xws.reverse.toArray
  let its := items.toArray
  let sts := (statesOf s.shutdown s0 0 items).toArray
  let fls := s.flags.reverse.toArray
  let per := (List.range items.length).map fun i =>
    let sv := match (sts[i]?).join with | some st => toString st.stored | none => "-"
    let line := summaryAt (its[i]?) ((xws[i]?).join) (ps[i]?.getD []) i
    if line.endsWith "unserved" then line else line ++ s!",sv={sv},fl={(fls[i]?).getD ""}"
  let left := (links evs).filter (fun c => !(unlinks evs).contains c)
  " | ".intercalate per ++ s!" | open={b (!s.quiet && stillOpen s0 s.shutdown items)} ctxleft={left.length} distinct={b (links evs).Nodup}"

def step (s : St) (toks : List String) : St × String :=
  match toks with
  | "conn" :: rest =>
    let tl := (kv rest "listener") == some "tls"
    let q := (kv rest "quiet") == some "1"
    let tl := tl || [some "tlsmitm", some "shapedtls", some "shapedtlsmitm"].contains (kv rest "listener")
    match (kv rest "shutdown").bind parseBool with
    | some sd => ({ shutdown := sd, tlsListener := tl, quiet := q }, "ok")
    | none => ({ tlsListener := tl, quiet := q }, "ok")
  | "end" :: hints =>
    if s.bad then (init, "bad-op") else
    let dropped := ((kv hints "dropped").map fun l => (l.splitOn ",").filterMap String.toNat?).getD []
    (init, finish s dropped)
  | ["burst", n] =>
    match ((kv [n] "n").bind String.toNat?) with
    | some n => (init, burst s n)
    | none => (init, "bad-op")
  | _ =>
    match GoLib.step toks with
    | some o => (s, o)
    | none =>
    match wireOp toks with
    | some o => (s, o)
    | none =>
    match parseItem toks with
    | some (it, xw) =>
      let rp := (["GET", "HEAD", "OPTIONS", "TRACE"].contains ((kv toks "m").getD "GET")) && (kv toks "rb").getD "0" == "0"
      -- a downstream proxy's own answer to a CONNECT (anything but "tunnel established" / "unreachable") is
      -- outside the model: the oracle alone judges such cases
      -- so is a request that names no host at all (origin-form target without a usable Host header): the
      -- round trip fails without any upstream contact
      let nohost := ["nohost10", "emptyhost"].contains ((kv toks "xr").getD "") && (kv toks "tf").getD "origin" == "origin"
      let oom := s.oom || nohost || ((kv toks "dsr").isSome && !["200", "refuse", "close", "trunc", "garbage"].contains ((kv toks "dsr").getD "200"))
      ({ s with items := it :: s.items, xws := xw :: s.xws, replay := rp :: s.replay, flags := flagsOf toks :: s.flags, oom := oom }, "queued")
    | none => ({ s with bad := true }, "bad-op")

end Martian.Drv.Proxy
