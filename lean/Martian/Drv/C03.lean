import Martian.Drv.Proxy
/-! C03 uses the shared exchange-machine driver. -/
namespace Martian.Drv.C03
abbrev St := Martian.Drv.Proxy.St
def init : St := Martian.Drv.Proxy.init
def step : St → List String → St × String := Martian.Drv.Proxy.step
end Martian.Drv.C03
