import Martian.Model.Mitm
namespace Martian.Drv.C06
open Martian Martian.Go Martian.Mitm

/-- Driver state: configuration, cache, logical clock (ms). -/
structure St where
  cfg : Config
  st : State
  now : Int
  last : Option Cert := none     -- the leaf most recently served by `get`/`hs` (ops `vhl`, `vwl`)
  signOk : Bool := true          -- op `signfail on|off`: does the CA key's Sign succeed

/-- Defaults of `mitm.NewConfig`: one hour, "Martian Proxy". The clock starts mid-second. -/
def init : St := { cfg := { validity := 3600000, org := strBytes "Martian Proxy" }, st := {}, now := 1700000000400 }

def showCert (base : Nat) (c : Cert) : String :=
  let san := match c.names, c.ips with
    | [n], [] => s!"dns:{hex n}"
    | [], [ip] => s!"ip:{hex ip}"
    | _, _ => "san:other"
  let fresh := if c.serial ≥ base then "fresh" else "cached"
  s!"cert {c.serial} {fresh} {san} org:{hex c.org} span:{(c.notAfter - c.notBefore) / 2000}"

def showOutcome (base : Nat) : Outcome → String
  | .refused => "refused"
  | .served c _ => showCert base c

/-- Hosts the model speaks about: ASCII (x509 refuses non-IA5 DNS names; not modelled). -/
def inModel (h : Bytes) : Bool := isAscii h

def unhexList (s : String) : Option (List Bytes) :=
  if s = "-" then some [] else (s.splitOn ",").mapM unhex

/-- Concurrent requesters, observed after all have returned: any interleaving hands each requester a
certificate for its own host; the harness identifies the certificates issued for one host within the
op, so the sequential order is the canonical schedule. -/
def concOp (s : St) (hosts : List Bytes) : St × List Outcome :=
  hosts.foldl (fun (acc : St × List Outcome) h =>
    let r := getCertForHostS acc.1.cfg h [] acc.1.now acc.1.signOk acc.1.st
    ({ acc.1 with st := r.1 }, acc.2 ++ [r.2])) (s, [])

def lastOf (o : Outcome) (prev : Option Cert) : Option Cert :=
  match o with
  | .served c _ => some c
  | .refused => prev

/-- A hand-made certificate: chosen SAN sets, window in ms relative to the harness' base time. -/
def handMade (names : List Bytes) (ips : List IP) (nb na : Int) (ca : Bool) : Cert :=
  { serial := 0, names := names, ips := ips, notBefore := nb, notAfter := na, org := [], signedByCA := ca, keyHeld := true }

def showErr : VerifyErr → String
  | .ok => "ok"
  | .expired => "expired"
  | .hostname => "hostname"
  | .authority => "authority"

def doGet (s : St) (op mode fb sni : String) (now : Int) : St × String :=
  match unhex fb, unhex sni with
  | some fbb, some snb =>
    if !(inModel fbb && inModel snb) then (s, "out-of-model") else
    let pre := if op = "hs" then "hs " else ""
    if mode = "tls" then
      let r := getCertTLSS s.cfg snb now s.signOk s.st
      ({ s with st := r.1, now := now, last := lastOf r.2 s.last }, pre ++ showOutcome s.st.next r.2)
    else if mode = "host" then
      let r := getCertForHostS s.cfg fbb snb now s.signOk s.st
      ({ s with st := r.1, now := now, last := lastOf r.2 s.last }, pre ++ showOutcome s.st.next r.2)
    else (s, "bad-op")
  | _, _ => (s, "bad-op")

def step (s : St) (toks : List String) : St × String :=
  match toks with
  | ["validity", secs] =>
    match secs.toNat? with
    | some n => ({ s with cfg := { s.cfg with validity := (n : Int) * 1000 } }, "ok")
    | none => (s, "bad-op")
  | ["org", o] =>
    match unhex o with
    | some ob => ({ s with cfg := { s.cfg with org := ob } }, "ok")
    | none => (s, "bad-op")
  | ["expire"] => ({ s with now := s.now + 3000 }, "ok")
  | ["vh", names, ips, h] =>
    -- x509.Certificate.VerifyHostname on a hand-made certificate with the given SAN sets
    match unhexList names, unhexList ips, unhex h with
    | some ns, some is, some hb =>
      if !(ns.all inModel && inModel hb) then (s, "out-of-model") else
      (s, if verifyHostname (handMade ns is 0 0 true) hb then "vh ok" else "vh no")
    | _, _, _ => (s, "bad-op")
  | [op, mode, fb, sni] =>
    if op ≠ "get" ∧ op ≠ "hs" then (s, "bad-op") else doGet s op mode fb sni (s.now + 1)
  | [op, ms, mode, fb, sni] =>
    -- realtime cases: the harness passes the wall clock (unix ms) read just before the call
    match ms.toInt? with
    | some t =>
      if op = "getat" then doGet s "get" mode fb sni t
      else if op = "hsat" then doGet s "hs" mode fb sni t
      else (s, "bad-op")
    | none => (s, "bad-op")
  | ["concat", ms, hs] =>
    match ms.toInt?, unhexList hs with
    | some t, some hosts =>
      if !(hosts.all inModel) then (s, "out-of-model") else
      let r := concOp { s with now := t } hosts
      (r.1, "conc " ++ ";".intercalate (r.2.map (showOutcome s.st.next)))
    | _, _ => (s, "bad-op")
  | ["ca", _] => (s, "ok")        -- kind of the CA key: invisible to the model (bit `signedByCA`)
  | ["h2", _] => (s, "ok")        -- SetH2Config: ALPN only
  | ["sleep", _] => (s, "ok")     -- real time passes; realtime cases carry the clock in the next op
  | ["realtime"] => (s, "ok")
  | ["signfail", v] =>
    if v = "on" then ({ s with signOk := false }, "ok")
    else if v = "off" then ({ s with signOk := true }, "ok")
    else (s, "bad-op")
  | ["conc", hs] =>
    match unhexList hs with
    | some hosts =>
      if !(hosts.all inModel) then (s, "out-of-model") else
      let s1 := { s with now := s.now + 1 }
      let r := concOp s1 hosts
      (r.1, "conc " ++ ";".intercalate (r.2.map (showOutcome s.st.next)))
    | none => (s, "bad-op")
  | ["vfy", names, ips, signer, nb, na, h, now] =>
    -- Certificate.Verify(DNSName: h, Roots: CA, CurrentTime: base+now) on a hand-made certificate
    match unhexList names, unhexList ips, unhex h, nb.toInt?, na.toInt?, now.toInt? with
    | some ns, some is, some hb, some nbs, some nas, some nowms =>
      if !(ns.all inModel && inModel hb) then (s, "out-of-model") else
      (s, "vfy " ++ showErr (verifyErr (handMade ns is (nbs * 1000) (nas * 1000) (signer == "ca")) hb nowms))
    | _, _, _, _, _, _ => (s, "bad-op")
  | ["vhl", h] =>
    -- VerifyHostname of the leaf most recently served by the real Config / the model
    match unhex h with
    | some hb =>
      if !inModel hb then (s, "out-of-model") else
      match s.last with
      | none => (s, "vhl none")
      | some c => (s, if verifyHostname c hb then "vhl ok" else "vhl no")
    | none => (s, "bad-op")
  | ["vwl", edge, off] =>
    -- Verify (no name) of that leaf at NotBefore+off / NotAfter+off (ms)
    match off.toInt?, s.last with
    | some o, some c =>
      if edge = "nb" then (s, if inWindow c (c.notBefore + o) then "vwl ok" else "vwl expired")
      else if edge = "na" then (s, if inWindow c (c.notAfter + o) then "vwl ok" else "vwl expired")
      else (s, "bad-op")
    | some _, none => (s, "vwl none")
    | none, _ => (s, "bad-op")
  | ["shp", h] =>
    match unhex h with
    | some hb =>
      if !isAscii hb then (s, "out-of-model") else
      match splitHostPort hb with
      | some (a, p) => (s, s!"shp ok {hex a} {hex p}")
      | none => (s, "shp err")
    | none => (s, "bad-op")
  | ["parseip", h] =>
    match unhex h with
    | some hb =>
      if !isAscii hb then (s, "out-of-model") else
      match parseIP hb with
      | some ip => (s, s!"ip {hex ip}")
      | none => (s, "ip none")
    | none => (s, "bad-op")
  | _ => (s, "bad-op")

end Martian.Drv.C06
