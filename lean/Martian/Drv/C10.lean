import Martian.Util
import Martian.Model.H2Proxy
/-! Driver for C10: validates an environment trace (+ schedule hints) against the session model and
prints the model's prediction of the observations (`returned`, upstream closed, goroutines left).

The driver adds only the sockets between environment and model: per direction a FIFO of results the
next `ReadFrame` calls will get (bytes already written by the peer), the client's preface bytes
waiting to be read, and whether the server has already reset the connection when the preface is
written. `settle` runs the model's canonical scheduler (`pick`, and `retErr` in the early stages) to
quiescence. -/
namespace Martian.Drv.C10
open Martian Martian.H2Session

structure St where
  started : Bool := false
  p : Proxy := {}
  qc : List Res := []      -- pending ReadFrame results for the c2s reader (bytes sent by the client)
  qs : List Res := []
  pref : Option Bool := none   -- the client has sent its preface bytes (good / not) and they are unread
  srvGone : Bool := false      -- the server reset the connection before the preface was written to it
  prefaced : Bool := false     -- the client has already sent what it sends first
deriving Repr

def init : St := {}

def parseDir : String → Option Dir
  | "c2s" => some .c2s
  | "s2c" => some .s2c
  | _ => none

def parseRes : List String → Option Res
  | "own" :: n :: _ => n.toNat?.map fun k => .frame (.own k)
  | "data" :: n :: _ => n.toNat?.map fun k => .frame (.data k)
  | "peer" :: n :: _ => n.toNat?.map fun k => .frame (.peer k)
  | "settings" :: n :: _ => n.toNat?.map fun k => .frame (.settings k)
  | "direct" :: _ => some (.frame .direct)
  | "bad" :: _ => some (.frame .bad)
  | "frag" :: _ => some (.frame .frag)
  | "eof" :: _ => some .eof
  | "err" :: _ => some .err
  | _ => none

def parseLabel : List String → Option Label
  | ["rTake", d] => (parseDir d).map .rTake
  | ["rWerr", d] => (parseDir d).map .rWerr
  | ["rDone", d] => (parseDir d).map .rDone
  | ["acquire", d] => (parseDir d).map .acquire
  | ["push", d] => (parseDir d).map .push
  | ["release", d] => (parseDir d).map .release
  | ["mAcquire", d] => (parseDir d).map .mAcquire
  | ["mDone", d] => (parseDir d).map .mDone
  | ["handshake", d] => (parseDir d).map .handshake
  | ["wTake", d] => (parseDir d).map .wTake
  | ["wLock", d] => (parseDir d).map .wLock
  | ["wDone", d] => (parseDir d).map .wDone
  | ["watchClosing"] => some .watchClosing
  | ["watchDone"] => some .watchDone
  | ["ret"] => some .ret
  | ["rfClosed", d] => (parseDir d).map .rfClosed
  | _ => none

def running (st : St) : Bool := st.p.stage == .running

def sys (st : St) : Sys := st.p.sys

def apply (st : St) (l : PLabel) : Option St := (pstep st.p l).map fun p' => { st with p := p' }

/-- Hand the next pending result to a blocked `ReadFrame` of direction `d`, if any. -/
def flush1 (st : St) (d : Dir) : Option St :=
  if !running st then none else
  let q := match d with | .c2s => st.qc | .s2c => st.qs
  match q with
  | [] => none
  | r :: rest =>
    match apply st (.relay (.deliver d r)) with
    | some st' => some (match d with
        | .c2s => { st' with qc := rest }
        | .s2c => { st' with qs := rest })
    | none => none

def flush (st : St) : St :=
  let st := (flush1 st .c2s).getD st
  (flush1 st .s2c).getD st

/-- One step of the early stages: the preface bytes are consumed, the preface is written, the error
    return runs. -/
def early1 (st : St) : Option St :=
  match st.p.stage with
  | .prefaceRead => match st.pref with
    | some ok => (apply st (.prefaceIn ok)).map fun st' => { st' with pref := none }
    | none => none
  | .prefaceWrite => apply st (.prefaceOut (!st.srvGone))
  | .failing _ => apply st .retErr
  | _ => none

/-- The early stages run as soon as their input is there (the harness waits for the preface to reach
    the server before it goes on). -/
def earlyAll : Nat → St → St
  | 0, st => st
  | k + 1, st => match early1 st with
    | some st' => earlyAll k st'
    | none => st

def settle : Nat → St → St
  | 0, st => st
  | fuel + 1, st =>
    match early1 st with
    | some st' => settle fuel st'
    | none =>
    match flush1 st .c2s with
    | some st' => settle fuel st'
    | none => match flush1 st .s2c with
      | some st' => settle fuel st'
      | none =>
        if !running st then st else
        match pick st.p.sys with
        | none => st
        | some l => match apply st (.relay l) with
          | some st' => settle fuel st'
          | none => st

def fuel : Nat := 4000000

def count (p : Proc) (l : List Proc) : Nat := (l.filter (· == p)).length

def obs (p : Proxy) : String :=
  let a := palive p
  let names := List.replicate (count .main a) "main" ++ List.replicate (count .reader a) "reader" ++
    List.replicate (count .readframe a) "readframe" ++ List.replicate (count .watcher a) "watcher" ++
    List.replicate (count .writer a) "writer"
  let left := if names.isEmpty then "-" else ",".intercalate names
  let sc := if !p.dialed then "none" else if p.scClosed then "closed" else "open"
  s!"returned={if p.returned then 1 else 0} sc={sc} left={left}"

def enqueue (st : St) (d : Dir) (r : Res) (n : Nat) : St :=
  match d with
  | .c2s => { st with qc := st.qc ++ List.replicate n r }
  | .s2c => { st with qs := st.qs ++ List.replicate n r }

/-- Environment label of the relay machine: applied when the relays run, dropped otherwise (the
    harness's bytes reach nobody). -/
def envRelay (st : St) (l : Label) : St := (apply st (.relay l)).getD st

def stepN (st : St) (n : Nat) (toks : List String) : St × String :=
  match toks with
  | ["start"] =>
    if st.started then (st, "bad-op")
    else ({ st with started := true, prefaced := true, p := { stage := .running } }, "ok")
  | "begin" :: mode :: _ =>
    if st.started then (st, "bad-op") else
    match mode with
    | "ok" => ({ st with started := true, p := (pstep pinit (.dial true)).getD pinit }, "ok")
    | "refuse" | "tlsfail" => ({ st with started := true, p := (pstep pinit (.dial false)).getD pinit }, "ok")
    | _ => (st, "bad-op")
  | _ =>
  if !st.started then (st, "bad-op") else
  match toks with
  | "env" :: "preface" :: kind :: _ =>
    match kind with
    | "good" | "split" =>
      if st.prefaced then (st, "bad-op") else (earlyAll 4 { st with pref := some true, prefaced := true }, "ok")
    | "eof" | "short" | "wrong" =>
      if st.prefaced then (st, "bad-op") else (earlyAll 4 { st with pref := some false, prefaced := true }, "ok")
    | _ => (st, "bad-op")
  | "env" :: "deliver" :: d :: rest =>
    match parseDir d, parseRes rest with
    | some d, some r =>
      if !rest.contains ":" then (st, "bad-op")
      else if running st then (enqueue st d r n, "ok")
      else
        -- before the relays exist only the server can act: it goes away (the preface write fails)
        if d == .s2c && (r == .err || r == .eof) then ({ (enqueue st d r n) with srvGone := st.srvGone || r == .err }, "ok")
        else (st, "bad-op")
    | _, _ => (st, "bad-op")
  | ["env", "closing"] => ((apply st .closing).getD st, "ok")
  | ["env", "stall", "s2c"] => (envRelay st (.stall .s2c), "ok")
  | ["env", "unstall", "s2c"] => (envRelay st (.unstall .s2c), "ok")
  | ["env", "failwrites", "s2c"] => (envRelay st (.failWrites .s2c), "ok")
  | ["env", "failwrites", "c2s"] => (envRelay st (.failWrites .c2s), "ok")
  | "hint" :: rest =>
    match parseLabel rest with
    | some l =>
      let st := flush st
      if l.isProc then
        match apply st (.relay l) with
        | some st' => (st', "ok")
        | none => (st, "rejected")
      else (st, "bad-op")
    | none => (st, "bad-op")
  | ["settings"] => if running st then (settle fuel st, "ok") else (st, "bad-op")
  | "settle" :: _ => (settle fuel st, "ok")
  | ["probe"] => let st := settle fuel st; (st, obs st.p)
  | ["finish", "missed-race"] => (st, "out-of-model")
  | ["finish"] =>
    let st := settle fuel st
    let st := match apply st .callerClose with
      | some st' => settle fuel st'
      | none => st
    (st, obs st.p)
  | _ => (st, "bad-op")

def step (st : St) (toks : List String) : St × String :=
  match toks with
  | "rep" :: n :: rest =>
    match n.toNat? with
    | some k => if k ≤ 100000 then stepN st k rest else (st, "bad-op")
    | none => (st, "bad-op")
  | _ => stepN st 1 toks

end Martian.Drv.C10
