import Martian.Util
import Martian.Model.H2Session
/-! Driver for C10: validates an environment trace (+ schedule hints) against the session model and
prints the model's prediction of the observations (`returned`, upstream closed, goroutines left).

The driver adds only the sockets between environment and model: per direction a FIFO of results the
next `ReadFrame` calls will get (bytes already written by the peer), and whether writes toward a side
fail. `settle` runs the model's canonical scheduler (`pick`) to quiescence. -/
namespace Martian.Drv.C10
open Martian Martian.H2Session

structure St where
  started : Bool := false
  sys : Sys := {}
  qc : List Res := []      -- pending ReadFrame results for the c2s reader (bytes sent by the client)
  qs : List Res := []
  failC : Bool := false    -- writes of the c2s writer (toward the server) fail
  failS : Bool := false
deriving Repr

def init : St := {}

def parseDir : String → Option Dir
  | "c2s" => some .c2s
  | "s2c" => some .s2c
  | _ => none

def parseRes : List String → Option Res
  | "own" :: n :: _ => n.toNat?.map fun k => .frame (.own k)
  | "peer" :: n :: _ => n.toNat?.map fun k => .frame (.peer k)
  | "direct" :: "1" :: _ => some (.frame (.direct true))
  | "direct" :: "0" :: _ => some (.frame (.direct false))
  | "bad" :: _ => some (.frame .bad)
  | "eof" :: _ => some .eof
  | "err" :: _ => some .err
  | _ => none

def parseLabel : List String → Option Label
  | ["rTake", d] => (parseDir d).map .rTake
  | ["rWerr", d] => (parseDir d).map .rWerr
  | ["rDone", d] => (parseDir d).map .rDone
  | ["acquire", d] => (parseDir d).map .acquire
  | ["push", d] => (parseDir d).map .push
  | ["release", d] => (parseDir d).map .release
  | ["handshake", d] => (parseDir d).map .handshake
  | ["wSend", d, "1"] => (parseDir d).map (.wSend · true)
  | ["wSend", d, "0"] => (parseDir d).map (.wSend · false)
  | ["watchClosing"] => some .watchClosing
  | ["watchDone"] => some .watchDone
  | ["ret"] => some .ret
  | ["rfClosed", d] => (parseDir d).map .rfClosed
  | _ => none

/-- Hand the next pending result to a blocked `ReadFrame` of direction `d`, if any. -/
def flush1 (st : St) (d : Dir) : Option St :=
  let q := match d with | .c2s => st.qc | .s2c => st.qs
  match q with
  | [] => none
  | r :: rest =>
    match step st.sys (.deliver d r) with
    | some s' => some (match d with
        | .c2s => { st with sys := s', qc := rest }
        | .s2c => { st with sys := s', qs := rest })
    | none => none

def flush (st : St) : St :=
  let st := (flush1 st .c2s).getD st
  (flush1 st .s2c).getD st

/-- The writer's connection write fails when the driver's socket says so. -/
def adjust (st : St) : Label → Label
  | .wSend .c2s true => if st.failC then .wSend .c2s false else .wSend .c2s true
  | .wSend .s2c true => if st.failS then .wSend .s2c false else .wSend .s2c true
  | l => l

def settle : Nat → St → St
  | 0, st => st
  | fuel + 1, st =>
    match flush1 st .c2s with
    | some st' => settle fuel st'
    | none => match flush1 st .s2c with
      | some st' => settle fuel st'
      | none => match pick st.sys with
        | none => st
        | some l => match step st.sys (adjust st l) with
          | some s' => settle fuel { st with sys := s' }
          | none => st

def fuel : Nat := 4000000

def count (p : Proc) (l : List Proc) : Nat := (l.filter (· == p)).length

def obs (s : Sys) : String :=
  let a := alive s
  let names := List.replicate (count .main a) "main" ++ List.replicate (count .reader a) "reader" ++
    List.replicate (count .readframe a) "readframe" ++ List.replicate (count .watcher a) "watcher" ++
    List.replicate (count .writer a) "writer"
  let left := if names.isEmpty then "-" else ",".intercalate names
  s!"returned={if s.returned then 1 else 0} sc={if s.scClosed then "closed" else "open"} left={left}"

def enqueue (st : St) (d : Dir) (r : Res) (n : Nat) : St :=
  match d with
  | .c2s => { st with qc := st.qc ++ List.replicate n r }
  | .s2c => { st with qs := st.qs ++ List.replicate n r }

def stepN (st : St) (n : Nat) (toks : List String) : St × String :=
  match toks with
  | ["start"] => if st.started then (st, "bad-op") else ({ st with started := true }, "ok")
  | _ =>
  if !st.started then (st, "bad-op") else
  match toks with
  | "env" :: "deliver" :: d :: rest =>
    match parseDir d, parseRes rest with
    | some d, some r => if rest.contains ":" then (enqueue st d r n, "ok") else (st, "bad-op")
    | _, _ => (st, "bad-op")
  | ["env", "closing"] => ({ st with sys := (step st.sys .closing).getD st.sys }, "ok")
  | ["env", "stall", "s2c"] => ({ st with sys := (step st.sys (.stall .s2c)).getD st.sys }, "ok")
  | ["env", "unstall", "s2c"] => ({ st with sys := (step st.sys (.unstall .s2c)).getD st.sys }, "ok")
  | ["env", "failwrites", "s2c"] => ({ st with failS := true }, "ok")
  | ["env", "failwrites", "c2s"] => ({ st with failC := true }, "ok")
  | "hint" :: rest =>
    match parseLabel rest with
    | some l =>
      let st := flush st
      if l.isProc then
        match step st.sys l with
        | some s' => ({ st with sys := s' }, "ok")
        | none => (st, "rejected")
      else (st, "bad-op")
    | none => (st, "bad-op")
  | "settle" :: _ => (settle fuel st, "ok")
  | ["probe"] => let st := settle fuel st; (st, obs st.sys)
  | ["finish"] =>
    let st := settle fuel st
    let st := match step st.sys .callerClose with
      | some s' => settle fuel { st with sys := s' }
      | none => st
    (st, obs st.sys)
  | _ => (st, "bad-op")

def step (st : St) (toks : List String) : St × String :=
  match toks with
  | "rep" :: n :: rest =>
    match n.toNat? with
    | some k => if k ≤ 100000 then stepN st k rest else (st, "bad-op")
    | none => (st, "bad-op")
  | _ => stepN st 1 toks

end Martian.Drv.C10
