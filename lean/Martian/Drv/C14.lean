import Martian.Model.HttpSpec
/-! Line-protocol driver of the C14 model (see go/internal/c14 for the op grammar). -/
namespace Martian.Drv.C14
open Martian Martian.Go Martian.Go.Header Martian.HttpSpec

/-- header token: `-` (empty) or `key=v,v;key=~;…` (hex; `~` = key present with no values). -/
def parseEntry (s : String) : Option (Bytes × List Bytes) :=
  match s.splitOn "=" with
  | [k, vs] => do
    let kb ← unhex k
    if vs = "~" then pure (kb, []) else
    let vals ← (vs.splitOn ",").mapM unhex
    pure (kb, vals)
  | _ => none

def parseHeader (s : String) : Option Header :=
  if s = "-" then some [] else (s.splitOn ";").mapM parseEntry

def bytesLe : Bytes → Bytes → Bool
  | [], _ => true
  | _ :: _, [] => false
  | a :: r, b :: t => if a < b then true else if b < a then false else bytesLe r t

def showHeader (h : Header) : String :=
  if h.isEmpty then "-" else
  let sorted := h.mergeSort (fun a b => bytesLe a.1 b.1)
  ";".intercalate (sorted.map fun e =>
    hex e.1 ++ "=" ++ (if e.2.isEmpty then "~" else ",".intercalate (e.2.map hex)))

def showErr : Err → String
  | .cl => "cl" | .te => "te" | .loop => "loop" | .unknown => "unknown"

def showErrs (es : List Err) : String := if es.isEmpty then "ok" else "+".intercalate (es.map showErr)

def headerAscii (h : Header) : Bool := h.all fun e => isAscii e.1 && e.2.all isAscii

def parseEnv (ma mi name bd sch host url remote : String) : Option Env := do
  let ma ← ma.toNat?
  let mi ← mi.toNat?
  pure { major := ma, minor := mi, name := ← unhex name, boundary := ← unhex bd, scheme := ← unhex sch,
         host := ← unhex host, url := ← unhex url, remote := ← unhex remote }

def dummyEnv : Env := { major := 1, minor := 1, name := [], boundary := [], scheme := [], host := [], url := [], remote := [] }

def showBytesList (l : List Bytes) : String := if l.isEmpty then "~" else ",".intercalate (l.map hex)

/-- State: the `via.LoopDetection` context bit left by the last `stackreq` of the case
(`none`: that request was outside the model's domain, so the bit is unknown). -/
abbrev St := Option Bool
def init : St := some false

def guarded (h : Header) (extra : List Bytes) (k : Unit → St × String) (s : St) : St × String :=
  if headerAscii h && extra.all isAscii then k () else (s, "out-of-model")

def step (s : St) (toks : List String) : St × String :=
  match toks with
  | ["hbh", h] =>
    match parseHeader h with
    | some h => guarded h [] (fun _ => (s, showHeader (removeHopByHop h))) s
    | none => (s, "bad-op")
  | ["hbhres", st, h] =>
    match st.toNat?, parseHeader h with
    | some st, some h => guarded h [] (fun _ =>
        let r := (hbhRes false { hdr := h, status := st }).1
        (s, s!"{r.status} {showHeader r.hdr}")) s
    | _, _ => (s, "bad-op")
  | ["via", ma, mi, name, bd, h] =>
    match parseEnv ma mi name bd "-" "-" "-" "-", parseHeader h with
    | some env, some h => guarded h [env.name, env.boundary] (fun _ =>
        let (r, e) := viaReq env { hdr := h }
        (s, s!"{showErrs e.toList} skip={r.skip} key={r.loopKey} {showHeader r.hdr}")) s
    | _, _ => (s, "bad-op")
  | ["fwd", sch, host, url, remote, h] =>
    match parseEnv "1" "1" "-" "-" sch host url remote, parseHeader h with
    | some env, some h => guarded h [env.scheme, env.host, env.url, env.remote] (fun _ =>
        (s, showHeader (fwdHeader env h))) s
    | _, _ => (s, "bad-op")
  | ["framing", h] =>
    match parseHeader h with
    | some h => guarded h [] (fun _ =>
        let (h', e) := framingHeader h
        (s, s!"{showErrs e.toList} {showHeader h'}")) s
    | none => (s, "bad-op")
  | ["stackreq", ma, mi, name, bd, sch, host, url, remote, h] =>
    match parseEnv ma mi name bd sch host url remote, parseHeader h with
    | some env, some h => guarded h [env.name, env.boundary, env.scheme, env.host, env.url, env.remote] (fun _ =>
        let (r, es) := stackReq env h
        (some r.loopKey, s!"{showErrs es} skip={r.skip} {showHeader r.hdr}")) none
    | _, _ => (s, "bad-op")
  | ["stackres", st, h] =>
    match st.toNat?, parseHeader h with
    | some st, some h =>
      match s with
      | none => (s, "out-of-model")
      | some key => guarded h [] (fun _ =>
        let (r, es) := stackRes key { hdr := h, status := st }
        (s, s!"{showErrs es} {r.status} {showHeader r.hdr}")) s
    | _, _ => (s, "bad-op")
  | ["e2e", name, bd, sch, host, url, remote, st, h, oh] =>
    match parseEnv "1" "1" name bd sch host url remote, st.toNat?, parseHeader h, parseHeader oh with
    | some env, some st, some h, some oh =>
      guarded (h ++ oh) [env.name, env.boundary, env.scheme, env.host, env.url, env.remote] (fun _ =>
        let x := exchange env h st oh
        let req := if x.calls == 0 then "-" else showErrs x.reqErrs
        let seen := if x.calls == 0 then "-" else showHeader x.seen
        (s, s!"e2e calls={x.calls} req={req} status={x.status} res={showErrs x.resErrs} seen={seen} reshdr={showHeader (delete x.resHdr kCL)}")) s
    | _, _, _, _ => (s, "bad-op")
  -- stdlib models
  | ["hdr.canon", k] => (s, match unhex k with | some k => hex (canonKey k) | none => "bad-op")
  | ["net.shp", a] => (s, match unhex a with
      | some a => (match splitHostPort a with | some h => "some " ++ hex h | none => "none")
      | none => "bad-op")
  | ["re.field2", a] => (s, match unhex a with
      | some a => if isAscii a then (match field2 a with | some h => "some " ++ hex h | none => "none") else "out-of-model"
      | none => "bad-op")
  | ["hdr.get", h, k] => (s, match parseHeader h, unhex k with
      | some h, some k => hex (get h k) | _, _ => "bad-op")
  | ["hdr.values", h, k] => (s, match parseHeader h, unhex k with
      | some h, some k => showBytesList (values h k) | _, _ => "bad-op")
  | ["hdr.set", h, k, v] => (s, match parseHeader h, unhex k, unhex v with
      | some h, some k, some v => showHeader (set h k v) | _, _, _ => "bad-op")
  | ["hdr.add", h, k, v] => (s, match parseHeader h, unhex k, unhex v with
      | some h, some k, some v => showHeader (add h k v) | _, _, _ => "bad-op")
  | ["hdr.del", h, k] => (s, match parseHeader h, unhex k with
      | some h, some k => showHeader (del h k) | _, _ => "bad-op")
  | _ => (s, "bad-op")

end Martian.Drv.C14
