import Martian.Drv.H2Relay
/-! Driver of C09: the shared h2 relay model (Model/H2Relay.lean, Drv/H2Relay.lean). -/
namespace Martian.Drv.C09
open Martian

abbrev St := Martian.Drv.H2Relay.St
def init : St := Martian.Drv.H2Relay.init
def step (s : St) (toks : List String) : St × String := Martian.Drv.H2Relay.step s toks

end Martian.Drv.C09
