import Martian.Util
/-! STUB — property C04 is not built yet. -/
namespace Martian.Drv.C04
open Martian

abbrev St := Unit
def init : St := ()
def step (s : St) (_toks : List String) : St × String := (s, "bad-op")

end Martian.Drv.C04
