import Martian.Model.Tunnel
/-! Driver for C04: replays the harness's ops on the tunnel model, one `Pump.step` per event, and
prints what each end has received so far (length:fnv64a), the EOF flags and release. -/
namespace Martian.Drv.C04
open Martian Martian.Tunnel

/-- byte at offset `i` of the stream with the given seed (same function as `pat` in c04.go) -/
def pat (seed i : Nat) : UInt8 := UInt8.ofNat ((i * 167 + (i / 256) * 13 + seed) % 256)

def stream (seed off n : Nat) : Bytes := (List.range n).map fun j => pat seed (off + j)

structure Digest where
  n : Nat := 0
  h : UInt64 := 14695981039346656037

def Digest.add (d : Digest) (bs : Bytes) : Digest :=
  { n := d.n + bs.length, h := bs.foldl (fun h b => (h ^^^ b.toUInt64) * 1099511628211) d.h }

def hex64 (x : UInt64) : String :=
  String.ofList ((List.range 16).map fun i => hexDigit ((x.toNat >>> (4 * (15 - i))) % 16))

def Digest.show (d : Digest) : String := s!"{d.n}:{hex64 d.h}"

/-- apply a pump's actions to the digest / EOF flag of the receiving end -/
def deliver (d : Digest) (eof : Bool) : List Act → Digest × Bool
  | [] => (d, eof)
  | .write bs :: as => deliver (d.add bs) eof as
  | .closeWrite :: as => deliver d true as
  | .close _ :: as => deliver d true as

structure St where
  phase : Nat := 0          -- 0 fresh, 1 tunnel open, 2 no tunnel
  cfg : Cfg := ⟨⟨true, true⟩, ⟨true, true⟩⟩
  seedC : Nat := 0
  seedT : Nat := 0
  sentC : Nat := 0
  sentT : Nat := 0
  up : Pump := .fresh []
  down : Pump := .fresh []
  tD : Digest := {}
  cD : Digest := {}
  tEOF : Bool := false      -- what the target's reader has seen: propagated EOF, or its own full close
  cEOF : Bool := false
  cClosed : Nat := 0        -- 0 open, 1 half, 2 full, 3 aborted (RST)
  tClosed : Nat := 0
  cGone : Bool := false     -- has kept writing towards a closed target (the proxy's write failed)
  tGone : Bool := false

def init : St := {}

def kindOf (s : String) : Option ConnKind :=
  if s = "tcp" then some ⟨true, true⟩
  else if s = "plain" || s = "tls" then some ⟨false, false⟩
  else none

def b01 (b : Bool) : String := if b then "1" else "0"

/-- an end that has closed fully or abortively no longer reads: printed as `-` -/
def St.obs (s : St) : String :=
  let t := if s.tClosed ≥ 2 then "-" else s.tD.show
  let c := if s.cClosed ≥ 2 then "-" else s.cD.show
  s!"t={t} c={c} teof={b01 s.tEOF} ceof={b01 s.cEOF}"

def St.upLoop (s : St) : Loop := readerWriteToLoop s.cfg.target s.cfg.client
def St.downLoop (s : St) : Loop := ioCopyLoop s.cfg.client s.cfg.target

def St.stepUp (s : St) (e : Ev) : St :=
  let r := s.up.step s.upLoop e
  let (d, eof) := deliver s.tD s.tEOF r.2
  { s with up := r.1, tD := d, tEOF := eof }

def St.stepDown (s : St) (e : Ev) : St :=
  let r := s.down.step s.downLoop e
  let (d, eof) := deliver s.cD s.cEOF r.2
  { s with down := r.1, cD := d, cEOF := eof }

def openOp (route lst tgt : String) (early banner seedC seedT : Nat) : Option St := do
  let ck ← kindOf lst
  let tk ← kindOf tgt
  if route ≠ "direct" ∧ route ≠ "via" ∧ route ≠ "viafake" then none
  let cfg : Cfg := ⟨ck, tk⟩
  let earlyB := stream seedC 0 early
  let bannerB := stream seedT 0 banner
  -- viafake: the downstream proxy's head and the banner arrive in one segment: connect() hands them over as res.Body
  let ahead := if route = "viafake" then bannerB else []
  let s : St := { phase := 1, cfg := cfg, seedC := seedC, seedT := seedT, sentC := early, sentT := banner,
                  up := .fresh earlyB, down := .fresh [] }
  -- res.Write(brw); brw.Flush(): head, then res.Body
  let (cD, _) := deliver s.cD false (optWrite ahead)
  let s := { s with cD := cD }
  -- both pumps start: the client-bound one has nothing buffered, the target-bound one writes out brw.Reader's buffer
  let r := s.up.start
  let (tD, _) := deliver s.tD false r.2
  let s := { s with up := r.1, tD := tD }
  let r := s.down.start
  let (cD, _) := deliver s.cD false r.2
  let s := { s with down := r.1, cD := cD }
  -- a banner that was not read ahead is the target's first segment
  if route ≠ "viafake" ∧ banner > 0 then some (s.stepDown (.data bannerB)) else some s

/-- `openfake`: a raw downstream proxy whose answer to the CONNECT is given. Any 2xx: a tunnel, the
banner read ahead with the head. Anything else: the answer and its body are relayed, the downstream
proxy hangs up, the client sees end-of-stream. -/
def doOpenFake (s : St) (lst tgt early banner seedC seedT status : String) : St × String :=
  if s.phase ≠ 0 then (s, "bad-op") else
  match early.toNat?, banner.toNat?, seedC.toNat?, seedT.toNat?, status.toNat? with
  | some e, some b, some sc, some st, some code =>
    if (Connect.answered code []).established then
      match openOp "viafake" lst tgt e b sc st with
      | some s' => (s', s!"status {(handleConnect s'.cfg (.answered code []) [] [] []).status} {s'.obs}")
      | none => (s, "bad-op")
    else
      if e ≠ 0 ∨ code < 100 ∨ code > 599 then (s, "bad-op") else
      match openOp "viafake" lst tgt 0 b sc st with
      | some s' =>
        let s' := s'.stepDown .eof
        ({ s' with phase := 3 }, s!"status {(handleConnect s'.cfg (.answered code []) [] [] []).status} c={s'.cD.show} ceof={b01 s'.cEOF}")
      | none => (s, "bad-op")
  | _, _, _, _, _ => (s, "bad-op")

def doOpen (s : St) (route lst tgt early banner seedC seedT : String) : St × String :=
  if s.phase ≠ 0 then (s, "bad-op") else
  match early.toNat?, banner.toNat?, seedC.toNat?, seedT.toNat? with
  | some e, some b, some sc, some st =>
    match openOp route lst tgt e b sc st with
    | some s' => (s', s!"status 200 {s'.obs}")
    | none => (s, "bad-op")
  | _, _, _, _ => (s, "bad-op")

/-- `multi`: n tunnels at once. They are independent (`tunnels_are_independent`): each one's observation
is what it produces alone from its own early data, banner and traffic (seeds and sizes as in c04.go). -/
def multiOne (route lst : String) (early banner seed i : Nat) : Option String := do
  let sc := (seed + 31 * i) % 256
  let st := (seed + 17 + 57 * i) % 256
  let s ← openOp route lst "tcp" early banner sc st
  let nC := 1000 + 777 * i
  let nT := 3000 + 1001 * i
  let s := { s.stepUp (.data (stream s.seedC s.sentC nC)) with sentC := s.sentC + nC }
  let s := { s.stepDown (.data (stream s.seedT s.sentT nT)) with sentT := s.sentT + nT }
  some s!"t={s.tD.show} c={s.cD.show}"

def doMulti (s : St) (route lst n early banner seed : String) : St × String :=
  if s.phase ≠ 0 ∨ (route ≠ "via" ∧ route ≠ "viafake") then (s, "bad-op") else
  match n.toNat?, early.toNat?, banner.toNat?, seed.toNat? with
  | some n, some e, some b, some sd =>
    if n < 2 ∨ n > 8 ∨ e > 6000 ∨ b > 6000 then (s, "bad-op") else
    let parts := (List.range n).map (multiOne route lst e b sd)
    if parts.any Option.isNone then (s, "bad-op") else
    ({ s with phase := 3 }, "multi " ++ " | ".intercalate (parts.filterMap id) ++ " released")
  | _, _, _, _ => (s, "bad-op")

def step (s : St) (toks : List String) : St × String :=
  match toks with
  | "unreach" :: route :: lst :: rest =>
    -- phase 2 = a connection that has been answered 502 and is still served: further CONNECTs allowed
    let k : Option DialErr := match rest with
      | [] => some .refused
      | [k] | [k, _] =>
        if k = "refused" then some .refused else if k = "timeout" then some .timeout else if k = "eof" then some .eof
        else if k = "dns" then some .dns else if k = "ctx" then some .ctxDeadline else if k = "other" then some .other else none
      | _ => none
    let whereOk := match rest with
      | [_, w] => (w = "near" ∨ (w = "far" ∧ route = "via"))
      | _ => true
    match k with
    | none => (s, "bad-op")
    | some k =>
      if (s.phase ≠ 0 ∧ s.phase ≠ 2) ∨ (kindOf lst).isNone ∨ (route ≠ "direct" ∧ route ≠ "via") ∨ !whereOk then (s, "bad-op") else
      let o := handleConnect s.cfg (.failed k) [] [] []
      -- kept: the next request on the connection is read
      ({ s with phase := if o.kept then 2 else 3 }, s!"status {o.status} {if o.warning then "warning" else "nowarning"}")
  | ["open", route, lst, tgt, early, banner, seedC, seedT] => doOpen s route lst tgt early banner seedC seedT
  | ["open", route, lst, tgt, early, banner, seedC, seedT, _timeoutMs] =>
    -- the proxy's timeout is wall-clock: the model sees it only as the `deadline` event of op `outlive`
    doOpen s route lst tgt early banner seedC seedT
  | ["openfake", lst, tgt, early, banner, seedC, seedT, status, _style] =>
    doOpenFake s lst tgt early banner seedC seedT status
  | ["multi", route, lst, n, early, banner, seed, _gate, _procs] => doMulti s route lst n early banner seed
  | ["outlive", wrote, fwd] =>
    -- the client wrote `wrote` bytes without ever being idle; `fwd` of them had been forwarded when the
    -- serving loop's deadline on the client connection fell (fwd = wrote: it did not fall)
    if s.phase ≠ 1 ∨ s.cClosed ≠ 0 ∨ s.tClosed ≠ 0 then (s, "bad-op") else
    match wrote.toNat?, fwd.toNat? with
    | some w, some k =>
      if k > w then (s, "bad-op") else
      let s := if k > 0 then s.stepUp (.data (stream s.seedC s.sentC k)) else s
      let s := if k < w then { s.stepUp .deadline with cGone := true } else s
      ({ s with sentC := s.sentC + w }, s.obs)
    | _, _ => (s, "bad-op")
  | ["sendgone", who, n, _seed] =>
    if s.phase ≠ 1 ∨ (who ≠ "c" ∧ who ≠ "t") then (s, "bad-op") else
    match n.toNat? with
    | some n =>
      if n < 8 then (s, "bad-op") else
      -- the proxy's writes towards the closed end fail (how many bytes its kernel still took is not observable)
      if who = "c" then
        if s.cClosed ≠ 0 ∨ s.tClosed < 2 then (s, "bad-op") else
        ({ s.stepUp (.dataW (stream s.seedC s.sentC n) 0) with sentC := s.sentC + n, cGone := true }, "gone")
      else
        if s.tClosed ≠ 0 ∨ s.cClosed < 2 then (s, "bad-op") else
        ({ s.stepDown (.dataW (stream s.seedT s.sentT n) 0) with sentT := s.sentT + n, tGone := true }, "gone")
    | none => (s, "bad-op")
  | [op, nC, nT, _seed] =>
    if op ≠ "send" ∧ op ≠ "push" then (s, "bad-op") else
    if s.phase ≠ 1 then (s, "bad-op") else
    match nC.toNat?, nT.toNat? with
    | some nC, some nT =>
      -- harness rule: nothing is sent by an end that has finished sending, nor towards an end that is gone
      let nC := if s.cClosed ≠ 0 ∨ s.tClosed ≥ 2 then 0 else nC
      let nT := if s.tClosed ≠ 0 ∨ s.cClosed ≥ 2 then 0 else nT
      let s := if nC > 0 then { s.stepUp (.data (stream s.seedC s.sentC nC)) with sentC := s.sentC + nC } else s
      let s := if nT > 0 then { s.stepDown (.data (stream s.seedT s.sentT nT)) with sentT := s.sentT + nT } else s
      -- push: the bytes are still on their way when the op returns; nothing is observed
      (s, if op = "push" then "pushed" else s.obs)
    | _, _ => (s, "bad-op")
  | ["pause", ms] =>
    -- time is not an event: an idle period changes nothing (the only deadline in the model is the serving
    -- loop's, op `outlive`)
    if s.phase ≠ 1 ∨ ms.toNat?.isNone then (s, "bad-op") else (s, "paused")
  | ["rd", who, how] =>
    -- the speed of an end's reader changes when bytes arrive, not what arrives
    if s.phase ≠ 1 ∨ (who ≠ "c" ∧ who ≠ "t") ∨ (how ≠ "eager" ∧ how ≠ "slow") then (s, "bad-op") else (s, "rd")
  | ["close", who, how] =>
    if s.phase ≠ 1 ∨ (who ≠ "c" ∧ who ≠ "t") ∨ (how ≠ "half" ∧ how ≠ "full" ∧ how ≠ "abort") then (s, "bad-op") else
    let lvl := if how = "half" then 1 else if how = "full" then 2 else 3
    -- what the proxy's Read returns: io.EOF after CloseWrite/Close, ECONNRESET after an abortive close
    let ev : Ev := if lvl = 3 then .rerr else .eof
    if who = "c" then
      if s.cClosed ≥ 2 ∨ s.cClosed = lvl then (s, s.obs) else
      let s := if s.cClosed = 0 then s.stepUp ev else s
      let s := { s with cClosed := lvl, cEOF := s.cEOF || lvl ≥ 2 }
      (s, s.obs)
    else
      if s.tClosed ≥ 2 ∨ s.tClosed = lvl then (s, s.obs) else
      let s := if s.tClosed = 0 then s.stepDown ev else s
      let s := { s with tClosed := lvl, tEOF := s.tEOF || lvl ≥ 2 }
      (s, s.obs)
  | ["end"] =>
    if s.phase ≠ 1 then (s, "end n/a")
    else if (s.cClosed = 0 ∧ !s.cGone) ∨ (s.tClosed = 0 ∧ !s.tGone) then (s, "end open")
    else (s, if s.up.finished && s.down.finished then "end released" else "end blocked")
  | _ => (s, "bad-op")

end Martian.Drv.C04
