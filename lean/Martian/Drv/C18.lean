import Martian.Util
/-! STUB — property C18 is not built yet. -/
namespace Martian.Drv.C18
open Martian

abbrev St := Unit
def init : St := ()
def step (s : St) (_toks : List String) : St × String := (s, "bad-op")

end Martian.Drv.C18
