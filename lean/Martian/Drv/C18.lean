import Martian.Model.Shape
namespace Martian.Drv.C18
open Martian Martian.Go Martian.Shape

/-- A `Write` parked inside the inner connection: before its first inner write, or between rounds. -/
inductive DPend
  | notBegun (b : Bytes)
  | running (pd : Pending)

structure St where
  l : Listener := {}
  conns : List (String × Conn) := []
  pend : List (String × DPend) := []
  cfgPending : Bool := false

def init : St := {}

def getConn (s : St) (id : String) : Option Conn := (s.conns.find? (·.1 = id)).map (·.2)
def putConn (s : St) (id : String) (c : Conn) : St :=
  if (s.conns.any (·.1 = id)) then { s with conns := s.conns.map fun p => if p.1 = id then (id, c) else p }
  else { s with conns := s.conns ++ [(id, c)] }

def regexName : Nat → String
  | 0 => "a" | 1 => "b" | 2 => "c" | _ => "?"

def parseRegex : String → Option RegexId
  | "a" => some (.valid 0) | "b" => some (.valid 1) | "c" => some (.valid 2)
  | "empty" => some .empty | "bad" => some .bad | _ => none

def parseUrl : String → Option (Option Nat)
  | "a" => some (some 0) | "b" => some (some 1) | "c" => some (some 2) | "n" => some none | _ => none

def items (s : String) : List String := if s = "-" then [] else s.splitOn ","

def ints (s : String) (n : Nat) : Option (List Int) :=
  let ps := s.splitOn "/"
  if ps.length = n then ps.mapM String.toInt? else none

def parseThrottleTok (s : String) : Option (Option RawThrottle) :=
  if s = "nil" then some none else
  match s.splitOn "/" with
  | [h, bw] => match unhex h, bw.toInt? with
    | some b, some w => some (some ⟨b, w⟩)
    | _, _ => none
  | _ => none

def parseHaltTok (s : String) : Option (Option RawHalt) :=
  if s = "nil" then some none else
  match ints s 3 with
  | some [a, b, c] => some (some ⟨a, b, c⟩)
  | _ => none

def parseCloseTok (s : String) : Option (Option RawClose) :=
  if s = "nil" then some none else
  match ints s 2 with
  | some [a, b] => some (some ⟨a, b⟩)
  | _ => none

def parseShapeTok (s : String) : Option (Option RawShape) :=
  if s = "null" then some none else
  match s.splitOn ":" with
  | ["s", r, mb, t, h, c] =>
    match parseRegex r, mb.toInt?, (items t).mapM parseThrottleTok, (items h).mapM parseHaltTok,
          (items c).mapM parseCloseTok with
    | some r, some mb, some ts, some hs, some cs => some (some ⟨r, mb, ts, hs, cs⟩)
    | _, _, _, _, _ => none
  | _ => none

def parseDefaults (s : String) : Option (Option RawDefaults) :=
  if s = "d:none" then some none else
  match s.splitOn ":" with
  | ["d", a, b, c] => match a.toInt?, b.toInt?, c.toInt? with
    | some a, some b, some c => some (some ⟨a, b, c⟩)
    | _, _, _ => none
  | _ => none

def errName : Err → String
  | .defaults => "defaults" | .nilshape => "nilshape" | .noregex => "noregex" | .badregex => "badregex"
  | .negmax => "negmax" | .nilthrottle => "nilthrottle" | .badbw => "badbw" | .badbytes => "badbytes"
  | .nilhalt => "nilhalt" | .badhalt => "badhalt" | .zerohalt => "zerohalt" | .nilclose => "nilclose"
  | .badclose => "badclose" | .zeroclose => "zeroclose" | .overlap => "overlap"

def showReject (r : Reject) : String :=
  "rejected " ++ errName r.err ++
    (match r.shape with | some s => s!" s={s}" | none => "") ++
    (match r.item with | some i => s!" i={i}" | none => "")

def showNext : Option (Nat × Int) → String
  | some (i, b) => s!"{i}@{b}"
  | none => "none"

def showEv : Ev → String
  | .sleep d o => s!"s{d}@{o}"
  | .setCap b o => s!"b{b}@{o}"
  | .forceClose o => s!"c@{o}"

/-- counts of the halts, then of the close actions, in configuration order. -/
def showCounts (l : Listener) (r : Option Nat) : String :=
  match r.bind (fun r => mapGet r l.shapes) with
  | none => "-"
  | some s =>
    let hc := s.actions.filter fun a => match a.kind with | .bw _ => false | _ => true
    let sorted := stableSort (fun a => (a.orig : Int)) hc
    if sorted.isEmpty then "-" else ",".intercalate (sorted.map fun a => toString a.count)

def capOf (c : Conn) : String :=
  match c.ctx.fast with
  | some x => toString x
  | none => match c.ctx.regex.bind (fun r => mapGet r c.locals) with
    | some x => toString x
    | none => "-"

/-- The driver's bucket adversary: alternating tiny and large remaining capacities. -/
def drvCaps (r : Nat) : Nat := if r % 3 = 0 then 0 else if r % 3 = 1 then 6 else 1000

def allAscii (c : RawConfig) : Bool :=
  c.shapes.all fun s => match s with
    | none => true
    | some s => s.throttles.all fun t => match t with
      | none => true
      | some t => isAscii t.bytes

def showStatus : Status → String
  | .ok => "ok" | .closed => "close" | .panic => "panic" | .fuel => "fuel"

/-- The line of a finished `Write` (`w`, with the delivered bytes) or of a whole response of the
end-to-end tier (`r`, lengths only). -/
def showW (tag : String) (withBytes : Bool) (l : Listener) (c : Conn) (delivered : Bytes) (evs : List Ev)
    (st : Status) : String :=
  let ev := if evs.isEmpty then "-" else ",".intercalate (evs.map showEv)
  let cap := if c.ctx.shaping then capOf c else "-"
  let d := if withBytes then s!" d={hex delivered}" else ""
  s!"{tag} n={delivered.length} st={showStatus st}{d} off={c.ctx.off} hw={c.ctx.headerWritten} next={showNext c.ctx.next} shaping={if c.ctx.shaping then 1 else 0} cap={cap} ev={ev} counts={showCounts l c.ctx.regex}"

def roundsFuel (b : Bytes) : Nat := b.length + 4096

/-- The rounds up to the park point of `wstart <id> <hex> <p> <d>`: the inner connection parks the
first inner write that begins once `p` bytes of the call are out.  A round whose amount is 0 performs
the pending action without an inner write.  The adversary is chosen so that a round boundary falls
on the observed park position `d` and none in `[p, d)`; a boundary forced by the head end or by an
action offset inside `[p, d)` parks there (and the lines differ). -/
def parkLoop (p : Nat) (d : Option Nat) : Nat → Listener → Conn → Pending → Listener × Conn × Pending × Option Status
  | 0, l, c, pd => (l, c, pd, some .fuel)
  | fuel + 1, l, c, pd =>
    if pd.rest.isEmpty then roundStep 0 l c pd
    else
      let pos := pd.delivered.length
      let writes := !c.ctx.shaping || decide (amount pd.rest.length c.ctx.off c.ctx.next ≠ 0)
      if writes && decide (pos ≥ p) then (l, c, pd, none)
      else
        let k := drvCaps pd.round + 1
        let stepLen := match d with
          | some d => if pos < d then (if pos + k < p then k else d - pos) else 1000000
          | none => 1000000
        match roundStep (stepLen - 1) l c pd with
        | (l', c', pd', some st) => (l', c', pd', some st)
        | (l', c', pd', none) => parkLoop p d fuel l' c' pd'

def getPend (s : St) (id : String) : Option DPend := (s.pend.find? (·.1 = id)).map (·.2)

/-- A call that returned: the proxy closes a connection whose write was cut. -/
def finished (s : St) (id : String) (l : Listener) (c : Conn) (pd : Pending) (st : Status) : St × String :=
  let c' := if st = .closed then { c with closed := true } else c
  (putConn { s with l := l, pend := s.pend.filter (·.1 ≠ id) } id c', showW "w" true l c' pd.delivered pd.evs st)

def configOp (s : St) (d : String) (shapes : List String) : St × String :=
    match parseDefaults d, shapes.mapM parseShapeTok with
    | some d, some shs =>
      let cfg : RawConfig := ⟨d, shs⟩
      if !allAscii cfg then (s, "out-of-model") else
      match configureSt s.l cfg with
      | (l', none) => ({ s with l := l' }, "accepted")
      | (_, some e) => (s, showReject e)
    | _, _ => (s, "bad-op")

def step (s : St) (toks : List String) : St × String :=
  match toks with
  | "config" :: d :: shapes => if s.cfgPending then (s, "bad-op") else configOp s d shapes
  | ["cfgstart"] => if s.cfgPending then (s, "bad-op") else ({ s with cfgPending := true }, "cfg-pending")
  | "cfgend" :: d :: shapes =>
    -- the request whose upload was stalled completes: parse, validate, swap, time stamp happen now
    if !s.cfgPending then (s, "bad-op") else configOp { s with cfgPending := false } d shapes
  | ["wstart", id, hx, p, d] =>
    match getConn s id, unhex hx, p.toNat?, (if d = "-" then some none else d.toNat?.map some) with
    | some c, some b, some p, some d =>
      if c.closed || !s.pend.isEmpty || b.isEmpty then (s, "bad-op") else
      let headFirst := !c.ctx.shaping || decide (c.ctx.headerLen - c.ctx.headerWritten > 0)
      if headFirst && p = 0 then ({ s with pend := [(id, .notBegun b)] }, "parked d=0")
      else
        let (c1, pd) := beginWrite c b
        match parkLoop p d (roundsFuel b) s.l c1 pd with
        | (l', c', pd', none) =>
          (putConn { s with l := l', pend := [(id, .running pd')] } id c', s!"parked d={pd'.delivered.length}")
        | (l', c', pd', some st) => finished s id l' c' pd' st
    | _, _, _, _ => (s, "bad-op")
  | ["wend", id] =>
    match getConn s id, getPend s id with
    | some c, some (.notBegun b) =>
      let (c1, pd) := beginWrite c b
      let (l', c', pd', st) := runRounds drvCaps (roundsFuel b) s.l c1 pd
      finished s id l' c' pd' st
    | some c, some (.running pd) =>
      let (l', c', pd', st) := runRounds drvCaps (roundsFuel pd.rest) s.l c pd
      finished s id l' c' pd' st
    | _, _ => (s, "bad-op")
  | ["resp", id, u, rs, hl, blen, keep] =>
    match getConn s id, parseUrl u, rs.toInt?, hl.toNat?, blen.toNat? with
    | some c, some u, some rs, some hl, some blen =>
      if c.closed || (getPend s id).isSome || rs < -1 then (s, "bad-op") else
      let c0 := setContext s.l c u rs hl none
      let (l', c', res) := connWrite drvCaps s.l c0 (List.replicate (hl + blen) 0)
      -- `keep = close`: the client asked for the connection to be closed after this response
      let c' := if res.status = .closed || keep == "close" then { c' with closed := true } else c'
      (putConn { s with l := l' } id c', showW "r" false l' c' res.delivered res.evs res.status)
    | _, _, _, _, _ => (s, "bad-op")
  | ["conn", id] =>
    if (getConn s id).isSome then (s, "bad-op") else
    let (l', c) := accept s.l
    let keys := c.locals.map fun p => s!"{regexName p.1}:{p.2}"
    (putConn { s with l := l' } id c, "conn " ++ (if keys.isEmpty then "-" else ",".intercalate keys))
  | ["ctx", id, u, rs, hl, f] =>
    match getConn s id, parseUrl u, rs.toInt?, hl.toInt?, (if f = "-" then some none else f.toInt?.map some) with
    | some c, some u, some rs, some hl, some f =>
      if c.closed ∨ hl < 0 ∨ rs < -1 ∨ (getPend s id).isSome then (s, "bad-op") else
      let c' := setContext s.l c u rs hl f
      let out := if c'.ctx.shaping then
          let thr := match c'.ctx.regex.bind (fun r => validShape s.l c r) with
            | some sh => match currentThrottle sh.throttles rs with
              | some b => toString b
              | none => "none"
            | none => "none"
          s!"ctx shaping=1 regex={regexName (c'.ctx.regex.getD 9)} next={showNext c'.ctx.next} thr={thr} cap={capOf c'}"
        else "ctx shaping=0"
      (putConn s id c', out)
    | _, _, _, _, _ => (s, "bad-op")
  | ["write", id, hx] =>
    match getConn s id, unhex hx with
    | some c, some b =>
      if c.closed || !s.pend.isEmpty then (s, "bad-op") else
      let (l', c', res) := connWrite drvCaps s.l c b
      -- cross-check on every write: the same call as entry + rounds of the interleaving machine
      let (c1, pd) := beginWrite c b
      let (l2, c2, pd2, st2) := runRounds drvCaps (roundsFuel b) s.l c1 pd
      if !(decide (l2 = l') && decide (c2 = c') && decide (pd2.delivered = res.delivered) && decide (pd2.evs = res.evs)
           && decide (st2 = res.status)) then (s, "model-mismatch: connWrite vs rounds") else
      -- the proxy closes a connection whose write was cut (`handle` returns `errClose`)
      let c' := if res.status = .closed then { c' with closed := true } else c'
      (putConn { s with l := l' } id c', showW "w" true l' c' res.delivered res.evs res.status)
    | _, _ => (s, "bad-op")
  | ["close", id] =>
    match getConn s id with
    | some c => if c.closed || (getPend s id).isSome then (s, "bad-op") else (putConn s id { c with closed := true }, "closed")
    | none => (s, "bad-op")
  | _ => (s, "bad-op")

end Martian.Drv.C18
