import Martian.Model.Http1
/-! Driver ops for the HTTP/1 codec model (`h1.*`), answered with the same canonical line as
`go/internal/golib/h1.go` prints for the real `net/http`. Reached through `Drv.GoLib.step`. -/
namespace Martian.Drv.Http1
open Martian Martian.Go Martian.MessageView Martian.Http1

def fnv64 (bs : Bytes) : UInt64 :=
  bs.foldl (fun h b => (h ^^^ b.toUInt64) * 1099511628211) 14695981039346656037

def hexNib (n : UInt64) : Char := hexDigit (n.toNat % 16)

def hex64 (x : UInt64) : String :=
  String.ofList ((List.range 16).map fun i => hexNib (x >>> (UInt64.ofNat (4 * (15 - i)))))

def showKVs (l : List KV) : String :=
  if l.isEmpty then "-" else ",".intercalate (l.map fun kv => hex kv.1 ++ ":" ++ hex kv.2)

def showKeys (l : List Bytes) : String :=
  if l.isEmpty then "-" else ",".intercalate (l.map hex)

def b01 (x : Bool) : String := if x then "1" else "0"

def showParsed (p : Parsed) (left : Nat) : String :=
  let m := p.msg
  let body := m.body.getD []
  s!"ok m={hex m.method} u={hex m.url} p={m.major}.{m.minor} c={m.code} s={hex m.status} h={hex m.host} " ++
  s!"te={b01 (isChunked m.te)} cl={m.cl} close={b01 p.close} hdr={showKVs m.hdr} " ++
  s!"body={body.length}:{hex64 (fnv64 body)} " ++
  s!"tr={match m.trailer with | none => "none" | some t => showKVs t} " ++
  s!"decl={match p.decl with | none => "none" | some d => showKeys (sortedKeys d)} left={left}"

def showR (r : R Parsed) : String :=
  match r with
  | .complete p rest => showParsed p rest.length
  | .incomplete => "incomplete"
  | .malformed => "malformed"
  | .outOfModel => "out-of-model"

def showStop (s : Option (R Unit)) : String :=
  match s with
  | none => "end"
  | some (.complete _ rest) => s!"left:{rest.length}"
  | some .incomplete => "incomplete"
  | some .malformed => "malformed"
  | some .outOfModel => "out-of-model"

/-- A stream is printed as the count, a hash over the messages' canonical lines, and how it ended.
An out-of-model message anywhere makes the whole line out-of-model. -/
def showStream (s : Stream) : String :=
  if s.stop == some .outOfModel then "out-of-model" else
  let lines := s.msgs.map fun p => showParsed p 0
  let h := fnv64 (lines.flatMap fun l => l.toUTF8.toList ++ [10])
  s!"n={s.msgs.length} h={hex64 h} stop={showStop s.stop}"

def unhexList (s : String) : Option (List Bytes) :=
  if s = "-" then some [] else (s.splitOn ",").mapM unhex

def showP (r : R Parsed) : String :=
  match r with
  | .complete p _ => showParsed p 0
  | e => showR e

/-- One exchange of `h1.relay`: `method:request:upstream bytes:response:downstream bytes`. The line
is the model's PREDICTION of what origin and client receive (relay + wire + reader); `!reader` is
appended when the model's reader does not read the real bytes to the same message. -/
def relayOne (i : Nat) (tok : String) : Option String :=
  if tok = "-" then some s!"{i}:unserved" else
  if tok = "u" then some s!"{i}:unreachable" else
  match tok.splitOn ":" with
  | [m, rq, up, rs, dn] => do
    let m ← unhex m; let rq ← unhex rq; let up ← unhex up; let rs ← unhex rs; let dn ← unhex dn
    match readRequest rq with
    | .complete p _ =>
      match relayRequest p with
      | none => pure "out-of-model"
      | some x =>
        let upPred := readRequest x.wire
        let upS := if up.isEmpty then "none" else
          showP upPred ++ (if stopOf (readRequest up) == stopOf upPred && showP (readRequest up) == showP upPred then "" else "!reader")
        match readResponse m rs with
        | .complete q _ =>
          (match relayResponse m p.close q with
           | none => pure "out-of-model"
           | some y =>
             let dnPred := readResponse m y.wire
             let dnS := showP dnPred ++ (if showP (readResponse m dn) == showP dnPred then "" else "!reader")
             pure s!"{i}:up=[{upS}] down=[{dnS}]")
        | .outOfModel => pure "out-of-model"
        | _ => pure s!"{i}:up=[{upS}] down=[?]"
    | .outOfModel => pure "out-of-model"
    | _ => pure s!"{i}:bad-request"
  | _ => none

def relayAll (toks : List String) : Option String := do
  let n := toks.length
  if n == 0 then none else
  let xs := toks.take (n - 1)
  let extra := toks.getLastD "0"
  let lines ← (xs.zipIdx.mapM fun (t, i) => relayOne i t)
  if lines.contains "out-of-model" then pure "out-of-model"
  else pure (" ; ".intercalate lines ++ s!" ; extra={extra}")

def step (toks : List String) : Option String :=
  match toks with
  | ["h1.readreq", s] => (unhex s).map fun b => showR (readRequest b)
  | ["h1.readres", m, s] => do let m ← unhex m; let b ← unhex s; pure (showR (readResponse m b))
  | ["h1.readreqs", s] => (unhex s).map fun b => showStream (readAllRequests b)
  | ["h1.readress", ms, s] => do let ms ← unhexList ms; let b ← unhex s; pure (showStream (readResponses ms b))
  -- relay: input bytes, then the bytes the real writer produced (appended by the harness)
  | ["h1.wirereq", s, w] => do
      let b ← unhex s; let w ← unhex w
      pure (match readRequest b with
        | .complete p _ =>
          (match relayRequest p with
           | none => "out-of-model"
           | some x =>
             let pred := readRequest x.wire
             showR pred ++ " w=" ++ b01 (pred == readRequest w))
        | .outOfModel => "out-of-model"
        | e => if (readRequestHead b).isComplete then "body-error" else showR e)
  | ["h1.wireres", m, closing, s, w] => do
      let m ← unhex m; let b ← unhex s; let w ← unhex w
      pure (match readResponse m b with
        | .complete p _ =>
          -- a chunked message announced below HTTP/1.1 is outside the relay model's domain (net/http's writer
          -- drops the coding and the trailers there; the model keeps what was read)
          if isChunked p.msg.te && !(p.msg.major > 1 || (p.msg.major == 1 && p.msg.minor ≥ 1)) then "out-of-model" else
          (match relayResponse m (closing == "1") p with
           | none => "out-of-model"
           | some x =>
             let pred := readResponse m x.wire
             showR pred ++ " w=" ++ b01 (pred == readResponse m w))
        | .outOfModel => "out-of-model"
        | e => if (readResponseHead m b).isComplete then "body-error" else showR e)
  | "h1.relay" :: rest => relayAll rest
  | _ => none

end Martian.Drv.Http1
