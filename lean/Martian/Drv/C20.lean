import Martian.Model.Range
import Martian.Drv.GoLib
namespace Martian.Drv.C20
open Martian Martian.Go Martian.Range

def showRes : Res → String
  | .full b => s!"full {b.length} {hex b}"
  | .single s e t b => s!"single {s} {e} {t} {hex b}"
  | .multi t ps => s!"multi {t} " ++
      (if ps.isEmpty then "-" else ";".intercalate (ps.map fun p => s!"{p.1}-{p.2.1}:{hex p.2.2}"))
  | .unsat => "unsat"
  | .err => "err"
  | .panic => "panic"

/-- The fixture tree the harness creates (symbolic paths); kept in step with `fixtureFiles` in c20.go. -/
def fixtureFiles : List Bytes := ["/T/root/a.txt", "/T/root/sub/b.txt", "/T/root/sub/deep/c.txt", "/T/root/..hidden",
  "/T/secret.txt", "/T/rootx/d.txt", "/T/root/sub/secret.txt"].map strBytes

def isDirOf (d f : Bytes) : Bool := d == strBytes "/" || (d ++ [slash]).isPrefixOf f

def classify (p : Bytes) : String :=
  if fixtureFiles.contains p then s!"file {hex p}"
  else if fixtureFiles.any (fun f => (f ++ [slash]).isPrefixOf p) then "err"   -- ENOTDIR: 500 + error
  else if fixtureFiles.any (isDirOf p) then "dir"
  else "notfound"

/-- Responses produced (`hold`) whose bodies have not been read yet (`drain`): content and header of each, oldest first. -/
abbrev St := List (String × String)
def init : St := []

def rangeOp (c h : String) : String :=
  match unhex c, (if h = "none" then some none else (unhex h).map some) with
  | some cb, some hb =>
    match hb with
    | some hv => if isAscii hv then showRes (respond cb hb) else "out-of-model"
    | none => showRes (respond cb hb)
  | _, _ => "bad-op"

def step (st : St) (toks : List String) : St × String :=
  match toks with
  | ["range", c, h] => (st, rangeOp c h)
  | ["srange", c, h] => (st, rangeOp c h)
  -- one static.Modifier instance, one path; the file has content `c` now (it may have had another one before)
  | ["sfile", c, h] => (st, rangeOp c h)
  -- several responses in flight from one modifier instance: each is what it would be alone, in whatever order the bodies are read
  | ["hold", _kind, c, h] => (st ++ [(c, h)], "held")
  | ["drain", _order] => ([], if st.isEmpty then "-" else " | ".intercalate (st.map fun p => rangeOp p.1 p.2))
  -- one explicit path mapping key ↦ value on the modifier (the raw request target, if given, is for the harness only)
  | "pathm" :: root :: k :: v :: p :: _rest =>
    match unhex root, unhex k, unhex v, unhex p with
    | some r, some k, some v, some q => (st, classify (resolveMapped r k v q))
    | _, _, _, _ => (st, "bad-op")
  | ["path", root, p] =>
    match unhex root, unhex p with
    | some r, some q => (st, classify (resolve r q))
    | _, _ => (st, "bad-op")
  | ["path", root, p, _rawTarget] =>   -- the raw request target is for the harness only (it builds the URL from it)
    match unhex root, unhex p with
    | some r, some q => (st, classify (resolve r q))
    | _, _ => (st, "bad-op")
  | _ => match GoLib.step toks with
    | some o => (st, o)
    | none => (st, "bad-op")

end Martian.Drv.C20
