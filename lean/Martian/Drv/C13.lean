import Martian.Util
/-! STUB — property C13 is not built yet. -/
namespace Martian.Drv.C13
open Martian

abbrev St := Unit
def init : St := ()
def step (s : St) (_toks : List String) : St × String := (s, "bad-op")

end Martian.Drv.C13
