import Martian.Model.Verify
/-! Line-protocol driver of the C13 model (see go/internal/c13/c13.go for the op grammar). -/
namespace Martian.Drv.C13
open Martian Martian.Go Martian.Verify

structure St where
  s : State
  oom : Bool

def init : St := ⟨⟨.nop, .nop⟩, false⟩

/-! domain guards -/
def isAlnum (c : UInt8) : Bool := (48 ≤ c && c ≤ 57) || (65 ≤ c && c ≤ 90) || (97 ≤ c && c ≤ 122)
def safeChar (c : UInt8) : Bool := isAlnum c || c == 45 || c == 46 || c == 95 || c == 126 || c == 47
def safe (b : Bytes) : Bool := b.all safeChar
def safeQ (b : Bytes) : Bool := b.all fun c => safeChar c || c == 61 || c == 38
def printable (b : Bytes) : Bool := b.all fun c => 32 ≤ c && c < 127

def canonName (b : Bytes) : Bool :=
  let rec go (up : Bool) : Bytes → Bool
    | [] => true
    | c :: r =>
      if c == 45 then go true r
      else if !isAlnum c then false
      else if up then (!(97 ≤ c && c ≤ 122)) && go false r
      else (!(65 ≤ c && c ≤ 90)) && go false r
  b ≠ [] && go true b &&
    b ≠ strBytes "Host" && b ≠ strBytes "Content-Length" && b ≠ strBytes "Transfer-Encoding"

def okUrl (s h p q : Bytes) : Bool := safe s && safe h && safe p && safeQ q

def kindOk : Kind → Bool
  | .status _ => true
  | .header n v => canonName n && printable v
  | .method m => printable m
  | .url s h p q => okUrl s h p q
  | .qs k v => safe k && safe v
  | .failure _ => true

def condOk : Cond → Bool
  | .header n v => canonName n && printable v
  | .url s h p q => okUrl s h p q
  | .method m => printable m
  | .qs k v => safe k && safe v

def hdrOk (h : Hdr) : Bool := h.all fun e => canonName e.1 && e.2.all printable

def msgOk (m : Msg) : Bool :=
  printable m.method && m.scheme ≠ [] && m.host ≠ [] && okUrl m.scheme m.host m.path m.query && safe m.frag &&
  (m.path = [] || m.path.head? == some 47) && hdrOk m.reqH && hdrOk m.resH

def parseScope : String → Option Scope
  | "d" => some ⟨false, false, false⟩
  | "e" => some ⟨true, false, false⟩
  | "q" => some ⟨true, true, false⟩
  | "s" => some ⟨true, false, true⟩
  | "b" => some ⟨true, true, true⟩
  | _ => none

def parseBool : String → Option Bool
  | "0" => some false
  | "1" => some true
  | _ => none

def parseCond : List String → Option (Cond × List String)
  | "header" :: n :: v :: r => do some (.header (← unhex n) (← unhex v), r)
  | "url" :: s :: h :: p :: q :: r => do some (.url (← unhex s) (← unhex h) (← unhex p) (← unhex q), r)
  | "method" :: m :: r => do some (.method (← unhex m), r)
  | "qs" :: k :: v :: r => do some (.qs (← unhex k) (← unhex v), r)
  | _ => none

def parseLeaf : List String → Option (Leaf × List String)
  | "status" :: c :: r => do some (.ver (.status (← c.toNat?)), r)
  | "header" :: n :: v :: r => do some (.ver (.header (← unhex n) (← unhex v)), r)
  | "method" :: m :: r => do some (.ver (.method (← unhex m)), r)
  | "url" :: s :: h :: p :: q :: r => do some (.ver (.url (← unhex s) (← unhex h) (← unhex p) (← unhex q)), r)
  | "qs" :: k :: v :: r => do some (.ver (.qs (← unhex k) (← unhex v)), r)
  | "failure" :: m :: r => do some (.ver (.failure (← unhex m)), r)
  | "ping" :: s :: h :: p :: q :: r => do some (.ping (← unhex s) (← unhex h) (← unhex p) (← unhex q), r)
  | "nop" :: r => some (.nop, r)
  | "watch" :: id :: r => do let _ ← id.toNat?; some (.nop, r)   -- harness probe verifier that never records: a no-op in reports
  | "fail" :: r => some (.fail, r)
  | _ => none

mutual
def parseNode : Nat → List String → Option (Cfg × List String)
  | 0, _ => none
  | _ + 1, "L" :: sc :: r => do
    let sc ← parseScope sc
    let (l, r) ← parseLeaf r
    some (.leaf l sc, r)
  | fuel + 1, "G" :: sc :: agg :: n :: r => do
    let sc ← parseScope sc
    let agg ← parseBool agg
    let n ← n.toNat?
    let (ms, r) ← parseList fuel n r
    some (.group agg sc ms, r)
  | fuel + 1, "F" :: sc :: r => do
    let sc ← parseScope sc
    let (c, r) ← parseCond r
    match r with
    | he :: r =>
      let he ← parseBool he
      let (t, r) ← parseNode fuel r
      if he then
        let (f, r) ← parseNode fuel r
        some (.filter c sc t f, r)
      else some (.filter c sc t .absent, r)
    | [] => none
  | fuel + 1, "P" :: sc :: n :: r => do
    let sc ← parseScope sc
    let n ← n.toNat?
    let (ms, r) ← parsePList fuel n r
    some (.prio sc ms, r)
  | _, _ => none
def parseList : Nat → Nat → List String → Option (CfgL × List String)
  | 0, _, _ => none
  | _ + 1, 0, r => some (.nil, r)
  | fuel + 1, n + 1, r => do
    let (c, r) ← parseNode fuel r
    let (l, r) ← parseList fuel n r
    some (.cons c l, r)
/-- children of a priority.Group: `<priority> NODE`; the priority is irrelevant to the model -/
def parsePList : Nat → Nat → List String → Option (CfgL × List String)
  | 0, _, _ => none
  | _ + 1, 0, r => some (.nil, r)
  | fuel + 1, n + 1, pr :: r => do
    let _ ← pr.toInt?
    let (c, r) ← parseNode fuel r
    let (l, r) ← parsePList fuel n r
    some (.cons c l, r)
  | _ + 1, _ + 1, [] => none
end

mutual
def cfgOk : Cfg → Bool
  | .leaf (.ver k) _ => kindOk k
  | .leaf (.ping s h p q) _ => okUrl s h p q
  | .leaf _ _ => true
  | .group _ _ ms => cfgLOk ms
  | .filter c _ t f => condOk c && cfgOk t && cfgOk f
  | .prio _ ms => cfgLOk ms
  | .absent => true
def cfgLOk : CfgL → Bool
  | .nil => true
  | .cons c l => cfgOk c && cfgLOk l
end

def parseHdr (s : String) : Option Hdr :=
  if s = "-" then some [] else
  (s.splitOn ";").mapM fun e =>
    match e.splitOn ":" with
    | [n, vs] => do
      let n ← unhex n
      let vs ← if vs = "" then some [] else (vs.splitOn ",").mapM unhex
      some (n, vs)
    | _ => none

def parseMsg : List String → Option Msg
  | [api, me, s, h, p, q, f, rh, st, sh] => do
    some { api := ← parseBool api, method := ← unhex me, scheme := ← unhex s, host := ← unhex h, path := ← unhex p,
           query := ← unhex q, frag := ← unhex f, reqH := ← parseHdr rh, status := ← st.toNat?, resH := ← parseHdr sh }
  | _ => none

def b2s (b : Bool) : String := if b then "1" else "0"

def showQuery (l : List Bytes) : String :=
  " ".intercalate (s!"q {l.length}" :: l.map hex)

/-- Split `n` messages of 10 tokens each. -/
def parseMsgs : Nat → List String → Option (List Msg)
  | 0, [] => some []
  | 0, _ => none
  | n + 1, toks => do
    let m ← parseMsg (toks.take 10)
    let ms ← parseMsgs n (toks.drop 10)
    some (m :: ms)

/-- FNV-1a (64 bit) of the messages joined by newlines: long reports are compared by count and hash. -/
def fnvBytes (h : UInt64) (b : Bytes) : UInt64 := b.foldl (fun h c => (h ^^^ c.toUInt64) * 1099511628211) h

def fnvMsgs : UInt64 → Bool → List Bytes → UInt64
  | h, _, [] => h
  | h, first, m :: ms => fnvMsgs (fnvBytes (if first then h else fnvBytes h [10]) m) false ms

/-- The number after the leading `m` of a message id. -/
def fragBase (f : Bytes) : Option Nat :=
  match f with
  | 109 :: ds => if ds ≠ [] && ds.all (fun c => 48 ≤ c && c ≤ 57) then some (ds.foldl (fun n c => n * 10 + (c.toNat - 48)) 0) else none
  | _ => none

/-- `n` exchanges that differ in their id only. -/
def burst (s : State) (m : Msg) (base : Nat) : Nat → Nat → State × Bool × Bool
  | 0, _ => (s, false, false)
  | k + 1, i =>
    let mi := { m with frag := 109 :: natDigits (base + i) }
    let rq := s.req.modify .req mi
    let rs := s.res.modify .res mi
    if k = 0 then (⟨rq.1, rs.1⟩, rq.2, rs.2) else burst ⟨rq.1, rs.1⟩ m base k (i + 1)

def showSorted (l : List Bytes) : String :=
  let hs := ((l.map hex).toArray.qsort (· < ·)).toList
  " ".intercalate (s!"conc {hs.length}" :: hs)

def step (st : St) (toks : List String) : St × String :=
  match toks with
  | "tree" :: _wiring :: rest =>
    match parseNode (rest.length + 1) rest with
    | some (cfg, []) =>
      if !cfgOk cfg then (⟨st.s, true⟩, "out-of-model")
      else match cfg.install with
        | some s => (⟨s, false⟩, "tree ok")
        | none => (⟨st.s, st.oom⟩, "tree err")
    | _ => (st, "bad-op")
  | "set" :: sd :: rest =>
    -- martianhttp.Modifier.SetRequestModifier / SetResponseModifier with that side of the configuration
    if st.oom then (st, "out-of-model") else
    match (if sd = "q" then some Side.req else if sd = "s" then some Side.res else none), parseNode (rest.length + 1) rest with
    | some side, some (cfg, []) =>
      if !cfgOk cfg then (⟨st.s, true⟩, "out-of-model")
      else match cfg.compile side with
        | some _ => (⟨st.s.setSide side cfg, false⟩, "set ok")
        | none => (st, "set err")
    | _, _ => (st, "bad-op")
  | "urlstr" :: [s, h, p, q, f] =>
    match unhex s, unhex h, unhex p, unhex q, unhex f with
    | some s, some h, some p, some q, some f =>
      if okUrl s h p q && safe f then (st, "urlstr " ++ hex (urlString s h p q f)) else (st, "out-of-model")
    | _, _, _, _, _ => (st, "bad-op")
  | _ =>
  if st.oom then (st, "out-of-model") else
  match toks with
  | "t" :: rest =>
    match parseMsg rest with
    | some m =>
      if !msgOk m then (⟨st.s, true⟩, "out-of-model")
      else
        let rq := st.s.req.modify .req m
        let rs := st.s.res.modify .res m
        (⟨⟨rq.1, rs.1⟩, false⟩, s!"t {b2s rq.2} {b2s rs.2}")
    | none => (st, "bad-op")
  | "rep" :: k :: rest =>
    -- the same exchange k times
    match k.toNat?, parseMsg rest with
    | some k, some m =>
      if !msgOk m then (⟨st.s, true⟩, "out-of-model")
      else if k = 0 then (st, "bad-op")
      else
        let s' := (List.replicate k m).foldl State.traffic st.s
        (⟨s', false⟩, s!"rep {k} {b2s (st.s.req.modify .req m).2} {b2s (st.s.res.modify .res m).2}")
    | _, _ => (st, "bad-op")
  | "tb" :: n :: rest =>
    match n.toNat?, parseMsg rest with
    | some n, some m =>
      match fragBase m.frag with
      | some base =>
        if !msgOk m then (⟨st.s, true⟩, "out-of-model")
        else if n = 0 then (st, "bad-op")
        else
          let r := burst st.s m base n 0
          (⟨r.1, false⟩, s!"tb {n} {b2s r.2.1} {b2s r.2.2}")
      | none => (st, "bad-op")
    | _, _ => (st, "bad-op")
  | ["qh"] => let q := st.s.query; (st, s!"qh {q.length} {fnvMsgs 14695981039346656037 true q}")
  | ["q"] => (st, showQuery st.s.query)
  | ["r"] => (⟨st.s.reset, false⟩, "r 204")
  | ["qbad"] => (st, "qbad 405")
  | ["rbad"] => (st, "rbad 405")
  | "conc" :: _ => (⟨st.s.reset, false⟩, "conc")
  | "ovl" :: _ => (⟨st.s.reset, false⟩, "ovl")   -- overlapping queries: oracle only; the op ends with a reset
  | "concq" :: n :: rest =>
    -- a concurrent batch of exchanges, linearised goroutine by goroutine: the sorted report at
    -- quiescence, then the reset that ends the phase
    match n.toNat? with
    | some n =>
      match parseMsgs n rest with
      | some ms =>
        if !ms.all msgOk then (⟨st.s, true⟩, "out-of-model")
        else
          let s' := ms.foldl State.traffic st.s
          (⟨s'.reset, false⟩, showSorted s'.query)
      | none => (st, "bad-op")
    | none => (st, "bad-op")
  | _ => (st, "bad-op")

end Martian.Drv.C13
