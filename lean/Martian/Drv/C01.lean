import Martian.Drv.Proxy
/-! C01 uses the shared exchange-machine driver. -/
namespace Martian.Drv.C01
abbrev St := Martian.Drv.Proxy.St
def init : St := Martian.Drv.Proxy.init
def step : St → List String → St × String := Martian.Drv.Proxy.step
end Martian.Drv.C01
