import Martian.Model.MessageView
import Martian.Drv.GoLib
/-! Driver for C15: `snap`, `sections`, `decode`, `twin` (see go/internal/c15). -/
namespace Martian.Drv.C15
open Martian Martian.Go Martian.MessageView

def unhexList (sep : String) (s : String) : Option (List Bytes) :=
  if s = "-" then some [] else (s.splitOn sep).mapM unhex

def parseKV (s : String) : Option KV :=
  match s.splitOn ":" with
  | [k, v] => do let k ← unhex k; let v ← unhex v; pure (k, v)
  | _ => none

/-- `none` = nil map, `-` = empty map. -/
def parseKVs (s : String) : Option (Option (List KV)) :=
  if s = "none" then some none
  else if s = "-" then some (some [])
  else ((s.splitOn ",").mapM parseKV).map some

/-- A body token is hex, `nil`, or a generator descriptor (`gen:…`, twin ops only: the model does
not look into the body there). -/
def parseBody (s : String) : Option (Option Bytes) :=
  if s = "nil" then some none
  else if s.startsWith "gen:" then some (some [])
  else (unhex s).map some

/-- kind method url major minor code status host te cl hdrs body trailers chunks decl -/
def parseMsg (t : List String) : Option Msg :=
  match t with
  | [kind, method, url, major, minor, code, status, host, te, cl, hdrs, body, trailers, _chunks, _decl] => do
    let method ← unhex method
    let url ← unhex url
    let major ← major.toNat?
    let minor ← minor.toNat?
    let code ← code.toNat?
    let status ← unhex status
    let host ← unhex host
    let te ← unhexList "," te
    let cl ← cl.toInt?
    let hdr ← parseKVs hdrs
    let body ← parseBody body
    let trailer ← parseKVs trailers
    pure { isReq := kind == "req", method, url, major, minor, code, status, host, te, cl,
           hdr := hdr.getD [], body, trailer }
  | _ => none

abbrev St := Option (View × Msg)
def init : St := none

def parseOpts (skip cts : String) : Option Opts :=
  match skip with
  | "0" => some { skipBody := false, cts := [] }
  | "1" => some { skipBody := true, cts := [] }
  | "ct" => (unhexList "+" cts).map fun c => { skipBody := true, cts := c }
  | _ => none

def parseCapture (s : String) : Option Capture :=
  if s = "all" then some .all
  else if s = "none" then some .nothing
  else if s.startsWith "in:" then (unhexList "+" (s.drop 3).toString).map .optIn
  else if s.startsWith "out:" then (unhexList "+" (s.drop 4).toString).map .optOut
  else none

def parseLogger (l o1 o2 : String) : Option Logger :=
  match l with
  | "har" => do let a ← parseCapture o1; let b ← parseCapture o2; pure (.har a b)
  | "marbl" => some .marbl
  | "text" => some (.text (o1 == "1") (o2 == "1"))
  | "snapshot" =>
    if o1 = "0" then some (.snapshot { skipBody := false, cts := [] })
    else if o1 = "1" then some (.snapshot { skipBody := true, cts := [] })
    else if o1.startsWith "ct:" then (unhexList "+" (o1.drop 3).toString).map fun c => .snapshot { skipBody := true, cts := c }
    else none
  | _ => none

/-- verdicts of the trusted parsers on the body of the op's message: three 0/1 digits -/
def parseTrusted (s : String) : Option Trusted :=
  match s.toList with
  | [a, b, c] =>
    if [a, b, c].all (fun x => x == '0' || x == '1') then some ⟨a == '1', b == '1', c == '1'⟩ else none
  | _ => none

def step (s : St) (toks : List String) : St × String :=
  match toks with
  | "snap" :: _mode :: skip :: cts :: rest =>
    match parseOpts skip cts, parseMsg rest with
    | some o, some m =>
      let v := snapshot o m
      (some (v, m), s!"ok {v.bodyoff} {v.traileroff} {hex v.message}")
    | _, _ => (s, "bad-op")
  | ["sections"] =>
    match s with
    | some (v, _) => (s, s!"{hex (headerReader v)} {hex (bodyReader v)} {hex (trailerReader v)}")
    | none => (s, "no-snapshot")
  | ["decode", infl] =>
    match s with
    | some (v, m) =>
      -- the decompressors are a parameter: their value on the message body comes with the op
      let inflate : Bytes → Bytes → Option Bytes := fun _ x =>
        if infl = "err" || infl = "na" || some x != m.body then none else unhex infl
      match decodeBody inflate v with
      | some b => (s, s!"ok {hex b}")
      | none => (s, "err")
    | none => (s, "no-snapshot")
  | "twin" :: l :: o1 :: o2 :: skip :: _mode :: rest =>
    match parseLogger l o1 o2, parseMsg rest with
    | some lg, some m =>
      let r := logMsg lg (skip == "1") m
      (s, (if r.1 == m then "same" else "differs") ++ " rec=" ++ (if r.2.isSome then "1" else "0"))
    | _, _ => (s, "bad-op")
  | "twinx" :: l :: o1 :: o2 :: skip :: _mode :: tr :: rest =>
    match parseLogger l o1 o2, parseTrusted tr, parseMsg rest with
    | some lg, some t, some m =>
      let r := logMsgT t lg (skip == "1") m
      (s, (if r.msg == m then "same" else "differs") ++ " rec=" ++ (if r.record.isSome then "1" else "0")
            ++ " err=" ++ (if r.err then "1" else "0"))
    | _, _, _ => (s, "bad-op")
  | ["h1.resnap"] =>
    -- the snapshot bytes through the modelled HTTP/1 reader (responses: to a GET)
    match s with
    | some (v, m) =>
      (s, Martian.Drv.Http1.showR (if m.isReq then Martian.Http1.readRequest v.message
                                    else Martian.Http1.readResponse (strBytes "GET") v.message))
    | none => (s, "no-snapshot")
  | _ =>
    match Martian.Drv.GoLib.step toks with
    | some o => (s, o)
    | none => (s, "bad-op")

end Martian.Drv.C15
