import Martian.Model.MessageView
import Martian.Drv.GoLib
import Martian.Model.Logging
/-! Driver for C15: `snap`, `sections`, `decode`, `twin`, `twinx`, `twinm`, `multi`, `h1.resnap` (see go/internal/c15). -/
namespace Martian.Drv.C15
open Martian Martian.Go Martian.MessageView

def unhexList (sep : String) (s : String) : Option (List Bytes) :=
  if s = "-" then some [] else (s.splitOn sep).mapM unhex

def parseKV (s : String) : Option KV :=
  match s.splitOn ":" with
  | [k, v] => do let k ← unhex k; let v ← unhex v; pure (k, v)
  | _ => none

/-- `none` = nil map, `-` = empty map. -/
def parseKVs (s : String) : Option (Option (List KV)) :=
  if s = "none" then some none
  else if s = "-" then some (some [])
  else ((s.splitOn ",").mapM parseKV).map some

/-- A body token is hex, `nil`, or a generator descriptor (`gen:…`, twin ops only: the model does
not look into the body there). -/
def parseBody (s : String) : Option (Option Bytes) :=
  if s = "nil" then some none
  else if s.startsWith "gen:" then some (some [])
  else (unhex s).map some

/-- kind method url major minor code status host te cl hdrs body trailers chunks decl -/
def parseMsg (t : List String) : Option Msg :=
  match t with
  | [kind, method, url, major, minor, code, status, host, te, cl, hdrs, body, trailers, _chunks, _decl] => do
    let method ← unhex method
    let url ← unhex url
    let major ← major.toNat?
    let minor ← minor.toNat?
    let code ← code.toNat?
    let status ← unhex status
    let host ← unhex host
    let te ← unhexList "," te
    let cl ← cl.toInt?
    let hdr ← parseKVs hdrs
    let body ← parseBody body
    let trailer ← parseKVs trailers
    pure { isReq := kind == "req", method, url, major, minor, code, status, host, te, cl,
           hdr := hdr.getD [], body, trailer }
  | _ => none

abbrev St := Option (View × Msg)
def init : St := none

def parseOpts (skip cts : String) : Option Opts :=
  match skip with
  | "0" => some { skipBody := false, cts := [] }
  | "1" => some { skipBody := true, cts := [] }
  | "ct" => (unhexList "+" cts).map fun c => { skipBody := true, cts := c }
  | _ => none

def parseCapture (s : String) : Option Capture :=
  if s = "all" then some .all
  else if s = "none" then some .nothing
  else if s.startsWith "in:" then (unhexList "+" (s.drop 3).toString).map .optIn
  else if s.startsWith "out:" then (unhexList "+" (s.drop 4).toString).map .optOut
  else none

def parseLogger (l o1 o2 : String) : Option Logger :=
  match l with
  | "har" => do let a ← parseCapture o1; let b ← parseCapture o2; pure (.har a b)
  | "marbl" => some .marbl
  | "text" => some (.text (o1 == "1") (o2 == "1"))
  | "snapshot" =>
    if o1 = "0" then some (.snapshot { skipBody := false, cts := [] })
    else if o1 = "1" then some (.snapshot { skipBody := true, cts := [] })
    else if o1.startsWith "ct:" then (unhexList "+" (o1.drop 3).toString).map fun c => .snapshot { skipBody := true, cts := c }
    else none
  | _ => none

/-- verdicts of the trusted parsers on the body of the op's message: three 0/1 digits -/
def parseTrusted (s : String) : Option Trusted :=
  match s.toList with
  | [a, b, c] =>
    if [a, b, c].all (fun x => x == '0' || x == '1') then some ⟨a == '1', b == '1', c == '1'⟩ else none
  | _ => none

/-! #### `twinm` / `multi`: context marks, several messages in flight -/
section Logging
open Martian.Logging

def parseMark (s : String) : Option Mark :=
  match s with
  | "s" => some .skipLogging
  | "r" => some .skipRoundTrip
  | "a" => some .apiRequest
  | "f" => some .forwarder
  | _ => none

def parseMarkList (s : String) : Option (List Mark) :=
  if s = "-" then some [] else (s.splitOn "+").mapM parseMark

/-- `<pre>/<post>` -/
def parseMarks (s : String) : Option (List Mark × List Mark) :=
  match s.splitOn "/" with
  | [a, b] => do let a ← parseMarkList a; let b ← parseMarkList b; pure (a, b)
  | _ => none

def bit (b : Bool) : String := if b then "1" else "0"

def twinm (lg : Logger) (pre post : List Mark) (t : Trusted) (m : Msg) : String :=
  -- a request is logged on the request side: only the marks made before it count
  let seen := Flags.init.applyAll (if m.isReq then pre else pre ++ post)
  let final := Flags.init.applyAll (pre ++ post)
  let r := logMsgT t lg seen.skipLogging m
  (if r.msg == m then "same" else "differs") ++ " rec=" ++ bit r.record.isSome ++ " err=" ++ bit r.err
    ++ " flags=" ++ bit final.skipRoundTrip ++ bit final.skipLogging ++ bit final.apiRequest

/-- `L<i>` / `W<i>` -/
def parseEv (lg : Logger) (s : String) : Option Ev :=
  let n := (s.drop 1).toString.toNat?
  if s.startsWith "L" then n.map fun i => .log i lg false
  else if s.startsWith "W" then n.map .write
  else none

/-- k groups of `<mode> <link> <trusted> M…` -/
def parseHeldMsgs : Nat → List String → Option (List (Trusted × Msg))
  | 0, [] => some []
  | 0, _ => none
  | k + 1, _mode :: _link :: tr :: rest => do
    let t ← parseTrusted tr
    let m ← parseMsg (rest.take 15)
    let more ← parseHeldMsgs k (rest.drop 15)
    pure ((t, m) :: more)
  | _, _ => none

def multi (lg : Logger) (evs : List Ev) (tms : List (Trusted × Msg)) : String :=
  let ms := tms.map (·.2)
  let written := (run .fresh (World.ofMsgs ms) evs).2
  let w := written.map fun p => if ms[p.1]? == some p.2 then "same" else "differs"
  let errs := tms.zipIdx.map fun (tm, i) =>
    if evs.any (fun e => match e with | .log j _ _ => j == i | _ => false)
    then bit (logMsgT tm.1 lg false tm.2).err else "0"
  "w=" ++ ",".intercalate w ++ " err=" ++ String.join errs

/-- `twinf`: the op carries what the unlogged twin's body yields (`k=<n> e=<0|1>`). -/
def twinf (lg : Logger) (skip : Bool) (t : Trusted) (m : Msg) (k : Nat) (e : Bool) : String :=
  let b : FBody := { data := (m.body.getD []).take k, err := e }
  let r := logFault t lg skip m b
  "fault rec=" ++ bit r.record.isSome ++ " err=" ++ bit r.err ++ " werr=" ++ bit r.body.err
    ++ " complete=" ++ bit (!r.body.err) ++ s!" fwd={r.body.data.length}"

def parseKE (ks es : String) : Option (Nat × Bool) :=
  if ks.startsWith "k=" && es.startsWith "e=" then
    ((ks.drop 2).toString.toNat?).map fun k => (k, (es.drop 2).toString == "1")
  else none

end Logging

/-- `twinxw` / `twinfw` are `twinx` / `twinf` in designated single-op cases (the harness reports the
logger-error classes that are open findings only there). -/
def normalise (toks : List String) : List String :=
  match toks with
  | "twinxw" :: r => "twinx" :: r
  | "twinfw" :: r => "twinf" :: r
  | t => t

def step (s : St) (toks0 : List String) : St × String :=
  let toks := normalise toks0
  match toks with
  | "snap" :: _mode :: skip :: cts :: rest =>
    match parseOpts skip cts, parseMsg rest with
    | some o, some m =>
      let v := snapshot o m
      (some (v, m), s!"ok {v.bodyoff} {v.traileroff} {hex v.message}")
    | _, _ => (s, "bad-op")
  | ["sections"] =>
    match s with
    | some (v, _) => (s, s!"{hex (headerReader v)} {hex (bodyReader v)} {hex (trailerReader v)}")
    | none => (s, "no-snapshot")
  | ["decode", infl] =>
    match s with
    | some (v, m) =>
      -- the decompressors are a parameter: their value on the message body comes with the op
      let inflate : Bytes → Bytes → Option Bytes := fun _ x =>
        if infl = "err" || infl = "na" || some x != m.body then none else unhex infl
      match decodeBody inflate v with
      | some b => (s, s!"ok {hex b}")
      | none => (s, "err")
    | none => (s, "no-snapshot")
  | "twin" :: l :: o1 :: o2 :: skip :: _mode :: rest =>
    match parseLogger l o1 o2, parseMsg rest with
    | some lg, some m =>
      let r := logMsg lg (skip == "1") m
      (s, (if r.1 == m then "same" else "differs") ++ " rec=" ++ (if r.2.isSome then "1" else "0"))
    | _, _ => (s, "bad-op")
  | "twinm" :: l :: o1 :: o2 :: mk :: _mode :: tr :: rest =>
    match parseLogger l o1 o2, parseMarks mk, parseTrusted tr, parseMsg rest with
    | some lg, some (pre, post), some t, some m => (s, twinm lg pre post t m)
    | _, _, _, _ => (s, "bad-op")
  | "twinf" :: l :: o1 :: o2 :: skip :: _cut :: tr :: rest =>
    match parseLogger l o1 o2, parseTrusted tr, parseMsg (rest.take 15), rest.drop 15 with
    | some lg, some t, some m, [ks, es] =>
      match parseKE ks es with
      | some (k, e) => (s, twinf lg (skip == "1") t m k e)
      | none => (s, "bad-op")
    | _, _, _, _ => (s, "bad-op")
  | "multi" :: l :: o1 :: o2 :: sched :: k :: rest =>
    match parseLogger l o1 o2, k.toNat? with
    | some lg, some k =>
      -- "conc" = all messages logged at once, then all written: any linearisation gives the same lines
      let evs : Option (List Logging.Ev) :=
        if sched = "conc" then
          some ((List.range k).map (fun i => Logging.Ev.log i lg false) ++ (List.range k).map Logging.Ev.write)
        else (sched.splitOn ",").mapM (parseEv lg)
      match evs, parseHeldMsgs k rest with
      | some evs, some tms => (s, multi lg evs tms)
      | _, _ => (s, "bad-op")
    | _, _ => (s, "bad-op")
  | "twinx" :: l :: o1 :: o2 :: skip :: _mode :: tr :: rest =>
    match parseLogger l o1 o2, parseTrusted tr, parseMsg rest with
    | some lg, some t, some m =>
      let r := logMsgT t lg (skip == "1") m
      (s, (if r.msg == m then "same" else "differs") ++ " rec=" ++ (if r.record.isSome then "1" else "0")
            ++ " err=" ++ (if r.err then "1" else "0"))
    | _, _, _ => (s, "bad-op")
  | ["h1.resnap"] =>
    -- the snapshot bytes through the modelled HTTP/1 reader (responses: to a GET)
    match s with
    | some (v, m) =>
      (s, Martian.Drv.Http1.showR (if m.isReq then Martian.Http1.readRequest v.message
                                    else Martian.Http1.readResponse (strBytes "GET") v.message))
    | none => (s, "no-snapshot")
  | _ =>
    match Martian.Drv.GoLib.step toks with
    | some o => (s, o)
    | none => (s, "bad-op")

end Martian.Drv.C15
