import Martian.Model.Config
/-!
Driver for C12. Ops:
  `post <tree>`                 → `ok <hasReq> <hasRes>` | `rej <unknown-modifier|invalid-scope|malformed>`
  `run <q|s> <msgspec> <true atoms>` → `t=<labels> e=<-|E<l>|M<l,…>>`
Tree tokens (prefix form):
  `L <label> <caps b|q|s|z> <failReq> <failRes> <scope>` | `U<variant>` | `X<variant>`
  `F <scope> <agg> <n> child*n` | `P <scope> <n> (<prio> child)*n` | `C <cond> <scope> <hasElse> then [else]`
  scope: `n` (absent/null) | `e` (`[]`) | string over q (request) s (response) x (anything else)
-/
namespace Martian.Drv.C12
open Martian Martian.Config

def parseScope (s : String) : Option Scope :=
  if s = "n" || s = "N" then some none
  else if s = "e" then some (some [])
  else (s.toList.mapM fun c =>
    if c = 'q' then some Tok.request else if c = 's' then some Tok.response
    else if c = 'x' then some Tok.other else none).map some

def parseBool (s : String) : Option Bool :=
  if s = "0" then some false else if s = "1" then some true else none

def parseCaps (s : String) : Option Caps :=
  if s = "b" then some ⟨true, true⟩ else if s = "q" then some ⟨true, false⟩
  else if s = "s" then some ⟨false, true⟩ else if s = "z" then some ⟨false, false⟩ else none

def parseInt (s : String) : Option Int :=
  if s.startsWith "-" then (s.drop 1).toNat?.map (fun n => -(n : Int)) else s.toNat?.map (fun n => (n : Int))

mutual
def parseNode : Nat → List String → Option (Node × List String)
  | 0, _ => none
  | fuel + 1, toks =>
    match toks with
    | "L" :: l :: c :: fq :: fs :: sc :: rest =>
      match l.toNat?, parseCaps c, parseBool fq, parseBool fs, parseScope sc with
      | some l, some c, some fq, some fs, some sc => some (.leaf l c fq fs sc, rest)
      | _, _, _, _, _ => none
    | "F" :: sc :: agg :: n :: rest =>
      match parseScope sc, parseBool agg, n.toNat? with
      | some sc, some agg, some n =>
        match parseNodes fuel n rest with
        | some (cs, rest) => some (.fifo sc agg cs, rest)
        | none => none
      | _, _, _ => none
    | "P" :: sc :: n :: rest =>
      match parseScope sc, n.toNat? with
      | some sc, some n =>
        match parsePNodes fuel n rest with
        | some (cs, rest) => some (.prio sc cs, rest)
        | none => none
      | _, _ => none
    | "C" :: c :: sc :: he :: rest =>
      match c.toNat?, parseScope sc, parseBool he with
      | some c, some sc, some he =>
        match parseNode fuel rest with
        | some (t, rest) =>
          if he then
            match parseNode fuel rest with
            | some (e, rest) => some (.filter c sc t (some e), rest)
            | none => none
          else some (.filter c sc t none, rest)
        | none => none
      | _, _, _ => none
    | t :: rest =>
      if t.startsWith "U" then some (.unknown, rest)
      else if t.startsWith "X" then some (.malformed, rest)
      else none
    | [] => none
def parseNodes : Nat → Nat → List String → Option (List Node × List String)
  | 0, _, _ => none
  | _ + 1, 0, toks => some ([], toks)
  | fuel + 1, n + 1, toks =>
    match parseNode fuel toks with
    | some (c, rest) =>
      match parseNodes fuel n rest with
      | some (cs, rest) => some (c :: cs, rest)
      | none => none
    | none => none
def parsePNodes : Nat → Nat → List String → Option (List (Int × Node) × List String)
  | 0, _, _ => none
  | _ + 1, 0, toks => some ([], toks)
  | fuel + 1, n + 1, toks =>
    match toks with
    | p :: toks =>
      match parseInt p, parseNode fuel toks with
      | some p, some (c, rest) =>
        match parsePNodes fuel n rest with
        | some (cs, rest) => some ((p, c) :: cs, rest)
        | none => none
      | _, _ => none
    | [] => none
end

def parseTree (toks : List String) : Option Node :=
  match parseNode (2 * toks.length + 2) toks with
  | some (n, []) => some n
  | _ => none

def showPErr : PErr → String
  | .unknownModifier => "unknown-modifier"
  | .invalidScope => "invalid-scope"
  | .malformed => "malformed"

def showErr : Err → String
  | .none => "-"
  | .single l => s!"E{l}"
  | .multi ls => "M" ++ ",".intercalate (ls.map toString)

def showOutcome (o : Outcome) : String := s!"t={showNatList o.1} e={showErr o.2}"

def b01 (b : Bool) : String := if b then "1" else "0"

abbrev St := Active
def init : St := Active.init

def step (s : St) (toks : List String) : St × String :=
  match toks with
  | "post" :: tree =>
    match parseTree tree with
    | none => (s, "bad-op")
    | some n =>
      match servePOST s n with
      | (s', .ok ()) => (s', s!"ok {b01 s'.req.isSome} {b01 s'.res.isSome}")
      | (s', .error e) => (s', s!"rej {showPErr e}")
  | ["run", k, _msg, atoms] =>
    match (if k = "q" then some Kind.req else if k = "s" then some Kind.res else none), natList atoms with
    | some k, some tr => (s, showOutcome (run s k (fun _ a => tr.contains a)))
    | _, _ => (s, "bad-op")
  | _ => (s, "bad-op")

end Martian.Drv.C12
