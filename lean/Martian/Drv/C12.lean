import Martian.Model.ConfigJson
/-!
Driver for C12. Ops:
  `post <tree>`                 → `ok <hasReq> <hasRes>` | `rej <unknown-modifier|invalid-scope|malformed>`
  `postj <style> <json value>`  → the same, for a body given as a JSON value (`fromJSON`, then `servePOST`)
  `run <q|s> <message>`         → `t=<labels> e=<-|E<l>|M<l,…>>`
  `xrun <message at request time> <message at response time>` → `<run q on the first> | <run s on the second>` (one exchange)
  `cond <q|s> <cond> <message>` → `1` | `0`            (one matcher on one message)
  `matchhost <host> <pattern>`  → `1` | `0`            (`martianurl.MatchHost`)
  `query <raw>`                 → `k:v,k:v…` | `-`     (`url.ParseQuery`, stably sorted by key)
Tree tokens (prefix form):
  `L <label> <caps b|q|s|z> <failReq> <failRes> <scope>` | `M <label> <caps> <failReq> <failRes> <scope> <text class>` | `U<variant>` | `X<variant>`
  `F <scope> <agg> <n> child*n` | `P <scope> <n> (<prio> child)*n` | `C <cond> <scope> <hasElse> then [else]`
  scope: `n` (absent/null) | `e` (`[]`) | string over q (request) s (response) x (anything else)
  cond:  `m:<method>` | `u:<scheme>:<host>:<path>:<query>` | `q:<name>:<value>` | `h:<name>:<value>` | `c:<name>:<value>` (hex) | `p:<port>` (decimal)
  JSON value tokens (prefix form): `N` | `T` | `F` | `#<number literal>` | `S<hex>` | `A<n> value*n` | `O<n> (<hex key> value)*n`
  message: 14 `;`-separated fields: method;scheme;host;path;rawQuery;req.Host;req.ContentLength;req.TransferEncoding;
           request headers;request cookies;res.ContentLength;res.TransferEncoding;response headers;response cookies
           (byte strings hex; TE `n` = nil, `e` = empty, else `,`-list; headers/cookies `-` or `name:value,…` in Add order)
-/
namespace Martian.Drv.C12
open Martian Martian.Config Martian.Go

def parseScope (s : String) : Option Scope :=
  if s = "n" || s = "N" then some none
  else if s = "e" then some (some [])
  else (s.toList.mapM fun c =>
    if c = 'q' then some Tok.request else if c = 's' then some Tok.response
    else if c = 'x' then some Tok.other else none).map some

def parseBool (s : String) : Option Bool :=
  if s = "0" then some false else if s = "1" then some true else none

def parseCaps (s : String) : Option Caps :=
  if s = "b" then some ⟨true, true⟩ else if s = "q" then some ⟨true, false⟩
  else if s = "s" then some ⟨false, true⟩ else if s = "z" then some ⟨false, false⟩ else none

def parseInt (s : String) : Option Int :=
  if s.startsWith "-" then (s.drop 1).toNat?.map (fun n => -(n : Int)) else s.toNat?.map (fun n => (n : Int))

def parseCond (s : String) : Option Cond :=
  match s.splitOn ":" with
  | ["m", a] => (unhex a).map Cond.method
  | ["u", a, b, c, d] =>
    match unhex a, unhex b, unhex c, unhex d with
    | some a, some b, some c, some d => some (.url a b c d)
    | _, _, _, _ => none
  | ["q", a, b] => match unhex a, unhex b with | some a, some b => some (.query a b) | _, _ => none
  | ["h", a, b] => match unhex a, unhex b with | some a, some b => some (.header a b) | _, _ => none
  | ["c", a, b] => match unhex a, unhex b with | some a, some b => some (.cookie a b) | _, _ => none
  | ["p", a] => (parseInt a).map Cond.port
  | _ => none

def parsePairs (s : String) : Option (List (Bytes × Bytes)) :=
  if s = "-" then some [] else
  (s.splitOn ",").mapM fun kv =>
    match kv.splitOn ":" with
    | [k, v] => match unhex k, unhex v with | some k, some v => some (k, v) | _, _ => none
    | _ => none

def parseTE (s : String) : Option (Option (List Bytes)) :=
  if s = "n" then some none else if s = "e" then some (some [])
  else ((s.splitOn ",").mapM unhex).map some

def parseMsg (s : String) : Option Message :=
  match s.splitOn ";" with
  | [me, sc, ho, pa, rq, rh, rcl, rte, rhd, rck, scl, ste, shd, sck] =>
    match unhex me, unhex sc, unhex ho, unhex pa, unhex rq, unhex rh with
    | some me, some sc, some ho, some pa, some rq, some rh =>
      match parseInt rcl, parseTE rte, parsePairs rhd, parsePairs rck, parseInt scl, parseTE ste, parsePairs shd, parsePairs sck with
      | some rcl, some rte, some rhd, some rck, some scl, some ste, some shd, some sck =>
        some { method := me, scheme := sc, host := ho, path := pa, rawQuery := rq, reqHost := rh, reqCL := rcl, reqTE := rte,
               reqHeader := rhd.foldl (fun h kv => Header.add h kv.1 kv.2) [], reqCookies := rck,
               resCL := scl, resTE := ste, resHeader := shd.foldl (fun h kv => Header.add h kv.1 kv.2) [], resCookies := sck }
      | _, _, _, _, _, _, _, _ => none
    | _, _, _, _, _, _ => none
  | _ => none

def parseKind (k : String) : Option Kind := if k = "q" then some Kind.req else if k = "s" then some Kind.res else none

/-- lexicographic `<` on byte strings (Go string comparison) -/
def bytesLt : Bytes → Bytes → Bool
  | [], [] => false
  | [], _ :: _ => true
  | _ :: _, [] => false
  | a :: as, b :: bs => if a < b then true else if b < a then false else bytesLt as bs

def insByKey (x : Bytes × Bytes) : List (Bytes × Bytes) → List (Bytes × Bytes)
  | [] => [x]
  | y :: ys => if bytesLt y.1 x.1 then y :: insByKey x ys else x :: y :: ys

/-- stable sort by key -/
def sortByKey (l : List (Bytes × Bytes)) : List (Bytes × Bytes) := l.foldr insByKey []

def showPairs (l : List (Bytes × Bytes)) : String :=
  if l.isEmpty then "-" else ",".intercalate (l.map fun kv => hex kv.1 ++ ":" ++ hex kv.2)

mutual
def parseNode : Nat → List String → Option (Node × List String)
  | 0, _ => none
  | fuel + 1, toks =>
    match toks with
    | "L" :: l :: c :: fq :: fs :: sc :: rest =>
      match l.toNat?, parseCaps c, parseBool fq, parseBool fs, parseScope sc with
      | some l, some c, some fq, some fs, some sc => some (.leaf l c fq fs sc, rest)
      | _, _, _, _, _ => none
    | "M" :: l :: c :: fq :: fs :: sc :: _eclass :: rest =>
      -- a leaf whose error TEXT is shared with other leaves; the error VALUE is still this leaf's (the model has no texts)
      match l.toNat?, parseCaps c, parseBool fq, parseBool fs, parseScope sc with
      | some l, some c, some fq, some fs, some sc => some (.leaf l c fq fs sc, rest)
      | _, _, _, _, _ => none
    | "F" :: sc :: agg :: n :: rest =>
      match parseScope sc, parseBool agg, n.toNat? with
      | some sc, some agg, some n =>
        match parseNodes fuel n rest with
        | some (cs, rest) => some (.fifo sc agg cs, rest)
        | none => none
      | _, _, _ => none
    | "P" :: sc :: n :: rest =>
      match parseScope sc, n.toNat? with
      | some sc, some n =>
        match parsePNodes fuel n rest with
        | some (cs, rest) => some (.prio sc cs, rest)
        | none => none
      | _, _ => none
    | "C" :: c :: sc :: he :: rest =>
      match parseCond c, parseScope sc, parseBool he with
      | some c, some sc, some he =>
        match parseNode fuel rest with
        | some (t, rest) =>
          if he then
            match parseNode fuel rest with
            | some (e, rest) => some (.filter c sc t (some e), rest)
            | none => none
          else some (.filter c sc t none, rest)
        | none => none
      | _, _, _ => none
    | t :: rest =>
      if t.startsWith "U" then some (.unknown, rest)
      else if t.startsWith "X" then some (.malformed, rest)
      else none
    | [] => none
def parseNodes : Nat → Nat → List String → Option (List Node × List String)
  | 0, _, _ => none
  | _ + 1, 0, toks => some ([], toks)
  | fuel + 1, n + 1, toks =>
    match parseNode fuel toks with
    | some (c, rest) =>
      match parseNodes fuel n rest with
      | some (cs, rest) => some (c :: cs, rest)
      | none => none
    | none => none
def parsePNodes : Nat → Nat → List String → Option (List (Int × Node) × List String)
  | 0, _, _ => none
  | _ + 1, 0, toks => some ([], toks)
  | fuel + 1, n + 1, toks =>
    match toks with
    | p :: toks =>
      match parseInt p, parseNode fuel toks with
      | some p, some (c, rest) =>
        match parsePNodes fuel n rest with
        | some (cs, rest) => some ((p, c) :: cs, rest)
        | none => none
      | _, _ => none
    | [] => none
end

/-- number literal (already known to follow the JSON grammar) → sign, integer digits' value, fraction/exponent present -/
def parseNumLit (s : String) : Option NumLit :=
  let neg := s.startsWith "-"
  let body : List Char := if neg then s.toList.drop 1 else s.toList
  let ds := body.takeWhile Char.isDigit
  if ds.isEmpty then none
  else some ⟨neg, (String.ofList ds).toNat!, ds.length < body.length⟩

mutual
def parseJV : Nat → List String → Option (JVal × List String)
  | 0, _ => none
  | fuel + 1, toks =>
    match toks with
    | [] => none
    | t :: rest =>
      if t = "N" then some (.null, rest)
      else if t = "T" then some (.bool true, rest)
      else if t = "F" then some (.bool false, rest)
      else if t.startsWith "#" then (parseNumLit (t.drop 1).toString).map fun n => (.num n, rest)
      else if t.startsWith "S" then (unhex (t.drop 1).toString).map fun b => (.str b, rest)
      else if t.startsWith "A" then
        match (t.drop 1).toNat? with
        | some n => (parseJVs fuel n rest).map fun r => (.arr r.1, r.2)
        | none => none
      else if t.startsWith "O" then
        match (t.drop 1).toNat? with
        | some n => (parseJKVs fuel n rest).map fun r => (.obj r.1, r.2)
        | none => none
      else none
def parseJVs : Nat → Nat → List String → Option (List JVal × List String)
  | 0, _, _ => none
  | _ + 1, 0, toks => some ([], toks)
  | fuel + 1, n + 1, toks =>
    match parseJV fuel toks with
    | some (v, rest) =>
      match parseJVs fuel n rest with
      | some (vs, rest) => some (v :: vs, rest)
      | none => none
    | none => none
def parseJKVs : Nat → Nat → List String → Option (List (Bytes × JVal) × List String)
  | 0, _, _ => none
  | _ + 1, 0, toks => some ([], toks)
  | fuel + 1, n + 1, toks =>
    match toks with
    | k :: toks =>
      match unhex k, parseJV fuel toks with
      | some k, some (v, rest) =>
        match parseJKVs fuel n rest with
        | some (kvs, rest) => some ((k, v) :: kvs, rest)
        | none => none
      | _, _ => none
    | [] => none
end

/-- names registered in the harness process by the filter packages' siblings, outside the model -/
def otherRegistered : List Bytes := ["header.Modifier", "header.RegexFilter", "header.Append", "header.Blacklist", "header.Copy", "header.Id",
  "header.Verifier", "cookie.Modifier", "url.Modifier", "url.RegexFilter", "url.Verifier", "method.Verifier", "querystring.Modifier",
  "querystring.Verifier", "port.Modifier"].map strBytes

mutual
def mentionsOther : JVal → Bool
  | .arr xs => mentionsOtherL xs
  | .obj kvs => mentionsOtherK kvs
  | _ => false
def mentionsOtherL : List JVal → Bool
  | [] => false
  | x :: xs => mentionsOther x || mentionsOtherL xs
def mentionsOtherK : List (Bytes × JVal) → Bool
  | [] => false
  | (k, v) :: r => otherRegistered.contains k || mentionsOther v || mentionsOtherK r
end

def parseTree (toks : List String) : Option Node :=
  match parseNode (2 * toks.length + 2) toks with
  | some (n, []) => some n
  | _ => none

def showPErr : PErr → String
  | .unknownModifier => "unknown-modifier"
  | .invalidScope => "invalid-scope"
  | .malformed => "malformed"

def showErr : Err → String
  | .none => "-"
  | .single l => s!"E{l}"
  | .multi ls => "M" ++ ",".intercalate (ls.map toString)

def showOutcome (o : Outcome) : String := s!"t={showNatList o.1} e={showErr o.2}"

def b01 (b : Bool) : String := if b then "1" else "0"

abbrev St := Active
def init : St := Active.init

def step (s : St) (toks : List String) : St × String :=
  match toks with
  | "post" :: tree =>
    match parseTree tree with
    | none => (s, "bad-op")
    | some n =>
      match servePOST s n with
      | (s', .ok ()) => (s', s!"ok {b01 s'.req.isSome} {b01 s'.res.isSome}")
      | (s', .error e) => (s', s!"rej {showPErr e}")
  | "set" :: k :: tree =>
    match parseKind k, parseTree tree with
    | some k, some n =>
      match compile n with
      | .ok r => (setSide s k (r.side k), s!"set {b01 (r.side k).isSome}")
      | .error e => (s, s!"set rej {showPErr e}")
    | _, _ => (s, "bad-op")
  | "postj" :: _style :: jtoks =>
    match parseJV (2 * jtoks.length + 2) jtoks with
    | some (j, []) =>
      if mentionsOther j then (s, "out-of-model") else
      match servePOSTJ s j with
      | (s', .ok ()) => (s', s!"ok {b01 s'.req.isSome} {b01 s'.res.isSome}")
      | (s', .error e) => (s', s!"rej {showPErr e}")
    | _ => (s, "bad-op")
  | ["run", k, msg] =>
    match parseKind k, parseMsg msg with
    | some k, some m => (s, showOutcome (run s k m.toMsg))
    | _, _ => (s, "bad-op")
  | ["xrun", msg1, msg2] =>
    match parseMsg msg1, parseMsg msg2 with
    | some m1, some m2 => (s, showOutcome (xrun s m1 m2).1 ++ " | " ++ showOutcome (xrun s m1 m2).2)
    | _, _ => (s, "bad-op")
  | ["cond", k, c, msg] =>
    match parseKind k, parseCond c, parseMsg msg with
    | some k, some c, some m => (s, b01 (holds c k m))
    | _, _, _ => (s, "bad-op")
  | ["matchhost", h, p] =>
    match unhex h, unhex p with
    | some h, some p => (s, b01 (matchHost h p))
    | _, _ => (s, "bad-op")
  | ["query", q] =>
    match unhex q with
    | some q => (s, showPairs (sortByKey (parseQuery q)))
    | none => (s, "bad-op")
  | _ => (s, "bad-op")

end Martian.Drv.C12
