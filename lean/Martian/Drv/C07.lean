import Martian.Util
/-! STUB — property C07 is not built yet. -/
namespace Martian.Drv.C07
open Martian

abbrev St := Unit
def init : St := ()
def step (s : St) (_toks : List String) : St × String := (s, "bad-op")

end Martian.Drv.C07
