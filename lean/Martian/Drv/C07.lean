import Martian.Util
import Martian.Model.Shutdown
/-!
Driver for C07: trace acceptance. One op = `trace <event> <event> …` (the event log recorded on the
real proxy, see go/internal/c07). The driver answers `ok n=<events> early=<0|1>` iff the log is the
visible projection of some run of `Martian.Shutdown.step` from `init`, else `reject@<i>:<event>`.

Only genuine model steps are ever applied (`Shutdown.step`), so acceptance is sound by construction:
an accepted trace IS a run of the model. Invisible steps are inserted as follows
* optional, branching (a set of candidate states is kept): `closeChan` after `call`;
  `spawn;serveCheck` of the connection `Serve` holds; `add;checkClosing` of a spawned handler;
  `decide` of a handler behind its response modifier;
* on demand, immediately before the visible event that needs them: `serveCheck`, `gotReq`,
  `closingSeen`, `decide`, `closeChan`, `lock`, `waitZero`; immediately after: `finish` (after the
  connection close).
Events that are observations rather than steps (`raddr` — the `RemoteAddr` evaluation `Serve` performs
between `Accept` and `go handleLoop` —, `rd`, `obs`, `resp`, `cresp`, `eof`) filter the candidates by a
predicate on the state.

Round 3. ENVIRONMENT labels are applied only when the trace contains the harness event that justifies
them: `tunnelEnd` / `peeked false` / `readErr` need `tcl:k` (the harness closed the client's or the
target's end of connection k), `writeErr` needs `cx:k` (the harness client aborted while the response was
being written), `peeked true` / `handshakeEnd` need `tls:k` (the harness client started its TLS
handshake). A proxy that tears down a tunnel or abandons a response write on its own is therefore
rejected. On the decrypted side of a MITM'd tunnel (`secure`) the response writes are not observable in
clear: `decide; writeStart; writeEnd` are inserted on demand before the client-side `resp`, the next
`rqs` or the handler's `cc`, and at `eof` the client must have seen every recorded response.
Further `Close()` callers: every `call` after the first is `closeCall2`, `panic` is `closeChan2`.
-/
namespace Martian.Drv.C07
open Martian Martian.Shutdown

abbrev St := Unit
def init : St := ()

/-- Environment facts accumulated from the trace (identical for all candidates). -/
structure Env where
  sent : List (List (Option Bool)) := []   -- per connection: each complete request sent: `some close-flag`, `none` = CONNECT
  resps : List Nat := []          -- per connection: complete (non-CONNECT) responses the client has seen
  peerDone : List Bool := []      -- per connection: the harness closed the client's / target's end (`tcl`)
  aborted : List Bool := []       -- per connection: the harness client aborted during a response write (`cx`)
  tls : List Bool := []           -- per connection: the harness client started a TLS handshake (`tls`)
  h2 : List Bool := []            -- per connection: an HTTP/2 session was negotiated and used (`h2`)
  openB : List (List Bool) := []  -- per connection, parallel to `sent`: the request's announced body was not sent completely
  tail : List Bool := []          -- per connection: the client has sent the rest of that body (`snd:k:t`)

def getD {α} (l : List α) (k : Nat) (d : α) : α := (l[k]?).getD d

def setPad {α} (l : List α) (k : Nat) (d x : α) : List α :=
  if k < l.length then l.set k x else l ++ List.replicate (k - l.length) d ++ [x]

/-- Apply labels in sequence (all must be enabled). -/
def runAll (s : Sys) (ls : List Label) : Option Sys := run s ls

/-- Apply a label if it is enabled, else stay. -/
def tryStep (s : Sys) (l : Label) : Sys := (step s l).getD s

def optionalLabels (s : Sys) : List (List Label) :=
  (if s.cpc = .called then [[Label.closeChan]] else []) ++
  (match s.acc with
   | .holding k => [[Label.h k .spawn, Label.serveCheck]]
   | _ => []) ++
  (List.range s.hs.length).flatMap fun k =>
    match s.hs[k]? with
    | some h =>
      if h.pc = .spawned then [[Label.h k .add, Label.h k .checkClosing]]
      else if h.pc = .postResmod then [[Label.h k .decide]]
      else []
    | none => []

def insertNew (acc : List Sys) (s : Sys) : List Sys := if acc.contains s then acc else acc ++ [s]

/-- All states reachable through optional invisible steps (bounded breadth-first search). -/
def expand : Nat → List Sys → List Sys → List Sys
  | 0, _, seen => seen
  | fuel + 1, frontier, seen =>
    let next := frontier.flatMap fun s => (optionalLabels s).filterMap fun ls => runAll s ls
    let (seen', fresh) := next.foldl (fun (p : List Sys × List Sys) s =>
      if p.1.contains s then p else (p.1 ++ [s], p.2 ++ [s])) (seen, [])
    if fresh.isEmpty then seen' else expand fuel fresh seen'

def expandAll (cands : List Sys) : List Sys :=
  let seen := cands.foldl insertNew []
  expand 64 seen seen

def pcOf (s : Sys) (k : Nat) : Option Pc := (s.hs[k]?).map (·.pc)

def bit (s : String) : Option Bool := if s = "1" then some true else if s = "0" then some false else none

def tryAll (s : Sys) (ls : List Label) : Sys := ls.foldl tryStep s

/-- Secure (MITM'd) handler: the response write of the current exchange, which is not observable. -/
def catchUpWrite (s : Sys) (k : Nat) : Sys :=
  match s.hs[k]? with
  | some h => if h.secure then tryAll s [.h k .decide, .h k .writeStart, .h k .writeEnd] else s
  | none => s

/-- The deferred `req.Body.Close()` returns once the client has sent the rest of the body or gone away. -/
def catchUpBody (env : Env) (s : Sys) (k : Nat) : Sys :=
  if getD env.peerDone k false ∨ getD env.tail k false then tryStep s (.h k .bodyDone) else s

/-- Steps of the client of a MITM'd tunnel up to the serving loop, justified by `tls:k`. -/
def catchUpTls (env : Env) (s : Sys) (k : Nat) : Sys :=
  if getD env.h2 k false then
    -- the HTTP/2 session: it stops by itself once `closing` is closed; otherwise only when a peer ended it
    let s := tryAll s [.h k (.peeked true), .h k (.handshakeEnd .h2), .h k .h2Stop]
    if getD env.peerDone k false then tryStep s (.h k .h2PeerEnd) else s
  else if getD env.tls k false then tryAll s [.h k (.peeked true), .h k (.handshakeEnd .h1)] else s

/-- One visible event on one candidate. -/
def applyEv (env : Env) (s : Sys) (ev : List String) : Option Sys :=
  match ev with
  | ["acc", k] =>
    match k.toNat? with
    | some k =>
      if k ≠ s.hs.length then none else
      let s := if s.acc = .top then tryStep s .serveCheck else s
      step s .accept
    | none => none
  | ["raddr", k] =>
    match k.toNat? with
    | some k =>
      -- `Serve` evaluates it between `Accept` and the `go` statement (if it still does so at all)
      if s.acc = .holding k ∧ pcOf s k = some .accepted then some s else none
    | none => none
  | ["rd", k] =>
    match k.toNat? with
    | some k => match s.hs[k]? with
      -- the reader goroutine of `readRequest` exists: the handler passed `conns.Add` and the
      -- `Closing()` check with "not closing" (the read itself may be logged after the handler gave up)
      | some h => if h.entered then some s else none
      | none => none
    | none => none
  | ["snd", k, "p"] =>
    match k.toNat? with
    | some k => some (tryStep s (.h k .firstByte))
    | none => none
  | ["snd", _, "f", _] => some s
  | ["snd", _, "c"] => some s
  | ["snd", _, "u", _, _] => some s
  | ["snd", _, "t"] => some s
  | ["rqs", k] =>
    match k.toNat? with
    | some k => match s.hs[k]? with
      | some _ =>
        let s := catchUpBody env (catchUpTls env (catchUpWrite s k) k) k
        match s.hs[k]? with
        | some h =>
          match (getD env.sent k [])[h.reqs]? with
          | some (some rc) =>
            if getD (getD env.openB k []) h.reqs false then runAll s [.h k (.gotReqOpen rc), .h k .reqmodStart]
            else runAll s [.h k (.gotReq rc), .h k .reqmodStart]
          | some none => runAll s [.h k .gotConnect, .h k .reqmodStart]
          | none => none
        | none => none
      | none => none
    | none => none
  | ["hj", k] => k.toNat?.bind fun k => step s (.h k .hijack)
  | ["dls", k] => k.toNat?.bind fun k => step s (.h k .dialStart)
  | ["dle", k, ok] => k.toNat?.bind fun k => (bit ok).bind fun ok => step s (.h k (.dialEnd ok))
  | ["tcl", _] => some s
  | ["cx", _] => some s
  | ["tmo", _] => some s
  | ["tls", _] => some s
  | ["h2", _] => some s
  | ["panic"] =>
    let s := if s.cpc = .called then tryStep s .closeChan else s
    step s .closeChan2
  | ["cresp", k] =>
    match k.toNat? with
    | some k => match s.hs[k]? with
      | some h => if h.cresps ≥ 1 ∨ h.pc = .cwriting then some s else none
      | none => none
    | none => none
  | ["rqe", k] => k.toNat?.bind fun k => step s (.h k .reqmodEnd)
  | ["rts", k] => k.toNat?.bind fun k => step s (.h k .rtStart)
  | ["rte", k, rc] => k.toNat?.bind fun k => (bit rc).bind fun rc => step s (.h k (.rtEnd rc))
  | ["rtf", k] => k.toNat?.bind fun k => step s (.h k .rtFail)
  | ["rms", k] => k.toNat?.bind fun k =>
      -- MITM: the 200 of a CONNECT is synthesised right after the request modifier
      let s := if pcOf s k = some .postReqmod then tryStep s (.h k .mitmAccept) else s
      step s (.h k .resmodStart)
  | ["rme", k] => k.toNat?.bind fun k => step s (.h k .resmodEnd)
  | ["ws", k, b] =>
    match k.toNat?, bit b with
    | some k, some b =>
      match s.hs[k]? with
      | some h =>
        if h.pc = .postResmod ∧ h.conn ≠ .no then step s (.h k .cwriteStart) else
        let s := if pcOf s k = some .postResmod then tryStep s (.h k .decide) else s
        match step s (.h k .writeStart) with
        | some s' => if pcOf s' k = some (.writing b) then some s' else none
        | none => none
      | none => none
    | _, _ => none
  | ["we", k] => k.toNat?.bind fun k =>
      if pcOf s k = some .cwriting then step s (.h k .cwriteEnd) else step s (.h k .writeEnd)
  | ["cc", k] =>
    match k.toNat? with
    | some k =>
      let gone := getD env.peerDone k false
      -- moves of the environment, each justified by a harness event
      let s := catchUpTls env s k
      let s := if gone then tryAll s [.h k .tunnelEnd, .h k (.peeked false)] else s
      let s := if getD env.aborted k false then tryStep s (.h k .writeErr) else s
      let s := catchUpBody env (catchUpWrite s k) k
      let s := match s.hs[k]? with
        | some h =>
          if h.pc.readable then
            if s.closing then tryStep s (.h k .closingSeen)
            else if gone ∨ getD env.aborted k false then tryStep s (.h k .readErr) else s
          else s
        | none => s
      runAll s [.h k .closeConn, .h k .finish]
    | none => none
  | ["call"] => if s.cpc = .idle then step s .closeCall else step s .closeCall2
  | ["obs"] =>
    let s := if s.cpc = .called then tryStep s .closeChan else s
    if s.closing then some s else none
  | ["ret"] =>
    let s := if s.cpc = .called then tryStep s .closeChan else s
    let s := if s.cpc = .chanClosed then tryStep s .lock else s
    let s := if s.cpc = .locked then tryStep s .waitZero else s
    step s .ret
  | ["resp", k, b] =>
    match k.toNat?, bit b with
    | some k, some b =>
      let s := catchUpWrite s k
      match s.hs[k]? with
      | some h => match h.marks[getD env.resps k 0]? with
        | some m => if m.2.2 = b then some s else none
        -- the client can have read the last byte before the server-side write call has returned
        | none => if getD env.resps k 0 = h.marks.length ∧ h.pc = .writing b then some s else none
      | none => none
    | _, _ => none
  | ["eof", k] =>
    match k.toNat? with
    | some k => match s.hs[k]? with
      | some h =>
        -- the harness closed this connection's client / target end itself: the end-of-stream is its own
        if getD env.peerDone k false ∨ getD env.aborted k false then some s else
        if (h.pc = .closed ∨ h.pc = .done) ∧ (h.secure = false ∨ getD env.resps k 0 = h.marks.length) then some s else none
      | none => none
    | none => none
  | _ => none

def updEnv (env : Env) (ev : List String) : Env :=
  match ev with
  | ["snd", k, "f", rc] =>
    match k.toNat?, bit rc with
    | some k, some rc => { env with sent := setPad env.sent k [] (getD env.sent k [] ++ [some rc]),
                                    openB := setPad env.openB k [] (getD env.openB k [] ++ [false]) }
    | _, _ => env
  | ["snd", k, "u", rc, d] =>
    -- d = 0: the deferred `req.Body.Close()` will not read the rest (Connection: close, body without trailer)
    match k.toNat?, bit rc, bit d with
    | some k, some rc, some d => { env with sent := setPad env.sent k [] (getD env.sent k [] ++ [some rc]),
                                            openB := setPad env.openB k [] (getD env.openB k [] ++ [d]) }
    | _, _, _ => env
  | ["snd", k, "t"] =>
    match k.toNat? with
    | some k => { env with tail := setPad env.tail k false true }
    | none => env
  | ["snd", k, "c"] =>
    match k.toNat? with
    | some k => { env with sent := setPad env.sent k [] (getD env.sent k [] ++ [none]),
                           openB := setPad env.openB k [] (getD env.openB k [] ++ [false]) }
    | none => env
  | ["tcl", k] =>
    match k.toNat? with
    | some k => { env with peerDone := setPad env.peerDone k false true }
    | none => env
  | ["cx", k] =>
    match k.toNat? with
    | some k => { env with aborted := setPad env.aborted k false true }
    | none => env
  -- the exchange outlasted the idle deadline the application configured (`SetTimeout`): its response write fails
  | ["tmo", k] =>
    match k.toNat? with
    | some k => { env with aborted := setPad env.aborted k false true }
    | none => env
  | ["tls", k] =>
    match k.toNat? with
    | some k => { env with tls := setPad env.tls k false true }
    | none => env
  | ["h2", k] =>
    match k.toNat? with
    | some k => { env with h2 := setPad env.h2 k false true }
    | none => env
  | ["resp", k, _] =>
    match k.toNat? with
    | some k => { env with resps := setPad env.resps k 0 (getD env.resps k 0 + 1) }
    | none => env
  | _ => env

def accept : List String → Nat → Env → List Sys → String
  | [], i, _, cands =>
    s!"ok n={i} early={if cands.any (·.returnedEarly) then 1 else 0}"
  | t :: ts, i, env, cands =>
    if t.startsWith "started=" then accept ts i env cands ++ " " ++ t else
    let ev := t.splitOn ":"
    let env1 := match ev with
      | ["snd", _, "f", _] => updEnv env ev
      | ["snd", _, "c"] => updEnv env ev
      | ["snd", _, "u", _, _] => updEnv env ev
      | ["snd", _, "t"] => updEnv env ev
      | ["tcl", _] => updEnv env ev
      | ["cx", _] => updEnv env ev
      | ["tmo", _] => updEnv env ev
      | ["tls", _] => updEnv env ev
      | ["h2", _] => updEnv env ev
      | _ => env
    let cands' := (expandAll cands).filterMap fun s => applyEv env1 s ev
    let env2 := match ev with
      | ["resp", _, _] => updEnv env1 ev
      | _ => env1
    if cands'.isEmpty then s!"reject@{i}:{t}" else accept ts (i + 1) env2 (cands'.foldl insertNew [])

def step (_ : St) (toks : List String) : St × String :=
  match toks with
  -- the harness starts `Serve` and waits until it is in `Accept`: the first loop-top check is over
  | "trace" :: evs => ((), accept evs 0 {} [tryStep Shutdown.init .serveCheck])
  | _ => ((), "bad-op")

end Martian.Drv.C07
