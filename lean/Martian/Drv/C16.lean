import Martian.Model.Har
import Martian.Model.JsonString
import Martian.Model.Query
import Martian.Drv.C15
/-! Driver for C16: `hreq`, `hres`, `jsonpd`, `jsoncontent` (see go/internal/c16). -/
namespace Martian.Drv.C16
open Martian Martian.Go Martian.MessageView Martian.Har
open Martian.Drv.C15 (parseMsg parseCapture unhexList)

def showKVs (l : List KV) : String :=
  if l.isEmpty then "-" else ",".intercalate (l.map fun kv => s!"{hex kv.1}:{hex kv.2}")

def parseParam (s : String) : Option Param :=
  match s.splitOn ":" with
  | [n, v, f, c] => do
    let n ← unhex n; let v ← unhex v; let f ← unhex f; let c ← unhex c
    pure { name := n, value := v, fileName := f, contentType := c }
  | _ => none

/-- outer none = bad token; inner none = the trusted parser reported an error -/
def parseParams (s : String) : Option (Option (List Param)) :=
  if s = "err" then some none
  else if s = "-" then some (some [])
  else ((s.splitOn ",").mapM parseParam).map some

def showParams (l : List Param) : String :=
  if l.isEmpty then "-" else
  ",".intercalate (l.map fun p => s!"{hex p.name}:{hex p.value}:{hex p.fileName}:{hex p.contentType}")

def showPD : Option PostData → String
  | none => "none"
  | some pd => s!"pd {hex pd.mime} {showParams pd.params} {hex pd.text}"

/-- The JSON string coder: the concrete model of encoding/json (Model/JsonString.lean). -/
def jenc (s : Bytes) : Bytes := jsonEncodeString s
def jdec (s : Bytes) : Option Bytes := jsonDecodeString s

abbrev St := Unit
def init : St := ()

def step (s : St) (toks : List String) : St × String :=
  match toks with
  | "hreq" :: spec :: _mode :: mt :: params :: rest =>
    match parseCapture spec, unhex mt, parseParams params, parseMsg rest with
    | some c, some mt, some ps, some m =>
      match logRequest (fun _ _ => ps) mt c m with
      | some r => (s, s!"ok {hex r.method} {hex r.url} {hex r.httpVersion} {r.bodySize} {showKVs r.headers} {showPD r.postData}")
      | none => (s, "err")
    | _, _, _, _ => (s, "bad-op")
  | "hres" :: spec :: _mode :: infl :: rest =>
    match parseCapture spec, parseMsg rest with
    | some c, some m =>
      -- a decoded body too big to travel in the op comes as `h:<len>:<hash>`: the model treats it as an
      -- opaque value (the token's own bytes stand for it); where the logged text IS that value, its
      -- length and token are printed. The model has no size bound anywhere.
      let big := infl.startsWith "h:"
      let standIn : Bytes := infl.toUTF8.toList
      let inflate : Bytes → Bytes → Option Bytes := fun _ x =>
        if infl = "err" || infl = "na" || some x != m.body then none
        else if big then some standIn else unhex infl
      match logResponse inflate c m with
      | some r =>
        let (size, text) :=
          if big && r.content.text == standIn && r.content.size == standIn.length then
            (((infl.splitOn ":").getD 1 "0"), infl)
          else (toString r.content.size, hex r.content.text)
        (s, s!"ok {r.status} {hex r.httpVersion} {r.bodySize} {showKVs r.headers} {hex r.redirectURL} {size} {hex r.content.mime} {text}")
      | none => (s, "err")
    | _, _ => (s, "bad-op")
  | ["jsonpd", mime, params, text] =>
    match unhex mime, parseParams params, unhex text with
    | some mime, some (some ps), some text =>
      let p : PostData := { mime := mime, params := ps, text := text }
      let j := marshalPD jenc p
      let rt := if unmarshalPD jdec j == some p then "ok" else "lossy"
      (s, (if j.encoding.isSome then "base64 " else "text ") ++ (if rt == "ok" then hex j.text else "?") ++ " rt=" ++ rt
            ++ " obj=" ++ hex (pdObj j))
    | _, _, _ => (s, "bad-op")
  | ["jsoncontent", b64, mime, text] =>
    match unhex mime, unhex text with
    | some mime, some text =>
      let c : Content := { size := text.length, mime := mime, text := text, base64 := b64 == "1" }
      let j := marshalContent jenc c
      let rt := if unmarshalContent jdec j == some c then "ok" else "lossy"
      (s, (if j.encoding.isSome then "base64 " else "text ") ++ (if rt == "ok" then hex j.text else "?") ++ " rt=" ++ rt
            ++ " obj=" ++ hex (contentObj j))
    | _, _ => (s, "bad-op")
  | ["query", x] =>
    match unhex x with
    | some raw => (s, "query " ++ showKVs (harQuery raw))
    | none => (s, "bad-op")
  | ["jsonstr", "enc", x] =>
    match unhex x with
    | some b =>
      let tok := jsonEncodeString b
      (s, s!"enc {hex tok} rt=" ++ (match jsonDecodeString tok with | some r => hex r | none => "err"))
    | none => (s, "bad-op")
  | ["jsonstr", "dec", x] =>
    match unhex x with
    | some tok => (s, match jsonDecodeString tok with | some r => "dec ok " ++ hex r | none => "dec err")
    | none => (s, "bad-op")
  | ["jsonstr", "san", x] =>
    match unhex x with
    | some b => (s, "san " ++ hex (sanitize b))
    | none => (s, "bad-op")
  | _ => (s, "bad-op")

end Martian.Drv.C16
