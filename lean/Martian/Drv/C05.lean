import Martian.Drv.Proxy
/-! C05 uses the shared exchange-machine driver. -/
namespace Martian.Drv.C05
abbrev St := Martian.Drv.Proxy.St
def init : St := Martian.Drv.Proxy.init
def step : St → List String → St × String := Martian.Drv.Proxy.step
end Martian.Drv.C05
