import Martian.Model.Grpc
/-!
Driver for C11. The compression library is abstract in the model; the harness declares, per
case, the finite part of it that the case needs (`dec`/`cmp` table lines computed with the real
gzip/flate/snappy). A lookup that the tables do not answer makes the op `out-of-model`
(detected by running the op under two codecs that differ exactly on unanswered lookups).
-/
namespace Martian.Drv.C11
open Martian Martian.Grpc

structure St where
  /-- stream id ↦ state of that stream (one factory value per case, one factory call per stream id) -/
  streams : List (Nat × Stream) := []
  /-- the stream selected by the `@<id>` prefix of the current op (default 1) -/
  cur : Nat := 1
  dead : List (Nat × Dir) := []
  /-- the last `gen:` token expanded (a table's `dec` and `cmp` lines name the same plaintext) -/
  genCache : Option (String × Bytes) := none
  decT : List (Enc × Bytes × Option Bytes) := []
  cmpT : List (Enc × Bytes × Bytes) := []

def init : St := {}

def lookupDec (t : List (Enc × Bytes × Option Bytes)) (e : Enc) (x : Bytes) : Option (Option Bytes) :=
  match t.find? (fun r => r.1 = e && r.2.1 = x) with
  | some r => some r.2.2
  | none => none

def lookupCmp (t : List (Enc × Bytes × Bytes)) (e : Enc) (x : Bytes) : Option Bytes :=
  match t.find? (fun r => r.1 = e && r.2.1 = x) with
  | some r => some r.2.2
  | none => none

/-- the declared part of the library; `alt` chooses what an undeclared lookup answers -/
def codec (s : St) (alt : Bool) : Codec where
  comp e x := match lookupCmp s.cmpT e x with
    | some y => y
    | none => if alt then [0xBB] else []
  decomp e x := match lookupDec s.decT e x with
    | some y => y
    | none => if alt then some [0xAA] else none

/-- `pat` repeated cyclically to `n` bytes -/
def genBytes (pat : Array UInt8) (n : Nat) : Bytes :=
  let rec go : Nat → Bytes → Bytes
    | 0, acc => acc
    | i + 1, acc => go i (pat[i % pat.size]! :: acc)
  if pat.size = 0 then [] else go n []

/-- a byte-string token: hex, `-`, or `gen:<hex pattern>:<n>` = the pattern repeated to n bytes
(large compressible plaintexts; keeps op lines short) -/
def unhexTok (s : St) (tok : String) : St × Option Bytes :=
  if tok.startsWith "gen:" then
    match s.genCache with
    | some (t, b) => if t = tok then (s, some b) else expand
    | none => expand
  else (s, unhex tok)
where
  expand : St × Option Bytes :=
    match tok.splitOn ":" with
    | [_, p, n] =>
      match unhex p, n.toNat? with
      | some pat, some n =>
        let b := genBytes pat.toArray n
        ({ s with genCache := some (tok, b) }, some b)
      | _, _ => (s, none)
    | _ => (s, none)

def fnv (b : Bytes) : UInt64 :=
  b.foldl (fun h x => (h ^^^ x.toUInt64) * 1099511628211) 14695981039346656037

def showBytes (b : Bytes) : String :=
  if b.length ≤ 48 then hex b else s!"#{b.length}:{(fnv b).toNat}"

def showHdrs (hs : List Header) : String :=
  if hs.isEmpty then "-" else ",".intercalate (hs.map fun h => hex h.1 ++ "=" ++ hex h.2)

def b01 (b : Bool) : String := if b then "1" else "0"

def showEv : Ev → String
  | .procHeader hs es => s!"ph:{b01 es}:{showHdrs hs}"
  | .procMessage d es => s!"pm:{b01 es}:{showBytes d}"
  | .sinkHeader hs es => s!"sh:{b01 es}:{showHdrs hs}"
  | .sinkData d es => s!"sd:{b01 es}:{showBytes d}"
  | .sinkPriority => "sp"
  | .sinkRst c => s!"sr:{c}"
  | .sinkPush id hs => s!"su:{id}:{showHdrs hs}"
  | .error w => s!"err:{w}"

def showEvs (evs : List Ev) : String :=
  if evs.isEmpty then "-" else " ".intercalate (evs.map showEv)

def parseDir : String → Option Dir
  | "c" => some .c2s
  | "s" => some .s2c
  | _ => none

def parseBool : String → Option Bool
  | "0" => some false
  | "1" => some true
  | _ => none

def parseEnc : String → Option Enc
  | "identity" => some .identity
  | "gzip" => some .gzip
  | "deflate" => some .deflate
  | "snappy" => some .snappy
  | _ => none

def parseHdr (s : String) : Option Header :=
  match s.splitOn "=" with
  | [n, v] => match unhex n, unhex v with
    | some a, some b => some (a, b)
    | _, _ => none
  | _ => none

def parseHdrs (s : String) : Option (List Header) :=
  if s = "-" then some [] else (s.splitOn ",").mapM parseHdr

def St.stream (s : St) : Stream := (s.streams.lookup s.cur).getD {}

def St.setStream (s : St) (st : Stream) : St := { s with streams := (s.cur, st) :: s.streams.filter (·.1 != s.cur) }

def St.isDead (s : St) (d : Dir) : Bool := s.dead.contains (s.cur, d)

def St.kill (s : St) (d : Dir) : St := { s with dead := (s.cur, d) :: s.dead }

def dataOp (s : St) (d : Dir) (b : Bytes) (es : Bool) : St × String :=
  if s.isDead d then (s, "out-of-model") else
  let r0 := Stream.data (codec s false) s.stream d b es
  -- the library is consulted only for a compressed message under a non-identity encoding
  -- (`decode` / `encode`): on the other streams one run is enough (large messages are identity)
  let needLib := s.stream.enabled && (s.stream.get d).enc != .identity
  let r1 := if needLib then Stream.data (codec s true) s.stream d b es else r0
  if needLib && r0 != r1 then (s.kill d, "out-of-model")
  else match r0.1 with
    | some st => (s.setStream st, showEvs r0.2)
    | none => (s.kill d, showEvs r0.2)

def stepOn (s : St) (toks : List String) : St × String :=
  match toks with
  | ["dec", e, w, p] =>
    let (s, pb) := if p = "!" then (s, some none) else
      match unhexTok s p with
      | (s', r) => (s', r.map some)
    match parseEnc e, unhex w, pb with
    | some e, some w, some p => ({ s with decT := (e, w, p) :: s.decT }, "ok")
    | _, _, _ => (s, "bad-op")
  | ["cmp", e, p, w] =>
    let (s, pb) := unhexTok s p
    match parseEnc e, pb, unhex w with
    | some e, some p, some w => ({ s with cmpT := (e, p, w) :: s.cmpT }, "ok")
    | _, _, _ => (s, "bad-op")
  | ["hdr", d, es, hs] =>
    match parseDir d, parseBool es, parseHdrs hs with
    | some d, some es, some hs =>
      if s.isDead d then (s, "out-of-model") else
      let (st, evs) := s.stream.header d hs es
      let s' := s.setStream st
      (if evs.any (fun e => match e with | .error _ => true | _ => false) then s'.kill d else s', showEvs evs)
    | _, _, _ => (s, "bad-op")
  | ["data", d, es, b] =>
    match parseDir d, parseBool es, unhex b with
    | some d, some es, some b => dataOp s d b es
    | _, _, _ => (s, "bad-op")
  | ["pfx", n] =>
    -- the four length bytes emitter.Message writes for an n-byte payload, and what adapter.Data reads from them
    match n.toNat? with
    | some n => (s, s!"{hex (putBe32 n)} {be32 (putBe32 n)}")
    | none => (s, "bad-op")
  | ["prio", d] =>
    match parseDir d with
    | some _ => (s, showEvs [.sinkPriority])
    | none => (s, "bad-op")
  | ["rst", d, c] =>
    match parseDir d, c.toNat? with
    | some _, some c => (s, showEvs [.sinkRst c])
    | _, _ => (s, "bad-op")
  | ["push", d, id, hs] =>
    match parseDir d, id.toNat?, parseHdrs hs with
    | some _, some id, some hs => (s, showEvs [.sinkPush id hs])
    | _, _, _ => (s, "bad-op")
  | _ => (s, "bad-op")

/-- an op may start with `@<stream id>`; without it the op is on stream 1 -/
def step (s : St) (toks : List String) : St × String :=
  match toks with
  | t :: rest =>
    if t.startsWith "@" then
      match (t.drop 1).toNat? with
      | some sid => stepOn { s with cur := sid } rest
      | none => (s, "bad-op")
    else stepOn { s with cur := 1 } toks
  | [] => (s, "bad-op")

end Martian.Drv.C11
