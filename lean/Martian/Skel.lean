/-!
Queries over the control skeletons that `vextract` regenerates from the Go source on every check
(`Generated/*.lean`, token lists: `call f`, `defer f`, `go f(..)`, `set x = e`, `return e`,
`if c {` … `}`, `for {` … `}`). The `facts_*` theorems of the properties state, with these
queries, the structural facts of the code that the hand-written models transcribe: which modelled
actions occur, in which order, guarded by what. They are closed terms decided by the kernel, so
an edit of the source that changes one of them breaks a named theorem on the next check.
-/
namespace Martian.Skel

/-- The modelled actions of a skeleton, renamed by `tbl`, in source order. -/
def project (tbl : List (String × String)) (sk : List String) : List String :=
  sk.filterMap fun t => (tbl.find? (·.1 == t)).map (·.2)

/-- Go runs deferred calls at return, last deferred first: the (renamed) actions listed in
`deferred` are moved to the end, in reverse order. -/
def linearise (deferred : List String) (l : List String) : List String :=
  l.filter (fun t => !deferred.contains t) ++ (l.filter fun t => deferred.contains t).reverse

/-- `p` occurs in `l` as a contiguous block. -/
def hasBlock (p : List String) : List String → Bool
  | [] => p.isEmpty
  | x :: r => p.isPrefixOf (x :: r) || hasBlock p r

/-- `p` occurs in `l` as a subsequence (in this order, other tokens in between allowed). -/
def hasSeq : List String → List String → Bool
  | [], _ => true
  | _ :: _, [] => false
  | p :: ps, x :: r => if p == x then hasSeq ps r else hasSeq (p :: ps) r

/-- Number of occurrences of a token. -/
def count (t : String) (l : List String) : Nat := (l.filter (· == t)).length

/-- The tokens strictly after the first occurrence of `t`. -/
def after (t : String) : List String → List String
  | [] => []
  | x :: r => if x == t then r else after t r

/-- The tokens strictly before the first occurrence of `t` (all of them if it does not occur). -/
def before (t : String) : List String → List String
  | [] => []
  | x :: r => if x == t then [] else x :: before t r

end Martian.Skel
