#!/bin/bash
# Run once after a fresh restore, offline: builds the Lean library + model driver and the Go tools.
set -e
cd "$(dirname "$0")"
export GOFLAGS=-mod=mod GOPROXY=off GOSUMDB=off GOTOOLCHAIN=local
mkdir -p bin out replays evidence lean/Martian/Generated
cp /repo/go.sum go/go.sum 2>/dev/null || true
(cd go && go build -o ../bin/vextract ./cmd/vextract && ../bin/vextract -repo /repo -out ../lean/Martian/Generated)
(cd lean && lake build Martian driver)
(cd go && go build -tags verif -o ../bin/vharness ./cmd/vharness)
echo setup-ok
