package main

import (
	"go/ast"
)

// C01–C05: the control skeleton of the per-connection exchange machine in proxy.go
// (handleLoop's serving loop, handle, handleConnectRequest split into its MITM and blind parts,
// roundTrip, connect) — the statement order Model/Proxy.lean and Model/Tunnel.lean transcribe.
// Pinned by the `facts_*` theorems in Props/C01..C05/Facts.lean.
func init() { extractors = append(extractors, extractProxy) }

var proxyCalls = []string{
	"p.readRequest", "req.Body.Close", "res.Body.Close", "link", "unlink", "withSession", "newSession",
	"session.MarkSecure", "session.IsSecure", "session.Hijacked", "s.Hijacked", "session.setConn",
	"p.handleConnectRequest", "p.handle", "isCloseable",
	"p.reqmod.ModifyRequest", "p.resmod.ModifyResponse", "proxyutil.Warning", "proxyutil.NewResponse",
	"p.roundTrip", "p.roundTripper.RoundTrip", "ctx.SkippingRoundTrip", "p.Closing",
	"res.Write", "brw.Flush", "brw.Read", "brw.Reader.Reset", "brw.Writer.Reset",
	"p.connect", "p.dial", "cconn.Close", "copySync", "closeWrite", "cw.CloseWrite", "io.Copy",
	"tls.Server", "tlsconn.Handshake", "p.mitm.TLSForHost", "p.mitm.H2Config().Proxy", "p.mitm.HandshakeErrorCallback",
	"ptsconn.Listener.GetTrafficShapedConn", "http.ReadResponse", "http.ReadRequest", "req.Write", "pbw.Flush", "pbr.Peek",
	"conn.SetDeadline", "nconn.SetDeadline", "conn.Close", "p.conns.Done",
}

var proxyPlaces = []string{
	"closing", "res.Close", "res.Request", "req.URL.Scheme", "req.TLS", "res.ContentLength", "req.URL.Host",
	"req.RemoteAddr", "res.Body", "ptsconn.Context", "req.Close", "p.mitm", "p.proxyURL",
	"cerr", "b[0]", "req.Method", "nconn",
}

func extractProxy() {
	f := parse("proxy.go")
	g := newGen("Proxy")
	sk := newSkel(proxyCalls, proxyPlaces)
	sk.arg0["proxyutil.NewResponse"] = true

	body := func(recv, name string) *ast.BlockStmt {
		if fd := funcDecl(f, recv, name); fd != nil {
			return fd.Body
		}
		return nil
	}

	// handleLoop: only the serving loop (the prologue is C07's fact)
	var loop []string
	if b := body("Proxy", "handleLoop"); b != nil {
		for _, st := range b.List {
			if fs, ok := st.(*ast.ForStmt); ok {
				loop = sk.stmt(fs)
			}
		}
	}
	g.def("handleLoopServing", "List String", leanLines(loop))

	// handle, with the traffic-shaping context block folded away (C18's concern)
	var handle []string
	if b := body("Proxy", "handle"); b != nil {
		for _, st := range b.List {
			if is, ok := st.(*ast.IfStmt); ok && is.Init != nil {
				if s := oneLine(src(is.Init)); len(s) >= 7 && s[:7] == "ptsconn" {
					handle = append(handle, "shaping-context-block")
					continue
				}
			}
			handle = append(handle, sk.stmt(st)...)
		}
	}
	g.def("handle", "List String", leanLines(handle))

	// handleConnectRequest: common head, the `if p.mitm != nil` block, the blind rest
	var head, mitm, blind []string
	if b := body("Proxy", "handleConnectRequest"); b != nil {
		seenMitm := false
		for _, st := range b.List {
			if is, ok := st.(*ast.IfStmt); ok && oneLine(src(is.Cond)) == "p.mitm != nil" {
				mitm = sk.block(is.Body)
				seenMitm = true
				continue
			}
			if !seenMitm {
				head = append(head, sk.stmt(st)...)
			} else {
				blind = append(blind, sk.stmt(st)...)
			}
		}
	}
	g.def("connectHead", "List String", leanLines(head))
	g.def("connectMitm", "List String", leanLines(mitm))
	g.def("connectBlind", "List String", leanLines(blind))

	g.def("roundTrip", "List String", leanLines(sk.block(body("Proxy", "roundTrip"))))
	g.def("connect", "List String", leanLines(sk.block(body("Proxy", "connect"))))

	// isCloseable: the error classes that end the serving loop
	var closeable []string
	if b := body("", "isCloseable"); b != nil {
		ast.Inspect(b, func(x ast.Node) bool {
			switch n := x.(type) {
			case *ast.CaseClause:
				for _, e := range n.List {
					closeable = append(closeable, oneLine(src(e)))
				}
			case *ast.CallExpr:
				if s := oneLine(src(n.Fun)); s == "neterr.Timeout" {
					closeable = append(closeable, s)
				}
			}
			return true
		})
	}
	g.def("closeable", "List String", leanList(closeable))
}
