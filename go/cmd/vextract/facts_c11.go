package main

// Facts for C11 (h2/grpc/grpc.go): the grpc-encoding name table of adapter.Header, the header
// tests that switch a stream to gRPC, the prefix length, and which library calls decode
// (adapter.Data) and encode (emitter.Message) each encoding.

import (
	"fmt"
	"go/ast"
	"go/token"
	"strconv"
	"strings"
)

func init() { extractors = append(extractors, extractGrpc) }

func leanPairs(ps [][2]string) string {
	q := make([]string, len(ps))
	for i, p := range ps {
		q[i] = "(" + leanStr(p[0]) + ", " + leanStr(p[1]) + ")"
	}
	return "[" + strings.Join(q, ", ") + "]"
}

// switchOn finds the first switch statement in fn whose tag prints as tag.
func switchOn(fn *ast.FuncDecl, tag string) *ast.SwitchStmt {
	var out *ast.SwitchStmt
	if fn == nil {
		return nil
	}
	ast.Inspect(fn, func(n ast.Node) bool {
		if s, ok := n.(*ast.SwitchStmt); ok && out == nil && s.Tag != nil && src(s.Tag) == tag {
			out = s
		}
		return out == nil
	})
	return out
}

// libCalls keeps the package-qualified and helper calls that choose a format (drops error
// formatting, buffer plumbing and method calls on local values).
func libCalls(n ast.Node) []string {
	var out []string
	for _, c := range callNames(n) {
		switch {
		case strings.HasPrefix(c, "fmt."), strings.HasPrefix(c, "w."), strings.HasPrefix(c, "buf."), strings.HasPrefix(c, "r."), c == "panic", c == "make", strings.HasPrefix(c, "func"):
		default:
			out = append(out, c)
		}
	}
	return out
}

func caseCalls(sw *ast.SwitchStmt) string {
	var rows []string
	if sw != nil {
		for _, st := range sw.Body.List {
			cc, ok := st.(*ast.CaseClause)
			if !ok || len(cc.List) == 0 {
				continue
			}
			var calls []string
			for _, s := range cc.Body {
				calls = append(calls, libCalls(s)...)
			}
			for _, e := range cc.List {
				rows = append(rows, "("+leanStr(src(e))+", "+leanList(calls)+")")
			}
		}
	}
	return "[" + strings.Join(rows, ", ") + "]"
}

// inspectWithCallees visits fn's body in source order; at a call of a package-level function or
// of a method of fn's receiver type declared in the same file, the callee's body is visited at the
// position of the call (each function once). A test moved into a helper is still found.
func inspectWithCallees(f *ast.File, fn *ast.FuncDecl, visit func(ast.Node)) {
	if fn == nil || fn.Body == nil {
		return
	}
	recv := ""
	if fn.Recv != nil && len(fn.Recv.List) == 1 {
		t := fn.Recv.List[0].Type
		if s, ok := t.(*ast.StarExpr); ok {
			t = s.X
		}
		if id, ok := t.(*ast.Ident); ok {
			recv = id.Name
		}
	}
	seen := map[*ast.FuncDecl]bool{fn: true}
	var walk func(n ast.Node)
	walk = func(n ast.Node) {
		ast.Inspect(n, func(x ast.Node) bool {
			if x == nil {
				return false
			}
			visit(x)
			if c, ok := x.(*ast.CallExpr); ok {
				var callee *ast.FuncDecl
				switch fun := c.Fun.(type) {
				case *ast.Ident:
					callee = funcDecl(f, "", fun.Name)
				case *ast.SelectorExpr:
					if _, ok := fun.X.(*ast.Ident); ok && recv != "" {
						callee = funcDecl(f, recv, fun.Sel.Name)
					}
				}
				if callee != nil && callee.Body != nil && !seen[callee] {
					seen[callee] = true
					for _, a := range c.Args {
						walk(a)
					}
					walk(callee.Body)
					return false
				}
			}
			return true
		})
	}
	walk(fn.Body)
}

// callArgs returns the printed arguments (from index `from`) of the first call of `fun` in n.
func callArgs(n ast.Node, fun string, from int) []string {
	var out []string
	found := false
	if n == nil {
		return out
	}
	ast.Inspect(n, func(x ast.Node) bool {
		if c, ok := x.(*ast.CallExpr); ok && !found && src(c.Fun) == fun {
			found = true
			for i, a := range c.Args {
				if i >= from {
					out = append(out, src(a))
				}
			}
		}
		return !found
	})
	return out
}

func extractGrpc() {
	f := parse("h2/grpc/grpc.go")
	g := newGen("Grpc")

	hdr := funcDecl(f, "adapter", "Header")
	// the Encoding constants (the `const ( Identity Encoding = iota … )` block)
	encConsts := map[string]bool{}
	for _, d := range f.Decls {
		gd, ok := d.(*ast.GenDecl)
		if !ok || gd.Tok != token.CONST {
			continue
		}
		isEnc := false
		for _, sp := range gd.Specs {
			vs, ok := sp.(*ast.ValueSpec)
			if !ok {
				continue
			}
			if vs.Type != nil {
				isEnc = src(vs.Type) == "Encoding"
			}
			if isEnc {
				for _, nm := range vs.Names {
					encConsts[nm.Name] = true
				}
			}
		}
	}
	// grpc-encoding value -> Encoding constant: the switch (in adapter.Header or a helper it calls)
	// whose cases are string literals and whose bodies name an Encoding constant - written as an
	// assignment, a setter call or a return
	var names [][2]string
	inspectWithCallees(f, hdr, func(n ast.Node) {
		sw, ok := n.(*ast.SwitchStmt)
		if !ok || len(names) > 0 {
			return
		}
		if se, ok := sw.Tag.(*ast.SelectorExpr); ok && se.Sel.Name == "Name" {
			return // a switch on the field NAME (its cases are header names, not encodings)
		}
		var rows [][2]string
		for _, st := range sw.Body.List {
			cc, ok := st.(*ast.CaseClause)
			if !ok || len(cc.List) != 1 {
				continue
			}
			lit, ok := cc.List[0].(*ast.BasicLit)
			if !ok || lit.Kind != token.STRING {
				continue
			}
			v, err := strconv.Unquote(lit.Value)
			if err != nil {
				continue
			}
			c := ""
			for _, b := range cc.Body {
				ast.Inspect(b, func(x ast.Node) bool {
					if id, ok := x.(*ast.Ident); ok && c == "" && encConsts[id.Name] {
						c = id.Name
					}
					return c == ""
				})
			}
			if c != "" {
				rows = append(rows, [2]string{v, c})
			}
		}
		if len(rows) > 0 {
			names = rows
		}
	})
	g.def("encodingNames", "List (String × String)", leanPairs(names))

	// the string literals adapter.Header (or a helper it calls) compares the Name / Value of a header
	// field with FOR EQUALITY, in source order: `x.Name == "…"` / `x.Value == "…"`, or the same test
	// written `switch x.Name { case "…": }` (a switch on the Value is the encoding table above). A
	// prefix or case-insensitive test is not listed, so the fact breaks on it.
	var tests [][2]string
	fieldOf := func(e ast.Expr) string {
		if se, ok := e.(*ast.SelectorExpr); ok && (se.Sel.Name == "Name" || se.Sel.Name == "Value") {
			return se.Sel.Name
		}
		return ""
	}
	nameCase := map[*ast.CaseClause]bool{}
	inspectWithCallees(f, hdr, func(n ast.Node) {
		switch x := n.(type) {
		case *ast.BinaryExpr:
			if x.Op == token.EQL && fieldOf(x.X) != "" {
				if lit, ok := x.Y.(*ast.BasicLit); ok && lit.Kind == token.STRING {
					if v, err := strconv.Unquote(lit.Value); err == nil {
						tests = append(tests, [2]string{fieldOf(x.X), v})
					}
				}
			}
		case *ast.SwitchStmt:
			if x.Tag != nil && fieldOf(x.Tag) == "Name" {
				for _, st := range x.Body.List {
					if cc, ok := st.(*ast.CaseClause); ok {
						nameCase[cc] = true
					}
				}
			}
		case *ast.CaseClause:
			if nameCase[x] {
				for _, e := range x.List {
					if lit, ok := e.(*ast.BasicLit); ok && lit.Kind == token.STRING {
						if v, err := strconv.Unquote(lit.Value); err == nil {
							tests = append(tests, [2]string{"Name", v})
						}
					}
				}
			}
		}
	})
	g.def("headerTests", "List (String × String)", leanPairs(tests))

	// the content-type test: the package-level helper adapter.Header hands a field's Value to
	// (isGRPCContentType). Its string literals (the base media type), the library calls it makes
	// (strings.HasPrefix), the character literals it compares a byte with for equality (the
	// separators that may follow the base) and whether it also accepts the exact length.
	var ctHelper *ast.FuncDecl
	if hdr != nil {
		ast.Inspect(hdr, func(n ast.Node) bool {
			c, ok := n.(*ast.CallExpr)
			if !ok || ctHelper != nil {
				return ctHelper == nil
			}
			id, ok := c.Fun.(*ast.Ident)
			if !ok {
				return true
			}
			for _, a := range c.Args {
				if fieldOf(a) == "Value" {
					ctHelper = funcDecl(f, "", id.Name)
				}
			}
			return ctHelper == nil
		})
	}
	var ctLits, ctSeps, ctCalls []string
	ctExact := false
	if ctHelper != nil && ctHelper.Body != nil {
		ast.Inspect(ctHelper.Body, func(n ast.Node) bool {
			switch x := n.(type) {
			case *ast.BasicLit:
				if x.Kind == token.STRING {
					if v, err := strconv.Unquote(x.Value); err == nil {
						ctLits = append(ctLits, v)
					}
				}
			case *ast.BinaryExpr:
				if x.Op == token.EQL {
					if lit, ok := x.Y.(*ast.BasicLit); ok && lit.Kind == token.CHAR {
						if r, _, _, err := strconv.UnquoteChar(strings.Trim(lit.Value, "'"), '\''); err == nil {
							ctSeps = append(ctSeps, string(r))
						}
					}
					if strings.HasPrefix(src(x.X), "len(") && strings.HasPrefix(src(x.Y), "len(") {
						ctExact = true
					}
				}
			case *ast.CallExpr:
				if _, ok := x.Fun.(*ast.SelectorExpr); ok {
					ctCalls = append(ctCalls, src(x.Fun))
				}
			}
			return true
		})
	}
	g.def("ctLiterals", "List String", leanList(ctLits))
	g.def("ctCalls", "List String", leanList(ctCalls))
	g.def("ctSeparators", "List String", leanList(ctSeps))
	g.def("ctExactLen", "Bool", map[bool]string{true: "true", false: "false"}[ctExact])

	data := funcDecl(f, "adapter", "Data")
	// `a.buffer.Len() < N`: the prefix length
	pl := "0"
	if data != nil {
		ast.Inspect(data, func(n ast.Node) bool {
			if b, ok := n.(*ast.BinaryExpr); ok && b.Op == token.LSS && src(b.X) == "a.buffer.Len()" {
				if lit, ok := b.Y.(*ast.BasicLit); ok && lit.Kind == token.INT {
					pl = lit.Value
				}
			}
			return true
		})
	}
	g.def("prefixLen", "Nat", pl)

	// the 32-bit arithmetic of the length prefix: the type of adapter.length, the ordering comparisons
	// adapter.Data makes with it (the buffer length is converted to uint32 first), and how the prefix is
	// read and written (byte order, target / converted value)
	lt := ""
	for _, d := range f.Decls {
		gd, ok := d.(*ast.GenDecl)
		if !ok {
			continue
		}
		for _, sp := range gd.Specs {
			ts, ok := sp.(*ast.TypeSpec)
			if !ok || ts.Name.Name != "adapter" {
				continue
			}
			if st, ok := ts.Type.(*ast.StructType); ok {
				for _, fl := range st.Fields.List {
					for _, nm := range fl.Names {
						if nm.Name == "length" {
							lt = src(fl.Type)
						}
					}
				}
			}
		}
	}
	g.def("lengthFieldType", "String", leanStr(lt))
	var cmps []string
	if data != nil {
		ast.Inspect(data, func(n ast.Node) bool {
			if b, ok := n.(*ast.BinaryExpr); ok {
				switch b.Op {
				case token.LSS, token.GTR, token.LEQ, token.GEQ:
					if strings.Contains(src(b), "a.length") {
						cmps = append(cmps, src(b))
					}
				}
			}
			return true
		})
	}
	g.def("lengthCompares", "List String", leanList(cmps))
	g.def("prefixRead", "List String", leanList(callArgs(data, "binary.Read", 1)))
	g.def("prefixWrite", "List String", leanList(callArgs(funcDecl(f, "emitter", "Message"), "binary.Write", 1)))
	g.def("decodeCalls", "List (String × List String)", caseCalls(switchOn(data, "a.encoding")))
	g.def("encodeCalls", "List (String × List String)", caseCalls(switchOn(funcDecl(f, "emitter", "Message"), "e.adapter.encoding")))
	var helpers []string
	for _, h := range []string{"gunzip", "deflate"} {
		if fd := funcDecl(f, "", h); fd != nil {
			helpers = append(helpers, fmt.Sprintf("(%s, %s)", leanStr(h), leanList(libCalls(fd.Body))))
		}
	}
	g.def("helperCalls", "List (String × List String)", "["+strings.Join(helpers, ", ")+"]")
}
