package main

// Facts for C11 (h2/grpc/grpc.go): the grpc-encoding name table of adapter.Header, the header
// tests that switch a stream to gRPC, the prefix length, and which library calls decode
// (adapter.Data) and encode (emitter.Message) each encoding.

import (
	"fmt"
	"go/ast"
	"go/token"
	"strconv"
	"strings"
)

func init() { extractors = append(extractors, extractGrpc) }

func leanPairs(ps [][2]string) string {
	q := make([]string, len(ps))
	for i, p := range ps {
		q[i] = "(" + leanStr(p[0]) + ", " + leanStr(p[1]) + ")"
	}
	return "[" + strings.Join(q, ", ") + "]"
}

// switchOn finds the first switch statement in fn whose tag prints as tag.
func switchOn(fn *ast.FuncDecl, tag string) *ast.SwitchStmt {
	var out *ast.SwitchStmt
	if fn == nil {
		return nil
	}
	ast.Inspect(fn, func(n ast.Node) bool {
		if s, ok := n.(*ast.SwitchStmt); ok && out == nil && s.Tag != nil && src(s.Tag) == tag {
			out = s
		}
		return out == nil
	})
	return out
}

// libCalls keeps the package-qualified and helper calls that choose a format (drops error
// formatting, buffer plumbing and method calls on local values).
func libCalls(n ast.Node) []string {
	var out []string
	for _, c := range callNames(n) {
		switch {
		case strings.HasPrefix(c, "fmt."), strings.HasPrefix(c, "w."), strings.HasPrefix(c, "buf."), strings.HasPrefix(c, "r."), c == "panic", c == "make", strings.HasPrefix(c, "func"):
		default:
			out = append(out, c)
		}
	}
	return out
}

func caseCalls(sw *ast.SwitchStmt) string {
	var rows []string
	if sw != nil {
		for _, st := range sw.Body.List {
			cc, ok := st.(*ast.CaseClause)
			if !ok || len(cc.List) == 0 {
				continue
			}
			var calls []string
			for _, s := range cc.Body {
				calls = append(calls, libCalls(s)...)
			}
			for _, e := range cc.List {
				rows = append(rows, "("+leanStr(src(e))+", "+leanList(calls)+")")
			}
		}
	}
	return "[" + strings.Join(rows, ", ") + "]"
}

var nameSwitchCase = map[*ast.CaseClause]bool{}

// callArgs returns the printed arguments (from index `from`) of the first call of `fun` in n.
func callArgs(n ast.Node, fun string, from int) []string {
	var out []string
	found := false
	if n == nil {
		return out
	}
	ast.Inspect(n, func(x ast.Node) bool {
		if c, ok := x.(*ast.CallExpr); ok && !found && src(c.Fun) == fun {
			found = true
			for i, a := range c.Args {
				if i >= from {
					out = append(out, src(a))
				}
			}
		}
		return !found
	})
	return out
}

func extractGrpc() {
	f := parse("h2/grpc/grpc.go")
	g := newGen("Grpc")

	hdr := funcDecl(f, "adapter", "Header")
	// grpc-encoding value -> Encoding constant
	var names [][2]string
	if sw := switchOn(hdr, "h.Value"); sw != nil {
		for _, st := range sw.Body.List {
			cc, ok := st.(*ast.CaseClause)
			if !ok || len(cc.List) != 1 || len(cc.Body) != 1 {
				continue
			}
			lit, ok1 := cc.List[0].(*ast.BasicLit)
			as, ok2 := cc.Body[0].(*ast.AssignStmt)
			if !ok1 || !ok2 || len(as.Rhs) != 1 {
				continue
			}
			v, err := strconv.Unquote(lit.Value)
			if err != nil {
				continue
			}
			names = append(names, [2]string{v, src(as.Rhs[0])})
		}
	}
	g.def("encodingNames", "List (String × String)", leanPairs(names))

	// the string literals adapter.Header compares header fields with FOR EQUALITY, in source order:
	// `h.Name == "…"` / `h.Value == "…"`, or the same test written `switch h.Name { case "…": }`
	// (the `switch h.Value` of the encoding table is encodingNames above). A prefix or
	// case-insensitive test would not be listed, and the fact would break.
	var tests [][2]string
	if hdr != nil {
		ast.Inspect(hdr, func(n ast.Node) bool {
			switch x := n.(type) {
			case *ast.BinaryExpr:
				if x.Op == token.EQL {
					if lit, ok := x.Y.(*ast.BasicLit); ok && lit.Kind == token.STRING {
						if v, err := strconv.Unquote(lit.Value); err == nil {
							tests = append(tests, [2]string{src(x.X), v})
						}
					}
				}
			case *ast.CaseClause:
				// only the cases of a switch on h.Name; ast.Inspect reaches the clause through its switch
				for _, e := range x.List {
					if lit, ok := e.(*ast.BasicLit); ok && lit.Kind == token.STRING && nameSwitchCase[x] {
						if v, err := strconv.Unquote(lit.Value); err == nil {
							tests = append(tests, [2]string{"h.Name", v})
						}
					}
				}
			case *ast.SwitchStmt:
				if x.Tag != nil && src(x.Tag) == "h.Name" {
					for _, st := range x.Body.List {
						if cc, ok := st.(*ast.CaseClause); ok {
							nameSwitchCase[cc] = true
						}
					}
				}
			}
			return true
		})
	}
	g.def("headerTests", "List (String × String)", leanPairs(tests))

	data := funcDecl(f, "adapter", "Data")
	// `a.buffer.Len() < N`: the prefix length
	pl := "0"
	if data != nil {
		ast.Inspect(data, func(n ast.Node) bool {
			if b, ok := n.(*ast.BinaryExpr); ok && b.Op == token.LSS && src(b.X) == "a.buffer.Len()" {
				if lit, ok := b.Y.(*ast.BasicLit); ok && lit.Kind == token.INT {
					pl = lit.Value
				}
			}
			return true
		})
	}
	g.def("prefixLen", "Nat", pl)

	// the 32-bit arithmetic of the length prefix: the type of adapter.length, the ordering comparisons
	// adapter.Data makes with it (the buffer length is converted to uint32 first), and how the prefix is
	// read and written (byte order, target / converted value)
	lt := ""
	for _, d := range f.Decls {
		gd, ok := d.(*ast.GenDecl)
		if !ok {
			continue
		}
		for _, sp := range gd.Specs {
			ts, ok := sp.(*ast.TypeSpec)
			if !ok || ts.Name.Name != "adapter" {
				continue
			}
			if st, ok := ts.Type.(*ast.StructType); ok {
				for _, fl := range st.Fields.List {
					for _, nm := range fl.Names {
						if nm.Name == "length" {
							lt = src(fl.Type)
						}
					}
				}
			}
		}
	}
	g.def("lengthFieldType", "String", leanStr(lt))
	var cmps []string
	if data != nil {
		ast.Inspect(data, func(n ast.Node) bool {
			if b, ok := n.(*ast.BinaryExpr); ok {
				switch b.Op {
				case token.LSS, token.GTR, token.LEQ, token.GEQ:
					if strings.Contains(src(b), "a.length") {
						cmps = append(cmps, src(b))
					}
				}
			}
			return true
		})
	}
	g.def("lengthCompares", "List String", leanList(cmps))
	g.def("prefixRead", "List String", leanList(callArgs(data, "binary.Read", 1)))
	g.def("prefixWrite", "List String", leanList(callArgs(funcDecl(f, "emitter", "Message"), "binary.Write", 1)))
	g.def("decodeCalls", "List (String × List String)", caseCalls(switchOn(data, "a.encoding")))
	g.def("encodeCalls", "List (String × List String)", caseCalls(switchOn(funcDecl(f, "emitter", "Message"), "e.adapter.encoding")))
	var helpers []string
	for _, h := range []string{"gunzip", "deflate"} {
		if fd := funcDecl(f, "", h); fd != nil {
			helpers = append(helpers, fmt.Sprintf("(%s, %s)", leanStr(h), leanList(libCalls(fd.Body))))
		}
	}
	g.def("helperCalls", "List (String × List String)", "["+strings.Join(helpers, ", ")+"]")
}
