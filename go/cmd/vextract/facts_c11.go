package main

// Facts for C11 (h2/grpc/grpc.go): the grpc-encoding name table of adapter.Header, the header
// tests that switch a stream to gRPC, the prefix length, and which library calls decode
// (adapter.Data) and encode (emitter.Message) each encoding.

import (
	"fmt"
	"go/ast"
	"go/token"
	"strconv"
	"strings"
)

func init() { extractors = append(extractors, extractGrpc) }

func leanPairs(ps [][2]string) string {
	q := make([]string, len(ps))
	for i, p := range ps {
		q[i] = "(" + leanStr(p[0]) + ", " + leanStr(p[1]) + ")"
	}
	return "[" + strings.Join(q, ", ") + "]"
}

// switchOn finds the first switch statement in fn whose tag prints as tag.
func switchOn(fn *ast.FuncDecl, tag string) *ast.SwitchStmt {
	var out *ast.SwitchStmt
	if fn == nil {
		return nil
	}
	ast.Inspect(fn, func(n ast.Node) bool {
		if s, ok := n.(*ast.SwitchStmt); ok && out == nil && s.Tag != nil && src(s.Tag) == tag {
			out = s
		}
		return out == nil
	})
	return out
}

// libCalls keeps the package-qualified and helper calls that choose a format (drops error
// formatting, buffer plumbing and method calls on local values).
func libCalls(n ast.Node) []string {
	var out []string
	for _, c := range callNames(n) {
		switch {
		case strings.HasPrefix(c, "fmt."), strings.HasPrefix(c, "w."), strings.HasPrefix(c, "buf."), strings.HasPrefix(c, "r."), c == "panic", c == "make", strings.HasPrefix(c, "func"):
		default:
			out = append(out, c)
		}
	}
	return out
}

func caseCalls(sw *ast.SwitchStmt) string {
	var rows []string
	if sw != nil {
		for _, st := range sw.Body.List {
			cc, ok := st.(*ast.CaseClause)
			if !ok || len(cc.List) == 0 {
				continue
			}
			var calls []string
			for _, s := range cc.Body {
				calls = append(calls, libCalls(s)...)
			}
			for _, e := range cc.List {
				rows = append(rows, "("+leanStr(src(e))+", "+leanList(calls)+")")
			}
		}
	}
	return "[" + strings.Join(rows, ", ") + "]"
}

func extractGrpc() {
	f := parse("h2/grpc/grpc.go")
	g := newGen("Grpc")

	hdr := funcDecl(f, "adapter", "Header")
	// grpc-encoding value -> Encoding constant
	var names [][2]string
	if sw := switchOn(hdr, "h.Value"); sw != nil {
		for _, st := range sw.Body.List {
			cc, ok := st.(*ast.CaseClause)
			if !ok || len(cc.List) != 1 || len(cc.Body) != 1 {
				continue
			}
			lit, ok1 := cc.List[0].(*ast.BasicLit)
			as, ok2 := cc.Body[0].(*ast.AssignStmt)
			if !ok1 || !ok2 || len(as.Rhs) != 1 {
				continue
			}
			v, err := strconv.Unquote(lit.Value)
			if err != nil {
				continue
			}
			names = append(names, [2]string{v, src(as.Rhs[0])})
		}
	}
	g.def("encodingNames", "List (String × String)", leanPairs(names))

	// `h.Name == "…"` / `h.Value == "…"` tests of adapter.Header, in source order
	var tests [][2]string
	if hdr != nil {
		ast.Inspect(hdr, func(n ast.Node) bool {
			if b, ok := n.(*ast.BinaryExpr); ok && b.Op == token.EQL {
				if lit, ok := b.Y.(*ast.BasicLit); ok && lit.Kind == token.STRING {
					if v, err := strconv.Unquote(lit.Value); err == nil {
						tests = append(tests, [2]string{src(b.X), v})
					}
				}
			}
			return true
		})
	}
	g.def("headerTests", "List (String × String)", leanPairs(tests))

	data := funcDecl(f, "adapter", "Data")
	// `a.buffer.Len() < N`: the prefix length
	pl := "0"
	if data != nil {
		ast.Inspect(data, func(n ast.Node) bool {
			if b, ok := n.(*ast.BinaryExpr); ok && b.Op == token.LSS && src(b.X) == "a.buffer.Len()" {
				if lit, ok := b.Y.(*ast.BasicLit); ok && lit.Kind == token.INT {
					pl = lit.Value
				}
			}
			return true
		})
	}
	g.def("prefixLen", "Nat", pl)
	g.def("decodeCalls", "List (String × List String)", caseCalls(switchOn(data, "a.encoding")))
	g.def("encodeCalls", "List (String × List String)", caseCalls(switchOn(funcDecl(f, "emitter", "Message"), "e.adapter.encoding")))
	var helpers []string
	for _, h := range []string{"gunzip", "deflate"} {
		if fd := funcDecl(f, "", h); fd != nil {
			helpers = append(helpers, fmt.Sprintf("(%s, %s)", leanStr(h), leanList(libCalls(fd.Body))))
		}
	}
	g.def("helperCalls", "List (String × List String)", "["+strings.Join(helpers, ", ")+"]")
}
