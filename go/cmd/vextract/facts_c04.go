package main

import (
	"go/ast"
)

// C04: the socket options the blind CONNECT branch sets on the two tunnel connections.
// Model/Tunnel.lean says: the final Close of both connections is graceful (nobody called
// SetLinger) and no deadline is (re)armed inside the tunnel, so a copy ends only because an end
// finished, broke, or the serving loop's deadline passed. A call of one of these methods on any
// receiver, anywhere in the blind part of handleConnectRequest (closures included) or in connect,
// changes that; other socket options (keep-alive, no-delay, buffer sizes) do not and are not listed.
// Pinned by Props/C04/Facts.lean (facts_tunnel_sockopts).
func init() { extractors = append(extractors, extractC04) }

var tunnelSockopts = map[string]bool{
	"SetLinger": true, "SetDeadline": true, "SetReadDeadline": true, "SetWriteDeadline": true,
}

func extractC04() {
	f := parse("proxy.go")
	g := newGen("Tunnel")
	var found []string
	scan := func(n ast.Node) {
		if n == nil {
			return
		}
		ast.Inspect(n, func(x ast.Node) bool {
			if c, ok := x.(*ast.CallExpr); ok {
				if sel, ok := c.Fun.(*ast.SelectorExpr); ok && tunnelSockopts[sel.Sel.Name] {
					found = append(found, sel.Sel.Name)
				}
			}
			return true
		})
	}
	nBlind := 0
	if fd := funcDecl(f, "Proxy", "handleConnectRequest"); fd != nil && fd.Body != nil {
		seenMitm := false
		for _, st := range fd.Body.List {
			if is, ok := st.(*ast.IfStmt); ok && oneLine(src(is.Cond)) == "p.mitm != nil" {
				seenMitm = true
				continue
			}
			if seenMitm {
				nBlind++
				scan(st)
			}
		}
	}
	if fd := funcDecl(f, "Proxy", "connect"); fd != nil && fd.Body != nil {
		scan(fd.Body)
	}
	g.def("tunnelSockopts", "List String", leanList(found))
	// the methods the closeWrite helper calls on the connection it is given (whatever its temporaries are called)
	var cwCalls []string
	if fd := funcDecl(f, "Proxy", "handleConnectRequest"); fd != nil && fd.Body != nil {
		ast.Inspect(fd.Body, func(x ast.Node) bool {
			as, ok := x.(*ast.AssignStmt)
			if !ok || len(as.Lhs) != 1 || len(as.Rhs) != 1 {
				return true
			}
			id, ok := as.Lhs[0].(*ast.Ident)
			fl, ok2 := as.Rhs[0].(*ast.FuncLit)
			if !ok || !ok2 || id.Name != "closeWrite" {
				return true
			}
			ast.Inspect(fl.Body, func(y ast.Node) bool {
				if c, ok := y.(*ast.CallExpr); ok {
					if sel, ok := c.Fun.(*ast.SelectorExpr); ok {
						cwCalls = append(cwCalls, sel.Sel.Name)
					}
				}
				return true
			})
			return false
		})
	}
	g.def("closeWriteCalls", "List String", leanList(cwCalls))
	// non-vacuity of the scan: the blind part was found and has statements
	g.def("blindStatementsScanned", "Bool", map[bool]string{true: "true", false: "false"}[nBlind >= 10])
}
