package main

// Facts for C17 (Generated/HarLog.lean): the lock discipline of har.Logger.
//
// The Lean model executes every API call as (thread-local prelude) + AT MOST ONE atomic critical
// section on the shared log; the linearisability theorem (Props/C17/Conc.lean) is stated for
// exactly that shape. What is extracted here is the semantic fact behind it: for every entry
// point of package har that touches the log's shared state (the fields `entries`, `tail` of
// Logger and `next`, `Response` of Entry — directly or through a helper that does not lock),
//
//	minSecs, maxSecs = the least / greatest number of critical sections of `<recv>.mu` touching
//	           that state that ONE execution of the function goes through (over all paths; a
//	           section inside a loop counts twice)
//	outside  = number of such accesses made while the lock is not held
//	regular  = Lock/Unlock are balanced on every path (no double lock, no unlock without lock, no
//	           lock leaked at a return without a deferred unlock, same state at every join)
//
// Found by walking each function body with the lock state (a small abstract interpretation over
// statements: Lock(), Unlock(), defer Unlock(), branches, loops, returns), not by matching
// statement positions: a renamed receiver or local, an extracted helper, a reordered statement
// inside the critical section or an extra log line do not change the table, while a second
// critical section, an access before Lock()/after Unlock() or in a goroutine/closure does.

import (
	"fmt"
	"go/ast"
	"go/token"
	"os"
	"path/filepath"
	"sort"
	"strings"
)

func init() { extractors = append(extractors, extractC17) }

var c17Guarded = map[string]bool{"entries": true, "tail": true, "next": true, "Response": true}

type c17Fn struct {
	name      string
	exported  bool
	locks     int
	direct    int // direct accesses to guarded state
	callees   map[string]bool
	irregular bool
	// second pass (helpers known)
	touches          int // accesses incl. calls of unlocked helpers
	outside          int
	minSecs, maxSecs int
	exits            int
	bodies           []*ast.FuncDecl
	imports          []map[string]bool
}

type c17Walker struct {
	fn       *c17Fn
	imports  map[string]bool
	helper   map[string]bool // nil in the first pass
	count    map[string]bool // handler mode: count calls of these methods per path instead of lock sections
	held     bool
	cnt      int  // critical sections with an access on the current path
	curHas   bool // the open critical section already has one
	deferred bool
	closure  int
}

func (w *c17Walker) access() {
	w.fn.touches++
	switch {
	case w.closure > 0 || !w.held:
		w.fn.outside++
	case !w.curHas:
		w.curHas = true
		w.cnt++
	}
}

func (w *c17Walker) exit() {
	if w.closure > 0 {
		return
	}
	if w.fn.exits == 0 || w.cnt < w.fn.minSecs {
		w.fn.minSecs = w.cnt
	}
	if w.cnt > w.fn.maxSecs {
		w.fn.maxSecs = w.cnt
	}
	w.fn.exits++
}

func (w *c17Walker) isMu(call *ast.CallExpr, method string) bool {
	sel, ok := call.Fun.(*ast.SelectorExpr)
	if !ok || sel.Sel.Name != method {
		return false
	}
	in, ok := sel.X.(*ast.SelectorExpr)
	return ok && in.Sel.Name == "mu"
}

// exprs records the guarded accesses and the calls inside an expression / simple statement.
func (w *c17Walker) exprs(n ast.Node) {
	if n == nil {
		return
	}
	ast.Inspect(n, func(x ast.Node) bool {
		switch e := x.(type) {
		case *ast.FuncLit:
			// a closure may run at any time (goroutine, deferred, stored): nothing inside it is
			// counted as protected by the lock held where it is written
			w.closure++
			w.block(e.Body.List)
			w.closure--
			return false
		case *ast.SelectorExpr:
			if c17Guarded[e.Sel.Name] {
				if id, ok := e.X.(*ast.Ident); ok && w.imports[id.Name] {
					return true // http.Response: a type of another package
				}
				w.fn.direct++
				w.access()
			}
		case *ast.CallExpr:
			name := ""
			switch f := e.Fun.(type) {
			case *ast.Ident:
				name = f.Name
			case *ast.SelectorExpr:
				name = f.Sel.Name
			}
			if w.count != nil {
				if w.count[name] && w.closure == 0 {
					w.cnt++
				}
				return true
			}
			if name != "" {
				w.fn.callees[name] = true
				if w.helper[name] && name != w.fn.name {
					w.access()
				}
			}
		}
		return true
	})
}

type c17State struct {
	held, live bool
	cnt        int
	curHas     bool
}

func (w *c17Walker) join(a, b c17State) c17State {
	switch {
	case !a.live:
		return b
	case !b.live:
		return a
	}
	if a.held != b.held {
		w.fn.irregular = true
		a.held = false
	}
	if b.cnt > a.cnt {
		a.cnt = b.cnt
	}
	a.curHas = a.curHas || b.curHas
	return a
}

func (w *c17Walker) save() c17State  { return c17State{w.held, true, w.cnt, w.curHas} }
func (w *c17Walker) load(s c17State) { w.held, w.cnt, w.curHas = s.held, s.cnt, s.curHas }

// block walks a statement list from the current lock state and reports whether control can
// fall out of its end.
func (w *c17Walker) block(list []ast.Stmt) bool {
	for _, s := range list {
		if !w.stmt(s) {
			return false
		}
	}
	return true
}

func (w *c17Walker) branch(body []ast.Stmt, from c17State) c17State {
	w.load(from)
	live := w.block(body)
	out := w.save()
	out.live = live
	return out
}

func (w *c17Walker) stmt(s ast.Stmt) bool {
	switch st := s.(type) {
	case nil:
		return true
	case *ast.ExprStmt:
		if c, ok := st.X.(*ast.CallExpr); ok {
			switch {
			case w.isMu(c, "Lock"):
				if w.closure == 0 {
					if w.held {
						w.fn.irregular = true
					}
					w.held = true
					w.curHas = false
					w.fn.locks++
				} else {
					w.fn.irregular = true
				}
				return true
			case w.isMu(c, "Unlock"):
				if w.closure == 0 {
					if !w.held {
						w.fn.irregular = true
					}
					w.held = false
				} else {
					w.fn.irregular = true
				}
				return true
			}
			if id, ok := c.Fun.(*ast.Ident); ok && id.Name == "panic" {
				w.exprs(st.X)
				return false
			}
		}
		w.exprs(st.X)
	case *ast.DeferStmt:
		if w.isMu(st.Call, "Unlock") {
			if !w.held || w.closure > 0 {
				w.fn.irregular = true
			}
			w.deferred = true
			return true
		}
		// any other deferred call runs at return time, in whatever lock state holds then
		w.closure++
		w.exprs(st.Call)
		w.closure--
	case *ast.GoStmt:
		w.closure++
		w.exprs(st.Call)
		w.closure--
	case *ast.ReturnStmt:
		for _, r := range st.Results {
			w.exprs(r)
		}
		if w.closure == 0 && w.held && !w.deferred {
			w.fn.irregular = true // returns with the lock held
		}
		w.exit()
		return false
	case *ast.BranchStmt:
		// break / continue / goto: leaves the current list; lock state is checked at the join
		return st.Tok != token.GOTO
	case *ast.BlockStmt:
		return w.block(st.List)
	case *ast.LabeledStmt:
		return w.stmt(st.Stmt)
	case *ast.IfStmt:
		w.stmt(st.Init)
		w.exprs(st.Cond)
		from := w.save()
		a := w.branch(st.Body.List, from)
		b := from
		if st.Else != nil {
			w.load(from)
			live := w.stmt(st.Else)
			b = w.save()
			b.live = live
		}
		j := w.join(a, b)
		w.load(j)
		return j.live
	case *ast.ForStmt:
		w.stmt(st.Init)
		w.exprs(st.Cond)
		w.loop(st.Body.List, st.Post)
		return true
	case *ast.RangeStmt:
		w.exprs(st.X)
		w.loop(st.Body.List, nil)
		return true
	case *ast.SwitchStmt:
		w.stmt(st.Init)
		w.exprs(st.Tag)
		return w.clauses(st.Body.List)
	case *ast.TypeSwitchStmt:
		w.stmt(st.Init)
		w.stmt(st.Assign)
		return w.clauses(st.Body.List)
	case *ast.SelectStmt:
		return w.clauses(st.Body.List)
	default:
		// assignments, declarations, inc/dec, send: no control flow of their own
		w.exprs(s)
	}
	return true
}

// loop: the body may run zero or more times; a critical section opened inside it is gone through
// once per iteration (counted as two).
func (w *c17Walker) loop(body []ast.Stmt, post ast.Stmt) {
	from := w.save()
	a := w.branch(body, from)
	if post != nil {
		w.stmt(post)
	}
	if a.live && a.held != from.held {
		w.fn.irregular = true
	}
	out := from
	if a.cnt > from.cnt {
		out.cnt = from.cnt + 2*(a.cnt-from.cnt)
	}
	out.curHas = from.curHas || a.curHas
	w.load(out)
}

func (w *c17Walker) clauses(list []ast.Stmt) bool {
	from := w.save()
	out := from // no clause taken
	for _, c := range list {
		var body []ast.Stmt
		switch cc := c.(type) {
		case *ast.CaseClause:
			for _, e := range cc.List {
				w.exprs(e)
			}
			body = cc.Body
		case *ast.CommClause:
			w.load(from)
			w.stmt(cc.Comm)
			body = cc.Body
		}
		out = w.join(out, w.branch(body, from))
	}
	w.load(out)
	return out.live
}

func extractC17() {
	dir := filepath.Join(repo, "har")
	ents, err := os.ReadDir(dir)
	if err != nil {
		fmt.Fprintln(os.Stderr, "vextract:", err)
		os.Exit(1)
	}
	byName := map[string]*c17Fn{}
	walk := func(fn *c17Fn, helper map[string]bool) {
		fn.locks, fn.direct, fn.irregular = 0, 0, false
		fn.touches, fn.outside, fn.minSecs, fn.maxSecs, fn.exits = 0, 0, 0, 0, 0
		for i, fd := range fn.bodies {
			w := &c17Walker{fn: fn, imports: fn.imports[i], helper: helper}
			if w.block(fd.Body.List) {
				if w.held && !w.deferred {
					fn.irregular = true // falls off the end with the lock held
				}
				w.exit()
			}
		}
	}
	for _, de := range ents {
		n := de.Name()
		if de.IsDir() || !strings.HasSuffix(n, ".go") || strings.HasSuffix(n, "_test.go") {
			continue
		}
		f := parse(filepath.Join("har", n))
		imports := map[string]bool{}
		for _, im := range f.Imports {
			p := strings.Trim(im.Path.Value, `"`)
			name := p[strings.LastIndex(p, "/")+1:]
			if im.Name != nil {
				name = im.Name.Name
			}
			imports[name] = true
		}
		for _, d := range f.Decls {
			fd, ok := d.(*ast.FuncDecl)
			if !ok || fd.Body == nil {
				continue
			}
			// methods of one name on different types are merged (conservative)
			fn := byName[fd.Name.Name]
			if fn == nil {
				fn = &c17Fn{name: fd.Name.Name, exported: fd.Name.IsExported(), callees: map[string]bool{}}
				byName[fn.name] = fn
			}
			fn.bodies = append(fn.bodies, fd)
			fn.imports = append(fn.imports, imports)
		}
	}
	for _, fn := range byName {
		walk(fn, nil)
	}
	// helpers: functions that touch the guarded state (directly or through another helper) and
	// never lock; a call of a helper is an access at the call site
	helper := map[string]bool{}
	for changed := true; changed; {
		changed = false
		for name, fn := range byName {
			if helper[name] || fn.locks > 0 {
				continue
			}
			touches := fn.direct > 0
			for callee := range fn.callees {
				if helper[callee] && callee != name {
					touches = true
				}
			}
			if touches {
				helper[name] = true
				changed = true
			}
		}
	}
	var rows []string
	names := make([]string, 0, len(byName))
	for n := range byName {
		names = append(names, n)
	}
	sort.Strings(names)
	for _, name := range names {
		fn := byName[name]
		walk(fn, helper)
		if fn.touches == 0 {
			continue
		}
		// entry points: exported functions and functions that take the lock themselves; an
		// unexported function that never locks is a helper and is accounted for at its call sites
		if !fn.exported && fn.locks == 0 {
			continue
		}
		rows = append(rows, fmt.Sprintf("(%s, %d, %d, %d, %v)", leanStr(name), fn.minSecs, fn.maxSecs, fn.outside, !fn.irregular))
	}
	g := newGen("HarLog")
	fields := make([]string, 0, len(c17Guarded))
	for k := range c17Guarded {
		fields = append(fields, k)
	}
	sort.Strings(fields)
	g.def("guardedFields", "List String", leanList(fields))
	g.def("lockTable", "List (String × Nat × Nat × Nat × Bool)", "["+strings.Join(rows, ", ")+"]")
	g.def("handlerTable", "List (String × Nat × Nat × List String)", "["+strings.Join(c17Handlers(), ", ")+"]")
}

// c17Handlers: for every ServeHTTP method of package har, (receiver type, least / greatest number of
// calls of the Logger's log methods — Export, ExportAndReset, Reset — on ONE execution, the log
// methods whose RESULT is what gets encoded to the client). The harness and the model treat a
// handler call as exactly one Logger call whose result is the answer: a handler that reads with one
// call and clears with another (or answers from one call and clears with another) is not atomic.
func c17Handlers() []string {
	logMethods := map[string]bool{"Export": true, "ExportAndReset": true, "Reset": true}
	var rows []string
	dir := filepath.Join(repo, "har")
	ents, _ := os.ReadDir(dir)
	for _, de := range ents {
		n := de.Name()
		if de.IsDir() || !strings.HasSuffix(n, ".go") || strings.HasSuffix(n, "_test.go") {
			continue
		}
		f := parse(filepath.Join("har", n))
		for _, d := range f.Decls {
			fd, ok := d.(*ast.FuncDecl)
			if !ok || fd.Body == nil || fd.Name.Name != "ServeHTTP" || fd.Recv == nil || len(fd.Recv.List) != 1 {
				continue
			}
			recv := src(fd.Recv.List[0].Type)
			recv = strings.TrimPrefix(recv, "*")
			// which log method produced each variable (last assignment wins; source order)
			produced := map[string]string{}
			callee := func(e ast.Expr) string {
				c, ok := e.(*ast.CallExpr)
				if !ok {
					return ""
				}
				if sel, ok := c.Fun.(*ast.SelectorExpr); ok && logMethods[sel.Sel.Name] {
					return sel.Sel.Name
				}
				return ""
			}
			encoded := map[string]bool{}
			ast.Inspect(fd.Body, func(x ast.Node) bool {
				switch st := x.(type) {
				case *ast.AssignStmt:
					if len(st.Lhs) == 1 && len(st.Rhs) == 1 {
						if id, ok := st.Lhs[0].(*ast.Ident); ok {
							if m := callee(st.Rhs[0]); m != "" {
								produced[id.Name] = m
							}
						}
					}
				case *ast.CallExpr:
					if sel, ok := st.Fun.(*ast.SelectorExpr); ok && (sel.Sel.Name == "Encode" || sel.Sel.Name == "Marshal" || sel.Sel.Name == "Write") && len(st.Args) >= 1 {
						arg := st.Args[len(st.Args)-1]
						if id, ok := arg.(*ast.Ident); ok {
							if m, ok := produced[id.Name]; ok {
								encoded[m] = true
							}
						} else if m := callee(arg); m != "" {
							encoded[m] = true
						}
					}
				}
				return true
			})
			// calls per path: the lock walker with "a call of a log method" as the event, each
			// call its own section
			fn := &c17Fn{name: "ServeHTTP", callees: map[string]bool{}}
			w := &c17Walker{fn: fn, imports: map[string]bool{}, count: logMethods}
			if w.block(fd.Body.List) {
				w.exit()
			}
			var enc []string
			for m := range encoded {
				enc = append(enc, m)
			}
			sort.Strings(enc)
			rows = append(rows, fmt.Sprintf("(%s, %d, %d, %s)", leanStr(recv), fn.minSecs, fn.maxSecs, leanList(enc)))
		}
	}
	sort.Strings(rows)
	return rows
}
