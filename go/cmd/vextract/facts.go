package main

// extractAll registers every generated module. One function per source area.
// Facts are kept to tables and structural facts that a model is parameterised by (a change of
// the table changes the model the theorems are about); source text is not pinned.
func extractAll() {
}
