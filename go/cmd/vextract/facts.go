package main

// Each facts_<area>.go file appends its extractor in init(). Facts are kept to tables and
// structural facts that a model is parameterised by (a change of the table changes the model
// the theorems are about); source text is not pinned.
var extractors []func()

func extractAll() {
	for _, f := range extractors {
		f()
	}
}
