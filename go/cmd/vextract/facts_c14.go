package main

// C14 facts: the hop-by-hop header list literal (header/hopbyhop_modifier.go) and the order in
// which httpspec.NewStack adds request / response modifiers to the outer group. The Lean model
// Model/HttpSpec.lean is parameterised by both (Generated/HttpSpec.lean).

import (
	"go/ast"
	"go/token"
	"strconv"
)

func init() { extractors = append(extractors, extractC14) }

func extractC14() {
	g := newGen("HttpSpec")

	// --- var hopByHopHeaders = []string{...}
	var hbh []string
	found := false
	f := parse("header/hopbyhop_modifier.go")
	for _, d := range f.Decls {
		gd, ok := d.(*ast.GenDecl)
		if !ok || gd.Tok != token.VAR {
			continue
		}
		for _, s := range gd.Specs {
			vs := s.(*ast.ValueSpec)
			for i, n := range vs.Names {
				if n.Name != "hopByHopHeaders" || i >= len(vs.Values) {
					continue
				}
				if cl, ok := vs.Values[i].(*ast.CompositeLit); ok {
					found = true
					for _, e := range cl.Elts {
						if bl, ok := e.(*ast.BasicLit); ok && bl.Kind == token.STRING {
							if v, err := strconv.Unquote(bl.Value); err == nil {
								hbh = append(hbh, v)
								continue
							}
						}
						hbh = append(hbh, "?non-literal:"+src(e))
					}
				}
			}
		}
	}
	if !found {
		hbh = []string{"?hopByHopHeaders-literal-not-found"}
	}
	g.def("hopByHop", "List String", leanList(hbh))

	// --- httpspec.NewStack: what is added to `outer`, in order, per side
	sf := parse("httpspec/httpspec.go")
	ns := funcDecl(sf, "", "NewStack")
	binding := map[string]string{} // local name -> constructor call it was assigned from
	var reqOrder, resOrder []string
	aggregate := false
	resolve := func(e ast.Expr) string {
		switch x := e.(type) {
		case *ast.Ident:
			if b, ok := binding[x.Name]; ok {
				return b
			}
			return "?" + x.Name
		case *ast.CallExpr:
			return src(x.Fun)
		}
		return "?" + src(e)
	}
	// the group NewStack hands back first is "the stack": its name is taken from the last return
	// statement (or, for a bare return, from the first named result), not assumed to be `outer`
	outerName := "outer"
	if ns != nil {
		if ns.Type.Results != nil && len(ns.Type.Results.List) > 0 && len(ns.Type.Results.List[0].Names) > 0 {
			outerName = ns.Type.Results.List[0].Names[0].Name
		}
		ast.Inspect(ns.Body, func(x ast.Node) bool {
			if rs, ok := x.(*ast.ReturnStmt); ok && len(rs.Results) > 0 {
				if id, ok := rs.Results[0].(*ast.Ident); ok {
					outerName = id.Name
				}
			}
			return true
		})
	}
	if ns != nil {
		ast.Inspect(ns.Body, func(x ast.Node) bool {
			switch s := x.(type) {
			case *ast.AssignStmt:
				if len(s.Lhs) == 1 && len(s.Rhs) == 1 {
					if id, ok := s.Lhs[0].(*ast.Ident); ok {
						if c, ok := s.Rhs[0].(*ast.CallExpr); ok {
							binding[id.Name] = src(c.Fun)
						}
					}
				}
			case *ast.CallExpr:
				sel, ok := s.Fun.(*ast.SelectorExpr)
				if !ok || len(s.Args) < 1 {
					return true
				}
				recv, ok := sel.X.(*ast.Ident)
				if !ok {
					return true
				}
				if recv.Name != outerName {
					return true
				}
				// outer.SetAggregateErrors(<literal>): the last call wins, as at run time; anything but a
				// literal true/false is reported as false plus a marker in requestOrder (the model then
				// runs Err.unknown and every stack theorem stops checking).
				if sel.Sel.Name == "SetAggregateErrors" {
					if id, ok := s.Args[0].(*ast.Ident); ok && (id.Name == "true" || id.Name == "false") {
						aggregate = id.Name == "true"
					} else {
						aggregate = false
						reqOrder = append(reqOrder, "?SetAggregateErrors-non-literal:"+src(s.Args[0]))
					}
				}
				switch sel.Sel.Name {
				case "AddRequestModifier":
					reqOrder = append(reqOrder, resolve(s.Args[0]))
				case "AddResponseModifier":
					resOrder = append(resOrder, resolve(s.Args[0]))
				}
			}
			return true
		})
	} else {
		reqOrder = []string{"?NewStack-not-found"}
	}
	g.def("requestOrder", "List String", leanList(reqOrder))
	g.def("responseOrder", "List String", leanList(resOrder))
	g.def("aggregateErrors", "Bool", strconv.FormatBool(aggregate))
}
