package main

import (
	"fmt"
	"go/ast"
	"go/token"
	"strconv"
	"strings"
)

// C19: the wire constants of marbl (frame / message type codes), the fixed-size reads of
// Reader.ReadFrame in source order, and the shape of the expression that sizes the header
// name/value buffer (both operands widened to int before the addition, or not).
func init() {
	extractors = append(extractors, func() {
		g := newGen("Marbl")
		mf := parse("marbl/marbl.go")
		consts := map[string]string{}
		for _, d := range mf.Decls {
			gd, ok := d.(*ast.GenDecl)
			if !ok || gd.Tok != token.CONST {
				continue
			}
			for _, sp := range gd.Specs {
				vs := sp.(*ast.ValueSpec)
				for i, n := range vs.Names {
					if i < len(vs.Values) {
						if bl, ok := vs.Values[i].(*ast.BasicLit); ok {
							if v, err := strconv.ParseInt(bl.Value, 0, 64); err == nil {
								consts[n.Name] = strconv.FormatInt(v, 10)
							}
						}
					}
				}
			}
		}
		for _, n := range []string{"HeaderFrame", "DataFrame", "Request", "Response"} {
			v, ok := consts[n]
			if !ok {
				v = "0"
			}
			g.def(strings.ToLower(n[:1])+n[1:], "Nat", v)
		}
		rf := parse("marbl/reader.go")
		fd := funcDecl(rf, "Reader", "ReadFrame")
		var sizes []string
		widened := "false"
		seenSum := false
		if fd != nil {
			ast.Inspect(fd.Body, func(x ast.Node) bool {
				c, ok := x.(*ast.CallExpr)
				if !ok || src(c.Fun) != "make" || len(c.Args) != 2 {
					return true
				}
				switch a := c.Args[1].(type) {
				case *ast.BasicLit:
					sizes = append(sizes, a.Value)
				case *ast.BinaryExpr:
					if a.Op == token.ADD && !seenSum {
						seenSum = true
						isInt := func(e ast.Expr) bool {
							ce, ok := e.(*ast.CallExpr)
							return ok && src(ce.Fun) == "int" && len(ce.Args) == 1
						}
						if isInt(a.X) && isInt(a.Y) {
							widened = "true"
						}
					}
				}
				return true
			})
		}
		g.def("fixedReads", "List Nat", "["+strings.Join(sizes, ", ")+"]")
		g.def("headerSumWidened", "Bool", widened)
		_ = fmt.Sprint
	})
}
