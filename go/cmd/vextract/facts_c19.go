package main

import (
	"fmt"
	"go/ast"
	"go/token"
	"strconv"
	"strings"
)

// C19: the wire constants of marbl (frame / message type codes), the fixed-size reads of
// Reader.ReadFrame in source order, and the shape of the expression that sizes the header
// name/value buffer (both operands widened to int before the addition, or not).
func init() {
	extractors = append(extractors, func() {
		g := newGen("Marbl")
		mf := parse("marbl/marbl.go")
		consts := map[string]string{}
		for _, d := range mf.Decls {
			gd, ok := d.(*ast.GenDecl)
			if !ok || gd.Tok != token.CONST {
				continue
			}
			for _, sp := range gd.Specs {
				vs := sp.(*ast.ValueSpec)
				for i, n := range vs.Names {
					if i < len(vs.Values) {
						if bl, ok := vs.Values[i].(*ast.BasicLit); ok {
							if v, err := strconv.ParseInt(bl.Value, 0, 64); err == nil {
								consts[n.Name] = strconv.FormatInt(v, 10)
							}
						}
					}
				}
			}
		}
		for _, n := range []string{"HeaderFrame", "DataFrame", "Request", "Response"} {
			v, ok := consts[n]
			if !ok {
				v = "0"
			}
			g.def(strings.ToLower(n[:1])+n[1:], "Nat", v)
		}
		rf := parse("marbl/reader.go")
		fd := funcDecl(rf, "Reader", "ReadFrame")
		var sizes []string
		widened := "false"
		seenSum := false
		if fd != nil {
			ast.Inspect(fd.Body, func(x ast.Node) bool {
				c, ok := x.(*ast.CallExpr)
				if !ok || src(c.Fun) != "make" || len(c.Args) != 2 {
					return true
				}
				switch a := c.Args[1].(type) {
				case *ast.BasicLit:
					sizes = append(sizes, a.Value)
				case *ast.BinaryExpr:
					if a.Op == token.ADD && !seenSum {
						seenSum = true
						isInt := func(e ast.Expr) bool {
							ce, ok := e.(*ast.CallExpr)
							return ok && src(ce.Fun) == "int" && len(ce.Args) == 1
						}
						if isInt(a.X) && isInt(a.Y) {
							widened = "true"
						}
					}
				}
				return true
			})
		}
		g.def("fixedReads", "List Nat", "["+strings.Join(sizes, ", ")+"]")
		g.def("headerSumWidened", "Bool", widened)
		_ = fmt.Sprint
		streamFacts(g, mf)
	})
}

// streamFacts: how frames travel from the logging goroutines to the stream's writer. Nothing here
// depends on a function's name: the channel is "the struct field of type chan []byte", the writer
// "the field of type io.Writer", a sender "a function with a send on that channel" (a helper that
// only forwards its parameter to the channel counts at its call sites).
//
//	framecSendsWhole     every sender makes exactly ONE send per call, outside any loop / closure, of a
//	                     variable that was obtained from one constructor call in that function and is
//	                     otherwise only extended (`v = append(v, …)` or any `v = f(v, …)`), and does not touch it after the send
//	framecSendsBlocking  every send on the channel is a plain send statement, none is a case of a select (a
//	                     select with default or a timeout arm could give the frame up)
//	framecSenders        number of sender functions (> 0)
//	framecReceivers      receive expressions on the channel in the file
//	writerWritesReceived the receive is `case v := <-ch:` whose body passes v exactly once to <writer>.Write
//	                     and mentions v nowhere else (nothing recycles or edits the slice after Write)
//	streamWriteCalls     calls of <writer>.Write in the file
//	writerGoroutines     `go` statements that start the receiving function
//	framecUnbuffered     the channel is made without a capacity
func streamFacts(g *gen, mf *ast.File) {
	chField, wField := "", ""
	nCh := 0
	ast.Inspect(mf, func(n ast.Node) bool {
		st, ok := n.(*ast.StructType)
		if !ok {
			return true
		}
		for _, f := range st.Fields.List {
			switch src(f.Type) {
			case "chan []byte":
				for _, nm := range f.Names {
					chField = nm.Name
					nCh++
				}
			case "io.Writer":
				for _, nm := range f.Names {
					wField = nm.Name
				}
			}
		}
		return true
	})
	isSel := func(e ast.Expr, field string) bool {
		sel, ok := e.(*ast.SelectorExpr)
		return ok && field != "" && sel.Sel.Name == field
	}
	type sendOp struct {
		val    ast.Expr
		pos    token.Pos
		nested bool // inside a loop, a closure, a go or defer statement
	}
	var funcs []*ast.FuncDecl
	for _, d := range mf.Decls {
		if fd, ok := d.(*ast.FuncDecl); ok && fd.Body != nil {
			funcs = append(funcs, fd)
		}
	}
	// direct sends per function
	direct := map[*ast.FuncDecl][]sendOp{}
	var walk func(fd *ast.FuncDecl, n ast.Node, nested bool, visit func(n ast.Node, nested bool))
	walk = func(fd *ast.FuncDecl, n ast.Node, nested bool, visit func(n ast.Node, nested bool)) {
		ast.Inspect(n, func(x ast.Node) bool {
			if x == nil || x == n {
				return true
			}
			switch y := x.(type) {
			case *ast.ForStmt:
				visit(y, nested)
				walk(fd, y.Body, true, visit)
				return false
			case *ast.RangeStmt:
				visit(y, nested)
				walk(fd, y.Body, true, visit)
				return false
			case *ast.FuncLit:
				walk(fd, y.Body, true, visit)
				return false
			case *ast.GoStmt:
				walk(fd, y.Call, true, visit)
				return false
			case *ast.DeferStmt:
				walk(fd, y.Call, true, visit)
				return false
			}
			visit(x, nested)
			return true
		})
	}
	blocking := true // no send on the channel is a case of a select (which could give up: default, timeout)
	for _, fd := range funcs {
		walk(fd, fd.Body, false, func(n ast.Node, nested bool) {
			if ss, ok := n.(*ast.SendStmt); ok && isSel(ss.Chan, chField) {
				direct[fd] = append(direct[fd], sendOp{ss.Value, ss.Pos(), nested})
			}
		})
		ast.Inspect(fd.Body, func(n ast.Node) bool {
			if cc, ok := n.(*ast.CommClause); ok {
				if ss, ok := cc.Comm.(*ast.SendStmt); ok && isSel(ss.Chan, chField) {
					blocking = false
				}
			}
			return true
		})
	}
	// forwarders: one un-nested send of a parameter
	params := func(fd *ast.FuncDecl) []string {
		var out []string
		for _, f := range fd.Type.Params.List {
			for _, nm := range f.Names {
				out = append(out, nm.Name)
			}
		}
		return out
	}
	forwarder := map[string]int{} // function name -> index of the forwarded parameter
	for fd, ops := range direct {
		if len(ops) != 1 || ops[0].nested {
			continue
		}
		if id, ok := ops[0].val.(*ast.Ident); ok {
			for k, p := range params(fd) {
				if p == id.Name {
					forwarder[fd.Name.Name] = k
				}
			}
		}
	}
	senders, whole := 0, true
	for _, fd := range funcs {
		if _, isFwd := forwarder[fd.Name.Name]; isFwd {
			continue
		}
		ops := append([]sendOp(nil), direct[fd]...)
		walk(fd, fd.Body, false, func(n ast.Node, nested bool) {
			c, ok := n.(*ast.CallExpr)
			if !ok {
				return
			}
			name := ""
			switch f := c.Fun.(type) {
			case *ast.Ident:
				name = f.Name
			case *ast.SelectorExpr:
				name = f.Sel.Name
			}
			if k, ok := forwarder[name]; ok && k < len(c.Args) {
				ops = append(ops, sendOp{c.Args[k], c.Pos(), nested})
			}
		})
		if len(ops) == 0 {
			continue
		}
		senders++
		ok := len(ops) == 1 && !ops[0].nested
		var v string
		if ok {
			id, isID := ops[0].val.(*ast.Ident)
			ok = isID
			if isID {
				v = id.Name
			}
		}
		if ok {
			defs, bad, usedAfter := 0, false, false
			ast.Inspect(fd.Body, func(n ast.Node) bool {
				switch y := n.(type) {
				case *ast.AssignStmt:
					for k, l := range y.Lhs {
						if id, isID := l.(*ast.Ident); isID && id.Name == v && k < len(y.Rhs) {
							call, isCall := y.Rhs[k].(*ast.CallExpr)
							switch {
							case y.Tok == token.DEFINE && isCall && src(call.Fun) != "append":
								defs++ // v := constructor(…)
							case y.Tok == token.ASSIGN && isCall && len(call.Args) > 0 && src(call.Args[0]) == v: // v = append(v, …), v = binary.BigEndian.AppendUint32(v, …)
							default:
								bad = true
							}
						}
					}
				case *ast.Ident:
					if y.Name == v && y.Pos() > ops[0].pos && y != ops[0].val {
						usedAfter = true
					}
				}
				return true
			})
			ok = defs == 1 && !bad && !usedAfter
		}
		if !ok {
			whole = false
		}
	}
	if senders == 0 {
		whole = false
	}
	// the receiving side
	receivers, writeCalls, goStarts := 0, 0, 0
	writesReceived := false
	recvFunc := ""
	for _, fd := range funcs {
		ast.Inspect(fd.Body, func(n ast.Node) bool {
			switch y := n.(type) {
			case *ast.UnaryExpr:
				if y.Op == token.ARROW && isSel(y.X, chField) {
					receivers++
					recvFunc = fd.Name.Name
				}
			case *ast.CallExpr:
				if sel, ok := y.Fun.(*ast.SelectorExpr); ok && sel.Sel.Name == "Write" && isSel(sel.X, wField) {
					writeCalls++
				}
			case *ast.CommClause:
				as, ok := y.Comm.(*ast.AssignStmt)
				if !ok || len(as.Lhs) != 1 || len(as.Rhs) != 1 {
					return true
				}
				ue, ok := as.Rhs[0].(*ast.UnaryExpr)
				id, ok2 := as.Lhs[0].(*ast.Ident)
				if !ok || !ok2 || ue.Op != token.ARROW || !isSel(ue.X, chField) {
					return true
				}
				asArg, elsewhere := 0, 0
				for _, st := range y.Body {
					ast.Inspect(st, func(m ast.Node) bool {
						if c, ok := m.(*ast.CallExpr); ok {
							if sel, ok := c.Fun.(*ast.SelectorExpr); ok && sel.Sel.Name == "Write" && isSel(sel.X, wField) &&
								len(c.Args) == 1 && src(c.Args[0]) == id.Name {
								asArg++
								ast.Inspect(c.Fun, func(k ast.Node) bool {
									if i2, ok := k.(*ast.Ident); ok && i2.Name == id.Name {
										elsewhere++
									}
									return true
								})
								return false
							}
						}
						if i2, ok := m.(*ast.Ident); ok && i2.Name == id.Name {
							elsewhere++
						}
						return true
					})
				}
				writesReceived = asArg == 1 && elsewhere == 0
			}
			return true
		})
	}
	unbuffered := false
	for _, fd := range funcs {
		ast.Inspect(fd.Body, func(n ast.Node) bool {
			switch y := n.(type) {
			case *ast.GoStmt:
				name := ""
				switch f := y.Call.Fun.(type) {
				case *ast.Ident:
					name = f.Name
				case *ast.SelectorExpr:
					name = f.Sel.Name
				}
				if recvFunc != "" && name == recvFunc {
					goStarts++
				}
			case *ast.KeyValueExpr:
				if src(y.Key) == chField {
					if c, ok := y.Value.(*ast.CallExpr); ok && src(c.Fun) == "make" {
						unbuffered = len(c.Args) == 1
					}
				}
			case *ast.AssignStmt:
				for k, l := range y.Lhs {
					if isSel(l, chField) && k < len(y.Rhs) {
						if c, ok := y.Rhs[k].(*ast.CallExpr); ok && src(c.Fun) == "make" {
							unbuffered = len(c.Args) == 1
						}
					}
				}
			}
			return true
		})
	}
	if nCh != 1 {
		whole = false
	}
	g.def("framecSendsWhole", "Bool", strconv.FormatBool(whole))
	g.def("framecSendsBlocking", "Bool", strconv.FormatBool(blocking))
	g.def("framecSenders", "Nat", strconv.Itoa(senders))
	g.def("framecReceivers", "Nat", strconv.Itoa(receivers))
	g.def("writerWritesReceived", "Bool", strconv.FormatBool(writesReceived))
	g.def("streamWriteCalls", "Nat", strconv.Itoa(writeCalls))
	g.def("writerGoroutines", "Nat", strconv.Itoa(goStarts))
	g.def("framecUnbuffered", "Bool", strconv.FormatBool(unbuffered))
}
