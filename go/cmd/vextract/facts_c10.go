package main

import (
	"fmt"
	"go/ast"
	"go/token"
	"sort"
	"strings"
)

// C10: facts about h2/h2.go `Config.Proxy` / `forwardPreface` and about the lock and channel
// discipline of h2/relay.go that the session model (Model/H2Session.lean, Model/H2Proxy.lean)
// transcribes. Pinned by the `facts_*` theorems in Props/C10/Facts.lean.
//
//   - proxySkel / prefaceSkel: control skeletons (skeleton.go) restricted to the modelled actions,
//     returns normalised to "return err" / "return nil" (the message of an error is not a fact).
//   - relayGoroutines: for every `go func(){…}()` of Proxy that runs a relay: which channel it hands
//     to relayFrames, and whether stop() and wg.Done() are called on its way out (also inside a
//     deferred closure: `defer func(){ stop(); wg.Done() }()` is the same fact).
//   - watcherArms: the select arms of the goroutine that turns `closing` into stop().
//   - lockFuncs: a lock-balance analysis of every function (and function literal) of relay.go that
//     takes a mutex: on every path from a Lock to a return (or to the end of the function) the mutex
//     is unlocked or its Unlock is deferred; branches agree; loop bodies are balanced.
//   - channel capacities and the deferred readerDone send in relayFrames.
func init() { extractors = append(extractors, extractC10) }

func normReturns(xs []string) []string {
	out := make([]string, len(xs))
	for i, x := range xs {
		switch {
		case x == "return" || x == "return nil":
			out[i] = "return nil"
		case strings.HasPrefix(x, "return "):
			out[i] = "return err"
		default:
			out[i] = x
		}
	}
	return out
}

// ---- lock balance -------------------------------------------------------------------------

type lockState map[string]bool

func (h lockState) clone() lockState {
	c := lockState{}
	for k := range h {
		c[k] = true
	}
	return c
}

func (h lockState) String() string {
	var ks []string
	for k := range h {
		ks = append(ks, k)
	}
	sort.Strings(ks)
	return strings.Join(ks, "+")
}

type lockAn struct {
	taken    map[string]bool
	problems []string
	lits     []*ast.FuncLit // function literals met on the way: analysed as functions of their own
	kinds    []string       // how each was started: go | defer | lit
	kind     string
}

func lockCall(e ast.Expr) (mu, op string) {
	c, ok := e.(*ast.CallExpr)
	if !ok {
		return "", ""
	}
	se, ok := c.Fun.(*ast.SelectorExpr)
	if !ok {
		return "", ""
	}
	switch se.Sel.Name {
	case "Lock", "RLock":
		return oneLine(src(se.X)), "lock"
	case "Unlock", "RUnlock":
		return oneLine(src(se.X)), "unlock"
	}
	return "", ""
}

func (a *lockAn) problem(pos token.Pos, f string, args ...interface{}) {
	a.problems = append(a.problems, fmt.Sprintf(f, args...))
	_ = pos
}

func (a *lockAn) collectLits(n ast.Node) {
	if n == nil {
		return
	}
	ast.Inspect(n, func(x ast.Node) bool {
		if fl, ok := x.(*ast.FuncLit); ok {
			k := a.kind
			if k == "" {
				k = "lit"
			}
			a.lits = append(a.lits, fl)
			a.kinds = append(a.kinds, k)
			return false
		}
		return true
	})
}

// merge joins the exits of alternative branches. Each alternative: (held, terminated).
func (a *lockAn) merge(pos token.Pos, alts []lockState, term []bool, what string) (lockState, bool) {
	var res lockState
	all := true
	for i, h := range alts {
		if term[i] {
			continue
		}
		all = false
		if res == nil {
			res = h
		} else if res.String() != h.String() {
			a.problem(pos, "%s: branches leave with different locks held (%q vs %q)", what, res.String(), h.String())
		}
	}
	if res == nil {
		res = lockState{}
	}
	return res, all
}

// block analyses a statement list; loop = the locks held at the entry of the innermost loop (nil outside).
func (a *lockAn) block(list []ast.Stmt, held lockState, loop lockState) (lockState, bool) {
	for _, st := range list {
		var term bool
		held, term = a.stmt(st, held, loop)
		if term {
			return held, true
		}
	}
	return held, false
}

func (a *lockAn) stmt(st ast.Stmt, held lockState, loop lockState) (lockState, bool) {
	switch n := st.(type) {
	case nil:
		return held, false
	case *ast.BlockStmt:
		return a.block(n.List, held, loop)
	case *ast.ExprStmt:
		if mu, op := lockCall(n.X); op == "lock" {
			a.taken[mu] = true
			if held[mu] {
				a.problem(n.Pos(), "%s locked twice", mu)
			}
			held = held.clone()
			held[mu] = true
			return held, false
		} else if op == "unlock" {
			if !held[mu] {
				a.problem(n.Pos(), "%s unlocked while not held", mu)
			}
			held = held.clone()
			delete(held, mu)
			return held, false
		}
		a.collectLits(n.X)
		return held, false
	case *ast.DeferStmt:
		if mu, op := lockCall(n.Call); op == "unlock" {
			if !held[mu] {
				a.problem(n.Pos(), "deferred unlock of %s while not held", mu)
			}
			held = held.clone()
			delete(held, mu) // released at every return from here on
			return held, false
		}
		a.kind = "defer"
		a.collectLits(n.Call)
		a.kind = ""
		return held, false
	case *ast.GoStmt:
		a.kind = "go"
		a.collectLits(n.Call)
		a.kind = ""
		return held, false
	case *ast.ReturnStmt:
		for _, r := range n.Results {
			a.collectLits(r)
		}
		if len(held) > 0 {
			a.problem(n.Pos(), "return with %s held", held.String())
		}
		return held, true
	case *ast.BranchStmt:
		if n.Tok == token.BREAK || n.Tok == token.CONTINUE {
			if loop != nil && loop.String() != held.String() {
				a.problem(n.Pos(), "%s with %q held, loop entered with %q", n.Tok, held.String(), loop.String())
			}
			return held, true
		}
		return held, false
	case *ast.AssignStmt:
		for _, r := range n.Rhs {
			a.collectLits(r)
		}
		return held, false
	case *ast.DeclStmt:
		a.collectLits(n)
		return held, false
	case *ast.SendStmt:
		a.collectLits(n.Value)
		return held, false
	case *ast.LabeledStmt:
		return a.stmt(n.Stmt, held, loop)
	case *ast.IfStmt:
		if n.Init != nil {
			held, _ = a.stmt(n.Init, held, loop)
		}
		a.collectLits(n.Cond)
		h1, t1 := a.block(n.Body.List, held.clone(), loop)
		h2, t2 := held, false
		if n.Else != nil {
			h2, t2 = a.stmt(n.Else, held.clone(), loop)
		}
		return a.merge(n.Pos(), []lockState{h1, h2}, []bool{t1, t2}, "if")
	case *ast.ForStmt:
		if n.Init != nil {
			held, _ = a.stmt(n.Init, held, loop)
		}
		h1, t1 := a.block(n.Body.List, held.clone(), held)
		if !t1 && h1.String() != held.String() {
			a.problem(n.Pos(), "loop body enters with %q and leaves with %q held", held.String(), h1.String())
		}
		return held, false
	case *ast.RangeStmt:
		a.collectLits(n.X)
		h1, t1 := a.block(n.Body.List, held.clone(), held)
		if !t1 && h1.String() != held.String() {
			a.problem(n.Pos(), "loop body enters with %q and leaves with %q held", held.String(), h1.String())
		}
		return held, false
	case *ast.SwitchStmt, *ast.TypeSwitchStmt, *ast.SelectStmt:
		var body *ast.BlockStmt
		hasDefault := false
		switch y := n.(type) {
		case *ast.SwitchStmt:
			if y.Init != nil {
				held, _ = a.stmt(y.Init, held, loop)
			}
			body = y.Body
		case *ast.TypeSwitchStmt:
			body = y.Body
		case *ast.SelectStmt:
			body = y.Body
			hasDefault = true // a select always runs one of its clauses
		}
		var alts []lockState
		var term []bool
		for _, c := range body.List {
			var cb []ast.Stmt
			switch cc := c.(type) {
			case *ast.CaseClause:
				cb = cc.Body
				if cc.List == nil {
					hasDefault = true
				}
			case *ast.CommClause:
				cb = cc.Body
			}
			// `break` inside a switch/select leaves the switch, not the loop
			h, t := a.block(cb, held.clone(), nil)
			alts, term = append(alts, h), append(term, t)
		}
		if !hasDefault {
			alts, term = append(alts, held), append(term, false)
		}
		return a.merge(st.Pos(), alts, term, "switch")
	}
	return held, false
}

type lockFunc struct {
	name     string
	taken    []string
	problems []string
}

func analyseLocks(name string, body *ast.BlockStmt, out *[]lockFunc) {
	if body == nil {
		return
	}
	a := &lockAn{taken: map[string]bool{}}
	held, term := a.block(body.List, lockState{}, nil)
	if !term && len(held) > 0 {
		a.problem(body.End(), "end of function reached with %s held", held.String())
	}
	if len(a.taken) > 0 {
		var ts []string
		for k := range a.taken {
			ts = append(ts, k)
		}
		sort.Strings(ts)
		*out = append(*out, lockFunc{name, ts, a.problems})
	}
	n := map[string]int{}
	for i, fl := range a.lits {
		k := a.kinds[i]
		n[k]++
		analyseLocks(fmt.Sprintf("%s.%s%d", name, k, n[k]), fl.Body, out)
	}
}

// ---- the extractor ----------------------------------------------------------------------------

func extractC10() {
	g := newGen("H2Session")
	h2f := parse("h2/h2.go")
	relay := parse("h2/relay.go")

	// outputChannelSize (the model's `cap`)
	capv := "0"
	for _, d := range relay.Decls {
		if gd, ok := d.(*ast.GenDecl); ok && gd.Tok == token.CONST {
			for _, sp := range gd.Specs {
				vs := sp.(*ast.ValueSpec)
				for i, n := range vs.Names {
					if n.Name == "outputChannelSize" && i < len(vs.Values) {
						if bl, ok := vs.Values[i].(*ast.BasicLit); ok && bl.Kind == token.INT {
							capv = bl.Value
						}
					}
				}
			}
		}
	}
	g.def("outputChannelSize", "Nat", capv)

	// Proxy: dial, deferred close, preface, join
	var proxySkel []string
	var relays []string
	var watcher []string
	deferTop := false
	if fd := funcDecl(h2f, "Config", "Proxy"); fd != nil {
		sk := newSkel([]string{"tls.Dial", "sc.Close", "forwardPreface", "wg.Wait"}, nil)
		proxySkel = normReturns(sk.block(fd.Body))
		for _, st := range fd.Body.List {
			if ds, ok := st.(*ast.DeferStmt); ok && oneLine(src(ds.Call.Fun)) == "sc.Close" {
				deferTop = true // a statement of the function body itself, not nested in a branch
			}
		}
		// the channel closed by stop(), and the name of the `closing` parameter
		stopCloses, closingParam := "", ""
		if ps := fd.Type.Params.List; len(ps) > 0 && len(ps[0].Names) > 0 {
			closingParam = ps[0].Names[0].Name
		}
		ast.Inspect(fd.Body, func(x ast.Node) bool {
			as, ok := x.(*ast.AssignStmt)
			if !ok || len(as.Lhs) != 1 || oneLine(src(as.Lhs[0])) != "stop" {
				return true
			}
			ast.Inspect(as.Rhs[0], func(y ast.Node) bool {
				if c, ok := y.(*ast.CallExpr); ok && oneLine(src(c.Fun)) == "close" {
					stopCloses = argList(c)
				}
				return true
			})
			return false
		})
		chanName := func(c string) string {
			switch {
			case c != "" && c == stopCloses:
				return "DONE"
			case c != "" && c == closingParam:
				return "CLOSING"
			}
			return c
		}
		ast.Inspect(fd.Body, func(x ast.Node) bool {
			gs, ok := x.(*ast.GoStmt)
			if !ok {
				return true
			}
			fl, ok := gs.Call.Fun.(*ast.FuncLit)
			if !ok {
				return true
			}
			arg, stops, dones := "", false, false
			isRelay := false
			ast.Inspect(fl.Body, func(y ast.Node) bool {
				if c, ok := y.(*ast.CallExpr); ok {
					f := oneLine(src(c.Fun))
					switch {
					case strings.HasSuffix(f, ".relayFrames"):
						isRelay = true
						arg = argList(c)
					case f == "stop":
						stops = true
					case f == "wg.Done":
						dones = true
					}
				}
				return true
			})
			if isRelay {
				relays = append(relays, fmt.Sprintf("relayFrames(%s) stop=%v wg.Done=%v", chanName(arg), stops, dones))
				return false
			}
			// the watcher: a select whose arms receive from channels
			ast.Inspect(fl.Body, func(y ast.Node) bool {
				if cc, ok := y.(*ast.CommClause); ok && cc.Comm != nil {
					arm := oneLine(src(cc.Comm))
					if i := strings.Index(arm, "<-"); i >= 0 {
						arm = "<-" + chanName(strings.TrimSpace(arm[i+2:]))
					}
					for _, c := range callNames(&ast.BlockStmt{List: cc.Body}) {
						arm += " -> " + c
					}
					watcher = append(watcher, arm)
				}
				return true
			})
			return false
		})
	}
	g.def("proxySkel", "List String", leanLines(proxySkel))
	g.def("closeDeferredAtTopLevel", "Bool", boolLean(deferTop))
	g.def("relayGoroutines", "List String", leanList(relays))
	g.def("watcherArms", "List String", leanList(watcher))

	var prefaceSkel []string
	if fd := funcDecl(h2f, "", "forwardPreface"); fd != nil {
		sk := newSkel([]string{"io.ReadFull", "bytes.Equal", "server.Write"}, nil)
		prefaceSkel = normReturns(sk.block(fd.Body))
	}
	g.def("prefaceSkel", "List String", leanLines(prefaceSkel))

	// relay.go: lock balance of every function that takes a mutex
	var lfs []lockFunc
	for _, d := range relay.Decls {
		if fd, ok := d.(*ast.FuncDecl); ok {
			analyseLocks(fd.Name.Name, fd.Body, &lfs)
		}
	}
	var rows []string
	for _, lf := range lfs {
		rows = append(rows, fmt.Sprintf("  (%s, %s, %s)", leanStr(lf.name), leanList(lf.taken), leanList(lf.problems)))
	}
	val := "[]"
	if len(rows) > 0 {
		val = "[\n" + strings.Join(rows, ",\n") + "\n]"
	}
	g.def("lockFuncs", "List (String × List String × List String)", val)

	// relayFrames: channel capacities, the deferred readerDone send
	caps := map[string]string{}
	deferredSend := ""
	if fd := funcDecl(relay, "relay", "relayFrames"); fd != nil {
		ast.Inspect(fd.Body, func(x ast.Node) bool {
			switch n := x.(type) {
			case *ast.AssignStmt:
				if len(n.Lhs) == 1 && len(n.Rhs) == 1 {
					if c, ok := n.Rhs[0].(*ast.CallExpr); ok && oneLine(src(c.Fun)) == "make" && len(c.Args) >= 1 {
						if _, isChan := c.Args[0].(*ast.ChanType); isChan {
							cp := "0"
							if len(c.Args) >= 2 {
								cp = oneLine(src(c.Args[1]))
							}
							caps[oneLine(src(n.Lhs[0]))] = cp
						}
					}
				}
			case *ast.DeferStmt:
				if fl, ok := n.Call.Fun.(*ast.FuncLit); ok {
					ast.Inspect(fl.Body, func(y ast.Node) bool {
						if ss, ok := y.(*ast.SendStmt); ok {
							deferredSend = oneLine(src(ss.Chan))
						}
						return true
					})
				}
			}
			return true
		})
	}
	// relayFrames: where ReadFrame is called from (a goroutine of its own, or inline in the reader's
	// loop), and the arms of the reader's select
	var readSites []string
	var readerArms []string
	if fd := funcDecl(relay, "relay", "relayFrames"); fd != nil {
		param := ""
		if ps := fd.Type.Params.List; len(ps) > 0 && len(ps[0].Names) > 0 {
			param = ps[0].Names[0].Name
		}
		var walk func(n ast.Node, ctx string)
		walk = func(n ast.Node, ctx string) {
			ast.Inspect(n, func(x ast.Node) bool {
				switch y := x.(type) {
				case *ast.GoStmt:
					if fl, ok := y.Call.Fun.(*ast.FuncLit); ok {
						walk(fl.Body, "go")
						return false
					}
				case *ast.FuncLit:
					walk(y.Body, ctx+"+lit")
					return false
				case *ast.CallExpr:
					if se, ok := y.Fun.(*ast.SelectorExpr); ok && se.Sel.Name == "ReadFrame" {
						readSites = append(readSites, ctx)
					}
				}
				return true
			})
		}
		walk(fd.Body, "inline")
		// the select of the reader's own loop (not the writer goroutine's)
		for _, st := range fd.Body.List {
			fs, ok := st.(*ast.ForStmt)
			if !ok {
				continue
			}
			for _, b := range fs.Body.List {
				sel, ok := b.(*ast.SelectStmt)
				if !ok {
					continue
				}
				for _, c := range sel.Body.List {
					cc := c.(*ast.CommClause)
					if cc.Comm == nil {
						readerArms = append(readerArms, "default")
						continue
					}
					arm := oneLine(src(cc.Comm))
					if i := strings.Index(arm, "<-"); i >= 0 {
						arm = strings.TrimSpace(arm[i+2:])
					}
					if arm == param && param != "" {
						arm = "PARAM"
					}
					readerArms = append(readerArms, "<-"+arm)
				}
			}
		}
	}
	g.def("readFrameSites", "List String", leanList(readSites))
	g.def("readerSelectArms", "List String", leanList(readerArms))

	var capRows []string
	for _, k := range []string{"readerDone", "writerErr", "frameReady"} {
		v, ok := caps[k]
		if !ok {
			v = "missing"
		}
		capRows = append(capRows, k+"="+v)
	}
	g.def("relayChannels", "List String", leanList(capRows))
	g.def("deferredSend", "String", leanStr(deferredSend))
}
