package main

import (
	"go/ast"
	"go/token"
	"regexp"
	"strings"
)

// C18: what Model/Shape.lean relies on in trafficshape and in Proxy.handle, as semantic events in
// source order (receiver and variable names are stripped, logging and temporaries are dropped):
//
//   - DefaultBitrate;
//   - Handler.ServeHTTP: read body -> decode -> reject... -> parseShapes -> Lock -> writes of listener
//     state, swap of the map, time stamp -> Unlock -> respond (the model's `configure` is one atomic step
//     whose time stamp is the moment of the swap);
//   - parseShapes: the order of the validation failures with their conditions, the stable sorts and the
//     point at which the global buckets are started; the overlap rule of getActionsFromThrottles;
//   - Conn.Write: the order of the statements of one round (the buffer is advanced before the pending
//     action is looked at) and how the next action is found after one was performed;
//   - Conn.ReadFrom: a shaped response is routed through Write;
//   - Proxy.handle: the shaping context is reset for every response before the URL is matched.
//
// Pinned by Props/C18/Facts.lean.
func init() { extractors = append(extractors, extractC18) }

var recvPrefix = regexp.MustCompile(`\b[A-Za-z_][A-Za-z0-9_]*\.`)

// bare strips every `x.` qualifier: `shape.Throttles[i].ByteStart < 0` -> `Throttles[i].ByteStart < 0` -> ...
func bare(s string) string {
	s = oneLine(s)
	for {
		t := recvPrefix.ReplaceAllString(s, "")
		if t == s {
			return s
		}
		s = t
	}
}

func pair(a, b string) string { return "(" + leanStr(a) + ", " + leanStr(b) + ")" }

// lastSel is the method or function name of a callee: `json.NewDecoder(r).Decode` -> `Decode`.
func lastSelStr(f string) string {
	f = oneLine(f)
	if i := strings.LastIndex(f, "."); i >= 0 {
		return f[i+1:]
	}
	return f
}

func extractC18() {
	g := newGen("Shape")

	// ---- DefaultBitrate
	lf := parse("trafficshape/listener.go")
	bitrate := "0"
	for _, d := range lf.Decls {
		gd, ok := d.(*ast.GenDecl)
		if !ok || (gd.Tok != token.VAR && gd.Tok != token.CONST) {
			continue
		}
		for _, sp := range gd.Specs {
			vs := sp.(*ast.ValueSpec)
			for i, n := range vs.Names {
				if n.Name == "DefaultBitrate" && i < len(vs.Values) {
					if bl, ok := vs.Values[i].(*ast.BasicLit); ok && bl.Kind == token.INT {
						bitrate = strings.ReplaceAll(bl.Value, "_", "")
					}
				}
			}
		}
	}
	g.def("defaultBitrate", "Int", bitrate)

	// ---- Handler.ServeHTTP
	hf := parse("trafficshape/handler.go")
	var ev []string
	if fd := funcDecl(hf, "Handler", "ServeHTTP"); fd != nil {
		ast.Inspect(fd.Body, func(x ast.Node) bool {
			switch n := x.(type) {
			case *ast.FuncLit:
				return false
			case *ast.ReturnStmt:
				ev = append(ev, pair("return", ""))
			case *ast.AssignStmt:
				for i, l := range n.Lhs {
					ls := bare(src(l))
					rhs := ""
					if i < len(n.Rhs) {
						rhs = oneLine(src(n.Rhs[i]))
					} else if len(n.Rhs) == 1 {
						rhs = oneLine(src(n.Rhs[0]))
					}
					switch {
					case ls == "LastModifiedTime":
						ev = append(ev, pair("stamp", rhs))
					case ls == "M":
						ev = append(ev, pair("swap", ""))
					case strings.HasPrefix(ls, "M["):
						ev = append(ev, pair("fill", ""))
					}
				}
			case *ast.CallExpr:
				f := oneLine(src(n.Fun))
				switch b := lastSelStr(f); {
				case b == "ReadAll":
					ev = append(ev, pair("read-body", ""))
				case b == "Decode" || b == "Unmarshal":
					ev = append(ev, pair("decode", ""))
				case b == "parseShapes":
					ev = append(ev, pair("parse", ""))
				case f == "http.Error":
					code := ""
					if len(n.Args) == 3 {
						code = oneLine(src(n.Args[2]))
					}
					ev = append(ev, pair("reject", code))
				case b == "WriteHeader":
					a := ""
					if len(n.Args) == 1 {
						a = oneLine(src(n.Args[0]))
					}
					ev = append(ev, pair("respond", a))
				case strings.HasSuffix(f, ".Shapes.Lock"):
					ev = append(ev, pair("lock", ""))
				case strings.HasSuffix(f, ".Shapes.Unlock"):
					ev = append(ev, pair("unlock", ""))
				case strings.HasPrefix(f, "h.l.") && (strings.HasSuffix(f, ".SetCapacity") || strings.HasPrefix(b, "Set")):
					ev = append(ev, pair("write", b))
				}
			}
			return true
		})
	}
	g.def("serveHTTP", "List (String × String)", "["+strings.Join(ev, ", ")+"]")

	// ---- parseShapes: failures (with the condition that guards them) and the processing steps, in source order
	uf := parse("trafficshape/utils.go")
	var ps []string
	if fd := funcDecl(uf, "", "parseShapes"); fd != nil {
		var walk func(n ast.Node, cond string)
		walk = func(n ast.Node, cond string) {
			ast.Inspect(n, func(x ast.Node) bool {
				switch s := x.(type) {
				case *ast.FuncLit:
					return false
				case *ast.IfStmt:
					c := bare(src(s.Cond))
					if s.Init != nil {
						c = bare(src(s.Init)) + "; " + c
					}
					if s.Init != nil {
						walk(s.Init, cond)
					}
					walk(s.Body, c)
					if s.Else != nil {
						walk(s.Else, "else of "+c)
					}
					return false
				case *ast.ReturnStmt:
					if len(s.Results) == 1 {
						if ce, ok := s.Results[0].(*ast.CallExpr); ok && len(ce.Args) > 0 {
							if bl, ok := ce.Args[0].(*ast.BasicLit); ok {
								ps = append(ps, "fail "+classOfMsg(bl.Value)+" if "+cond)
								return false
							}
						}
						if oneLine(src(s.Results[0])) != "nil" {
							ps = append(ps, "fail ? if "+cond)
						}
					}
				case *ast.CallExpr:
					switch f := oneLine(src(s.Fun)); f {
					case "sort.SliceStable":
						if len(s.Args) == 2 {
							ps = append(ps, "stable-sort "+bare(src(s.Args[0])))
						}
					case "sort.Slice", "sort.Sort":
						ps = append(ps, "unstable-sort")
					case "getActionsFromThrottles":
						ps = append(ps, "actions-from-throttles")
					case "NewBucket":
						ps = append(ps, "new-bucket")
					case "strings.Split":
						if len(s.Args) == 2 {
							ps = append(ps, "split "+oneLine(src(s.Args[1])))
						}
					case "strconv.ParseInt":
						if len(s.Args) == 3 {
							ps = append(ps, "parse-int "+oneLine(src(s.Args[1]))+" "+oneLine(src(s.Args[2])))
						}
					}
				case *ast.RangeStmt:
					ps = append(ps, "for "+bare(src(s.X))+" {")
					walk(s.Body, cond)
					ps = append(ps, "}")
					return false
				}
				return true
			})
		}
		walk(fd.Body, "")
	}
	g.def("parseShapes", "List String", leanLines(ps))

	// ---- getActionsFromThrottles: the conditions, in source order
	var ga []string
	if fd := funcDecl(uf, "", "getActionsFromThrottles"); fd != nil {
		ast.Inspect(fd.Body, func(x ast.Node) bool {
			switch s := x.(type) {
			case *ast.IfStmt:
				ga = append(ga, "if "+bare(src(s.Cond)))
			case *ast.ReturnStmt:
				if len(s.Results) == 2 && oneLine(src(s.Results[1])) != "nil" {
					ga = append(ga, "fail")
				}
			case *ast.BranchStmt:
				ga = append(ga, strings.ToLower(s.Tok.String()))
			}
			return true
		})
	}
	g.def("actionsFromThrottles", "List String", leanLines(ga))

	// ---- Conn.Write: the statements of one round of the body loop, and the action block
	cf := parse("trafficshape/conn.go")
	var round, action []string
	if fd := funcDecl(cf, "Conn", "Write"); fd != nil {
		for _, st := range fd.Body.List {
			fs, ok := st.(*ast.ForStmt)
			if !ok {
				continue
			}
			for _, s := range fs.Body.List {
				switch n := s.(type) {
				case *ast.AssignStmt:
					l, r := bare(src(n.Lhs[0])), ""
					if len(n.Rhs) > 0 {
						r = oneLine(src(n.Rhs[len(n.Rhs)-1]))
					}
					switch {
					case strings.Contains(r, "FillThrottleLocked"):
						round = append(round, "write-through-buckets")
					case l == "ByteOffset" && n.Tok == token.ADD_ASSIGN:
						round = append(round, "offset += "+bare(r))
					case l == "total":
						round = append(round, "total += "+bare(r))
					case l == "b":
						round = append(round, "b = "+bare(r))
					case l == "amountToWrite":
						round = append(round, "amount = "+bare(r))
					}
				case *ast.IfStmt:
					c := bare(src(n.Cond))
					switch {
					case strings.Contains(c, "err != nil"):
						round = append(round, "return-on-error")
					case strings.Contains(c, "ActionNext") && strings.Contains(c, ">="):
						round = append(round, "action-check "+c)
						ast.Inspect(n.Body, func(x ast.Node) bool {
							switch a := x.(type) {
							case *ast.FuncLit:
								return false
							case *ast.CallExpr:
								switch f := lastSelStr(src(a.Fun)); f {
								case "CheckExistenceAndValidity", "WriteDefaultBuckets", "getCount", "decrementCount", "Sleep", "SetCapacity",
									"GetNextActionFromIndex", "GetNextActionFromByte":
									arg := ""
									if f == "GetNextActionFromIndex" || f == "GetNextActionFromByte" || f == "WriteDefaultBuckets" {
										arg = " " + bare(src(a.Args[0]))
									}
									action = append(action, f+arg)
								}
							case *ast.AssignStmt:
								if l := bare(src(a.Lhs[0])); l == "Shaping" {
									action = append(action, "Shaping = "+oneLine(src(a.Rhs[0])))
								}
							case *ast.CompositeLit:
								if t := bare(src(a.Type)); t == "ErrForceClose" {
									action = append(action, "force-close")
								}
							}
							return true
						})
					case strings.Contains(c, "ActionNext"):
						round = append(round, "amount-till-next-action")
					}
				}
			}
		}
	}
	// what is handed to the wrapped connection inside the bucket closures, and by how much the buffer advances
	var chunk []string
	if fd := funcDecl(cf, "Conn", "Write"); fd != nil {
		for _, st := range fd.Body.List {
			fs, ok := st.(*ast.ForStmt)
			if !ok {
				continue
			}
			ast.Inspect(fs.Body, func(x ast.Node) bool {
				switch n := x.(type) {
				case *ast.CallExpr:
					if lastSelStr(src(n.Fun)) == "Write" && len(n.Args) == 1 {
						if se, ok := n.Args[0].(*ast.SliceExpr); ok && se.Low == nil && se.High != nil {
							chunk = append(chunk, "write "+bare(src(se.X))+"[:"+bare(src(se.High))+"]")
						} else {
							chunk = append(chunk, "write "+bare(src(n.Args[0])))
						}
					}
				case *ast.AssignStmt:
					if len(n.Lhs) == 1 && len(n.Rhs) == 1 {
						if se, ok := n.Rhs[0].(*ast.SliceExpr); ok && se.High == nil && se.Low != nil && bare(src(n.Lhs[0])) == bare(src(se.X)) {
							chunk = append(chunk, "advance "+bare(src(se.X))+"["+bare(src(se.Low))+":]")
						}
					}
				}
				return true
			})
		}
	}
	g.def("writeChunk", "List String", leanLines(chunk))
	g.def("writeRound", "List String", leanLines(round))
	g.def("writeAction", "List String", leanLines(action))

	// ---- Conn.ReadFrom: a shaped response goes through Write
	var rf []string
	if fd := funcDecl(cf, "Conn", "ReadFrom"); fd != nil && len(fd.Body.List) > 0 {
		if is, ok := fd.Body.List[0].(*ast.IfStmt); ok {
			rf = append(rf, "if "+bare(src(is.Cond)))
			ast.Inspect(is.Body, func(x ast.Node) bool {
				if ce, ok := x.(*ast.CallExpr); ok {
					if f := oneLine(src(ce.Fun)); f == "io.Copy" || f == "io.CopyBuffer" || strings.HasSuffix(f, ".Write") {
						rf = append(rf, "call "+f)
					}
				}
				return true
			})
			for _, s := range is.Body.List {
				if _, ok := s.(*ast.ReturnStmt); ok {
					rf = append(rf, "return")
				}
			}
		}
	}
	g.def("readFrom", "List String", leanLines(rf))

	// ---- Proxy.handle: the block `if ptsconn, ok := conn.(*trafficshape.Conn); ok { ... }` before res.Write
	pf := parse("proxy.go")
	var hs, hset []string
	if fd := funcDecl(pf, "Proxy", "handle"); fd != nil {
		for _, st := range fd.Body.List {
			is, ok := st.(*ast.IfStmt)
			if !ok || is.Init == nil || !strings.Contains(oneLine(src(is.Init)), "conn.(*trafficshape.Conn)") {
				continue
			}
			usesCtx := false
			ast.Inspect(is.Body, func(x ast.Node) bool {
				if se, ok := x.(*ast.SelectorExpr); ok && se.Sel.Name == "Context" {
					usesCtx = true
				}
				return true
			})
			if !usesCtx {
				continue
			}
			for _, s := range is.Body.List {
				switch n := s.(type) {
				case *ast.AssignStmt:
					if bare(src(n.Lhs[0])) == "Context" {
						hs = append(hs, "Context = "+bare(src(n.Rhs[0])))
					}
				case *ast.RangeStmt:
					hs = append(hs, "for "+bare(src(n.X))+" {")
					ast.Inspect(n.Body, func(x ast.Node) bool {
						switch a := x.(type) {
						case *ast.IfStmt:
							c := bare(src(a.Cond))
							if a.Init != nil {
								c = bare(src(a.Init)) + "; " + c
							}
							if strings.Contains(c, "MatchString") || strings.Contains(c, "GetRangeStart") || strings.Contains(c, "ThrottleNow") {
								hs = append(hs, "if "+c)
							}
						case *ast.KeyValueExpr:
							hset = append(hset, bare(src(a.Key))+": "+bare(src(a.Value)))
						case *ast.AssignStmt:
							if l := bare(src(a.Lhs[0])); l == "NextActionInfo" || l == "ThrottleContext" {
								hset = append(hset, l+" = "+bare(src(a.Rhs[0])))
							}
						case *ast.CallExpr:
							if lastSelStr(src(a.Fun)) == "SetCapacity" {
								hset = append(hset, "SetCapacity "+bare(src(a.Args[0])))
							}
						case *ast.BranchStmt:
							hs = append(hs, strings.ToLower(a.Tok.String()))
						}
						return true
					})
					hs = append(hs, "}")
				}
			}
		}
	}
	g.def("handleContext", "List String", leanLines(hs))
	g.def("handleContextSet", "List String", leanLines(hset))
}

// classOfMsg maps the format string of a parseShapes failure to the model's error name.
func classOfMsg(lit string) string {
	for _, p := range [][2]string{
		{"nil shape at index", "nilshape"}, {"no url_regex", "noregex"}, {"doesn't compile", "badregex"},
		{"max_bandwidth cannot be negative", "negmax"}, {"nil throttle", "nilthrottle"}, {"invalid bandwidth", "badbw"},
		{"invalid bytes", "badbytes"}, {"nil halt", "nilhalt"}, {"invalid halt", "badhalt"}, {" 0 count for halt", "zerohalt"},
		{"nil close_connection", "nilclose"}, {"invalid close_connection", "badclose"}, {"0 count for close_connection", "zeroclose"},
		{"err: %s", "overlap"},
	} {
		if strings.Contains(lit, p[0]) {
			return p[1]
		}
	}
	return "other " + lit
}
