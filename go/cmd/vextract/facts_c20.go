package main

import (
	"go/ast"
	"strings"
)

// C20: the Range pipeline of body.Modifier.ModifyResponse and static.Modifier.ModifyResponse
// (the model Model/Range.lean says the two are the same pipeline: that is a fact checked here, with
// the content size spelled SIZE in both), the slicing of the single-range branch, and the path
// resolution of the static modifier. Pinned by Props/C20/Facts.lean.
func init() { extractors = append(extractors, extractC20) }

func extractC20() {
	g := newGen("Range")
	calls := []string{"strings.ToLower", "strings.TrimLeft", "strings.Split", "strings.HasSuffix", "strings.TrimSpace",
		"strconv.Atoi", "fmt.Sprintf", "f.ReadAt", "make", "mpw.CreatePart", "pw.Write", "filepath.Join", "filepath.Clean",
		"path.Clean", "os.Open", "res.Request.Header.Get"}
	places := []string{"start", "end", "rng", "rs", "rh", "sranges", "ranges", "res.StatusCode", "seg", "length", "reqpth", "fpth", "rootPath"}
	norm := func(xs []string) []string {
		r := strings.NewReplacer("int64(start)", "start", "int64(end)", "end", "int(info.Size())", "SIZE", "info.Size()", "SIZE", "len(m.body)", "SIZE")
		out := make([]string, len(xs))
		for i, x := range xs {
			out[i] = r.Replace(x)
		}
		return out
	}
	for _, c := range []struct{ file, recv, name string }{
		{"body/body_modifier.go", "Modifier", "Body"}, {"static/static_file_modifier.go", "Modifier", "Static"}} {
		f := parse(c.file)
		sk := newSkel(calls, places)
		var prelude, loop, single []string
		if fd := funcDecl(f, c.recv, "ModifyResponse"); fd != nil {
			for _, st := range fd.Body.List {
				switch n := st.(type) {
				case *ast.RangeStmt:
					if oneLine(src(n.X)) == "sranges" {
						loop = sk.block(n.Body)
					}
				case *ast.AssignStmt:
					if l := oneLine(src(n.Lhs[0])); l == "rh" || l == "sranges" || l == "reqpth" || l == "fpth" {
						prelude = append(prelude, sk.stmt(n)...)
					}
				case *ast.IfStmt:
					if oneLine(src(n.Cond)) == "len(ranges) == 1" {
						single = sk.block(n.Body)
					} else if strings.Contains(oneLine(src(n.Cond)), "explicitPaths") || strings.Contains(oneLine(src(n.Init)), "explicitPaths") {
						prelude = append(prelude, sk.stmt(n)...)
					}
				}
			}
		}
		g.def("prelude"+c.name, "List String", leanLines(norm(prelude)))
		g.def("rangeLoop"+c.name, "List String", leanLines(norm(loop)))
		g.def("single"+c.name, "List String", leanLines(norm(single)))
	}
	// NewModifier of the static modifier: the root is cleaned once, at construction
	f := parse("static/static_file_modifier.go")
	sk := newSkel(calls, places)
	var ctor []string
	if fd := funcDecl(f, "", "NewModifier"); fd != nil {
		ast.Inspect(fd.Body, func(x ast.Node) bool {
			if kv, ok := x.(*ast.KeyValueExpr); ok && oneLine(src(kv.Key)) == "rootPath" {
				ctor = append(ctor, "rootPath: "+oneLine(src(kv.Value)))
			}
			return true
		})
	}
	_ = sk
	g.def("staticCtor", "List String", leanList(ctor))
}
