package main

import (
	"go/ast"
	"strings"
)

// C07: the skeleton of Serve / handleLoop / readRequest / Close in proxy.go that the process model
// Model/Shutdown.lean transcribes (pinned by `facts_shutdown_skeleton` in Props/C07.lean).
func init() { extractors = append(extractors, extractC07) }

func keep(names []string, set ...string) []string {
	var out []string
	for _, n := range names {
		for _, s := range set {
			if n == s {
				out = append(out, n)
			}
		}
	}
	return out
}

func extractC07() {
	f := parse("proxy.go")
	g := newGen("Shutdown")

	// which functions call conns.Add (F07: it is handleLoop, i.e. inside the spawned goroutine)
	var sites []string
	for _, d := range f.Decls {
		if fd, ok := d.(*ast.FuncDecl); ok && fd.Body != nil {
			for _, c := range callNames(fd.Body) {
				if strings.HasSuffix(c, "conns.Add") {
					sites = append(sites, fd.Name.Name)
				}
			}
		}
	}
	g.def("addSites", "List String", leanList(sites))

	// Close: signal first, then Lock / Wait / Unlock
	if fd := funcDecl(f, "Proxy", "Close"); fd != nil {
		g.def("closeCalls", "List String", leanList(keep(callNames(fd.Body), "close", "p.connsMu.Lock", "p.conns.Wait", "p.connsMu.Unlock")))
	} else {
		g.def("closeCalls", "List String", "[]")
	}

	// handleLoop: counting, deferred calls (run in reverse), the Closing() check, all before the serving loop
	if fd := funcDecl(f, "Proxy", "handleLoop"); fd != nil {
		var pre []string
		var defers []string
		for _, st := range fd.Body.List {
			if _, ok := st.(*ast.ForStmt); ok {
				break
			}
			if ds, ok := st.(*ast.DeferStmt); ok {
				defers = append(defers, src(ds.Call.Fun))
				continue
			}
			pre = append(pre, keep(callNames(st), "p.conns.Add", "p.Closing", "p.connsMu.Lock", "p.connsMu.Unlock")...)
		}
		g.def("handleLoopPrologue", "List String", leanList(pre))
		g.def("handleLoopDefers", "List String", leanList(defers))
	} else {
		g.def("handleLoopPrologue", "List String", "[]")
		g.def("handleLoopDefers", "List String", "[]")
	}

	// readRequest: the arms of its select
	var arms []string
	if fd := funcDecl(f, "Proxy", "readRequest"); fd != nil {
		ast.Inspect(fd.Body, func(n ast.Node) bool {
			if cc, ok := n.(*ast.CommClause); ok {
				if cc.Comm == nil {
					arms = append(arms, "default")
				} else {
					s := src(cc.Comm)
					if i := strings.Index(s, "<-"); i >= 0 {
						s = s[i:]
					}
					arms = append(arms, s)
				}
			}
			return true
		})
	}
	g.def("readRequestSelectArms", "List String", leanList(arms))

	// Serve: loop-top check, Accept, go statement — in this order (the harness additionally relies on the
	// debug log evaluating conn.RemoteAddr() in between to force F07; it degrades gracefully without it)
	var serve []string
	if fd := funcDecl(f, "Proxy", "Serve"); fd != nil {
		ast.Inspect(fd.Body, func(n ast.Node) bool {
			switch x := n.(type) {
			case *ast.GoStmt:
				serve = append(serve, "go "+src(x.Call.Fun))
				return false
			case *ast.CallExpr:
				s := src(x.Fun)
				if s == "p.Closing" || s == "l.Accept" {
					serve = append(serve, s)
				}
			}
			return true
		})
	}
	g.def("serveSkeleton", "List String", leanList(serve))
}
