package main

import (
	"go/ast"
	"sort"
	"strings"
)

// C07: the skeleton of Serve / handleLoop / readRequest / Close in proxy.go that the process model
// Model/Shutdown.lean transcribes (pinned by `facts_shutdown_skeleton` in Props/C07.lean).
func init() { extractors = append(extractors, extractC07) }

func keep(names []string, set ...string) []string {
	var out []string
	for _, n := range names {
		for _, s := range set {
			if n == s {
				out = append(out, n)
			}
		}
	}
	return out
}

func extractC07() {
	f := parse("proxy.go")
	g := newGen("Shutdown")

	// which functions call conns.Add (F07: it is handleLoop, i.e. inside the spawned goroutine)
	var sites []string
	for _, d := range f.Decls {
		if fd, ok := d.(*ast.FuncDecl); ok && fd.Body != nil {
			for _, c := range callNames(fd.Body) {
				if strings.HasSuffix(c, "conns.Add") {
					sites = append(sites, fd.Name.Name)
				}
			}
		}
	}
	g.def("addSites", "List String", leanList(sites))

	// Close: signal first, then Lock / Wait / Unlock
	if fd := funcDecl(f, "Proxy", "Close"); fd != nil {
		g.def("closeCalls", "List String", leanList(keep(callNames(fd.Body), "close", "p.connsMu.Lock", "p.conns.Wait", "p.connsMu.Unlock")))
	} else {
		g.def("closeCalls", "List String", "[]")
	}

	// handleLoop: counting, deferred calls (run in reverse), the Closing() check, all before the serving loop
	if fd := funcDecl(f, "Proxy", "handleLoop"); fd != nil {
		var pre []string
		var defers []string
		for _, st := range fd.Body.List {
			if _, ok := st.(*ast.ForStmt); ok {
				break
			}
			if ds, ok := st.(*ast.DeferStmt); ok {
				defers = append(defers, src(ds.Call.Fun))
				continue
			}
			pre = append(pre, keep(callNames(st), "p.conns.Add", "p.Closing", "p.connsMu.Lock", "p.connsMu.Unlock")...)
		}
		g.def("handleLoopPrologue", "List String", leanList(pre))
		g.def("handleLoopDefers", "List String", leanList(defers))
	} else {
		g.def("handleLoopPrologue", "List String", "[]")
		g.def("handleLoopDefers", "List String", "[]")
	}

	// readRequest: the arms of its select
	var arms []string
	if fd := funcDecl(f, "Proxy", "readRequest"); fd != nil {
		ast.Inspect(fd.Body, func(n ast.Node) bool {
			if cc, ok := n.(*ast.CommClause); ok {
				if cc.Comm == nil {
					arms = append(arms, "default")
				} else {
					s := src(cc.Comm)
					if i := strings.Index(s, "<-"); i >= 0 {
						s = s[i:]
					}
					arms = append(arms, s)
				}
			}
			return true
		})
	}
	g.def("readRequestSelectArms", "List String", leanList(arms))

	// Serve: loop-top check, Accept, go statement — in this order (the harness additionally relies on the
	// debug log evaluating conn.RemoteAddr() in between to force F07; it degrades gracefully without it)
	var serve []string
	if fd := funcDecl(f, "Proxy", "Serve"); fd != nil {
		ast.Inspect(fd.Body, func(n ast.Node) bool {
			switch x := n.(type) {
			case *ast.GoStmt:
				serve = append(serve, "go "+src(x.Call.Fun))
				return false
			case *ast.CallExpr:
				s := src(x.Fun)
				if s == "p.Closing" || s == "l.Accept" {
					serve = append(serve, s)
				}
			}
			return true
		})
	}
	g.def("serveSkeleton", "List String", leanList(serve))
	extractC07Round3(f, g)
}

// lastSel is the method name of a call (`conn.SetDeadline` -> `SetDeadline`, `close` -> `close`): facts
// that use it survive a renamed receiver or variable.
func lastSel(e ast.Expr) string {
	switch x := e.(type) {
	case *ast.SelectorExpr:
		return x.Sel.Name
	case *ast.Ident:
		return x.Name
	}
	return ""
}

// isClosingField: the expression is the proxy's closing channel (`<recv>.closing`).
func isClosingField(e ast.Expr) bool {
	se, ok := e.(*ast.SelectorExpr)
	return ok && se.Sel.Name == "closing"
}

// Round 3: what the extended shutdown model (tunnels, MITM, hijack, write failures) relies on.
func extractC07Round3(f *ast.File, g *gen) {
	// (1) the kinds of deadline the proxy puts on a connection anywhere in proxy.go (set of method names; not
	// tied to a function, so an extracted helper changes nothing). The model has no step by which the PROXY
	// abandons a response write: the only deadline is the idle one (read+write, `SetDeadline`).
	dl := map[string]bool{}
	// (1b) the socket options the proxy sets on connections anywhere in proxy.go (set of method names): keep-alive
	// on accepted connections and nothing else — in particular nothing that changes what Close() of a
	// connection does to data still in flight (SetLinger)
	so := map[string]bool{}
	// (2) how often the shutdown signal is consulted or handed on, by kind (sorted multiset; not tied to a
	// function): close (close(x.closing)), recv (<-x.closing), arg:<callee> (x.closing passed to a call),
	// Closing (x.Closing()). A new consultation anywhere (or a dropped one) changes it.
	var uses []string
	for _, d := range f.Decls {
		fd, ok := d.(*ast.FuncDecl)
		if !ok || fd.Body == nil {
			continue
		}
		ast.Inspect(fd.Body, func(n ast.Node) bool {
			switch x := n.(type) {
			case *ast.CallExpr:
				m := lastSel(x.Fun)
				switch m {
				case "SetDeadline", "SetReadDeadline", "SetWriteDeadline":
					dl[m] = true
				case "SetLinger", "SetNoDelay", "SetKeepAlive", "SetKeepAlivePeriod", "SetKeepAliveConfig", "SetReadBuffer", "SetWriteBuffer":
					so[m] = true
				case "Closing":
					uses = append(uses, "Closing")
				case "close":
					if len(x.Args) == 1 && isClosingField(x.Args[0]) {
						uses = append(uses, "close")
					}
				default:
					for _, a := range x.Args {
						if isClosingField(a) {
							uses = append(uses, "arg:"+m)
						}
					}
				}
			case *ast.UnaryExpr:
				if x.Op.String() == "<-" && isClosingField(x.X) {
					uses = append(uses, "recv")
				}
			}
			return true
		})
	}
	var deadlines []string
	for m := range dl {
		deadlines = append(deadlines, m)
	}
	sort.Strings(deadlines)
	sort.Strings(uses)
	var sockopts []string
	for m := range so {
		sockopts = append(sockopts, m)
	}
	sort.Strings(sockopts)
	g.def("deadlineKinds", "List String", leanList(deadlines))
	g.def("sockoptKinds", "List String", leanList(sockopts))
	g.def("closingUses", "List String", leanList(uses))

	// (3) the order of the shutdown-relevant calls of `handle` (method names, source order): the request
	// modifier, the hijack check, the round trip, the response modifier, the hijack check, the close
	// decision, the response write — and nothing that touches a deadline in between.
	relevant := map[string]bool{"readRequest": true, "handleConnectRequest": true, "ModifyRequest": true, "Hijacked": true,
		"roundTrip": true, "ModifyResponse": true, "Closing": true, "Write": true, "Flush": true,
		"SetDeadline": true, "SetReadDeadline": true, "SetWriteDeadline": true, "Close": false}
	order := func(fn string) []string {
		var out []string
		if fd := funcDecl(f, "Proxy", fn); fd != nil {
			ast.Inspect(fd.Body, func(n ast.Node) bool {
				if _, ok := n.(*ast.FuncLit); ok {
					return false // the pumps' closures are not part of the straight-line order
				}
				if c, ok := n.(*ast.CallExpr); ok {
					if m := lastSel(c.Fun); relevant[m] {
						out = append(out, m)
					}
				}
				return true
			})
		}
		return out
	}
	g.def("handleOrder", "List String", leanList(order("handle")))

	// (4) handleLoop: after `handle` returns it leaves on a closeable error or on a hijacked session.
	var loop []string
	if fd := funcDecl(f, "Proxy", "handleLoop"); fd != nil {
		ast.Inspect(fd.Body, func(n ast.Node) bool {
			if c, ok := n.(*ast.CallExpr); ok {
				switch m := lastSel(c.Fun); m {
				case "handle", "isCloseable", "Hijacked":
					loop = append(loop, m)
				}
			}
			return true
		})
	}
	g.def("handleLoopBody", "List String", leanList(loop))

	// (5) Close waits in its own goroutine, unconditionally: no go statement, no select, no timer in it
	var shape []string
	if fd := funcDecl(f, "Proxy", "Close"); fd != nil {
		ast.Inspect(fd.Body, func(n ast.Node) bool {
			switch x := n.(type) {
			case *ast.GoStmt:
				shape = append(shape, "go")
			case *ast.SelectStmt:
				shape = append(shape, "select")
			case *ast.CallExpr:
				if m := lastSel(x.Fun); m == "After" || m == "NewTimer" || m == "AfterFunc" || m == "WithTimeout" || m == "WithDeadline" {
					shape = append(shape, m)
				}
			}
			return true
		})
	}
	g.def("closeShape", "List String", leanList(shape))
}
