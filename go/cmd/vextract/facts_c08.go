package main

import (
	"fmt"
	"go/ast"
	"go/token"
	"strings"
)

// Facts for C08 / C09 (h2 relay): the protocol constants the model's initial state and chunk
// arithmetic use, and three structural facts about call sites that the correspondence run cannot
// see (or sees only end to end): which value reaches the Header sink as streamEnded when a
// continued block completes, how the connection preface is read, and what length the
// WINDOW_UPDATE credit is computed from.
func init() {
	extractors = append(extractors, func() {
		g := newGen("H2Relay")
		relay := parse("h2/relay.go")
		consts := map[string]string{}
		for _, d := range relay.Decls {
			gd, ok := d.(*ast.GenDecl)
			if !ok || gd.Tok != token.CONST {
				continue
			}
			for _, sp := range gd.Specs {
				vs := sp.(*ast.ValueSpec)
				for i, n := range vs.Names {
					if i < len(vs.Values) {
						if bl, ok := vs.Values[i].(*ast.BasicLit); ok && bl.Kind == token.INT {
							consts[n.Name] = bl.Value
						}
					}
				}
			}
		}
		for _, n := range []string{"initialMaxFrameSize", "defaultInitialWindowSize", "headersPriorityMetadataLength", "pushPromiseMetadataLength"} {
			v, ok := consts[n]
			if !ok {
				v = "0"
			}
			g.def(n, "Nat", v)
		}

		// headerContinuation.complete: s.Header(headers, <arg>, h.priority) — is <arg> the stored flag?
		stored := false
		if fd := funcDecl(relay, "headerContinuation", "complete"); fd != nil {
			ast.Inspect(fd, func(x ast.Node) bool {
				if c, ok := x.(*ast.CallExpr); ok && strings.HasSuffix(src(c.Fun), ".Header") && len(c.Args) == 3 {
					if se, ok := c.Args[1].(*ast.SelectorExpr); ok && se.Sel.Name == "streamEnded" {
						stored = true
					}
				}
				return true
			})
		}
		// ...and processFrame stores the HEADERS frame's own END_STREAM flag in it
		storesFlag := false
		if fd := funcDecl(relay, "relay", "processFrame"); fd != nil {
			ast.Inspect(fd, func(x ast.Node) bool {
				if cl, ok := x.(*ast.CompositeLit); ok && src(cl.Type) == "headerContinuation" && len(cl.Elts) == 2 {
					if strings.Contains(src(cl.Elts[1]), "f.StreamEnded()") {
						storesFlag = true
					}
				}
				return true
			})
		}
		g.def("continuedHeadersKeepEndStream", "Bool", boolLean(stored && storesFlag))

		// sendWindowUpdates: n := f.Header().Length
		credit := false
		if fd := funcDecl(relay, "relay", "sendWindowUpdates"); fd != nil {
			ast.Inspect(fd, func(x ast.Node) bool {
				if as, ok := x.(*ast.AssignStmt); ok && len(as.Lhs) == 1 && src(as.Lhs[0]) == "n" && len(as.Rhs) == 1 {
					credit = strings.Contains(src(as.Rhs[0]), "Header().Length")
				}
				return true
			})
		}
		g.def("creditUsesFrameHeaderLength", "Bool", boolLean(credit))

		g.def("initialMaxHeaderTableSize", "Nat", func() string {
			if v, ok := consts["initialMaxHeaderTableSize"]; ok {
				return v
			}
			return "0"
		}())

		// ---- SETTINGS: which identifiers the relay acts on, and how it reads them -----------------
		// The function that iterates over a SETTINGS frame (wherever it lives in relay.go). Per peer
		// update (updateTableSize / updateInitialWindowSize / updateMaxFrameSize):
		//   1 = called inside the ForeachSetting callback: every value, in the order of the frame
		//   2 = called after the loop with a variable the callback assigns: once, with the LAST value
		//   3 = called with the result of SettingsFrame.Value(...): the FIRST value of the identifier
		//   0 = not called at all
		modes := map[string]int{"updateTableSize": 0, "updateInitialWindowSize": 0, "updateMaxFrameSize": 0}
		usesValue, iterates := false, false
		var settingsFn *ast.FuncDecl
		for _, d := range relay.Decls {
			fd, ok := d.(*ast.FuncDecl)
			if !ok || fd.Body == nil {
				continue
			}
			ast.Inspect(fd, func(x ast.Node) bool {
				if c, ok := x.(*ast.CallExpr); ok && strings.HasSuffix(src(c.Fun), ".ForeachSetting") {
					settingsFn = fd
				}
				return true
			})
		}
		if settingsFn == nil { // no iteration at all: look where the peer updates are called from
			settingsFn = funcDecl(relay, "relay", "processFrame")
		}
		if settingsFn != nil {
			var callback *ast.FuncLit
			ast.Inspect(settingsFn, func(x ast.Node) bool {
				if c, ok := x.(*ast.CallExpr); ok && strings.HasSuffix(src(c.Fun), ".ForeachSetting") && len(c.Args) == 1 {
					if fl, ok := c.Args[0].(*ast.FuncLit); ok {
						callback = fl
						iterates = true
					}
				}
				return true
			})
			assignedInCallback := map[string]bool{}
			if callback != nil {
				ast.Inspect(callback, func(x ast.Node) bool {
					if as, ok := x.(*ast.AssignStmt); ok {
						for _, l := range as.Lhs {
							assignedInCallback[strings.TrimPrefix(src(l), "*")] = true
						}
					}
					return true
				})
			}
			ast.Inspect(settingsFn, func(x ast.Node) bool {
				c, ok := x.(*ast.CallExpr)
				if !ok {
					return true
				}
				if strings.HasSuffix(src(c.Fun), ".Value") && len(c.Args) == 1 && strings.Contains(src(c.Args[0]), "Setting") {
					usesValue = true
				}
				for name := range modes {
					if !strings.HasSuffix(src(c.Fun), "."+name) || len(c.Args) != 1 {
						continue
					}
					arg := strings.TrimPrefix(strings.TrimPrefix(src(c.Args[0]), "*"), "&")
					switch {
					case callback != nil && c.Pos() >= callback.Pos() && c.End() <= callback.End():
						modes[name] = 1
					case assignedInCallback[arg]:
						modes[name] = 2
					default:
						modes[name] = 3 // a value obtained some other way (SettingsFrame.Value: first occurrence)
					}
				}
				return true
			})
		}
		g.def("settingsIteratedInOrder", "Bool", boolLean(iterates && !usesValue))
		g.def("tableSizeReadMode", "Nat", fmt.Sprint(modes["updateTableSize"]))
		g.def("initialWindowReadMode", "Nat", fmt.Sprint(modes["updateInitialWindowSize"]))
		g.def("maxFrameReadMode", "Nat", fmt.Sprint(modes["updateMaxFrameSize"]))

		// ---- HPACK table sizes --------------------------------------------------------------------
		// newRelay: the decoder accepts any in-band size update, the encoder may follow any advertised size
		maxU32 := func(fn string) (in, out bool) {
			for _, d := range relay.Decls {
				fd, ok := d.(*ast.FuncDecl)
				if !ok || fd.Body == nil {
					continue
				}
				ast.Inspect(fd, func(x ast.Node) bool {
					if c, ok := x.(*ast.CallExpr); ok && strings.HasSuffix(src(c.Fun), "."+fn) && len(c.Args) == 1 {
						if fd.Name.Name == "newRelay" && src(c.Args[0]) == "math.MaxUint32" {
							in = true
						} else {
							out = true
						}
					}
					return true
				})
			}
			return
		}
		decIn, decOut := maxU32("SetAllowedMaxDynamicTableSize")
		encIn, encOut := maxU32("SetMaxDynamicTableSizeLimit")
		g.def("decoderAllowsAnySizeUpdate", "Bool", boolLean(decIn && !decOut))
		g.def("encoderLimitIsMaxUint32", "Bool", boolLean(encIn && !encOut))
		// updateTableSize: the encoder's table size follows the setting; the decoder is not touched
		touchesDecoder, setsEncoder := false, false
		if fd := funcDecl(relay, "relay", "updateTableSize"); fd != nil {
			ast.Inspect(fd, func(x ast.Node) bool {
				if c, ok := x.(*ast.CallExpr); ok {
					f := src(c.Fun)
					if strings.Contains(f, "decoder.") {
						touchesDecoder = true
					}
					if strings.HasSuffix(f, "encoder.SetMaxDynamicTableSize") {
						setsEncoder = true
					}
				}
				return true
			})
		}
		g.def("updateTableSizeSetsEncoder", "Bool", boolLean(setsEncoder))
		g.def("updateTableSizeTouchesDecoder", "Bool", boolLean(touchesDecoder))

		// ---- updateWindow: a WINDOW_UPDATE for a stream without an output buffer creates the buffer
		// (through the creating accessor relay.outputBuffer), and the connection-level branch falls
		// through to the same code (it also credits the pseudo-buffer of stream 0)
		creates, accessorCreates, connReturns := false, false, false
		if fd := funcDecl(relay, "relay", "outputBuffer"); fd != nil {
			ast.Inspect(fd, func(x ast.Node) bool {
				if as, ok := x.(*ast.AssignStmt); ok && len(as.Lhs) == 1 {
					if ix, ok := as.Lhs[0].(*ast.IndexExpr); ok && strings.HasSuffix(src(ix.X), "outputBuffers") {
						accessorCreates = true
					}
				}
				return true
			})
		}
		if fd := funcDecl(relay, "relay", "updateWindow"); fd != nil {
			for _, n := range callNames(fd) {
				if strings.HasSuffix(n, ".outputBuffer") {
					creates = true
				}
			}
			ast.Inspect(fd, func(x ast.Node) bool {
				if is, ok := x.(*ast.IfStmt); ok && strings.Contains(src(is.Cond), "StreamID == 0") {
					ast.Inspect(is.Body, func(y ast.Node) bool {
						if _, ok := y.(*ast.ReturnStmt); ok {
							connReturns = true
						}
						return true
					})
				}
				return true
			})
		}
		g.def("windowUpdateCreatesBuffer", "Bool", boolLean(creates && accessorCreates))
		g.def("connWindowUpdateFallsThrough", "Bool", boolLean(!connReturns))

		// ---- a header block always yields at least one frame -----------------------------------------
		// splitIntoChunks: some statement OUTSIDE every loop adds the first chunk (append to the result,
		// or a composite literal with an element)
		inLoop := func(root ast.Node, target ast.Node) bool {
			found := false
			ast.Inspect(root, func(x ast.Node) bool {
				switch l := x.(type) {
				case *ast.ForStmt, *ast.RangeStmt:
					if l.Pos() <= target.Pos() && target.End() <= l.End() {
						found = true
					}
				}
				return true
			})
			return found
		}
		firstChunk := false
		if fd := funcDecl(relay, "", "splitIntoChunks"); fd != nil {
			ast.Inspect(fd.Body, func(x ast.Node) bool {
				switch n := x.(type) {
				case *ast.CallExpr:
					if src(n.Fun) == "append" && len(n.Args) >= 2 && !inLoop(fd.Body, n) {
						if _, nested := n.Args[0].(*ast.CallExpr); !nested && strings.Contains(src(n.Args[0]), "chunk") {
							firstChunk = true
						}
					}
				case *ast.CompositeLit:
					if strings.HasPrefix(src(n.Type), "[][]byte") && len(n.Elts) > 0 && !inLoop(fd.Body, n) {
						firstChunk = true
					}
				}
				return true
			})
		}
		g.def("firstChunkUnconditional", "Bool", boolLean(firstChunk))
		qf := parse("h2/queued_frames.go")
		uncond := true
		for _, pair := range [][2]string{{"queuedHeaderFrame", "WriteHeaders"}, {"queuedPushPromiseFrame", "WritePushPromise"}} {
			fd := funcDecl(qf, pair[0], "send")
			ok := false
			if fd != nil {
				ast.Inspect(fd.Body, func(x ast.Node) bool {
					if c, isCall := x.(*ast.CallExpr); isCall && strings.HasSuffix(src(c.Fun), "."+pair[1]) && !inLoop(fd.Body, c) {
						ok = true
					}
					return true
				})
			}
			uncond = uncond && ok
		}
		g.def("headersFrameWrittenUnconditionally", "Bool", boolLean(uncond))

		// ---- the framers accept what the endpoints advertise ----------------------------------------
		// Each endpoint's SETTINGS_MAX_FRAME_SIZE is forwarded unchanged, so the peer may send frames of
		// any legal size up to 2^24-1: no framer of the proxy may be given a smaller read limit
		// (http2.NewFramer's default is the legal maximum).
		capped := false
		for _, file := range []*ast.File{h2f0(), relay} {
			ast.Inspect(file, func(x ast.Node) bool {
				if c, ok := x.(*ast.CallExpr); ok && strings.HasSuffix(src(c.Fun), ".SetMaxReadFrameSize") && len(c.Args) == 1 {
					a := strings.ReplaceAll(src(c.Args[0]), " ", "")
					if a != "1<<24-1" && a != "16777215" {
						capped = true
					}
				}
				return true
			})
		}
		g.def("framersAcceptAdvertisedFrameSizes", "Bool", boolLean(!capped))

		// forwardPreface reads the whole preface (io.ReadFull), not whatever one Read returns
		h2f := parse("h2/h2.go")
		full := false
		if fd := funcDecl(h2f, "", "forwardPreface"); fd != nil {
			for _, n := range callNames(fd) {
				if n == "io.ReadFull" {
					full = true
				}
			}
		}
		g.def("prefaceReadInFull", "Bool", boolLean(full))
	})
}

func h2f0() *ast.File { return parse("h2/h2.go") }

func boolLean(b bool) string {
	if b {
		return "true"
	}
	return "false"
}
