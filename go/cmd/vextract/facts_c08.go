package main

import (
	"go/ast"
	"go/token"
	"strings"
)

// Facts for C08 / C09 (h2 relay): the protocol constants the model's initial state and chunk
// arithmetic use, and three structural facts about call sites that the correspondence run cannot
// see (or sees only end to end): which value reaches the Header sink as streamEnded when a
// continued block completes, how the connection preface is read, and what length the
// WINDOW_UPDATE credit is computed from.
func init() {
	extractors = append(extractors, func() {
		g := newGen("H2Relay")
		relay := parse("h2/relay.go")
		consts := map[string]string{}
		for _, d := range relay.Decls {
			gd, ok := d.(*ast.GenDecl)
			if !ok || gd.Tok != token.CONST {
				continue
			}
			for _, sp := range gd.Specs {
				vs := sp.(*ast.ValueSpec)
				for i, n := range vs.Names {
					if i < len(vs.Values) {
						if bl, ok := vs.Values[i].(*ast.BasicLit); ok && bl.Kind == token.INT {
							consts[n.Name] = bl.Value
						}
					}
				}
			}
		}
		for _, n := range []string{"initialMaxFrameSize", "defaultInitialWindowSize", "headersPriorityMetadataLength", "pushPromiseMetadataLength"} {
			v, ok := consts[n]
			if !ok {
				v = "0"
			}
			g.def(n, "Nat", v)
		}

		// headerContinuation.complete: s.Header(headers, <arg>, h.priority) — is <arg> the stored flag?
		stored := false
		if fd := funcDecl(relay, "headerContinuation", "complete"); fd != nil {
			ast.Inspect(fd, func(x ast.Node) bool {
				if c, ok := x.(*ast.CallExpr); ok && strings.HasSuffix(src(c.Fun), ".Header") && len(c.Args) == 3 {
					if se, ok := c.Args[1].(*ast.SelectorExpr); ok && se.Sel.Name == "streamEnded" {
						stored = true
					}
				}
				return true
			})
		}
		// ...and processFrame stores the HEADERS frame's own END_STREAM flag in it
		storesFlag := false
		if fd := funcDecl(relay, "relay", "processFrame"); fd != nil {
			ast.Inspect(fd, func(x ast.Node) bool {
				if cl, ok := x.(*ast.CompositeLit); ok && src(cl.Type) == "headerContinuation" && len(cl.Elts) == 2 {
					if strings.Contains(src(cl.Elts[1]), "f.StreamEnded()") {
						storesFlag = true
					}
				}
				return true
			})
		}
		g.def("continuedHeadersKeepEndStream", "Bool", boolLean(stored && storesFlag))

		// sendWindowUpdates: n := f.Header().Length
		credit := false
		if fd := funcDecl(relay, "relay", "sendWindowUpdates"); fd != nil {
			ast.Inspect(fd, func(x ast.Node) bool {
				if as, ok := x.(*ast.AssignStmt); ok && len(as.Lhs) == 1 && src(as.Lhs[0]) == "n" && len(as.Rhs) == 1 {
					credit = strings.Contains(src(as.Rhs[0]), "Header().Length")
				}
				return true
			})
		}
		g.def("creditUsesFrameHeaderLength", "Bool", boolLean(credit))

		// forwardPreface reads the whole preface (io.ReadFull), not whatever one Read returns
		h2f := parse("h2/h2.go")
		full := false
		if fd := funcDecl(h2f, "", "forwardPreface"); fd != nil {
			for _, n := range callNames(fd) {
				if n == "io.ReadFull" {
					full = true
				}
			}
		}
		g.def("prefaceReadInFull", "Bool", boolLean(full))
	})
}

func boolLean(b bool) string {
	if b {
		return "true"
	}
	return "false"
}
