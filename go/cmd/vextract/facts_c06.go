package main

import (
	"go/ast"
	"go/token"
	"sort"
	"strconv"
	"strings"
)

// C06: lock discipline around the certificate cache of mitm.Config (the basis of the two-step
// atomic semantics of the concurrency theorem) and the defaults of NewConfig.
func init() {
	extractors = append(extractors, func() {
		f := parse("mitm/mitm.go")
		g := newGen("Mitm")

		isCerts := func(e ast.Expr) bool {
			ix, ok := e.(*ast.IndexExpr)
			if !ok {
				return false
			}
			sel, ok := ix.X.(*ast.SelectorExpr)
			return ok && sel.Sel.Name == "certs"
		}
		callIs := func(s ast.Stmt, names ...string) bool {
			es, ok := s.(*ast.ExprStmt)
			if !ok {
				return false
			}
			c, ok := es.X.(*ast.CallExpr)
			if !ok {
				return false
			}
			for _, n := range names {
				if src(c.Fun) == n {
					return true
				}
			}
			return false
		}
		accesses := 0
		ast.Inspect(f, func(n ast.Node) bool {
			if e, ok := n.(ast.Expr); ok && isCerts(e) {
				accesses++
			}
			return true
		})
		lookup, insert := false, false
		if fd := funcDecl(f, "Config", "cert"); fd != nil && fd.Body != nil {
			l := fd.Body.List
			for i, s := range l {
				as, ok := s.(*ast.AssignStmt)
				if !ok || i == 0 || i+1 >= len(l) {
					continue
				}
				if len(as.Rhs) == 1 && isCerts(as.Rhs[0]) {
					lookup = (callIs(l[i-1], "c.certmu.RLock") && callIs(l[i+1], "c.certmu.RUnlock")) ||
						(callIs(l[i-1], "c.certmu.Lock") && callIs(l[i+1], "c.certmu.Unlock"))
				}
				if len(as.Lhs) == 1 && isCerts(as.Lhs[0]) {
					insert = callIs(l[i-1], "c.certmu.Lock") && callIs(l[i+1], "c.certmu.Unlock")
				}
			}
		}
		g.def("certsAccesses", "Nat", strconv.Itoa(accesses))
		g.def("lookupUnderLock", "Bool", strconv.FormatBool(lookup))
		g.def("insertUnderWriteLock", "Bool", strconv.FormatBool(insert))

		// defaults of NewConfig
		validity, org := "", ""
		if fd := funcDecl(f, "", "NewConfig"); fd != nil {
			ast.Inspect(fd, func(n ast.Node) bool {
				kv, ok := n.(*ast.KeyValueExpr)
				if !ok {
					return true
				}
				switch src(kv.Key) {
				case "validity":
					validity = src(kv.Value)
				case "org":
					org = src(kv.Value)
				}
				return true
			})
		}
		g.def("defaultValidity", "String", leanStr(validity))
		g.def("defaultOrg", "String", leanStr(org))

		// ---- what goes into a leaf (the model's `normalise`, `sanFor`, `issue`, `goVerify` rely on these) ----
		// Everything is looked up in `cert` and in the functions of the package reachable from it, so that
		// extracting a helper (newTemplate, stripPort, …) or renaming a local does not change a fact.
		decls := map[string]*ast.FuncDecl{}
		for _, d := range f.Decls {
			if fd, ok := d.(*ast.FuncDecl); ok && fd.Body != nil {
				decls[fd.Name.Name] = fd
			}
		}
		var reach []*ast.FuncDecl
		seen := map[string]bool{}
		var visit func(name string)
		visit = func(name string) {
			fd := decls[name]
			if fd == nil || seen[name] {
				return
			}
			seen[name] = true
			reach = append(reach, fd)
			ast.Inspect(fd.Body, func(n ast.Node) bool {
				c, ok := n.(*ast.CallExpr)
				if !ok {
					return true
				}
				switch fn := c.Fun.(type) {
				case *ast.Ident:
					visit(fn.Name)
				case *ast.SelectorExpr:
					if _, ok := fn.X.(*ast.Ident); ok {
						visit(fn.Sel.Name) // method on the receiver (or pkg.Func: not in decls)
					}
				}
				return true
			})
		}
		visit("cert")
		imported := map[string]bool{}
		for _, im := range f.Imports {
			path, _ := strconv.Unquote(im.Path.Value)
			name := path[strings.LastIndex(path, "/")+1:]
			if im.Name != nil {
				name = im.Name.Name
			}
			imported[name] = true
		}
		isPkgCall := func(e ast.Expr, pkg, fn string) bool {
			c, ok := e.(*ast.CallExpr)
			if !ok {
				return false
			}
			sel, ok := c.Fun.(*ast.SelectorExpr)
			if !ok || sel.Sel.Name != fn {
				return false
			}
			id, ok := sel.X.(*ast.Ident)
			return ok && id.Name == pkg
		}
		// (a) which library functions may rewrite the host string on its way to the cache key / the SAN
		rewriters := map[string]bool{}
		clockReads := 0
		for _, fd := range reach {
			ast.Inspect(fd.Body, func(n ast.Node) bool {
				c, ok := n.(*ast.CallExpr)
				if !ok {
					return true
				}
				if isPkgCall(c, "time", "Now") {
					clockReads++
				}
				if sel, ok := c.Fun.(*ast.SelectorExpr); ok {
					if id, ok := sel.X.(*ast.Ident); ok && imported[id.Name] {
						switch id.Name {
						case "net", "url", "strings", "bytes", "idna", "netip", "path", "textproto", "unicode":
							rewriters[id.Name+"."+sel.Sel.Name] = true
						}
					}
					// a method of a value built from one of those packages, e.g. (&url.URL{…}).Hostname()
					ast.Inspect(sel.X, func(m ast.Node) bool {
						if cl, ok := m.(*ast.CompositeLit); ok {
							if ts, ok := cl.Type.(*ast.SelectorExpr); ok {
								if id, ok := ts.X.(*ast.Ident); ok && imported[id.Name] && id.Name != "x509" && id.Name != "pkix" && id.Name != "tls" {
									rewriters[id.Name+"."+ts.Sel.Name+"."+sel.Sel.Name] = true
								}
							}
						}
						return true
					})
				}
				return true
			})
		}
		var rw []string
		for k := range rewriters {
			rw = append(rw, k)
		}
		sort.Strings(rw)
		g.def("hostFunctions", "List String", leanList(rw))
		g.def("templateClockReads", "Nat", strconv.Itoa(clockReads))

		// (b) the SAN: IPAddresses exactly when net.ParseIP(host) != nil, DNSNames otherwise, nowhere else
		sanWrites := 0
		countSAN := func(e ast.Expr) {
			if sel, ok := e.(*ast.SelectorExpr); ok && (sel.Sel.Name == "IPAddresses" || sel.Sel.Name == "DNSNames") {
				sanWrites++
			}
		}
		for _, fd := range reach { // (NewAuthority's own DNSNames entry is not reachable from cert)
			ast.Inspect(fd.Body, func(n ast.Node) bool {
				switch x := n.(type) {
				case *ast.AssignStmt:
					for _, l := range x.Lhs {
						countSAN(l)
					}
				case *ast.KeyValueExpr:
					if id, ok := x.Key.(*ast.Ident); ok && (id.Name == "IPAddresses" || id.Name == "DNSNames") {
						sanWrites++
					}
				}
				return true
			})
		}
		assignsField := func(b *ast.BlockStmt, field string) (ast.Expr, bool) {
			if b == nil || len(b.List) != 1 {
				return nil, false
			}
			as, ok := b.List[0].(*ast.AssignStmt)
			if !ok || len(as.Lhs) != 1 || len(as.Rhs) != 1 {
				return nil, false
			}
			sel, ok := as.Lhs[0].(*ast.SelectorExpr)
			if !ok || sel.Sel.Name != field {
				return nil, false
			}
			cl, ok := as.Rhs[0].(*ast.CompositeLit)
			if !ok || len(cl.Elts) != 1 {
				return nil, false
			}
			return cl.Elts[0], true
		}
		sanByParseIP := false
		for _, fd := range reach {
			ast.Inspect(fd.Body, func(n ast.Node) bool {
				is, ok := n.(*ast.IfStmt)
				if !ok || is.Init == nil {
					return true
				}
				as, ok := is.Init.(*ast.AssignStmt)
				if !ok || len(as.Lhs) != 1 || len(as.Rhs) != 1 || !isPkgCall(as.Rhs[0], "net", "ParseIP") {
					return true
				}
				ipVar := src(as.Lhs[0])
				arg := src(as.Rhs[0].(*ast.CallExpr).Args[0])
				cond, ok := is.Cond.(*ast.BinaryExpr)
				if !ok || cond.Op != token.NEQ || src(cond.X) != ipVar || src(cond.Y) != "nil" {
					return true
				}
				ipElt, ok1 := assignsField(is.Body, "IPAddresses")
				eb, _ := is.Else.(*ast.BlockStmt)
				dnsElt, ok2 := assignsField(eb, "DNSNames")
				if ok1 && ok2 && src(ipElt) == ipVar && src(dnsElt) == arg {
					sanByParseIP = true
				}
				return true
			})
		}
		g.def("sanByParseIP", "Bool", strconv.FormatBool(sanByParseIP))
		g.def("sanWrites", "Nat", strconv.Itoa(sanWrites))

		// (c) the template: window = now -/+ validity, organisation = the configured one, server-auth usage
		skew := func(e ast.Expr) string {
			c, ok := e.(*ast.CallExpr)
			if !ok || len(c.Args) != 1 {
				return "other"
			}
			sel, ok := c.Fun.(*ast.SelectorExpr)
			if !ok || sel.Sel.Name != "Add" || !isPkgCall(sel.X, "time", "Now") {
				return "other"
			}
			arg, sign := c.Args[0], "+"
			if u, ok := arg.(*ast.UnaryExpr); ok && u.Op == token.SUB {
				arg, sign = u.X, "-"
			}
			if s, ok := arg.(*ast.SelectorExpr); ok && s.Sel.Name == "validity" {
				return "now" + sign + "validity"
			}
			return "other"
		}
		notBefore, notAfter, orgFromCfg, serverAuth := "absent", "absent", false, false
		var verifyKeys []string
		verifyNameIsKey := false
		var dnsParamFn *ast.FuncDecl
		dnsParam := ""
		for _, fd := range reach {
			// the identifier that indexes the cache map in this function
			keyIdent := ""
			ast.Inspect(fd.Body, func(n ast.Node) bool {
				if ix, ok := n.(*ast.IndexExpr); ok && isCerts(ix) {
					keyIdent = src(ix.Index)
				}
				return true
			})
			ast.Inspect(fd.Body, func(n ast.Node) bool {
				switch x := n.(type) {
				case *ast.KeyValueExpr:
					id, ok := x.Key.(*ast.Ident)
					if !ok {
						return true
					}
					switch id.Name {
					case "NotBefore":
						notBefore = skew(x.Value)
					case "NotAfter":
						notAfter = skew(x.Value)
					case "Organization":
						if cl, ok := x.Value.(*ast.CompositeLit); ok && len(cl.Elts) == 1 {
							if s, ok := cl.Elts[0].(*ast.SelectorExpr); ok && s.Sel.Name == "org" {
								orgFromCfg = true
							}
						}
					case "ExtKeyUsage":
						if strings.Contains(src(x.Value), "x509.ExtKeyUsageServerAuth") {
							serverAuth = true
						}
					}
				case *ast.CompositeLit:
					if src(x.Type) == "x509.VerifyOptions" {
						for _, el := range x.Elts {
							if kv, ok := el.(*ast.KeyValueExpr); ok {
								verifyKeys = append(verifyKeys, src(kv.Key))
								if src(kv.Key) == "DNSName" && keyIdent != "" && src(kv.Value) == keyIdent {
									verifyNameIsKey = true
								}
								if src(kv.Key) == "DNSName" && keyIdent == "" {
									// the options are built in a helper: its parameter must be fed the caller's cache key
									dnsParamFn, dnsParam = fd, src(kv.Value)
								}
							}
						}
					}
				}
				return true
			})
		}
		if !verifyNameIsKey && dnsParamFn != nil {
			idx := -1
			k := 0
			for _, fl := range dnsParamFn.Type.Params.List {
				for _, nm := range fl.Names {
					if nm.Name == dnsParam {
						idx = k
					}
					k++
				}
			}
			for _, fd := range reach {
				key := ""
				ast.Inspect(fd.Body, func(n ast.Node) bool {
					if ix, ok := n.(*ast.IndexExpr); ok && isCerts(ix) {
						key = src(ix.Index)
					}
					return true
				})
				ast.Inspect(fd.Body, func(n ast.Node) bool {
					c, ok := n.(*ast.CallExpr)
					if !ok || idx < 0 || idx >= len(c.Args) || key == "" {
						return true
					}
					name := ""
					switch fn := c.Fun.(type) {
					case *ast.SelectorExpr:
						name = fn.Sel.Name
					case *ast.Ident:
						name = fn.Name
					}
					if name == dnsParamFn.Name.Name && src(c.Args[idx]) == key {
						verifyNameIsKey = true
					}
					return true
				})
			}
		}
		sort.Strings(verifyKeys)
		g.def("tmplNotBefore", "String", leanStr(notBefore))
		g.def("tmplNotAfter", "String", leanStr(notAfter))
		g.def("tmplOrgFromConfig", "Bool", strconv.FormatBool(orgFromCfg))
		g.def("tmplServerAuth", "Bool", strconv.FormatBool(serverAuth))
		g.def("verifyOptionKeys", "List String", leanList(verifyKeys))
		g.def("verifyNameIsCacheKey", "Bool", strconv.FormatBool(verifyNameIsKey))

		// (c') the served tls.Certificate: which fields the literal sets, and whether anything reachable
		// writes one of the fields by which crypto/tls restricts the clients a certificate may serve
		// (model: `usable` — an unrestricted RSA leaf serves every client that offers an RSA scheme).
		var servedKeys []string
		restrictWrites := 0
		for _, fd := range reach {
			ast.Inspect(fd.Body, func(n ast.Node) bool {
				switch x := n.(type) {
				case *ast.CompositeLit:
					if src(x.Type) == "tls.Certificate" {
						for _, el := range x.Elts {
							if kv, ok := el.(*ast.KeyValueExpr); ok {
								servedKeys = append(servedKeys, src(kv.Key))
							} else {
								servedKeys = append(servedKeys, "<positional>")
							}
						}
					}
				case *ast.AssignStmt:
					for _, l := range x.Lhs {
						if se, ok := l.(*ast.SelectorExpr); ok && (se.Sel.Name == "SupportedSignatureAlgorithms") {
							restrictWrites++
						}
					}
				}
				return true
			})
		}
		sort.Strings(servedKeys)
		g.def("servedCertKeys", "List String", leanList(servedKeys))
		g.def("servedCertRestrictWrites", "Nat", strconv.Itoa(restrictWrites))

		// (d) a cache hit is handed out only from inside the success branch of its Verify: every `return <hit>, …`
		// (hit = the variable read from the map, before it is reassigned to the fresh leaf) has an enclosing
		// `if _, err := ….Verify(…); err == nil { … }` whose body contains it.
		verified, unverified := 0, 0
		for _, fd := range reach {
			hitVar := ""
			var limit token.Pos
			ast.Inspect(fd.Body, func(n ast.Node) bool {
				as, ok := n.(*ast.AssignStmt)
				if !ok || len(as.Lhs) == 0 {
					return true
				}
				if hitVar == "" && len(as.Rhs) == 1 && isCerts(as.Rhs[0]) {
					hitVar = src(as.Lhs[0])
				} else if hitVar != "" && limit == 0 && as.Tok == token.ASSIGN && src(as.Lhs[0]) == hitVar {
					limit = as.Pos()
				}
				return true
			})
			if hitVar == "" {
				continue
			}
			// the guard: an `if` whose init or condition verifies the hit — `hit.Leaf.Verify(…)` directly, or a
			// function of this package that does (an extracted helper) — and whose BODY holds the return
			var hasVerify func(n ast.Node, depth int) bool
			hasVerify = func(n ast.Node, depth int) bool {
				found := false
				ast.Inspect(n, func(m ast.Node) bool {
					c, ok := m.(*ast.CallExpr)
					if !ok || found {
						return !found
					}
					name := ""
					switch fn := c.Fun.(type) {
					case *ast.SelectorExpr:
						name = fn.Sel.Name
					case *ast.Ident:
						name = fn.Name
					}
					if name == "Verify" {
						found = true
					} else if d := decls[name]; d != nil && depth < 3 && hasVerify(d.Body, depth+1) {
						found = true
					}
					return !found
				})
				return found
			}
			isVerifyGuard := func(is *ast.IfStmt) bool {
				if is.Init != nil && hasVerify(is.Init, 0) {
					if cond, ok := is.Cond.(*ast.BinaryExpr); ok && cond.Op == token.EQL && src(cond.Y) == "nil" {
						return true
					}
				}
				if u, ok := is.Cond.(*ast.UnaryExpr); ok && u.Op == token.NOT {
					return false
				}
				return hasVerify(is.Cond, 0)
			}
			var stack []ast.Node
			ast.Inspect(fd.Body, func(n ast.Node) bool {
				if n == nil {
					stack = stack[:len(stack)-1]
					return true
				}
				stack = append(stack, n)
				rs, ok := n.(*ast.ReturnStmt)
				if !ok || len(rs.Results) == 0 || src(rs.Results[0]) != hitVar || (limit != 0 && rs.Pos() > limit) {
					return true
				}
				guarded := false
				for i, anc := range stack {
					if is, ok := anc.(*ast.IfStmt); ok && isVerifyGuard(is) && i+1 < len(stack) && stack[i+1] == ast.Node(is.Body) {
						guarded = true
					}
				}
				if guarded {
					verified++
				} else {
					unverified++
				}
				return true
			})
		}
		// (e) NewConfig: the leaf key (`priv:` field) is generated, never taken from the CA key parameter, and that
		// parameter flows into the `capriv:` field only.
		leafKeyGenerated := false
		var caKeyFlows []string
		if fd := funcDecl(f, "", "NewConfig"); fd != nil && fd.Body != nil && fd.Type.Params != nil && len(fd.Type.Params.List) >= 2 {
			pl := fd.Type.Params.List[len(fd.Type.Params.List)-1]
			caParam := ""
			if len(pl.Names) > 0 {
				caParam = pl.Names[len(pl.Names)-1].Name
			}
			privVar := ""
			ast.Inspect(fd.Body, func(n ast.Node) bool {
				if kv, ok := n.(*ast.KeyValueExpr); ok {
					if id, ok := kv.Key.(*ast.Ident); ok {
						if id.Name == "priv" {
							privVar = src(kv.Value)
						}
						uses := false
						ast.Inspect(kv.Value, func(m ast.Node) bool {
							if v, ok := m.(*ast.Ident); ok && v.Name == caParam {
								uses = true
							}
							return true
						})
						if uses {
							caKeyFlows = append(caKeyFlows, id.Name)
						}
					}
				}
				return true
			})
			// every definition of privVar is `… := <pkg>.GenerateKey(…)`; any other use of the CA parameter counts as a flow
			defs, gen := 0, 0
			ast.Inspect(fd.Body, func(n ast.Node) bool {
				switch x := n.(type) {
				case *ast.AssignStmt:
					for i, l := range x.Lhs {
						if src(l) != privVar || privVar == "" {
							continue
						}
						defs++
						rhs := x.Rhs[0]
						if len(x.Rhs) == len(x.Lhs) {
							rhs = x.Rhs[i]
						}
						if c, ok := rhs.(*ast.CallExpr); ok {
							if sel, ok := c.Fun.(*ast.SelectorExpr); ok && sel.Sel.Name == "GenerateKey" {
								gen++
							}
						}
					}
					for _, rh := range x.Rhs {
						ast.Inspect(rh, func(m ast.Node) bool {
							if v, ok := m.(*ast.Ident); ok && v.Name == caParam {
								caKeyFlows = append(caKeyFlows, "var:"+src(x.Lhs[0]))
							}
							return true
						})
					}
				}
				return true
			})
			leafKeyGenerated = privVar != "" && defs > 0 && defs == gen
		}
		sort.Strings(caKeyFlows)
		g.def("leafKeyGenerated", "Bool", strconv.FormatBool(leafKeyGenerated))
		g.def("caKeyFlowsTo", "List String", leanList(caKeyFlows))

		g.def("verifiedHitReturns", "Nat", strconv.Itoa(verified))
		g.def("unverifiedHitReturns", "Nat", strconv.Itoa(unverified))
	})
}
