package main

import (
	"go/ast"
	"strconv"
)

// C06: lock discipline around the certificate cache of mitm.Config (the basis of the two-step
// atomic semantics of the concurrency theorem) and the defaults of NewConfig.
func init() {
	extractors = append(extractors, func() {
		f := parse("mitm/mitm.go")
		g := newGen("Mitm")

		isCerts := func(e ast.Expr) bool {
			ix, ok := e.(*ast.IndexExpr)
			if !ok {
				return false
			}
			sel, ok := ix.X.(*ast.SelectorExpr)
			return ok && sel.Sel.Name == "certs"
		}
		callIs := func(s ast.Stmt, names ...string) bool {
			es, ok := s.(*ast.ExprStmt)
			if !ok {
				return false
			}
			c, ok := es.X.(*ast.CallExpr)
			if !ok {
				return false
			}
			for _, n := range names {
				if src(c.Fun) == n {
					return true
				}
			}
			return false
		}
		accesses := 0
		ast.Inspect(f, func(n ast.Node) bool {
			if e, ok := n.(ast.Expr); ok && isCerts(e) {
				accesses++
			}
			return true
		})
		lookup, insert := false, false
		if fd := funcDecl(f, "Config", "cert"); fd != nil && fd.Body != nil {
			l := fd.Body.List
			for i, s := range l {
				as, ok := s.(*ast.AssignStmt)
				if !ok || i == 0 || i+1 >= len(l) {
					continue
				}
				if len(as.Rhs) == 1 && isCerts(as.Rhs[0]) {
					lookup = (callIs(l[i-1], "c.certmu.RLock") && callIs(l[i+1], "c.certmu.RUnlock")) ||
						(callIs(l[i-1], "c.certmu.Lock") && callIs(l[i+1], "c.certmu.Unlock"))
				}
				if len(as.Lhs) == 1 && isCerts(as.Lhs[0]) {
					insert = callIs(l[i-1], "c.certmu.Lock") && callIs(l[i+1], "c.certmu.Unlock")
				}
			}
		}
		g.def("certsAccesses", "Nat", strconv.Itoa(accesses))
		g.def("lookupUnderLock", "Bool", strconv.FormatBool(lookup))
		g.def("insertUnderWriteLock", "Bool", strconv.FormatBool(insert))

		// defaults of NewConfig
		validity, org := "", ""
		if fd := funcDecl(f, "", "NewConfig"); fd != nil {
			ast.Inspect(fd, func(n ast.Node) bool {
				kv, ok := n.(*ast.KeyValueExpr)
				if !ok {
					return true
				}
				switch src(kv.Key) {
				case "validity":
					validity = src(kv.Value)
				case "org":
					org = src(kv.Value)
				}
				return true
			})
		}
		g.def("defaultValidity", "String", leanStr(validity))
		g.def("defaultOrg", "String", leanStr(org))
	})
}
