package main

// Facts for C13 (Generated/Verify.lean): structural facts of the verification walks that the
// Lean model Model/Verify.lean is parameterised by.
//   - which of filter.Filter's four branch fields each Verify*/Reset* method visits, in order
//   - whether MultiError.Add unwraps a nested *MultiError
//   - whether every MultiError method takes the mutex
//   - whether each verifier's Modify* method leaves before recording when IsAPIRequest() holds

import (
	"fmt"
	"go/ast"
	"go/token"
	"sort"
	"strings"
)

func init() { extractors = append(extractors, extractC13) }

// assertedFields lists, in source order, the field names x of every type assertion `recv.x.(T)`.
func assertedFields(fd *ast.FuncDecl) []string {
	var out []string
	if fd == nil || fd.Body == nil {
		return out
	}
	ast.Inspect(fd.Body, func(n ast.Node) bool {
		ta, ok := n.(*ast.TypeAssertExpr)
		if !ok {
			return true
		}
		if sel, ok := ta.X.(*ast.SelectorExpr); ok {
			if _, ok := sel.X.(*ast.Ident); ok {
				out = append(out, sel.Sel.Name)
			}
		}
		return true
	})
	return out
}

func containsCall(n ast.Node, suffix string) bool {
	found := false
	ast.Inspect(n, func(x ast.Node) bool {
		if c, ok := x.(*ast.CallExpr); ok {
			if s := src(c.Fun); s == suffix || strings.HasSuffix(s, "."+suffix) {
				found = true
			}
		}
		return !found
	})
	return found
}

// skipsAPI: a top-level `if … IsAPIRequest() … { return nil }` precedes every statement that
// records (a call of .Add or an assignment to a field of the receiver).
func skipsAPI(fd *ast.FuncDecl) bool {
	if fd == nil || fd.Body == nil {
		return false
	}
	for _, st := range fd.Body.List {
		if is, ok := st.(*ast.IfStmt); ok {
			guard := containsCall(is.Cond, "IsAPIRequest")
			if guard && len(is.Body.List) == 1 && is.Else == nil {
				if r, ok := is.Body.List[0].(*ast.ReturnStmt); ok && len(r.Results) == 1 && src(r.Results[0]) == "nil" {
					return true
				}
			}
		}
		records := containsCall(st, "Add")
		ast.Inspect(st, func(x ast.Node) bool {
			if as, ok := x.(*ast.AssignStmt); ok && as.Tok == token.ASSIGN {
				for _, l := range as.Lhs {
					if _, ok := l.(*ast.SelectorExpr); ok {
						records = true
					}
				}
			}
			return true
		})
		if records {
			return false
		}
	}
	return false
}

// ---------------------------------------------------------------------------------------------
// lock facts: per method, every access to a field of the receiver and every call of a walk method
// (Modify*/Verify*/Reset* of a child, Add/Empty/Errors/Reset of a MultiError), each with the
// receiver's mutexes held at that point and their mode. Held = locked by `recv.<mu>.Lock()` /
// `RLock()` earlier in the same or an enclosing block and not yet released by an explicit
// `Unlock()`/`RUnlock()` statement (a deferred unlock releases at return). Names of local
// variables, helper expressions and statement order are not part of the facts.

type lockAcc struct {
	what  string // "f:<field>" or "c:<method called>"
	write bool
	held  []string // "<mutex>:W" / "<mutex>:R", sorted
}

var walkCalls = map[string]bool{"ModifyRequest": true, "ModifyResponse": true, "VerifyRequests": true, "VerifyResponses": true,
	"ResetRequestVerifications": true, "ResetResponseVerifications": true, "Add": true, "Empty": true, "Errors": true, "Reset": true}

type lockScan struct {
	recv  string
	out   []lockAcc
	seen  map[string]bool
	file  *ast.File // helpers: methods of the same receiver type called on the receiver are scanned in place
	typ   string
	depth int
}

func (ls *lockScan) emit(what string, write bool, held map[string]string) {
	var h []string
	for m, mode := range held {
		h = append(h, m+":"+mode)
	}
	sort.Strings(h)
	k := fmt.Sprint(what, write, h)
	if ls.seen[k] {
		return
	}
	ls.seen[k] = true
	ls.out = append(ls.out, lockAcc{what, write, h})
}

// lockCall recognises recv.<mu>.Lock() etc.
func (ls *lockScan) lockCall(e ast.Expr) (mu, op string, ok bool) {
	c, isCall := e.(*ast.CallExpr)
	if !isCall {
		return
	}
	sel, isSel := c.Fun.(*ast.SelectorExpr)
	if !isSel {
		return
	}
	switch sel.Sel.Name {
	case "Lock", "RLock", "Unlock", "RUnlock":
	default:
		return
	}
	in, isSel := sel.X.(*ast.SelectorExpr)
	if !isSel {
		return
	}
	if id, isID := in.X.(*ast.Ident); !isID || id.Name != ls.recv {
		return
	}
	return in.Sel.Name, sel.Sel.Name, true
}

// exprs records the accesses inside an expression or simple statement (no lock statements inside).
func (ls *lockScan) exprs(n ast.Node, held map[string]string) {
	if n == nil {
		return
	}
	writes := map[*ast.SelectorExpr]bool{}
	ast.Inspect(n, func(x ast.Node) bool {
		switch st := x.(type) {
		case *ast.AssignStmt:
			for _, l := range st.Lhs {
				if ix, ok := l.(*ast.IndexExpr); ok {
					l = ix.X
				}
				if sel, ok := l.(*ast.SelectorExpr); ok {
					writes[sel] = true
				}
			}
		case *ast.IncDecStmt:
			if sel, ok := st.X.(*ast.SelectorExpr); ok {
				writes[sel] = true
			}
		}
		return true
	})
	ast.Inspect(n, func(x ast.Node) bool {
		switch e := x.(type) {
		case *ast.FuncLit:
			return false
		case *ast.CallExpr:
			if _, _, isLock := ls.lockCall(e); isLock {
				return false
			}
			if sel, ok := e.Fun.(*ast.SelectorExpr); ok {
				if id, isID := sel.X.(*ast.Ident); isID && id.Name == ls.recv && ls.file != nil && ls.depth < 3 {
					// a helper method of the receiver: what it does happens with the current mutexes held
					if h := funcDecl(ls.file, ls.typ, sel.Sel.Name); h != nil && h.Body != nil && len(h.Recv.List[0].Names) == 1 {
						sub := &lockScan{recv: h.Recv.List[0].Names[0].Name, seen: ls.seen, file: ls.file, typ: ls.typ, depth: ls.depth + 1, out: ls.out}
						sub.block(h.Body.List, copyHeld(held))
						ls.out = sub.out
						for _, a := range e.Args {
							ls.exprs(a, held)
						}
						return false
					}
				}
				if walkCalls[sel.Sel.Name] {
					ls.emit("c:"+sel.Sel.Name, false, held)
				}
			}
		case *ast.SelectorExpr:
			if id, ok := e.X.(*ast.Ident); ok && id.Name == ls.recv {
				ls.emit("f:"+e.Sel.Name, writes[e], held)
			}
		}
		return true
	})
}

func copyHeld(h map[string]string) map[string]string {
	c := map[string]string{}
	for k, v := range h {
		c[k] = v
	}
	return c
}

func (ls *lockScan) block(list []ast.Stmt, held map[string]string) {
	for _, st := range list {
		ls.stmt(st, held)
	}
}

func (ls *lockScan) stmt(st ast.Stmt, held map[string]string) {
	switch s := st.(type) {
	case *ast.ExprStmt:
		if mu, op, ok := ls.lockCall(s.X); ok {
			switch op {
			case "Lock":
				held[mu] = "W"
			case "RLock":
				held[mu] = "R"
			default:
				delete(held, mu)
			}
			return
		}
		ls.exprs(s, held)
	case *ast.DeferStmt:
		if _, _, ok := ls.lockCall(s.Call); ok {
			return // released at return: held for the rest of the method
		}
		ls.exprs(s, held)
	case *ast.BlockStmt:
		ls.block(s.List, copyHeld(held))
	case *ast.IfStmt:
		ls.exprs(s.Init, held)
		ls.exprs(s.Cond, held)
		ls.block(s.Body.List, copyHeld(held))
		if s.Else != nil {
			ls.stmt(s.Else, copyHeld(held))
		}
	case *ast.ForStmt:
		ls.exprs(s.Init, held)
		ls.exprs(s.Cond, held)
		ls.exprs(s.Post, held)
		ls.block(s.Body.List, copyHeld(held))
	case *ast.RangeStmt:
		ls.exprs(s.X, held)
		ls.block(s.Body.List, copyHeld(held))
	case *ast.SwitchStmt:
		ls.exprs(s.Init, held)
		ls.exprs(s.Tag, held)
		for _, c := range s.Body.List {
			cc := c.(*ast.CaseClause)
			for _, e := range cc.List {
				ls.exprs(e, held)
			}
			ls.block(cc.Body, copyHeld(held))
		}
	case *ast.TypeSwitchStmt:
		ls.exprs(s.Init, held)
		ls.exprs(s.Assign, held)
		for _, c := range s.Body.List {
			ls.block(c.(*ast.CaseClause).Body, copyHeld(held))
		}
	default:
		ls.exprs(st, held)
	}
}

func lockAccesses(f *ast.File, typ string, fd *ast.FuncDecl) []lockAcc {
	if fd == nil || fd.Body == nil || fd.Recv == nil || len(fd.Recv.List) != 1 || len(fd.Recv.List[0].Names) != 1 {
		return nil
	}
	ls := &lockScan{recv: fd.Recv.List[0].Names[0].Name, seen: map[string]bool{}, file: f, typ: typ}
	ls.block(fd.Body.List, map[string]string{})
	return ls.out
}

func leanAccs(accs []lockAcc) string {
	var xs []string
	for _, a := range accs {
		var hs []string
		for _, h := range a.held {
			p := strings.SplitN(h, ":", 2)
			hs = append(hs, fmt.Sprintf("(%s, %s)", leanStr(p[0]), leanBool(p[1] == "W")))
		}
		xs = append(xs, fmt.Sprintf("(%s, %s, %s, [%s])", leanStr(a.what[2:]), leanBool(strings.HasPrefix(a.what, "c:")), leanBool(a.write), strings.Join(hs, ", ")))
	}
	return "[" + strings.Join(xs, ", ") + "]"
}

func leanBool(b bool) string {
	if b {
		return "true"
	}
	return "false"
}

func extractC13() {
	g := newGen("Verify")
	ff := parse("filter/filter.go")
	for _, m := range [][2]string{{"VerifyRequests", "filterVerifyReq"}, {"VerifyResponses", "filterVerifyRes"},
		{"ResetRequestVerifications", "filterResetReq"}, {"ResetResponseVerifications", "filterResetRes"}} {
		g.def(m[1], "List String", leanList(assertedFields(funcDecl(ff, "Filter", m[0]))))
	}

	mf := parse("multierror.go")
	add := funcDecl(mf, "MultiError", "Add")
	// Add unwraps: inside `if x, ok := err.(*MultiError); ok { … }` the elements of x (x.Errors() or x.errs,
	// directly or through a local) are appended one by one (append with an ellipsis) and the body
	// returns before the plain append of err itself (or that append sits in the else branch).
	flattens := false
	if add != nil {
		ast.Inspect(add.Body, func(n ast.Node) bool {
			is, ok := n.(*ast.IfStmt)
			if !ok || is.Init == nil {
				return true
			}
			as, ok := is.Init.(*ast.AssignStmt)
			if !ok || len(as.Lhs) != 2 || len(as.Rhs) != 1 {
				return true
			}
			ta, ok := as.Rhs[0].(*ast.TypeAssertExpr)
			if !ok || ta.Type == nil || src(ta.Type) != "*MultiError" {
				return true
			}
			x := src(as.Lhs[0])
			spread, elems, returns := false, false, false
			ast.Inspect(is.Body, func(m ast.Node) bool {
				switch e := m.(type) {
				case *ast.CallExpr:
					if src(e.Fun) == "append" && e.Ellipsis.IsValid() {
						spread = true
					}
					if src(e.Fun) == x+".Errors" {
						elems = true
					}
				case *ast.SelectorExpr:
					if src(e) == x+".errs" {
						elems = true
					}
				case *ast.RangeStmt:
					if strings.HasPrefix(src(e.X), x+".") {
						spread = true
					}
				case *ast.ReturnStmt:
					returns = true
				}
				return true
			})
			if spread && elems && (returns || is.Else != nil) {
				flattens = true
			}
			return true
		})
	}
	g.def("multiErrorAddFlattens", "Bool", leanBool(flattens))

	var locked []string
	for _, d := range mf.Decls {
		fd, ok := d.(*ast.FuncDecl)
		if !ok || fd.Recv == nil || fd.Body == nil {
			continue
		}
		if funcDecl(mf, "MultiError", fd.Name.Name) != fd {
			continue
		}
		l := false
		if len(fd.Body.List) > 0 {
			first := src(fd.Body.List[0])
			l = strings.HasSuffix(first, ".mu.RLock()") || strings.HasSuffix(first, ".mu.Lock()")
		}
		locked = append(locked, fmt.Sprintf("(%s, %s)", leanStr(fd.Name.Name), leanBool(l)))
	}
	g.def("multiErrorLocked", "List (String × Bool)", "["+strings.Join(locked, ", ")+"]")

	// lock facts
	six := []string{"ModifyRequest", "ModifyResponse", "VerifyRequests", "VerifyResponses", "ResetRequestVerifications", "ResetResponseVerifications"}
	reqs := []string{"ModifyRequest", "VerifyRequests", "ResetRequestVerifications"}
	ress := []string{"ModifyResponse", "VerifyResponses", "ResetResponseVerifications"}
	var lf []string
	for _, t := range []struct {
		key, file, typ string
		methods        []string
	}{
		{"martianhttp.Modifier", "martianhttp/martianhttp.go", "Modifier", six},
		{"fifo.Group", "fifo/fifo_group.go", "Group", six},
		{"filter.Filter", "filter/filter.go", "Filter", six},
		{"priority.Group", "priority/priority_group.go", "Group", []string{"ModifyRequest", "ModifyResponse"}},
		{"status.Verifier", "status/status_verifier.go", "Verifier", ress},
		{"header.Verifier", "header/header_verifier.go", "verifier", six},
		{"method.Verifier", "method/method_verifier.go", "verifier", reqs},
		{"url.Verifier", "martianurl/url_verifier.go", "Verifier", reqs},
		{"querystring.Verifier", "querystring/query_string_verifier.go", "verifier", reqs},
		{"failure.Verifier", "failure/failure_verifier.go", "verifier", reqs},
		{"pingback.Verifier", "pingback/pingback_verifier.go", "Verifier", reqs},
	} {
		f := parse(t.file)
		for _, m := range t.methods {
			lf = append(lf, fmt.Sprintf("(%s, %s)", leanStr(t.key+"."+m), leanAccs(lockAccesses(f, t.typ, funcDecl(f, t.typ, m)))))
		}
	}
	var mlf []string
	for _, d := range mf.Decls {
		if fd, ok := d.(*ast.FuncDecl); ok && fd.Recv != nil && funcDecl(mf, "MultiError", fd.Name.Name) == fd {
			mlf = append(mlf, fmt.Sprintf("(%s, %s)", leanStr(fd.Name.Name), leanAccs(lockAccesses(mf, "MultiError", fd))))
		}
	}
	// entry = (name, isCall, isWrite, [(mutex, heldForWriting)])
	g.def("lockFacts", "List (String × List (String × Bool × Bool × List (String × Bool)))", "[\n  "+strings.Join(lf, ",\n  ")+"]")
	g.def("multiErrorLockFacts", "List (String × List (String × Bool × Bool × List (String × Bool)))", "[\n  "+strings.Join(mlf, ",\n  ")+"]")

	var api []string
	for _, v := range [][4]string{
		{"status.res", "status/status_verifier.go", "Verifier", "ModifyResponse"},
		{"header.req", "header/header_verifier.go", "verifier", "ModifyRequest"},
		{"header.res", "header/header_verifier.go", "verifier", "ModifyResponse"},
		{"method.req", "method/method_verifier.go", "verifier", "ModifyRequest"},
		{"url.req", "martianurl/url_verifier.go", "Verifier", "ModifyRequest"},
		{"qs.req", "querystring/query_string_verifier.go", "verifier", "ModifyRequest"},
		{"failure.req", "failure/failure_verifier.go", "verifier", "ModifyRequest"},
		{"pingback.req", "pingback/pingback_verifier.go", "Verifier", "ModifyRequest"},
	} {
		api = append(api, fmt.Sprintf("(%s, %s)", leanStr(v[0]), leanBool(skipsAPI(funcDecl(parse(v[1]), v[2], v[3])))))
	}
	g.def("skipsApi", "List (String × Bool)", "["+strings.Join(api, ", ")+"]")
}
