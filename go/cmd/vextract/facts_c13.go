package main

// Facts for C13 (Generated/Verify.lean): structural facts of the verification walks that the
// Lean model Model/Verify.lean is parameterised by.
//   - which of filter.Filter's four branch fields each Verify*/Reset* method visits, in order
//   - whether MultiError.Add unwraps a nested *MultiError
//   - whether every MultiError method takes the mutex
//   - whether each verifier's Modify* method leaves before recording when IsAPIRequest() holds

import (
	"fmt"
	"go/ast"
	"go/token"
	"strings"
)

func init() { extractors = append(extractors, extractC13) }

// assertedFields lists, in source order, the field names x of every type assertion `recv.x.(T)`.
func assertedFields(fd *ast.FuncDecl) []string {
	var out []string
	if fd == nil || fd.Body == nil {
		return out
	}
	ast.Inspect(fd.Body, func(n ast.Node) bool {
		ta, ok := n.(*ast.TypeAssertExpr)
		if !ok {
			return true
		}
		if sel, ok := ta.X.(*ast.SelectorExpr); ok {
			if _, ok := sel.X.(*ast.Ident); ok {
				out = append(out, sel.Sel.Name)
			}
		}
		return true
	})
	return out
}

func containsCall(n ast.Node, suffix string) bool {
	found := false
	ast.Inspect(n, func(x ast.Node) bool {
		if c, ok := x.(*ast.CallExpr); ok {
			if s := src(c.Fun); s == suffix || strings.HasSuffix(s, "."+suffix) {
				found = true
			}
		}
		return !found
	})
	return found
}

// skipsAPI: a top-level `if … IsAPIRequest() … { return nil }` precedes every statement that
// records (a call of .Add or an assignment to a field of the receiver).
func skipsAPI(fd *ast.FuncDecl) bool {
	if fd == nil || fd.Body == nil {
		return false
	}
	for _, st := range fd.Body.List {
		if is, ok := st.(*ast.IfStmt); ok {
			guard := containsCall(is.Cond, "IsAPIRequest")
			if guard && len(is.Body.List) == 1 && is.Else == nil {
				if r, ok := is.Body.List[0].(*ast.ReturnStmt); ok && len(r.Results) == 1 && src(r.Results[0]) == "nil" {
					return true
				}
			}
		}
		records := containsCall(st, "Add")
		ast.Inspect(st, func(x ast.Node) bool {
			if as, ok := x.(*ast.AssignStmt); ok && as.Tok == token.ASSIGN {
				for _, l := range as.Lhs {
					if _, ok := l.(*ast.SelectorExpr); ok {
						records = true
					}
				}
			}
			return true
		})
		if records {
			return false
		}
	}
	return false
}

func leanBool(b bool) string {
	if b {
		return "true"
	}
	return "false"
}

func extractC13() {
	g := newGen("Verify")
	ff := parse("filter/filter.go")
	for _, m := range [][2]string{{"VerifyRequests", "filterVerifyReq"}, {"VerifyResponses", "filterVerifyRes"},
		{"ResetRequestVerifications", "filterResetReq"}, {"ResetResponseVerifications", "filterResetRes"}} {
		g.def(m[1], "List String", leanList(assertedFields(funcDecl(ff, "Filter", m[0]))))
	}

	mf := parse("multierror.go")
	add := funcDecl(mf, "MultiError", "Add")
	flattens := false
	if add != nil {
		asserts := false
		ast.Inspect(add.Body, func(n ast.Node) bool {
			if ta, ok := n.(*ast.TypeAssertExpr); ok && ta.Type != nil && src(ta.Type) == "*MultiError" {
				asserts = true
			}
			if c, ok := n.(*ast.CallExpr); ok && src(c.Fun) == "append" && c.Ellipsis.IsValid() && len(c.Args) == 2 && strings.HasSuffix(src(c.Args[1]), ".Errors()") {
				flattens = true
			}
			return true
		})
		flattens = flattens && asserts
	}
	g.def("multiErrorAddFlattens", "Bool", leanBool(flattens))

	var locked []string
	for _, d := range mf.Decls {
		fd, ok := d.(*ast.FuncDecl)
		if !ok || fd.Recv == nil || fd.Body == nil {
			continue
		}
		if funcDecl(mf, "MultiError", fd.Name.Name) != fd {
			continue
		}
		l := false
		if len(fd.Body.List) > 0 {
			first := src(fd.Body.List[0])
			l = strings.HasSuffix(first, ".mu.RLock()") || strings.HasSuffix(first, ".mu.Lock()")
		}
		locked = append(locked, fmt.Sprintf("(%s, %s)", leanStr(fd.Name.Name), leanBool(l)))
	}
	g.def("multiErrorLocked", "List (String × Bool)", "["+strings.Join(locked, ", ")+"]")

	var api []string
	for _, v := range [][4]string{
		{"status.res", "status/status_verifier.go", "Verifier", "ModifyResponse"},
		{"header.req", "header/header_verifier.go", "verifier", "ModifyRequest"},
		{"header.res", "header/header_verifier.go", "verifier", "ModifyResponse"},
		{"method.req", "method/method_verifier.go", "verifier", "ModifyRequest"},
		{"url.req", "martianurl/url_verifier.go", "Verifier", "ModifyRequest"},
		{"qs.req", "querystring/query_string_verifier.go", "verifier", "ModifyRequest"},
		{"failure.req", "failure/failure_verifier.go", "verifier", "ModifyRequest"},
		{"pingback.req", "pingback/pingback_verifier.go", "Verifier", "ModifyRequest"},
	} {
		api = append(api, fmt.Sprintf("(%s, %s)", leanStr(v[0]), leanBool(skipsAPI(funcDecl(parse(v[1]), v[2], v[3])))))
	}
	g.def("skipsApi", "List (String × Bool)", "["+strings.Join(api, ", ")+"]")
}
