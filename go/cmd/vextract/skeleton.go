package main

import (
	"go/ast"
	"strings"
)

// skeleton renders the control skeleton of a block as a flat token list, in source order:
//
//	"call f"            a call of one of the named functions (f = source text of the callee)
//	"defer f" / "go f"  deferred / spawned call of a named function
//	"set x = e"         an assignment whose left-hand side is one of the named places
//	"return e"          every return statement
//	"if c {" … "}"      an if statement, kept only when its condition or its body produced a token
//	"else {" … "}"
//	"for {" … "}"       loops, same rule
//
// Everything else (logging, declarations of temporaries, comments) is dropped, so renaming a
// temporary or adding a log line does not change the skeleton, while moving, adding or removing a
// modelled call, a return or a guarded branch does.
type skel struct {
	calls  map[string]bool
	places map[string]bool
	arg0   map[string]bool // calls rendered with their first argument (status codes, sizes)
}

func newSkel(calls, places []string) *skel {
	s := &skel{calls: map[string]bool{}, places: map[string]bool{}, arg0: map[string]bool{}}
	for _, c := range calls {
		s.calls[c] = true
	}
	for _, p := range places {
		s.places[p] = true
	}
	return s
}

func oneLine(s string) string { return strings.Join(strings.Fields(s), " ") }

// callsIn lists the named calls inside an expression or simple statement, innermost first is not
// needed: source order of the call's position is what ast.Inspect gives.
func (s *skel) callsIn(n ast.Node) []string {
	var out []string
	if n == nil {
		return out
	}
	ast.Inspect(n, func(x ast.Node) bool {
		switch c := x.(type) {
		case *ast.FuncLit:
			return false
		case *ast.CallExpr:
			if f := oneLine(src(c.Fun)); s.calls[f] {
				if s.arg0[f] && len(c.Args) > 0 {
					f += "(" + oneLine(src(c.Args[0])) + ")"
				}
				out = append(out, "call "+f)
			}
		}
		return true
	})
	return out
}

func (s *skel) mentions(e ast.Expr) bool {
	if e == nil {
		return false
	}
	found := false
	ast.Inspect(e, func(x ast.Node) bool {
		switch c := x.(type) {
		case *ast.CallExpr:
			if s.calls[oneLine(src(c.Fun))] {
				found = true
			}
		case *ast.SelectorExpr:
			if s.places[oneLine(src(c))] {
				found = true
			}
		case *ast.Ident:
			if s.places[c.Name] {
				found = true
			}
		}
		return !found
	})
	return found
}

func (s *skel) block(b *ast.BlockStmt) []string {
	var out []string
	if b == nil {
		return out
	}
	for _, st := range b.List {
		out = append(out, s.stmt(st)...)
	}
	return out
}

func (s *skel) stmt(st ast.Stmt) []string {
	var out []string
	switch n := st.(type) {
	case *ast.BlockStmt:
		return s.block(n)
	case *ast.ExprStmt:
		return s.callsIn(n.X)
	case *ast.AssignStmt:
		for _, r := range n.Rhs {
			if fl, ok := r.(*ast.FuncLit); ok {
				// a local closure: its body is rendered under the name it is bound to
				inner := s.block(fl.Body)
				if len(inner) > 0 && len(n.Lhs) == 1 {
					out = append(out, "func "+oneLine(src(n.Lhs[0]))+" {")
					out = append(out, inner...)
					out = append(out, "}")
				}
				return out
			}
			out = append(out, s.callsIn(r)...)
		}
		for i, l := range n.Lhs {
			if p := oneLine(src(l)); s.places[p] {
				rhs := ""
				if len(n.Rhs) == len(n.Lhs) {
					rhs = oneLine(src(n.Rhs[i]))
				} else if len(n.Rhs) == 1 {
					rhs = oneLine(src(n.Rhs[0]))
				}
				out = append(out, "set "+p+" = "+rhs)
			}
		}
		return out
	case *ast.DeclStmt:
		return s.callsIn(n)
	case *ast.DeferStmt:
		if f := oneLine(src(n.Call.Fun)); s.calls[f] {
			return []string{"defer " + f}
		}
		return nil
	case *ast.GoStmt:
		if f := oneLine(src(n.Call.Fun)); s.calls[f] {
			return []string{"go " + f + "(" + argList(n.Call) + ")"}
		}
		if fl, ok := n.Call.Fun.(*ast.FuncLit); ok {
			inner := s.block(fl.Body)
			if len(inner) > 0 {
				out = append(out, "go func {")
				out = append(out, inner...)
				out = append(out, "}")
			}
		}
		return out
	case *ast.ReturnStmt:
		var rs []string
		for _, r := range n.Results {
			out = append(out, s.callsIn(r)...)
			rs = append(rs, oneLine(src(r)))
		}
		return append(out, strings.TrimSpace("return "+strings.Join(rs, ", ")))
	case *ast.IfStmt:
		if n.Init != nil {
			out = append(out, s.stmt(n.Init)...)
		}
		body := s.block(n.Body)
		var els []string
		if n.Else != nil {
			els = s.stmt(n.Else)
		}
		condCalls := s.callsIn(n.Cond)
		if len(body) == 0 && len(els) == 0 && !s.mentions(n.Cond) {
			return append(out, condCalls...)
		}
		head := "if "
		if n.Init != nil {
			head += oneLine(src(n.Init)) + "; "
		}
		out = append(out, head+oneLine(src(n.Cond))+" {")
		out = append(out, body...)
		out = append(out, "}")
		if len(els) > 0 {
			out = append(out, "else {")
			out = append(out, els...)
			out = append(out, "}")
		}
		return out
	case *ast.ForStmt:
		if n.Init != nil {
			out = append(out, s.stmt(n.Init)...)
		}
		body := s.block(n.Body)
		if len(body) == 0 {
			return out
		}
		head := "for {"
		if n.Cond != nil {
			head = "for " + oneLine(src(n.Cond)) + " {"
		}
		out = append(out, head)
		out = append(out, body...)
		return append(out, "}")
	case *ast.RangeStmt:
		body := s.block(n.Body)
		if len(body) == 0 {
			return s.callsIn(n.X)
		}
		out = append(out, "for range "+oneLine(src(n.X))+" {")
		out = append(out, body...)
		return append(out, "}")
	case *ast.SwitchStmt, *ast.TypeSwitchStmt, *ast.SelectStmt:
		var body *ast.BlockStmt
		head := "switch {"
		switch y := n.(type) {
		case *ast.SwitchStmt:
			body = y.Body
			if y.Init != nil {
				out = append(out, s.stmt(y.Init)...)
			}
			if y.Tag != nil {
				head = "switch " + oneLine(src(y.Tag)) + " {"
			}
		case *ast.TypeSwitchStmt:
			body = y.Body
			head = "switch type {"
		case *ast.SelectStmt:
			body = y.Body
			head = "select {"
		}
		var inner []string
		for _, c := range body.List {
			var cb []ast.Stmt
			label := "default"
			switch cc := c.(type) {
			case *ast.CaseClause:
				cb = cc.Body
				if len(cc.List) > 0 {
					var ls []string
					for _, e := range cc.List {
						ls = append(ls, oneLine(src(e)))
					}
					label = "case " + strings.Join(ls, ", ")
				}
			case *ast.CommClause:
				cb = cc.Body
				if cc.Comm != nil {
					label = "case " + oneLine(src(cc.Comm))
				}
			}
			var b []string
			for _, x := range cb {
				b = append(b, s.stmt(x)...)
			}
			if len(b) > 0 {
				inner = append(inner, label+" {")
				inner = append(inner, b...)
				inner = append(inner, "}")
			}
		}
		if len(inner) == 0 {
			return nil
		}
		out = append(out, head)
		out = append(out, inner...)
		return append(out, "}")
	case *ast.LabeledStmt:
		return s.stmt(n.Stmt)
	case *ast.SendStmt:
		return s.callsIn(n.Value)
	}
	return nil
}

func argList(c *ast.CallExpr) string {
	var as []string
	for _, a := range c.Args {
		as = append(as, oneLine(src(a)))
	}
	return strings.Join(as, ", ")
}

// leanLines renders a token list one token per line (readable diffs in the generated file).
func leanLines(xs []string) string {
	if len(xs) == 0 {
		return "[]"
	}
	var b strings.Builder
	b.WriteString("[\n")
	for i, x := range xs {
		b.WriteString("  " + leanStr(x))
		if i+1 < len(xs) {
			b.WriteString(",")
		}
		b.WriteString("\n")
	}
	b.WriteString("]")
	return b.String()
}
