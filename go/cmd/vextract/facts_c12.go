package main

import (
	"go/ast"
	"go/token"
	"sort"
	"strings"
)

// C12: the statement order of martianhttp.Modifier.servePOST (parse before lock, no state write
// on a path that returns early) and the comparison used by priority.Group's insertion loops.
func init() { extractors = append(extractors, extractC12) }

func extractC12() {
	g := newGen("Config")

	// servePOST: source-ordered events: calls of interest, writes to receiver state, returns.
	f := parse("martianhttp/martianhttp.go")
	var ev []string
	if fd := funcDecl(f, "Modifier", "servePOST"); fd != nil {
		ast.Inspect(fd.Body, func(x ast.Node) bool {
			switch n := x.(type) {
			case *ast.ReturnStmt:
				ev = append(ev, `("return", "")`)
			case *ast.DeferStmt:
				ev = append(ev, "(\"defer\", "+leanStr(src(n.Call.Fun))+")")
				return false
			case *ast.AssignStmt:
				for _, l := range n.Lhs {
					if s := src(l); strings.HasPrefix(s, "m.") {
						ev = append(ev, "(\"write\", "+leanStr(s)+")")
					}
				}
			case *ast.CallExpr:
				switch s := src(n.Fun); s {
				case "parse.FromJSON", "m.mu.Lock", "m.mu.Unlock", "m.setRequestModifier", "m.setResponseModifier",
					"m.SetRequestModifier", "m.SetResponseModifier", "json.Indent":
					ev = append(ev, "(\"call\", "+leanStr(s)+")")
				}
			}
			return true
		})
	}
	g.def("servePOST", "List (String × String)", "["+strings.Join(ev, ", ")+"]")

	// priority.Group.Add{Request,Response}Modifier: the operator of the insertion test.
	pf := parse("priority/priority_group.go")
	var ops []string
	for _, name := range []string{"AddRequestModifier", "AddResponseModifier"} {
		if fd := funcDecl(pf, "Group", name); fd != nil {
			ast.Inspect(fd.Body, func(x ast.Node) bool {
				if is, ok := x.(*ast.IfStmt); ok {
					if b, ok := is.Cond.(*ast.BinaryExpr); ok && (b.Op == token.GEQ || b.Op == token.GTR || b.Op == token.LEQ || b.Op == token.LSS) {
						ops = append(ops, name+": "+src(b))
					}
				}
				return true
			})
		}
	}
	g.def("prioInsertTest", "List String", leanList(ops))

	// The JSON members of the structs the *FromJSON functions decode into: (struct, [(json tag, Go type)]),
	// sorted by tag. The model's member lists (Config.fifoFields, …) and kinds (slice of raw messages
	// vs slice of structs, int64, string, bool) transcribe this table.
	type sf struct{ file, name string }
	var rows []string
	for _, x := range []sf{{"fifo/fifo_group.go", "groupJSON"}, {"priority/priority_group.go", "groupJSON"}, {"priority/priority_group.go", "modifierJSON"},
		{"martianurl/url_filter.go", "filterJSON"}, {"header/header_filter.go", "filterJSON"}, {"querystring/query_string_filter.go", "filterJSON"},
		{"method/method_filter.go", "filterJSON"}, {"cookie/cookie_filter.go", "filterJSON"}} {
		f := parse(x.file)
		var members []string
		ast.Inspect(f, func(n ast.Node) bool {
			ts, ok := n.(*ast.TypeSpec)
			if !ok || ts.Name.Name != x.name {
				return true
			}
			if st, ok := ts.Type.(*ast.StructType); ok {
				for _, fld := range st.Fields.List {
					tag := ""
					if fld.Tag != nil {
						t := strings.Trim(fld.Tag.Value, "`")
						if i := strings.Index(t, `json:"`); i >= 0 {
							t = t[i+6:]
							tag = t[:strings.Index(t, `"`)]
						}
					}
					members = append(members, "("+leanStr(tag)+", "+leanStr(src(fld.Type))+")")
				}
			}
			return false
		})
		sort.Strings(members)
		rows = append(rows, "("+leanStr(f.Name.Name+"."+x.name)+", ["+strings.Join(members, ", ")+"])")
	}
	g.def("jsonStructs", "List (String × List (String × String))", "["+strings.Join(rows, ", ")+"]")

	// Which part of the exchange a matcher's MatchResponse decides on (logging calls are not looked into):
	// the response's own cookies / headers, or the method / URL / query of the request it answers.
	sources := []string{"res.Cookies", "proxyutil.ResponseHeader", "res.Request.Method", "res.Request.URL", "res.Request"}
	var reads []string
	for _, x := range [][2]string{{"cookie/cookie_matcher.go", "cookie"}, {"header/header_matcher.go", "header"},
		{"method/method_filter.go", "method"}, {"querystring/query_string_matcher.go", "querystring"}, {"martianurl/url_matcher.go", "url"}} {
		seen := map[string]bool{}
		if fd := funcDecl(parse(x[0]), "Matcher", "MatchResponse"); fd != nil {
			ast.Inspect(fd.Body, func(n ast.Node) bool {
				if c, ok := n.(*ast.CallExpr); ok && strings.HasPrefix(src(c.Fun), "log.") {
					return false
				}
				if se, ok := n.(*ast.SelectorExpr); ok {
					for _, w := range sources {
						if src(se) == w {
							seen[w] = true
							return false // the longest source wins: do not also report its prefix
						}
					}
				}
				return true
			})
		}
		var ss []string
		for _, w := range sources {
			if seen[w] {
				ss = append(ss, w)
			}
		}
		reads = append(reads, "("+leanStr(x[1])+", "+leanList(ss)+")")
	}
	g.def("matchResponseReads", "List (String × List String)", "["+strings.Join(reads, ", ")+"]")

	calls := func(file, recv, fn string, want ...string) []string {
		var out []string
		if fd := funcDecl(parse(file), recv, fn); fd != nil {
			for _, c := range callNames(fd.Body) {
				for _, w := range want {
					if c == w {
						out = append(out, c)
					}
				}
			}
		}
		return out
	}
	g.def("methodMatchCalls", "List String", leanList(calls("method/method_filter.go", "Matcher", "matches", "strings.EqualFold")))
	g.def("queryMatchCalls", "List String", leanList(calls("querystring/query_string_matcher.go", "Matcher", "MatchRequest", "req.URL.Query")))
}
