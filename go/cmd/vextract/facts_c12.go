package main

import (
	"go/ast"
	"go/token"
	"strings"
)

// C12: the statement order of martianhttp.Modifier.servePOST (parse before lock, no state write
// on a path that returns early) and the comparison used by priority.Group's insertion loops.
func init() { extractors = append(extractors, extractC12) }

func extractC12() {
	g := newGen("Config")

	// servePOST: source-ordered events: calls of interest, writes to receiver state, returns.
	f := parse("martianhttp/martianhttp.go")
	var ev []string
	if fd := funcDecl(f, "Modifier", "servePOST"); fd != nil {
		ast.Inspect(fd.Body, func(x ast.Node) bool {
			switch n := x.(type) {
			case *ast.ReturnStmt:
				ev = append(ev, `("return", "")`)
			case *ast.DeferStmt:
				ev = append(ev, "(\"defer\", "+leanStr(src(n.Call.Fun))+")")
				return false
			case *ast.AssignStmt:
				for _, l := range n.Lhs {
					if s := src(l); strings.HasPrefix(s, "m.") {
						ev = append(ev, "(\"write\", "+leanStr(s)+")")
					}
				}
			case *ast.CallExpr:
				switch s := src(n.Fun); s {
				case "parse.FromJSON", "m.mu.Lock", "m.mu.Unlock", "m.setRequestModifier", "m.setResponseModifier",
					"m.SetRequestModifier", "m.SetResponseModifier", "json.Indent":
					ev = append(ev, "(\"call\", "+leanStr(s)+")")
				}
			}
			return true
		})
	}
	g.def("servePOST", "List (String × String)", "["+strings.Join(ev, ", ")+"]")

	// priority.Group.Add{Request,Response}Modifier: the operator of the insertion test.
	pf := parse("priority/priority_group.go")
	var ops []string
	for _, name := range []string{"AddRequestModifier", "AddResponseModifier"} {
		if fd := funcDecl(pf, "Group", name); fd != nil {
			ast.Inspect(fd.Body, func(x ast.Node) bool {
				if is, ok := x.(*ast.IfStmt); ok {
					if b, ok := is.Cond.(*ast.BinaryExpr); ok && (b.Op == token.GEQ || b.Op == token.GTR || b.Op == token.LEQ || b.Op == token.LSS) {
						ops = append(ops, name+": "+src(b))
					}
				}
				return true
			})
		}
	}
	g.def("prioInsertTest", "List String", leanList(ops))
}
