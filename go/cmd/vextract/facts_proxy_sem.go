package main

import (
	"fmt"
	"go/ast"
	"go/token"
	"sort"
	"strings"
)

// Semantic facts of proxy.go's handle / handleConnectRequest that the exchange-machine model relies
// on, independent of statement order and naming of temporaries (Generated/ProxySem.lean):
//
//   reqTLSSources        for every assignment to req.TLS in handle: where the ConnectionState comes
//                        from, traced back through short variable declarations and type assertions
//                        to its root. The model's `tid` says "the connection handle was given".
//   responseFieldsSet    the fields of the response handle overwrites before writing it (model: the
//                        relayed response is the origin's, only Request and Close are touched).
//   modifierErrorExits   for every `if err := p.reqmod/resmod.Modify…; err != nil { … }` in handle
//                        and handleConnectRequest: how many statements in the branch leave it
//                        (return, break, continue, goto, panic). The model's "Warning + continue".
//   closeDecisionInputs  the disjuncts of the condition that guards `res.Close = true`.
//   defaultTransportFields  the fields of the http.Transport composite literal in NewProxy, name = value.
//   deadlineRearmedBeforeEveryHandle  handleLoop sets the connection deadline unconditionally on
//                        every iteration before it calls handle (model: Wire.serveTimed).
func init() { extractors = append(extractors, extractProxySem) }

// defsIn collects `x := e` / `x, ok := e` definitions of a function body: name -> defining expression.
func defsIn(body *ast.BlockStmt) map[string]ast.Expr {
	defs := map[string]ast.Expr{}
	ast.Inspect(body, func(n ast.Node) bool {
		as, ok := n.(*ast.AssignStmt)
		if !ok || as.Tok != token.DEFINE || len(as.Rhs) != 1 {
			return true
		}
		if id, ok := as.Lhs[0].(*ast.Ident); ok {
			defs[id.Name] = as.Rhs[0]
		}
		return true
	})
	return defs
}

// rootOf traces an expression back to the identifier its value is taken from: through &x, x.(T),
// x.ConnectionState(), x.GetWrappedConn(), one-argument package-level helpers f(x) and local definitions. Anything else (a call on another
// object, a field, a cache) is reported as it is written.
func rootOf(e ast.Expr, defs map[string]ast.Expr, params map[string]bool, depth int) string {
	if depth > 12 {
		return "?:" + oneLine(src(e))
	}
	switch x := e.(type) {
	case *ast.ParenExpr:
		return rootOf(x.X, defs, params, depth+1)
	case *ast.UnaryExpr:
		if x.Op == token.AND {
			return rootOf(x.X, defs, params, depth+1)
		}
	case *ast.StarExpr:
		return rootOf(x.X, defs, params, depth+1)
	case *ast.TypeAssertExpr:
		return rootOf(x.X, defs, params, depth+1)
	case *ast.Ident:
		if params[x.Name] {
			return x.Name
		}
		if d, ok := defs[x.Name]; ok {
			return rootOf(d, defs, params, depth+1)
		}
		return "?:" + x.Name
	case *ast.CallExpr:
		if sel, ok := x.Fun.(*ast.SelectorExpr); ok && len(x.Args) == 0 {
			switch sel.Sel.Name {
			case "ConnectionState", "GetWrappedConn":
				return rootOf(sel.X, defs, params, depth+1)
			}
		}
		// an extracted package-level helper that is handed nothing but the value: helper(conn)
		if _, ok := x.Fun.(*ast.Ident); ok && len(x.Args) == 1 {
			return rootOf(x.Args[0], defs, params, depth+1)
		}
	}
	return "?:" + oneLine(src(e))
}

func extractProxySem() {
	f := parse("proxy.go")
	g := newGen("ProxySem")

	var reqTLS, resFields, closeInputs []string
	var exits []string
	if fd := funcDecl(f, "Proxy", "handle"); fd != nil && fd.Body != nil {
		params := map[string]bool{}
		for _, p := range fd.Type.Params.List {
			for _, n := range p.Names {
				params[n.Name] = true
			}
		}
		defs := defsIn(fd.Body)
		fieldSet := map[string]bool{}
		ast.Inspect(fd.Body, func(n ast.Node) bool {
			switch st := n.(type) {
			case *ast.AssignStmt:
				for i, l := range st.Lhs {
					ls := oneLine(src(l))
					if ls == "req.TLS" && st.Tok == token.ASSIGN {
						r := st.Rhs[0]
						if len(st.Rhs) == len(st.Lhs) {
							r = st.Rhs[i]
						}
						reqTLS = append(reqTLS, rootOf(r, defs, params, 0))
					}
					if strings.HasPrefix(ls, "res.") && st.Tok == token.ASSIGN && strings.Count(ls, ".") == 1 {
						fieldSet[strings.TrimPrefix(ls, "res.")] = true
					}
				}
			case *ast.IfStmt:
				// the guard of `res.Close = true`
				for _, b := range st.Body.List {
					if as, ok := b.(*ast.AssignStmt); ok && len(as.Lhs) == 1 && oneLine(src(as.Lhs[0])) == "res.Close" {
						closeInputs = disjuncts(st.Cond)
					}
				}
			}
			return true
		})
		for k := range fieldSet {
			resFields = append(resFields, k)
		}
		sort.Strings(resFields)
		exits = append(exits, modifierErrorExits("handle", fd.Body)...)
	}
	if fd := funcDecl(f, "Proxy", "handleConnectRequest"); fd != nil && fd.Body != nil {
		exits = append(exits, modifierErrorExits("handleConnectRequest", fd.Body)...)
	}
	g.def("reqTLSSources", "List String", leanList(reqTLS))
	g.def("responseFieldsSet", "List String", leanList(resFields))
	g.def("modifierErrorExits", "List (String × Nat)", "["+strings.Join(exits, ", ")+"]")
	g.def("closeDecisionInputs", "List String", leanList(closeInputs))

	// the serving loop: is the connection deadline set on every iteration, before handle - as a
	// statement of the loop body itself, not under a condition?
	rearm := "false"
	if fd := funcDecl(f, "Proxy", "handleLoop"); fd != nil && fd.Body != nil {
		for _, st := range fd.Body.List {
			fs, ok := st.(*ast.ForStmt)
			if !ok {
				continue
			}
			seenDeadline := false
			for _, b := range fs.Body.List {
				txt := oneLine(src(b))
				if es, ok := b.(*ast.ExprStmt); ok && strings.Contains(oneLine(src(es.X)), ".SetDeadline(") {
					seenDeadline = true
				}
				if strings.Contains(txt, "p.handle(") {
					if seenDeadline {
						rearm = "true"
					}
					break
				}
			}
		}
	}
	g.def("deadlineRearmedBeforeEveryHandle", "Bool", rearm)

	// the fields NewProxy sets on its default http.Transport, with their values as written, sorted by
	// name: every limit, timeout or switch of the transport the relay runs on is a decision about C01/C03
	var fields []string
	if fd := funcDecl(f, "", "NewProxy"); fd != nil && fd.Body != nil {
		ast.Inspect(fd.Body, func(n ast.Node) bool {
			cl, ok := n.(*ast.CompositeLit)
			if !ok || oneLine(src(cl.Type)) != "http.Transport" {
				return true
			}
			for _, el := range cl.Elts {
				if kvx, ok := el.(*ast.KeyValueExpr); ok {
					fields = append(fields, oneLine(src(kvx.Key))+" = "+oneLine(src(kvx.Value)))
				}
			}
			return false
		})
	}
	sort.Strings(fields)
	g.def("defaultTransportFields", "List String", leanList(fields))
}

func disjuncts(e ast.Expr) []string {
	if b, ok := e.(*ast.BinaryExpr); ok && b.Op == token.LOR {
		return append(disjuncts(b.X), disjuncts(b.Y)...)
	}
	if p, ok := e.(*ast.ParenExpr); ok {
		return disjuncts(p.X)
	}
	return []string{oneLine(src(e))}
}

// modifierErrorExits: ("<func>:<ModifyRequest|ModifyResponse>", <number of exits in the error branch>)
// for every guarded modifier call, in source order.
func modifierErrorExits(fn string, body *ast.BlockStmt) []string {
	var out []string
	ast.Inspect(body, func(n ast.Node) bool {
		is, ok := n.(*ast.IfStmt)
		if !ok || is.Init == nil {
			return true
		}
		as, ok := is.Init.(*ast.AssignStmt)
		if !ok || len(as.Rhs) != 1 {
			return true
		}
		call, ok := as.Rhs[0].(*ast.CallExpr)
		if !ok {
			return true
		}
		callee := oneLine(src(call.Fun))
		if callee != "p.reqmod.ModifyRequest" && callee != "p.resmod.ModifyResponse" {
			return true
		}
		n0 := 0
		ast.Inspect(is.Body, func(x ast.Node) bool {
			switch s := x.(type) {
			case *ast.FuncLit:
				return false
			case *ast.ReturnStmt, *ast.BranchStmt:
				n0++
			case *ast.CallExpr:
				if id, ok := s.Fun.(*ast.Ident); ok && id.Name == "panic" {
					n0++
				}
			}
			return true
		})
		out = append(out, fmt.Sprintf("(%s, %d)", leanStr(fn+":"+callee[strings.LastIndex(callee, ".")+1:]), n0))
		return true
	})
	return out
}
