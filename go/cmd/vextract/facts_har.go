package main

import (
	"go/ast"
	"go/token"
	"strconv"
	"strings"
)

// C15 / C16: structural facts of the logging path that Model/MessageView.lean, Model/Logging.lean
// and Model/Har.lean transcribe (pinned by `facts_*` theorems in Props/C15/Facts.lean and
// Props/C16/Facts.lean):
//   - every logger's ModifyRequest / ModifyResponse asks ctx.SkippingLogging() and returns before it
//     touches the message or records anything;
//   - the context's flag setters only ever set (no toggle, no clear);
//   - proxyutil.Header.Map copies the header map first and THEN stores what Header.All gives for
//     Host / Content-Length / Transfer-Encoding (struct fields win), and which keys those are;
//   - PostData.MarshalJSON takes its text-or-base64 decision on the whole text.
func init() { extractors = append(extractors, extractHar) }

func extractHar() {
	g := newGen("Har")

	body := func(f *ast.File, recv, name string) *ast.BlockStmt {
		if fd := funcDecl(f, recv, name); fd != nil {
			return fd.Body
		}
		return nil
	}

	// --- the loggers' skip-logging guards: `if <ctx>.SkippingLogging() { return nil }` with nothing
	// but the context lookup in front of it; and the methods called after it (selector names only, so
	// that renaming a receiver or a local changes nothing)
	selName := func(c *ast.CallExpr) string {
		switch f := c.Fun.(type) {
		case *ast.SelectorExpr:
			return f.Sel.Name
		case *ast.Ident:
			return f.Name
		}
		return "?"
	}
	guard := func(b *ast.BlockStmt) (bool, []string) {
		if b == nil {
			return false, nil
		}
		guardAt := -1
		for i, st := range b.List {
			is, ok := st.(*ast.IfStmt)
			if !ok || is.Init != nil || is.Else != nil {
				continue
			}
			c, ok := is.Cond.(*ast.CallExpr)
			if !ok || selName(c) != "SkippingLogging" || len(is.Body.List) != 1 {
				continue
			}
			if r, ok := is.Body.List[0].(*ast.ReturnStmt); ok && len(r.Results) == 1 && oneLine(src(r.Results[0])) == "nil" {
				guardAt = i
				break
			}
		}
		if guardAt < 0 {
			return false, nil
		}
		first := true
		for _, st := range b.List[:guardAt] {
			ast.Inspect(st, func(x ast.Node) bool {
				if c, ok := x.(*ast.CallExpr); ok && selName(c) != "NewContext" {
					first = false
				}
				return true
			})
		}
		var after []string
		seen := map[string]bool{}
		for _, st := range b.List[guardAt+1:] {
			ast.Inspect(st, func(x ast.Node) bool {
				if c, ok := x.(*ast.CallExpr); ok {
					if n := selName(c); !seen[n] {
						seen[n] = true
						after = append(after, n)
					}
				}
				return true
			})
		}
		return first, after
	}
	hf := parse("har/har.go")
	lf := parse("martianlog/logger.go")
	mf := parse("marbl/modifier.go")
	var guards []string
	for _, x := range []struct {
		label string
		b     *ast.BlockStmt
	}{
		{"har.ModifyRequest", body(hf, "Logger", "ModifyRequest")}, {"har.ModifyResponse", body(hf, "Logger", "ModifyResponse")},
		{"martianlog.ModifyRequest", body(lf, "Logger", "ModifyRequest")}, {"martianlog.ModifyResponse", body(lf, "Logger", "ModifyResponse")},
		{"marbl.ModifyRequest", body(mf, "Modifier", "ModifyRequest")}, {"marbl.ModifyResponse", body(mf, "Modifier", "ModifyResponse")},
	} {
		ok, after := guard(x.b)
		keep := map[string]bool{"RecordRequest": true, "RecordResponse": true, "LogRequest": true, "LogResponse": true,
			"SnapshotRequest": true, "SnapshotResponse": true, "log": true}
		var acts []string
		for _, a := range after {
			if keep[a] {
				acts = append(acts, a)
			}
		}
		guards = append(guards, "("+leanStr(x.label)+", "+strconv.FormatBool(ok)+", "+leanList(acts)+")")
	}
	g.def("skipGuards", "List (String × Bool × List String)", "[\n  "+strings.Join(guards, ",\n  ")+"\n]")

	// --- context flag setters: never an operator that clears or toggles, never `= false`
	cf := parse("context.go")
	monotone := true
	found := 0
	var visit func(fd *ast.FuncDecl, depth int)
	visit = func(fd *ast.FuncDecl, depth int) {
		if fd == nil || fd.Body == nil {
			return
		}
		ast.Inspect(fd.Body, func(x ast.Node) bool {
			switch n := x.(type) {
			case *ast.BinaryExpr:
				if n.Op == token.XOR || n.Op == token.AND_NOT {
					monotone = false
				}
			case *ast.UnaryExpr:
				if n.Op == token.NOT || n.Op == token.XOR {
					monotone = false
				}
			case *ast.AssignStmt:
				if n.Tok == token.XOR_ASSIGN || n.Tok == token.AND_NOT_ASSIGN || n.Tok == token.AND_ASSIGN {
					monotone = false
				}
				for _, r := range n.Rhs {
					if id, ok := r.(*ast.Ident); ok && id.Name == "false" {
						monotone = false
					}
				}
			case *ast.CallExpr:
				// helpers of the same file, one level (e.g. a shared setFlag)
				if depth == 0 {
					if se, ok := n.Fun.(*ast.SelectorExpr); ok {
						if h := funcDecl(cf, "Context", se.Sel.Name); h != nil && h != fd {
							visit(h, 1)
						}
					}
				}
			}
			return true
		})
	}
	for _, name := range []string{"SkipRoundTrip", "SkipLogging", "APIRequest"} {
		if fd := funcDecl(cf, "Context", name); fd != nil {
			found++
			visit(fd, 0)
		}
	}
	g.def("flagSettersFound", "Nat", strconv.Itoa(found))
	g.def("flagSettersOnlySet", "Bool", strconv.FormatBool(monotone))

	// --- proxyutil.Header.Map: the order of the stores into the result map, by where the value comes
	// from: "M" = inside the loop over the header map (a field of the receiver), "F" = inside the loop
	// over the literal key list (the value Header.All derives from the struct fields)
	pf := parse("proxyutil/header.go")
	order := ""
	var keys []string
	if fd := funcDecl(pf, "Header", "Map"); fd != nil && fd.Body != nil {
		var walk func(n ast.Node, tag string)
		walk = func(n ast.Node, tag string) {
			ast.Inspect(n, func(x ast.Node) bool {
				switch st := x.(type) {
				case *ast.RangeStmt:
					t := tag
					if cl, ok := st.X.(*ast.CompositeLit); ok {
						t = "F"
						for _, e := range cl.Elts {
							if bl, ok := e.(*ast.BasicLit); ok && bl.Kind == token.STRING {
								if v, err := strconv.Unquote(bl.Value); err == nil {
									keys = append(keys, v)
									continue
								}
							}
							keys = append(keys, "?non-literal:"+src(e))
						}
					} else if _, ok := st.X.(*ast.SelectorExpr); ok {
						t = "M"
					}
					walk(st.Body, t)
					return false
				case *ast.AssignStmt:
					for _, l := range st.Lhs {
						if _, ok := l.(*ast.IndexExpr); ok && tag != "" {
							order += tag
						}
					}
				}
				return true
			})
		}
		walk(fd.Body, "")
	}
	g.def("headerMapStoreOrder", "String", leanStr(order))
	g.def("headerMapFieldKeys", "List String", leanList(keys))

	// --- PostData.MarshalJSON: what utf8.ValidString looks at
	var validArg []string
	if fd := funcDecl(hf, "PostData", "MarshalJSON"); fd != nil {
		recv := ""
		if len(fd.Recv.List[0].Names) == 1 {
			recv = fd.Recv.List[0].Names[0].Name
		}
		ast.Inspect(fd.Body, func(x ast.Node) bool {
			if c, ok := x.(*ast.CallExpr); ok {
				if f := oneLine(src(c.Fun)); (f == "utf8.ValidString" || f == "utf8.Valid") && len(c.Args) == 1 {
					a := oneLine(src(c.Args[0]))
					if se, ok := c.Args[0].(*ast.SelectorExpr); ok {
						if id, ok := se.X.(*ast.Ident); ok && id.Name == recv {
							a = "recv." + se.Sel.Name
						}
					}
					validArg = append(validArg, a)
				}
			}
			return true
		})
	}
	g.def("postDataValidityArgs", "List String", leanList(validArg))
}
