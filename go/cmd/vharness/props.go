package main

// Every property package registers itself with core.Register in its init().
import (
	_ "verif/harness/internal/c01"
	_ "verif/harness/internal/c02"
	_ "verif/harness/internal/c03"
	_ "verif/harness/internal/c04"
	_ "verif/harness/internal/c05"
	_ "verif/harness/internal/c06"
	_ "verif/harness/internal/c07"
	_ "verif/harness/internal/c08"
	_ "verif/harness/internal/c09"
	_ "verif/harness/internal/c10"
	_ "verif/harness/internal/c11"
	_ "verif/harness/internal/c12"
	_ "verif/harness/internal/c13"
	_ "verif/harness/internal/c14"
	_ "verif/harness/internal/c15"
	_ "verif/harness/internal/c16"
	_ "verif/harness/internal/c17"
	_ "verif/harness/internal/c18"
	_ "verif/harness/internal/c19"
	_ "verif/harness/internal/c20"
)
