// vharness runs the correspondence + property-oracle part of one check. See DESIGN.md §2.
package main

import (
	"flag"
	"fmt"
	"os"

	"verif/harness/internal/core"
)

func main() {
	id := flag.String("id", "", "property id")
	tier := flag.String("tier", "quick", "quick|thorough")
	seed := flag.Uint64("seed", 1, "PRNG seed")
	out := flag.String("out", "", "output directory")
	driver := flag.String("driver", "/verif/lean/.lake/build/bin/driver", "Lean model driver")
	corpus := flag.String("corpus", "", "corpus directory")
	replays := flag.String("replays", "/verif/replays", "where replay files are written")
	known := flag.String("known", "/verif/known_findings.json", "known findings file")
	replay := flag.String("replay", "", "replay a single violation file")
	flag.Parse()
	p, ok := core.Registry[*id]
	if !ok {
		fmt.Fprintln(os.Stderr, "unknown property", *id)
		os.Exit(2)
	}
	if *out == "" {
		*out = "/verif/out/" + *id
	}
	if *corpus == "" {
		*corpus = "/verif/corpus/" + *id
	}
	res, err := core.Run(p, core.Config{Tier: *tier, Driver: *driver, OutDir: *out, CorpusDir: *corpus, ReplayDir: *replays, KnownFile: *known, ReplayFile: *replay, Seed: *seed})
	if err != nil {
		fmt.Fprintln(os.Stderr, "harness error:", err)
		os.Exit(3)
	}
	fmt.Printf("cases=%d evaluations=%d distinct_nontrivial=%d compared=%d out_of_model=%d violations=%d known=%d wall=%.1fs\n",
		res.Cases, res.Evaluations, res.DistinctNontrivial, res.ModelCompared, res.OutOfModel, len(res.Violations), len(res.KnownSeen), res.WallS)
	for _, v := range res.Violations {
		fmt.Printf("  %s %s: %s\n", v.Kind, v.Sig, v.Detail)
	}
}
