package main

import (
	"bufio"
	"fmt"
	"io"
	"net"
	"os"
	"time"

	"github.com/google/martian/v3"
	"github.com/google/martian/v3/marbl"
	"github.com/google/martian/v3/martianlog"
	mlog "github.com/google/martian/v3/log"
)

func run(which string) {
	origin, _ := net.Listen("tcp", "127.0.0.1:0")
	got := make(chan string, 1)
	go func() {
		c, err := origin.Accept()
		if err != nil {
			return
		}
		c.SetDeadline(time.Now().Add(2 * time.Second))
		buf := make([]byte, 4096)
		n, _ := c.Read(buf)
		time.Sleep(100 * time.Millisecond)
		c.SetReadDeadline(time.Now().Add(200 * time.Millisecond))
		m, _ := c.Read(buf[n:])
		got <- string(buf[:n+m])
		c.Write([]byte("HTTP/1.1 200 OK\r\nContent-Length: 0\r\n\r\n"))
		c.Close()
	}()
	p := martian.NewProxy()
	switch which {
	case "text":
		l := martianlog.NewLogger()
		l.SetLogFunc(func(string) {})
		p.SetRequestModifier(l)
	case "marbl":
		p.SetRequestModifier(marbl.NewModifier(io.Discard))
	}
	pl, _ := net.Listen("tcp", "127.0.0.1:0")
	go p.Serve(pl)
	c, _ := net.Dial("tcp", pl.Addr().String())
	c.SetDeadline(time.Now().Add(3 * time.Second))
	fmt.Fprintf(c, "POST http://%s/x HTTP/1.1\r\nHost: %s\r\nContent-Length: 0\r\n\r\n", origin.Addr(), origin.Addr())
	select {
	case g := <-got:
		fmt.Printf("%s: origin got %q\n", which, g)
	case <-time.After(3 * time.Second):
		fmt.Println(which, "timeout")
	}
	bufio.NewReader(c).ReadString('\n')
	c.Close()
	pl.Close()
	origin.Close()
}

func main() {
	mlog.SetLevel(mlog.Silent)
	go func() { time.Sleep(20 * time.Second); os.Exit(3) }()
	run("none")
	run("text")
	run("marbl")
}
