// c13race is built with -race by the C13 harness (go/internal/c13/race.go) and drives a verifier
// tree with concurrent traffic, queries and resets; race reports go to stderr.
package main

import "verif/harness/internal/c13"

func main() { c13.RaceMain() }
