module verif/harness

go 1.18

require (
	github.com/golang/snappy v0.0.3
	github.com/google/martian/v3 v3.0.0
	golang.org/x/net v0.0.0-20190628185345-da137c7871d7
)

require golang.org/x/text v0.3.0 // indirect

replace github.com/google/martian/v3 => /repo
