package c17

import (
	"bytes"
	"compress/gzip"
	"errors"
	"io"
	"mime"
	"mime/multipart"
	"net/http"
	"net/url"
	"strconv"
	"strings"
	"sync"
	"time"
)

// A message as the model sees it (Model/HarLog.lean `Msg`): framed (request only: ContentLength > 0
// or a Transfer-Encoding), the Content-Type header, and what goes wrong while har builds its own
// copy: n = nothing, r = the body reader returns an error, d = the body is read but is not what
// the headers declare (a form / multipart body that does not parse; a Content-Encoding that does
// not decode).
type msg struct {
	framed bool
	ctype  string
	fault  byte // 'n' | 'r' | 'd'
	// shape: everything else about the message (status code, method, header / cookie / query
	// shapes, kind of body), an index into the tables below; -1 = derived from the tag. The
	// model carries it as `Msg.content` and never looks at it.
	shape int
}

var plainMsg = msg{fault: 'n', shape: -1}

// The recorded messages are not all "GET → 200": the property speaks of every exchange.
var resStatuses = []int{200, 101, 204, 100, 304, 404, 500, 0, 999, 301, 103, 199, 206, 302, 400, 418, 503, 599, 201, 102}
var reqMethods = []string{"GET", "CONNECT", "HEAD", "POST", "PUT", "DELETE", "OPTIONS", "PATCH", ""}

const resVariants = 5 // headers: none | two Set-Cookie | Location | multi-valued + odd names | gzip (valid)
const reqVariants = 4 // none | query string | cookies | multi-valued headers

var nResShapes = len(resStatuses) * resVariants
var nReqShapes = len(reqMethods) * reqVariants

// shapeOf: the shape a message of operation `tag` gets when the op does not name one.
func shapeOf(m msg, tag, n int) int {
	if m.shape >= 0 {
		return m.shape % n
	}
	return (tag*7 + tag/n) % n
}

var gzippedBody = func() []byte {
	var zb bytes.Buffer
	zw := gzip.NewWriter(&zb)
	zw.Write([]byte("response body"))
	zw.Close()
	return zb.Bytes()
}()

const tagHeader = "X-Verif-Tag"
const statusHeader = "X-Verif-Status"

var errInjected = errors.New("verif: injected body read error")

// gate parks the calls of one storm step inside their body read (the only point before the
// logger's critical section where the public API hands control back to the caller) until every
// participant has arrived there; a participant that never reads its body (body logging off, or an
// implementation that returns early) is waited for at most `timeout`.
type gate struct {
	mu      sync.Mutex
	need    int
	arrived int
	ch      chan struct{}
	timeout time.Duration
	late    int
}

func newGate(need int, timeout time.Duration) *gate {
	return &gate{need: need, ch: make(chan struct{}), timeout: timeout}
}

func (g *gate) wait() {
	if g == nil {
		return
	}
	g.mu.Lock()
	g.arrived++
	if g.arrived == g.need {
		close(g.ch)
	}
	g.mu.Unlock()
	select {
	case <-g.ch:
	case <-time.After(g.timeout):
		g.mu.Lock()
		g.late++
		g.mu.Unlock()
	}
}

// body is the reader handed to har: data, then EOF or the injected error; the first Read passes
// the gate (if any) and `yield` hands the processor to other goroutines between reads.
type body struct {
	data   []byte
	off    int
	fail   bool
	g      *gate
	gated  bool
	yield  func()
	closed bool
}

func (b *body) Read(p []byte) (int, error) {
	if !b.gated {
		b.gated = true
		b.g.wait()
	}
	if b.yield != nil {
		b.yield()
	}
	if b.off >= len(b.data) {
		if b.fail {
			return 0, errInjected
		}
		return 0, io.EOF
	}
	// short reads: the failure arrives after part of the body was delivered
	n := len(p)
	if n > 3 {
		n = 3
	}
	n = copy(p[:n], b.data[b.off:])
	b.off += n
	return n, nil
}

func (b *body) Close() error { b.closed = true; return nil }

const mpBoundary = "vb17"

// mediaOf: the media type har will switch on.
func mediaOf(ctype string) string {
	mt, _, err := mime.ParseMediaType(ctype)
	if err != nil {
		return ctype
	}
	return mt
}

// reqPayload: a body consistent with the content type (good) or one its parser rejects (bad);
// ok=false when the content type has no parser, i.e. a decode fault cannot be realised.
func reqPayload(ctype string, bad bool) ([]byte, bool) {
	switch mediaOf(ctype) {
	case "application/x-www-form-urlencoded":
		if bad {
			return []byte("a=1&b=%zz"), true
		}
		return []byte("a=1&b=two"), true
	case "multipart/form-data":
		_, ps, _ := mime.ParseMediaType(ctype)
		bd := ps["boundary"]
		if bd == "" {
			return nil, false
		}
		if bad {
			// a part whose header block never ends
			return []byte("--" + bd + "\r\nContent-Disposition: form-data; name=\"k\"\r\nbroken"), true
		}
		var b bytes.Buffer
		w := multipart.NewWriter(&b)
		w.SetBoundary(bd)
		w.WriteField("k", "v")
		w.Close()
		return b.Bytes(), true
	}
	if bad {
		return nil, false
	}
	return []byte("payload"), true
}

// decodeErrOfReq: the error har's own parsers give for the bad payload (used to recognise the
// error RecordRequest returned without looking at har's wording).
func decodeErrOfReq(ctype string, data []byte) error {
	switch mediaOf(ctype) {
	case "application/x-www-form-urlencoded":
		_, err := url.ParseQuery(string(data))
		return err
	case "multipart/form-data":
		_, ps, _ := mime.ParseMediaType(ctype)
		mpr := multipart.NewReader(bytes.NewReader(data), ps["boundary"])
		for {
			p, err := mpr.NextPart()
			if err == io.EOF {
				return nil
			}
			if err != nil {
				return err
			}
			if _, err := io.ReadAll(p); err != nil {
				return err
			}
		}
	}
	return nil
}

type built struct {
	req     *http.Request
	res     *http.Response
	body    *body
	wantErr error // the error a decode fault produces in har's parsers
	ok      bool
}

// mkReqMsg builds the request of operation `tag` for `id`. Variants that the model does not
// distinguish (Content-Length vs chunked framing, nil vs NoBody) are picked from the tag, so a
// replay rebuilds the same message.
func mkReqMsg(id string, tag int, m msg, g *gate, yield func()) built {
	sh := shapeOf(m, tag, nReqShapes)
	target := urlPrefix + id + "/" + strconv.Itoa(tag)
	variant := sh / len(reqMethods)
	if variant == 1 {
		target += "?q=1&q=two&empty=&%7Ekey=v%20w"
	}
	u, err := url.Parse(target)
	if err != nil {
		panic(err)
	}
	req := &http.Request{Method: reqMethods[sh%len(reqMethods)], URL: u, Proto: "HTTP/1.1", ProtoMajor: 1, ProtoMinor: 1,
		Header: http.Header{}, Host: u.Host}
	switch variant {
	case 2:
		req.Header.Add("Cookie", "sid=abc; theme=dark")
		req.Header.Add("Cookie", "broken")
	case 3:
		req.Header["Accept"] = []string{"text/html", "*/*;q=0.1"}
		req.Header["X-Empty"] = []string{""}
		req.Header["x-lower-case"] = []string{"kept as is"}
	}
	if m.ctype != "" {
		req.Header.Set("Content-Type", m.ctype)
	}
	out := built{req: req, ok: true}
	data, ok := reqPayload(m.ctype, m.fault == 'd')
	if !ok {
		return built{}
	}
	if m.fault == 'd' {
		out.wantErr = decodeErrOfReq(m.ctype, data)
		if out.wantErr == nil {
			return built{}
		}
	}
	if !m.framed {
		// no Content-Length, no Transfer-Encoding: har must not touch the body at all, whatever
		// it is (nil, NoBody, or a reader that would fail)
		switch {
		case m.fault != 'n':
			out.body = &body{data: data, fail: m.fault == 'r', g: g, yield: yield}
			req.Body = out.body
		case tag%2 == 0:
			req.Body = http.NoBody
		}
		return out
	}
	out.body = &body{data: data, fail: m.fault == 'r', g: g, yield: yield}
	req.Body = out.body
	if tag%3 == 0 {
		req.TransferEncoding = []string{"chunked"}
		req.ContentLength = -1
	} else {
		req.ContentLength = int64(len(data))
		if m.fault == 'r' {
			req.ContentLength += 4 // announced more than what arrives before the error
		}
	}
	return out
}

func mkResMsg(tag int, m msg, g *gate, yield func()) built {
	sh := shapeOf(m, tag, nResShapes)
	status := resStatuses[sh%len(resStatuses)]
	if m.fault == 'd' && (status == http.StatusNoContent || status == http.StatusPartialContent) {
		status = 200 // messageview does not decode 204 / 206: the decode fault would not be one
	}
	res := &http.Response{StatusCode: status, Status: strconv.Itoa(status) + " " + http.StatusText(status),
		Proto: "HTTP/1.1", ProtoMajor: 1, ProtoMinor: 1, Header: http.Header{}}
	// the operation tag (which RecordResponse call this was) travels in a header; the status is
	// repeated there so that the exported entry can be checked against what was recorded
	res.Header.Set(tagHeader, strconv.Itoa(tag))
	res.Header.Set(statusHeader, strconv.Itoa(status))
	variant := sh / len(resStatuses)
	switch variant {
	case 1:
		res.Header.Add("Set-Cookie", "sid=abc; Path=/; HttpOnly")
		res.Header.Add("Set-Cookie", "pref=1; Max-Age=10")
	case 2:
		res.Header.Set("Location", "http://h.test/elsewhere")
	case 3:
		res.Header["Vary"] = []string{"Accept", "Cookie"}
		res.Header["X-Empty"] = []string{""}
		res.Header["x-lower-case"] = []string{"kept as is"}
	}
	if m.ctype != "" {
		res.Header.Set("Content-Type", m.ctype)
	}
	out := built{res: res, ok: true}
	switch m.fault {
	case 'n':
		if g == nil && yield == nil && m.ctype == "" {
			switch tag % 3 {
			case 0:
				res.Body = http.NoBody
				return out
			case 1:
				res.Body = nil // SnapshotResponse accepts a nil body
				return out
			}
		}
		data := []byte("response body")
		if variant == 4 {
			data = gzippedBody
			res.Header.Set("Content-Encoding", "gzip")
		}
		out.body = &body{data: data, g: g, yield: yield}
		res.Body, res.ContentLength = out.body, int64(len(data))
	case 'r':
		data := []byte("partial")
		out.body = &body{data: data, fail: true, g: g, yield: yield}
		res.Body, res.ContentLength = out.body, int64(len(data))+9
	case 'd':
		// declared gzip, is not: gzip.NewReader rejects the header; declared deflate, is not:
		// the flate reader fails on the first block
		data := []byte("this is neither gzip nor deflate")
		if tag%2 == 0 {
			res.Header.Set("Content-Encoding", "gzip")
			_, out.wantErr = gzip.NewReader(bytes.NewReader(data))
		} else {
			res.Header.Set("Content-Encoding", "deflate")
			out.wantErr = errors.New("flate")
		}
		out.body = &body{data: data, g: g, yield: yield}
		res.Body, res.ContentLength = out.body, int64(len(data))
	default:
		return built{}
	}
	return out
}

// classify maps the error of RecordRequest / RecordResponse to the observation enum:
// "ok", "err msg" (the message could not be turned into a HAR message), "err dup" (anything else:
// the only other error of the API is the duplicate-ID rejection).
func classify(err error, b built, m msg) string {
	if err == nil {
		return "ok"
	}
	if errors.Is(err, errInjected) {
		return "err msg"
	}
	if m.fault == 'd' && b.wantErr != nil {
		if err.Error() == b.wantErr.Error() || strings.Contains(err.Error(), "flate") || strings.Contains(err.Error(), "gzip") {
			return "err msg"
		}
	}
	return "err dup"
}

func parseMsgFault(s string) (byte, bool) {
	if len(s) == 1 && (s[0] == 'n' || s[0] == 'r' || s[0] == 'd') {
		return s[0], true
	}
	return 0, false
}
