// Package c17: the HAR log (har.Logger) over arbitrary histories of RecordRequest,
// RecordResponse, Export, ExportAndReset and Reset — sequential (step-by-step and exhaustive
// `seq` words, both compared with the Lean model) and concurrent (oracle only: linearisability
// against the property's own reading of the log, see conc.go).
package c17

import (
	"fmt"
	"net/http"
	"strconv"
	"strings"

	"github.com/google/martian/v3/har"

	"verif/harness/internal/core"
)

type P struct{}

func init() { core.Register(P{}) }

func (P) ID() string { return "C17" }
func (P) Rule() string {
	return "case = (a) one history of 5-400 ops (req/res over IDs a-e, export, export-and-reset, reset; per-case op weights) run step by step " +
		"on one har.Logger, or (b) a block of `seq` words: EVERY word over the 9-letter alphabet {req a,b,c; res a,b,c; export; export-and-reset; reset} " +
		"up to length 5 (quick) / 7 (thorough), each run on a fresh Logger, or (c) a concurrent run (8 goroutines) checked for linearisability; " +
		"distinct by hash of the op list; non-trivial when some export-and-reset returned at least one completed entry while keeping at least one pending entry"
}

// ---- observations ----

type ent struct {
	id     string
	rq, rs int // operation tags; rs = -1: no response attached
}

func showEnts(es []ent) string {
	if len(es) == 0 {
		return "log -"
	}
	var b strings.Builder
	b.WriteString("log ")
	for i, e := range es {
		if i > 0 {
			b.WriteByte(',')
		}
		b.WriteString(e.id)
		b.WriteByte(':')
		b.WriteString(strconv.Itoa(e.rq))
		if e.rs >= 0 {
			b.WriteByte('+')
			b.WriteString(strconv.Itoa(e.rs))
		} else {
			b.WriteByte('-')
		}
	}
	return b.String()
}

const urlPrefix = "http://h.test/"

func mkReq(id string, tag int) *http.Request {
	req, err := http.NewRequest("GET", urlPrefix+id+"/"+strconv.Itoa(tag), nil)
	if err != nil {
		panic(err)
	}
	return req
}

func mkRes(tag int) *http.Response {
	return &http.Response{StatusCode: 1000 + tag, Proto: "HTTP/1.1", ProtoMajor: 1, ProtoMinor: 1,
		Header: http.Header{}, Body: http.NoBody}
}

// readEntry reads what the harness put into the request URL / response status back out of an
// exported entry. withRes=false leaves the Response field alone (concurrent Export, see conc.go).
func readEntry(e *har.Entry, withRes bool) (ent, string) {
	if e == nil {
		return ent{}, "nil entry in export"
	}
	if e.Request == nil {
		return ent{}, "entry " + e.ID + " without request"
	}
	rest := strings.TrimPrefix(e.Request.URL, urlPrefix)
	i := strings.LastIndexByte(rest, '/')
	if i < 0 {
		return ent{}, "unexpected request URL " + e.Request.URL
	}
	tag, err := strconv.Atoi(rest[i+1:])
	if err != nil {
		return ent{}, "unexpected request URL " + e.Request.URL
	}
	if rest[:i] != e.ID {
		return ent{}, fmt.Sprintf("entry %s carries the request recorded for id %s", e.ID, rest[:i])
	}
	o := ent{id: e.ID, rq: tag, rs: -1}
	if withRes && e.Response != nil {
		o.rs = e.Response.Status - 1000
	}
	return o, ""
}

func readHAR(h *har.HAR, withRes bool) ([]ent, string) {
	if h == nil || h.Log == nil {
		return nil, "nil HAR"
	}
	out := make([]ent, 0, len(h.Log.Entries))
	for _, e := range h.Log.Entries {
		o, bad := readEntry(e, withRes)
		if bad != "" {
			return nil, bad
		}
		out = append(out, o)
	}
	return out, ""
}

// ---- the property, read directly (independent of the Lean model) ----

// ledger is the property's own notion of the log: the accepted requests since the last reset
// that no export-and-reset has returned yet, in arrival order, each with the response recorded
// for its ID while it was in the log.
type ledger struct {
	live     []ent
	returned map[int]bool // request tags ever returned by an export-and-reset
}

func newLedger() *ledger { return &ledger{returned: map[int]bool{}} }

func (g *ledger) find(id string) int {
	for i := range g.live {
		if g.live[i].id == id {
			return i
		}
	}
	return -1
}

// compare classifies the first difference between an observed export and the expected one.
func (g *ledger) compare(kind string, got, want []ent) (string, string) {
	wantBy := map[int]ent{}
	for _, w := range want {
		wantBy[w.rq] = w
	}
	liveBy := map[int]ent{}
	for _, w := range g.live {
		liveBy[w.rq] = w
	}
	seen := map[int]bool{}
	for _, o := range got {
		if seen[o.rq] {
			return kind + ":entry-listed-twice", fmt.Sprintf("entry %s (request %d) listed twice in one %s", o.id, o.rq, kind)
		}
		seen[o.rq] = true
		if g.returned[o.rq] {
			return kind + ":returned-twice", fmt.Sprintf("entry %s (request %d) was already returned by an earlier export-and-reset", o.id, o.rq)
		}
		l, isLive := liveBy[o.rq]
		if !isLive {
			return kind + ":stale-entry", fmt.Sprintf("entry %s (request %d) is not in the log (never accepted, or reset)", o.id, o.rq)
		}
		if l.rs != o.rs {
			if o.rs < 0 {
				return kind + ":response-lost", fmt.Sprintf("entry %s (request %d): response %d is missing", o.id, o.rq, l.rs)
			}
			return kind + ":response-misattached", fmt.Sprintf("entry %s (request %d) carries response %d, want %d", o.id, o.rq, o.rs, l.rs)
		}
		if _, ok := wantBy[o.rq]; !ok {
			return kind + ":pending-returned", fmt.Sprintf("pending entry %s (request %d) returned by export-and-reset", o.id, o.rq)
		}
	}
	for _, w := range want {
		if !seen[w.rq] {
			return kind + ":entry-missing", fmt.Sprintf("entry %s (request %d) is missing from the %s", w.id, w.rq, kind)
		}
	}
	for i := range want {
		if got[i].rq != want[i].rq {
			return kind + ":order", fmt.Sprintf("position %d holds request %d, arrival order wants %d", i, got[i].rq, want[i].rq)
		}
	}
	return "", ""
}

// sess = one Logger + the ledger + the op clock.
type sess struct {
	l   *har.Logger
	g   *ledger
	t   int
	nt  bool // saw a non-trivial export-and-reset
	cnt bool // bump distribution counters
}

func newSess(cnt bool) *sess { return &sess{l: har.NewLogger(), g: newLedger(), cnt: cnt} }

func (s *sess) count(k string) {
	if s.cnt {
		core.Count(k)
	}
}

// apply runs one operation on the real Logger; returns the canonical observation and the
// oracle verdict.
func (s *sess) apply(kind, id string) (impl, fail, sig string) {
	t := s.t
	s.t++
	g := s.g
	switch kind {
	case "req":
		err := s.l.RecordRequest(id, mkReq(id, t))
		present := g.find(id) >= 0
		if err != nil {
			impl = "err dup"
			s.count("req:dup-rejected")
			if !present {
				return impl, fmt.Sprintf("request with fresh id %s rejected: %v", id, err), "req:fresh-rejected"
			}
			return impl, "", ""
		}
		impl = "ok"
		if present {
			return impl, fmt.Sprintf("duplicate request id %s accepted", id), "req:dup-accepted"
		}
		s.count("req:accepted")
		g.live = append(g.live, ent{id, t, -1})
	case "res":
		err := s.l.RecordResponse(id, mkRes(t))
		impl = "ok"
		if err != nil {
			return "err", fmt.Sprintf("RecordResponse(%s): %v", id, err), "res:error"
		}
		if i := g.find(id); i >= 0 {
			if g.live[i].rs >= 0 {
				s.count("res:again")
			} else {
				s.count("res:attached")
			}
			g.live[i].rs = t
		} else {
			s.count("res:orphan")
		}
	case "export":
		got, bad := readHAR(s.l.Export(), true)
		if bad != "" {
			return "bad-export", bad, "export:malformed"
		}
		impl = showEnts(got)
		if len(got) == 0 {
			s.count("export:empty")
		} else {
			s.count("export:nonempty")
		}
		if sg, f := g.compare("export", got, g.live); sg != "" {
			return impl, f, sg
		}
	case "xreset":
		got, bad := readHAR(s.l.ExportAndReset(), true)
		if bad != "" {
			return "bad-export", bad, "xreset:malformed"
		}
		impl = showEnts(got)
		var want, keep []ent
		for _, e := range g.live {
			if e.rs >= 0 {
				want = append(want, e)
			} else {
				keep = append(keep, e)
			}
		}
		switch {
		case len(want) > 0 && len(keep) > 0:
			s.nt = true
			s.count("xreset:some-returned-some-kept")
			if g.live[len(g.live)-1].rs >= 0 {
				s.count("xreset:tail-completed")
			}
			if g.live[0].rs < 0 {
				s.count("xreset:head-pending")
			}
		case len(want) > 0:
			s.count("xreset:all-returned")
		case len(keep) > 0:
			s.count("xreset:all-kept")
		default:
			s.count("xreset:empty")
		}
		if sg, f := g.compare("xreset", got, want); sg != "" {
			return impl, f, sg
		}
		for _, e := range want {
			g.returned[e.rq] = true
		}
		g.live = keep
	case "reset":
		s.l.Reset()
		impl = "ok"
		if len(g.live) > 0 {
			s.count("reset:nonempty")
		} else {
			s.count("reset:empty")
		}
		g.live = nil
	default:
		return "bad-op", "", ""
	}
	return impl, "", ""
}

// letterOp decodes the compact alphabet of `seq` (kept in step with Drv/C17.lean charOp).
func letterOp(c byte) (kind, id string, ok bool) {
	switch {
	case c == 'e':
		return "export", "", true
	case c == 'x':
		return "xreset", "", true
	case c == 'r':
		return "reset", "", true
	case c >= 'a' && c <= 'z':
		return "req", string(c), true
	case c >= 'A' && c <= 'Z':
		return "res", string(c + 32), true
	}
	return "", "", false
}

func runSeq(w string) core.Result {
	s := newSess(false)
	outs := make([]string, 0, len(w))
	var fail, sig string
	for i := 0; i < len(w); i++ {
		k, id, ok := letterOp(w[i])
		if !ok {
			return core.Result{Impl: "bad-op"}
		}
		o, f, sg := s.apply(k, id)
		outs = append(outs, o)
		if f != "" && fail == "" {
			fail, sig = fmt.Sprintf("history %q, op %d (%s %s): %s", w, i, k, id, f), sg
		}
	}
	if s.nt {
		core.Count("seq:nontrivial")
	}
	core.Count("seq:len" + strconv.Itoa(len(w)))
	return core.Result{Impl: strings.Join(outs, "|"), Fail: fail, Sig: sig}
}

// ---- Exec ----

type ex struct{ s *sess }

func (P) NewExec() core.Exec { return &ex{s: newSess(true)} }
func (e *ex) Close()         {}

func (e *ex) Do(op string) core.Result {
	f := strings.Fields(op)
	if len(f) == 0 {
		return core.Result{Impl: "bad-op"}
	}
	switch {
	case f[0] == "seq" && len(f) == 2:
		return runSeq(f[1])
	case f[0] == "conc" && len(f) == 5:
		return runConc(f[1:])
	case f[0] == "alias" && len(f) == 1:
		return runAlias()
	case (f[0] == "req" || f[0] == "res") && len(f) == 2:
		impl, fail, sig := e.s.apply(f[0], f[1])
		return core.Result{Impl: impl, Fail: fail, Sig: sig}
	case (f[0] == "export" || f[0] == "xreset" || f[0] == "reset") && len(f) == 1:
		impl, fail, sig := e.s.apply(f[0], "")
		return core.Result{Impl: impl, Fail: fail, Sig: sig}
	}
	return core.Result{Impl: "bad-op"}
}

func (P) Nontrivial(ops []string, impl []string) bool {
	// an export-and-reset that returned something while something stayed: the next export /
	// export-and-reset of the same history shows a kept entry. Recomputed from the observations.
	nt := false
	scan := func(kinds []string, outs []string) {
		live := map[string]bool{}
		for i, o := range outs {
			if i >= len(kinds) {
				break
			}
			switch kinds[i] {
			case "req":
				if o == "ok" {
					live[strconv.Itoa(i)] = true
				}
			case "reset":
				live = map[string]bool{}
			case "xreset":
				if o == "log -" || !strings.HasPrefix(o, "log ") {
					continue
				}
				n := strings.Count(o, ",") + 1
				if n < len(live) {
					nt = true
				}
				for _, e := range strings.Split(o[4:], ",") {
					if j := strings.IndexByte(e, ':'); j >= 0 {
						k := strings.IndexAny(e[j:], "+-")
						if k > 0 {
							delete(live, e[j+1:j+k])
						}
					}
				}
			}
		}
	}
	var kinds, outs []string
	for i, op := range ops {
		f := strings.Fields(op)
		if len(f) == 0 || i >= len(impl) {
			continue
		}
		if f[0] == "seq" && len(f) == 2 {
			var ks []string
			for j := 0; j < len(f[1]); j++ {
				k, _, _ := letterOp(f[1][j])
				ks = append(ks, k)
			}
			scan(ks, strings.Split(impl[i], "|"))
			continue
		}
		if f[0] == "conc" {
			nt = nt || strings.HasPrefix(impl[i], "conc ok")
			continue
		}
		kinds = append(kinds, f[0])
		outs = append(outs, impl[i])
	}
	scan(kinds, outs)
	return nt
}
