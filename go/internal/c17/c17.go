// Package c17: the HAR log (har.Logger) over arbitrary histories of RecordRequest,
// RecordResponse, Export, ExportAndReset, Reset and SetOption, with messages that can or cannot
// be logged (msg.go) — sequential (step-by-step and exhaustive `seq` words, both compared with
// the Lean model) and concurrent (linearisability against the property's own reading of the log,
// the linearisation found is then replayed by the Lean model; see conc.go).
package c17

import (
	"encoding/json"
	"fmt"
	"net/http"
	"net/http/httptest"
	"strconv"
	"strings"

	"github.com/google/martian/v3/har"

	"verif/harness/internal/core"
)

type P struct{}

func init() { core.Register(P{}) }

func (P) ID() string { return "C17" }
func (P) Rule() string {
	return "case = (a) one history of 5-400 ops (req/res over IDs a-h/k0-k39 with plain or faulty messages: framed / unframed bodies, content types, body read errors, undecodable bodies; " +
		"SetOption calls of the six logging options; export, export-and-reset, reset; per-case op weights) run step by step on one har.Logger, or " +
		"(b) a block of `seq` words: EVERY word over the 9-letter alphabet {req a,b,c; res a,b,c; export; export-and-reset; reset} up to length 5 (quick) / 7 (thorough), every word with a failing call " +
		"over the 15-letter alphabet (+ failing response a,b,c; failing request a,b,c) up to length 4 / 5 and, up to renaming of the IDs, of length 5 / 6, each run on a fresh Logger, or " +
		"(b') a `bulk N i…` history (N = 255..4098 requests, all but 1-17 completed, one export-and-reset, then a duplicate and a response for every entry left), or " +
		"(b'') a `rep n pre unit post` history: the round `unit` repeated n = 255..4097 times after `pre`, then `post`, or " +
		"(c) a concurrent run (2-8 goroutines; random programs over own/shared IDs with slow and failing bodies, or duplicate storms: every goroutine calls about the same ID, held in its body read " +
		"until all are in flight) checked for linearisability, the linearisation replayed by the model; " +
		"(d) an `hpark` schedule: a history, then an export / reset HANDLER call during whose answer another connection makes 1-2 calls (every such schedule over 2 IDs); " +
		"distinct by hash of the op list; non-trivial when some export-and-reset returned at least one completed entry while keeping at least one pending entry"
}

// ---- observations ----

type ent struct {
	id     string
	rq, rs int // operation tags; rs = -1: no response attached
}

func showEnts(es []ent) string {
	if len(es) == 0 {
		return "log -"
	}
	var b strings.Builder
	b.WriteString("log ")
	for i, e := range es {
		if i > 0 {
			b.WriteByte(',')
		}
		b.WriteString(e.id)
		b.WriteByte(':')
		b.WriteString(strconv.Itoa(e.rq))
		if e.rs >= 0 {
			b.WriteByte('+')
			b.WriteString(strconv.Itoa(e.rs))
		} else {
			b.WriteByte('-')
		}
	}
	return b.String()
}

const urlPrefix = "http://h.test/"

func mkReq(id string, tag int) *http.Request { return mkReqMsg(id, tag, plainMsg, nil, nil).req }

func mkRes(tag int) *http.Response { return mkResMsg(tag, plainMsg, nil, nil).res }

// readEntry reads what the harness put into the request URL / response status back out of an
// exported entry. withRes=false leaves the Response field alone (concurrent Export, see conc.go).
func readEntry(e *har.Entry, withRes bool) (ent, string) {
	if e == nil {
		return ent{}, "nil entry in export"
	}
	if e.Request == nil {
		return ent{}, "entry " + e.ID + " without request"
	}
	rest := strings.TrimPrefix(e.Request.URL, urlPrefix)
	if q := strings.IndexByte(rest, '?'); q >= 0 {
		rest = rest[:q]
	}
	i := strings.LastIndexByte(rest, '/')
	if i < 0 {
		return ent{}, "unexpected request URL " + e.Request.URL
	}
	tag, err := strconv.Atoi(rest[i+1:])
	if err != nil {
		return ent{}, "unexpected request URL " + e.Request.URL
	}
	if rest[:i] != e.ID {
		return ent{}, fmt.Sprintf("entry %s carries the request recorded for id %s", e.ID, rest[:i])
	}
	o := ent{id: e.ID, rq: tag, rs: -1}
	if withRes && e.Response != nil {
		// which RecordResponse call this is, and the status it was given, are in the headers
		o.rs = -2
		want := -1
		for _, h := range e.Response.Headers {
			switch h.Name {
			case tagHeader:
				if n, err := strconv.Atoi(h.Value); err == nil {
					o.rs = n
				}
			case statusHeader:
				if n, err := strconv.Atoi(h.Value); err == nil {
					want = n
				}
			}
		}
		if o.rs == -2 {
			return ent{}, "entry " + e.ID + ": attached response carries no operation tag"
		}
		if want != e.Response.Status {
			return ent{}, fmt.Sprintf("entry %s: attached response has status %d, the recorded one had %d", e.ID, e.Response.Status, want)
		}
	}
	return o, ""
}

func readHAR(h *har.HAR, withRes bool) ([]ent, string) {
	if h == nil || h.Log == nil {
		return nil, "nil HAR"
	}
	out := make([]ent, 0, len(h.Log.Entries))
	for _, e := range h.Log.Entries {
		o, bad := readEntry(e, withRes)
		if bad != "" {
			return nil, bad
		}
		out = append(out, o)
	}
	return out, ""
}

// ---- the property, read directly (independent of the Lean model) ----

// ledger is the property's own notion of the log: the accepted requests since the last reset
// that no export-and-reset has returned yet, in arrival order, each with the response recorded
// for its ID while it was in the log.
type ledger struct {
	live     []ent
	returned map[int]bool // request tags ever returned by an export-and-reset
}

func newLedger() *ledger { return &ledger{returned: map[int]bool{}} }

func (g *ledger) find(id string) int {
	for i := range g.live {
		if g.live[i].id == id {
			return i
		}
	}
	return -1
}

// compare classifies the first difference between an observed export and the expected one.
func (g *ledger) compare(kind string, got, want []ent) (string, string) {
	wantBy := map[int]ent{}
	for _, w := range want {
		wantBy[w.rq] = w
	}
	liveBy := map[int]ent{}
	for _, w := range g.live {
		liveBy[w.rq] = w
	}
	seen := map[int]bool{}
	for _, o := range got {
		if seen[o.rq] {
			return kind + ":entry-listed-twice", fmt.Sprintf("entry %s (request %d) listed twice in one %s", o.id, o.rq, kind)
		}
		seen[o.rq] = true
		if g.returned[o.rq] {
			return kind + ":returned-twice", fmt.Sprintf("entry %s (request %d) was already returned by an earlier export-and-reset", o.id, o.rq)
		}
		l, isLive := liveBy[o.rq]
		if !isLive {
			return kind + ":stale-entry", fmt.Sprintf("entry %s (request %d) is not in the log (never accepted, or reset)", o.id, o.rq)
		}
		if l.rs != o.rs {
			if o.rs < 0 {
				return kind + ":response-lost", fmt.Sprintf("entry %s (request %d): response %d is missing", o.id, o.rq, l.rs)
			}
			return kind + ":response-misattached", fmt.Sprintf("entry %s (request %d) carries response %d, want %d", o.id, o.rq, o.rs, l.rs)
		}
		if _, ok := wantBy[o.rq]; !ok {
			return kind + ":pending-returned", fmt.Sprintf("pending entry %s (request %d) returned by export-and-reset", o.id, o.rq)
		}
	}
	for _, w := range want {
		if !seen[w.rq] {
			return kind + ":entry-missing", fmt.Sprintf("entry %s (request %d) is missing from the %s", w.id, w.rq, kind)
		}
	}
	for i := range want {
		if got[i].rq != want[i].rq {
			return kind + ":order", fmt.Sprintf("position %d holds request %d, arrival order wants %d", i, got[i].rq, want[i].rq)
		}
	}
	return "", ""
}

// sess = one Logger + the ledger + the op clock.
type sess struct {
	l       *har.Logger
	g       *ledger
	t       int
	nt      bool  // saw a non-trivial export-and-reset
	cnt     bool  // bump distribution counters
	via     bool  // the next export / export-and-reset / reset goes through the HTTP handlers
	lastGot []ent // entries of the last export / export-and-reset
	salt    int   // varies the shapes of plain messages from one `seq` word to the next
}

// through the handlers of har_handlers.go: GET on the export handler, DELETE (?return=true) on the
// reset handler; the JSON body is decoded back into a har.HAR.
func (s *sess) serve(h http.Handler, method, target string, wantBody bool) (*har.HAR, string) {
	rw := httptest.NewRecorder()
	h.ServeHTTP(rw, httptest.NewRequest(method, target, nil))
	if !wantBody {
		if rw.Code != http.StatusNoContent {
			return nil, fmt.Sprintf("reset handler answered %d", rw.Code)
		}
		return nil, ""
	}
	if rw.Code != http.StatusOK {
		return nil, fmt.Sprintf("handler answered %d", rw.Code)
	}
	out := &har.HAR{}
	if err := json.Unmarshal(rw.Body.Bytes(), out); err != nil {
		return nil, "handler body is not a HAR log: " + err.Error()
	}
	return out, ""
}

func (s *sess) doExport() (*har.HAR, string) {
	if s.via {
		s.count("handler:export")
		return s.serve(har.NewExportHandler(s.l), "GET", "http://martian.proxy/logs", true)
	}
	return s.l.Export(), ""
}

func (s *sess) doExportAndReset() (*har.HAR, string) {
	if s.via {
		s.count("handler:export-and-reset")
		return s.serve(har.NewResetHandler(s.l), "DELETE", "http://martian.proxy/logs/reset?return=true", true)
	}
	return s.l.ExportAndReset(), ""
}

func (s *sess) doReset() string {
	if s.via {
		s.count("handler:reset")
		_, bad := s.serve(har.NewResetHandler(s.l), "POST", "http://martian.proxy/logs/reset", false)
		return bad
	}
	s.l.Reset()
	return ""
}

// refused: requests the handlers must turn down without touching the log (wrong method, a
// `return` parameter that is not a boolean).
func (s *sess) refused(which string) core.Result {
	var h http.Handler
	method, target, want := "PUT", "http://martian.proxy/logs", http.StatusMethodNotAllowed
	switch which {
	case "export":
		h = har.NewExportHandler(s.l)
	case "reset":
		h = har.NewResetHandler(s.l)
	case "param":
		h, method, target, want = har.NewResetHandler(s.l), "DELETE", "http://martian.proxy/logs/reset?return=maybe", http.StatusBadRequest
	default:
		return core.Result{Impl: "bad-op", SkipModel: true}
	}
	rw := httptest.NewRecorder()
	h.ServeHTTP(rw, httptest.NewRequest(method, target, nil))
	s.count("handler:refused-" + which)
	if rw.Code != want {
		return core.Result{Impl: "refused " + strconv.Itoa(rw.Code), SkipModel: true, Sig: "handler:not-refused",
			Fail: fmt.Sprintf("%s %s answered %d, want %d", method, target, rw.Code, want)}
	}
	return core.Result{Impl: "refused", SkipModel: true}
}

func newSess(cnt bool) *sess { return &sess{l: har.NewLogger(), g: newLedger(), cnt: cnt} }

func (s *sess) count(k string) {
	if s.cnt {
		core.Count(k)
	}
}

// setOpt applies one SetOption call. which = post | body; form = all 0|1, only <cts>, skip <cts>.
func setOpt(l *har.Logger, which, form string, cts []string) bool {
	var o har.Option
	switch which + " " + form {
	case "post all0":
		o = har.PostDataLogging(false)
	case "post all1":
		o = har.PostDataLogging(true)
	case "post only":
		o = har.PostDataLoggingForContentTypes(cts...)
	case "post skip":
		o = har.SkipPostDataLoggingForContentTypes(cts...)
	case "body all0":
		o = har.BodyLogging(false)
	case "body all1":
		o = har.BodyLogging(true)
	case "body only":
		o = har.BodyLoggingForContentTypes(cts...)
	case "body skip":
		o = har.SkipBodyLoggingForContentTypes(cts...)
	default:
		return false
	}
	l.SetOption(o)
	return true
}

// apply runs one operation on the real Logger; returns the canonical observation and the
// oracle verdict. The oracle goes by what the call returned: a RecordRequest / RecordResponse
// that returned an error recorded nothing, one that returned nil recorded its message.
func (s *sess) apply(kind, id string, m msg) (impl, fail, sig string) {
	t := s.t
	s.t++
	g := s.g
	if m.shape < 0 {
		m.shape = s.salt + t*7 + t/97
	}
	switch kind {
	case "req":
		b := mkReqMsg(id, t, m, nil, nil)
		if !b.ok {
			s.t--
			return "bad-op", "", ""
		}
		err := s.l.RecordRequest(id, b.req)
		impl = classify(err, b, m)
		present := g.find(id) >= 0
		if err != nil {
			if impl == "err msg" {
				s.count("req:message-error")
				if present {
					s.count("req:message-error-on-live-id")
				}
				return impl, "", "" // nothing recorded; later exports must not show it
			}
			s.count("req:dup-rejected")
			if !present {
				return impl, fmt.Sprintf("request with fresh id %s rejected: %v", id, err), "req:fresh-rejected"
			}
			return impl, "", ""
		}
		if present {
			return impl, fmt.Sprintf("duplicate request id %s accepted", id), "req:dup-accepted"
		}
		s.count("req:accepted")
		if m.fault != 'n' {
			s.count("req:accepted-unread-faulty-body")
		}
		g.live = append(g.live, ent{id, t, -1})
	case "res":
		b := mkResMsg(t, m, nil, nil)
		if !b.ok {
			s.t--
			return "bad-op", "", ""
		}
		err := s.l.RecordResponse(id, b.res)
		impl = classify(err, b, m)
		if err != nil {
			if m.fault == 'n' {
				return "err", fmt.Sprintf("RecordResponse(%s): %v", id, err), "res:error"
			}
			impl = "err msg"
			s.count("res:message-error")
			if i := g.find(id); i >= 0 && g.live[i].rs < 0 {
				s.count("res:message-error-on-pending-id")
			}
			return impl, "", "" // nothing recorded: the entry keeps the state it had
		}
		if m.fault != 'n' {
			s.count("res:attached-unread-faulty-body")
		}
		if i := g.find(id); i >= 0 {
			if g.live[i].rs >= 0 {
				s.count("res:again")
			} else {
				s.count("res:attached")
			}
			g.live[i].rs = t
		} else {
			s.count("res:orphan")
		}
	case "export":
		hl, bad := s.doExport()
		var got []ent
		if bad == "" {
			got, bad = readHAR(hl, true)
		}
		if bad != "" {
			return "bad-export", bad, "export:malformed"
		}
		impl = showEnts(got)
		s.lastGot = got
		if len(got) == 0 {
			s.count("export:empty")
		} else {
			s.count("export:nonempty")
		}
		if sg, f := g.compare("export", got, g.live); sg != "" {
			return impl, f, sg
		}
	case "xreset":
		hl, bad := s.doExportAndReset()
		var got []ent
		if bad == "" {
			got, bad = readHAR(hl, true)
		}
		if bad != "" {
			return "bad-export", bad, "xreset:malformed"
		}
		impl = showEnts(got)
		s.lastGot = got
		var want, keep []ent
		for _, e := range g.live {
			if e.rs >= 0 {
				want = append(want, e)
			} else {
				keep = append(keep, e)
			}
		}
		switch {
		case len(want) > 0 && len(keep) > 0:
			s.nt = true
			s.count("xreset:some-returned-some-kept")
			if g.live[len(g.live)-1].rs >= 0 {
				s.count("xreset:tail-completed")
			}
			if g.live[0].rs < 0 {
				s.count("xreset:head-pending")
			}
		case len(want) > 0:
			s.count("xreset:all-returned")
		case len(keep) > 0:
			s.count("xreset:all-kept")
		default:
			s.count("xreset:empty")
		}
		if sg, f := g.compare("xreset", got, want); sg != "" {
			return impl, f, sg
		}
		for _, e := range want {
			g.returned[e.rq] = true
		}
		g.live = keep
	case "reset":
		if bad := s.doReset(); bad != "" {
			return "bad-reset", bad, "reset:malformed"
		}
		impl = "ok"
		if len(g.live) > 0 {
			s.count("reset:nonempty")
		} else {
			s.count("reset:empty")
		}
		g.live = nil
	default:
		return "bad-op", "", ""
	}
	return impl, "", ""
}

// letterOp decodes the compact alphabet of `seq` (kept in step with Drv/C17.lean charOp).
// 1 2 3 = response for a b c whose body reader fails, 4 5 6 = framed request for a b c whose body
// reader fails, - / + = post-data and body logging off / on.
func letterOp(c byte) (kind, id string, m msg, ok bool) {
	switch {
	case c == 'e':
		return "export", "", plainMsg, true
	case c == 'x':
		return "xreset", "", plainMsg, true
	case c == 'r':
		return "reset", "", plainMsg, true
	case c >= '1' && c <= '3':
		return "res", string('a' + c - '1'), msg{fault: 'r', shape: -1}, true
	case c >= '4' && c <= '6':
		return "req", string('a' + c - '4'), msg{framed: true, fault: 'r', shape: -1}, true
	case c == '-':
		return "optoff", "", plainMsg, true
	case c == '+':
		return "opton", "", plainMsg, true
	case c >= 'a' && c <= 'z':
		return "req", string(c), plainMsg, true
	case c >= 'A' && c <= 'Z':
		return "res", string(c + 32), plainMsg, true
	}
	return "", "", plainMsg, false
}

func (s *sess) applyOpt(which, form, arg string) core.Result {
	var cts []string
	if form == "all" {
		form += arg
	} else if arg != "-" {
		for _, h := range strings.Split(arg, ",") {
			b, ok := core.Unhex(h)
			if !ok {
				return core.Result{Impl: "bad-op"}
			}
			cts = append(cts, string(b))
		}
	}
	if !setOpt(s.l, which, form, cts) {
		return core.Result{Impl: "bad-op"}
	}
	s.t++
	s.count("opt:" + which + "-" + strings.TrimRight(form, "01"))
	return core.Result{Impl: "ok"}
}

func runSeq(w string) core.Result {
	s := newSess(false)
	for i := 0; i < len(w); i++ {
		s.salt = (s.salt*131 + int(w[i])) % 9973
	}
	outs := make([]string, 0, len(w))
	var fail, sig string
	for i := 0; i < len(w); i++ {
		k, id, m, ok := letterOp(w[i])
		if !ok {
			return core.Result{Impl: "bad-op"}
		}
		if k == "optoff" || k == "opton" {
			s.l.SetOption(har.PostDataLogging(k == "opton"), har.BodyLogging(k == "opton"))
			s.t++
			outs = append(outs, "ok")
			continue
		}
		o, f, sg := s.apply(k, id, m)
		outs = append(outs, o)
		if f != "" && fail == "" {
			fail, sig = fmt.Sprintf("history %q, op %d (%s %s): %s", w, i, k, id, f), sg
		}
	}
	if s.nt {
		core.Count("seq:nontrivial")
	}
	core.Count("seq:len" + strconv.Itoa(len(w)))
	return core.Result{Impl: strings.Join(outs, "|"), Fail: fail, Sig: sig}
}

// word runs the letters of w on the session; ok=false on an unknown letter.
func (s *sess) word(w string, what string, fail, sig *string) ([]string, bool) {
	outs := make([]string, 0, len(w))
	for i := 0; i < len(w); i++ {
		k, id, m, ok := letterOp(w[i])
		if !ok {
			return nil, false
		}
		if k == "optoff" || k == "opton" {
			s.l.SetOption(har.PostDataLogging(k == "opton"), har.BodyLogging(k == "opton"))
			s.t++
			outs = append(outs, "ok")
			continue
		}
		o, f, sg := s.apply(k, id, m)
		outs = append(outs, o)
		if f != "" && *fail == "" {
			*fail, *sig = fmt.Sprintf("%s, op %d (%s %s): %s", what, s.t-1, k, id, f), sg
		}
	}
	return outs, true
}

// lineSum: checksum of a line (kept in step with Drv/C17.lean lineSum).
func lineSum(acc int, line string) int {
	a := (acc*7 + 1) % 1000003
	for i := 0; i < len(line); i++ {
		a = (a*131 + int(line[i])) % 1000003
	}
	return a
}

// runRep: `rep n pre unit post` — LONG histories in the other dimension: on a fresh Logger the word
// `pre`, then the word `unit` n times (n drains with an entry pending, n exports, n duplicate
// requests, n rounds of other traffic …), then `post`. Same oracle as everywhere; the n rounds are
// compared with the model as first round, last round and a checksum over all their lines.
func runRep(ns, pre, unit, post string) core.Result {
	n, err := strconv.Atoi(ns)
	if err != nil || n < 0 || n > 100000 {
		return core.Result{Impl: "bad-op"}
	}
	fix := func(w string) string {
		if w == "-" {
			return ""
		}
		return w
	}
	pre, unit, post = fix(pre), fix(unit), fix(post)
	s := newSess(false)
	for _, c := range []byte(pre + "/" + unit + "/" + post) {
		s.salt = (s.salt*131 + int(c)) % 9973
	}
	what := fmt.Sprintf("history %q + %d × %q + %q", pre, n, unit, post)
	var fail, sig string
	o1, ok := s.word(pre, what, &fail, &sig)
	if !ok {
		return core.Result{Impl: "bad-op"}
	}
	sum := 0
	var first, last []string
	for k := 0; k < n; k++ {
		o, ok := s.word(unit, what, &fail, &sig)
		if !ok {
			return core.Result{Impl: "bad-op"}
		}
		for _, line := range o {
			sum = lineSum(sum, line)
		}
		if k == 0 {
			first = o
		}
		last = o
	}
	o3, ok := s.word(post, what, &fail, &sig)
	if !ok {
		return core.Result{Impl: "bad-op"}
	}
	core.Count("rep:runs")
	core.Stats["rep:rounds"] += n
	return core.Result{Impl: "rep " + strings.Join(o1, "|") + " ;n=" + strconv.Itoa(n) + " first=" + strings.Join(first, "|") +
		" last=" + strings.Join(last, "|") + " sum=" + strconv.Itoa(sum) + "; " + strings.Join(o3, "|"), Fail: fail, Sig: sig}
}

// ---- Exec ----

type ex struct{ s *sess }

func (P) NewExec() core.Exec { return &ex{s: newSess(true)} }
func (e *ex) Close()         {}

func (e *ex) Do(op string) core.Result {
	f := strings.Fields(op)
	if len(f) == 0 {
		return core.Result{Impl: "bad-op"}
	}
	switch {
	case f[0] == "seq" && len(f) == 2:
		return runSeq(f[1])
	case f[0] == "conc" && len(f) == 5:
		return runConc(f[1:])
	case f[0] == "alias" && len(f) == 1:
		return runAlias()
	case f[0] == "bigx" && len(f) == 3:
		n, e1 := strconv.Atoi(f[1])
		seed, e2 := strconv.ParseUint(f[2], 10, 64)
		if e1 != nil || e2 != nil || n < 1 || n > 1<<17 {
			return core.Result{Impl: "bad-op"}
		}
		return runBigX(n, seed)
	case f[0] == "ids" && len(f) == 3:
		seed, e1 := strconv.ParseUint(f[1], 10, 64)
		n, e2 := strconv.Atoi(f[2])
		if e1 != nil || e2 != nil || n < 1 || n > 200 {
			return core.Result{Impl: "bad-op"}
		}
		return runIDs(seed, n)
	case f[0] == "gate" && len(f) == 3:
		seed, e1 := strconv.ParseUint(f[1], 10, 64)
		n, e2 := strconv.Atoi(f[2])
		if e1 != nil || e2 != nil || n < 1 || n > 8 {
			return core.Result{Impl: "bad-op"}
		}
		return runGate(seed, n)
	case (f[0] == "req" || f[0] == "res") && len(f) == 2:
		impl, fail, sig := e.s.apply(f[0], f[1], plainMsg)
		return core.Result{Impl: impl, Fail: fail, Sig: sig}
	case f[0] == "reqm" && (len(f) == 5 || len(f) == 6) && (f[2] == "0" || f[2] == "1"):
		ct, ok1 := core.Unhex(f[3])
		ft, ok2 := parseMsgFault(f[4])
		sh, ok3 := optShape(f, 5)
		if !ok1 || !ok2 || !ok3 {
			return core.Result{Impl: "bad-op"}
		}
		impl, fail, sig := e.s.apply("req", f[1], msg{framed: f[2] == "1", ctype: string(ct), fault: ft, shape: sh})
		return core.Result{Impl: impl, Fail: fail, Sig: sig}
	case f[0] == "resm" && (len(f) == 4 || len(f) == 5):
		ct, ok1 := core.Unhex(f[2])
		ft, ok2 := parseMsgFault(f[3])
		sh, ok3 := optShape(f, 4)
		if !ok1 || !ok2 || !ok3 {
			return core.Result{Impl: "bad-op"}
		}
		impl, fail, sig := e.s.apply("res", f[1], msg{ctype: string(ct), fault: ft, shape: sh})
		return core.Result{Impl: impl, Fail: fail, Sig: sig}
	case f[0] == "hpark" && len(f) == 4:
		return runHPark(f[1], f[2], f[3])
	case f[0] == "rep" && len(f) == 5:
		return runRep(f[1], f[2], f[3], f[4])
	case f[0] == "bulk" && len(f) == 3:
		return runBulk(f[1], f[2])
	case f[0] == "opt" && (len(f) == 4) && (f[1] == "post" || f[1] == "body"):
		return e.s.applyOpt(f[1], f[2], f[3])
	case (f[0] == "export" || f[0] == "xreset" || f[0] == "reset") && len(f) == 1:
		impl, fail, sig := e.s.apply(f[0], "", plainMsg)
		return core.Result{Impl: impl, Fail: fail, Sig: sig}
	case (f[0] == "hexport" || f[0] == "hxreset" || f[0] == "hreset") && len(f) == 1:
		// the same operation through the HTTP handlers; the model sees the operation itself
		e.s.via = true
		impl, fail, sig := e.s.apply(f[0][1:], "", plainMsg)
		e.s.via = false
		return core.Result{Impl: impl, Fail: fail, Sig: sig, ModelOp: f[0][1:]}
	case f[0] == "hrefused" && len(f) == 2:
		return e.s.refused(f[1])
	}
	return core.Result{Impl: "bad-op"}
}

// optShape: the optional trailing shape token of reqm / resm (absent = 0, as the model reads it).
func optShape(f []string, i int) (int, bool) {
	if len(f) <= i {
		return 0, true
	}
	n, err := strconv.Atoi(f[i])
	return n, err == nil && n >= 0
}

// showShort: long lists are compared through a summary (kept in step with Drv/C17.lean showObsShort).
func showShort(line string, es []ent) string {
	if len(es) <= 8 {
		return line
	}
	sum := 0
	for _, e := range es {
		sum = (sum*31 + e.rq*7 + e.rs + 1) % 1000003
	}
	one := func(e ent) string { return strings.TrimPrefix(showEnts([]ent{e}), "log ") }
	return "log n=" + strconv.Itoa(len(es)) + " " + one(es[0]) + " .. " + one(es[len(es)-1]) + " sum=" + strconv.Itoa(sum)
}

// runBulk: `bulk N i1,i2,…` — a LARGE log on a fresh Logger: requests b0 … b(N-1); a response for
// every one except the listed indices; export-and-reset (drains N-k entries at once); export;
// then for every listed (still pending) entry a duplicate request and a response; export,
// export-and-reset, export. Same oracle as everywhere; long lists are compared as summaries.
func runBulk(ns, ps string) core.Result {
	n, err := strconv.Atoi(ns)
	if err != nil || n < 1 || n > 20000 {
		return core.Result{Impl: "bad-op"}
	}
	pend := map[int]bool{}
	var order []int
	if ps != "-" {
		for _, x := range strings.Split(ps, ",") {
			i, err := strconv.Atoi(x)
			if err != nil || i < 0 {
				return core.Result{Impl: "bad-op"}
			}
			pend[i] = true
			order = append(order, i)
		}
	}
	s := newSess(false)
	oks := 0
	var outs []string
	var fail, sig string
	do := func(kind, id string) {
		o, f, sg := s.apply(kind, id, plainMsg)
		if f != "" && fail == "" {
			fail, sig = fmt.Sprintf("bulk history (%d requests, %d left pending), op %d (%s %s): %s", n, len(order), s.t-1, kind, id, f), sg
		}
		if o == "ok" {
			oks++
			return
		}
		if strings.HasPrefix(o, "log ") && s.lastGot != nil {
			o = showShort(o, s.lastGot)
		}
		outs = append(outs, o)
	}
	bid := func(i int) string { return "b" + strconv.Itoa(i) }
	for i := 0; i < n; i++ {
		do("req", bid(i))
	}
	for i := 0; i < n; i++ {
		if !pend[i] {
			do("res", bid(i))
		}
	}
	do("xreset", "")
	do("export", "")
	for _, i := range order {
		do("req", bid(i))
		do("res", bid(i))
	}
	do("export", "")
	do("xreset", "")
	do("export", "")
	core.Count("bulk:runs")
	if s.nt {
		core.Count("bulk:drain-kept-some")
	}
	return core.Result{Impl: "bulk ok=" + strconv.Itoa(oks) + " " + strings.Join(outs, "|"), Fail: fail, Sig: sig}
}

func (P) Nontrivial(ops []string, impl []string) bool {
	// an export-and-reset that returned something while something stayed: the next export /
	// export-and-reset of the same history shows a kept entry. Recomputed from the observations.
	nt := false
	scan := func(kinds []string, outs []string) {
		live := map[string]bool{}
		for i, o := range outs {
			if i >= len(kinds) {
				break
			}
			switch kinds[i] {
			case "req":
				if o == "ok" {
					live[strconv.Itoa(i)] = true
				}
			case "reset":
				live = map[string]bool{}
			case "xreset":
				if o == "log -" || !strings.HasPrefix(o, "log ") {
					continue
				}
				n := strings.Count(o, ",") + 1
				if n < len(live) {
					nt = true
				}
				for _, e := range strings.Split(o[4:], ",") {
					if j := strings.IndexByte(e, ':'); j >= 0 {
						k := strings.IndexAny(e[j:], "+-")
						if k > 0 {
							delete(live, e[j+1:j+k])
						}
					}
				}
			}
		}
	}
	var kinds, outs []string
	for i, op := range ops {
		f := strings.Fields(op)
		if len(f) == 0 || i >= len(impl) {
			continue
		}
		if f[0] == "seq" && len(f) == 2 {
			var ks []string
			for j := 0; j < len(f[1]); j++ {
				k, _, _, _ := letterOp(f[1][j])
				ks = append(ks, k)
			}
			scan(ks, strings.Split(impl[i], "|"))
			continue
		}
		if f[0] == "gate" || f[0] == "ids" || f[0] == "bigx" {
			continue
		}
		if f[0] == "conc" || f[0] == "hpark" {
			nt = nt || strings.HasPrefix(impl[i], "lin ")
			continue
		}
		if f[0] == "rep" {
			nt = nt || strings.Contains(impl[i], "+")
			continue
		}
		if f[0] == "bulk" {
			nt = nt || strings.Contains(impl[i], "log n=")
			continue
		}
		k := f[0]
		switch k {
		case "reqm":
			k = "req"
		case "hexport", "hxreset", "hreset":
			k = k[1:]
		case "hrefused", "alias":
			continue
		}
		kinds = append(kinds, k)
		outs = append(outs, impl[i])
	}
	scan(kinds, outs)
	return nt
}
