package c17

import (
	"bytes"
	"fmt"
	"io"
	"net/http"
	"strings"
	"sync"
	"time"

	"github.com/google/martian/v3/har"
	"github.com/google/martian/v3/proxyutil"

	"verif/harness/internal/core"
)

// A call for one exchange never makes calls for other exchanges (or Export / Reset) wait for ITS
// message's body. The response of exchange "a" has a gated body: it yields a few bytes and then stalls
// (a slow, streaming origin) until the harness opens the gate - and the harness opens it only AFTER a
// sequence of other logger calls, made from other goroutines while RecordResponse("a") is inside the
// body read, has COMPLETED. A logger that holds its lock while it reads a body blocks those calls:
// reported as a hang with the schedule.
//
//	gate <seed> <n>   n other calls (1..8) drawn from: req b, res b, export, xreset, reset, req c, res c
type gatedBody struct {
	head    []byte
	tail    []byte
	reading chan struct{} // closed when the first read arrives
	release chan struct{} // the harness closes it to let the body finish
	once    sync.Once
	stage   int
}

func (g *gatedBody) Read(p []byte) (int, error) {
	g.once.Do(func() { close(g.reading) })
	switch g.stage {
	case 0:
		g.stage = 1
		return copy(p, g.head), nil
	case 1:
		<-g.release
		g.stage = 2
		return copy(p, g.tail), nil
	}
	return 0, io.EOF
}
func (g *gatedBody) Close() error { return nil }

const gateDeadline = 8 * time.Second

func within(d time.Duration, f func()) bool {
	done := make(chan struct{})
	go func() { defer close(done); defer func() { recover() }(); f() }()
	select {
	case <-done:
		return true
	case <-time.After(d):
		return false
	}
}

func gateOnce(seed uint64, n int) (schedule []string, stuck string) {
	r := core.NewRand(seed)
	l := har.NewLogger()
	mkReq := func(id string) *http.Request {
		q, _ := http.NewRequest("GET", "http://h.example/"+id, nil)
		return q
	}
	reqA := mkReq("a")
	l.RecordRequest("a", reqA)
	g := &gatedBody{head: []byte("first part, "), tail: []byte("rest"), reading: make(chan struct{}), release: make(chan struct{})}
	resA := proxyutil.NewResponse(200, nil, reqA)
	resA.Body = g
	resA.ContentLength = -1
	resA.Header.Set("Content-Type", "text/plain")
	aDone := make(chan struct{})
	go func() { defer close(aDone); defer func() { recover() }(); l.RecordResponse("a", resA) }()
	opened := false
	open := func() {
		if !opened {
			opened = true
			close(g.release)
		}
	}
	defer open()
	select {
	case <-g.reading:
	case <-time.After(gateDeadline):
		// the logger never read the body (body logging off / entry missing): nothing to gate
		return []string{"res a (body never read)"}, ""
	}
	schedule = append(schedule, "req a", "res a: inside the body read, stalled")
	for i := 0; i < n; i++ {
		call := r.Pick("req b", "res b", "export", "export", "xreset", "reset", "req c", "res c")
		schedule = append(schedule, call)
		ok := within(gateDeadline, func() {
			f := strings.Fields(call)
			switch f[0] {
			case "req":
				l.RecordRequest(f[1], mkReq(f[1]))
			case "res":
				q := mkReq(f[1])
				l.RecordResponse(f[1], proxyutil.NewResponse(200, bytes.NewReader([]byte("small")), q))
			case "export":
				l.Export()
			case "xreset":
				l.ExportAndReset()
			case "reset":
				l.Reset()
			}
		})
		if !ok {
			return schedule, call
		}
	}
	open()
	schedule = append(schedule, "gate opened")
	select {
	case <-aDone:
	case <-time.After(gateDeadline):
		return schedule, "res a (after the gate was opened)"
	}
	return schedule, ""
}

func runGate(seed uint64, n int) core.Result {
	sched, stuck := gateOnce(seed, n)
	if stuck != "" {
		// a wall-clock verdict: confirm it once more before reporting
		sched, stuck = gateOnce(seed, n)
	}
	core.Count("gate")
	if stuck != "" {
		return core.Result{SkipModel: true, Impl: "gate blocked", Sig: "c17:call-waits-for-another-body",
			Fail: fmt.Sprintf("%q did not return within %v (twice) while RecordResponse(a) was inside a stalled body read; schedule: %s", stuck, gateDeadline, strings.Join(sched, " ; "))}
	}
	return core.Result{SkipModel: true, Impl: fmt.Sprintf("gate ok %d", len(sched))}
}
