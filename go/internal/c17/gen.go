package c17

import (
	"strconv"

	"verif/harness/internal/core"
)

var alphabet = []byte("abcABCexr")

// allWords emits every word of exactly n letters over the alphabet, in blocks.
func allWords(n int, block int, emit func([]string)) {
	var ops []string
	buf := make([]byte, n)
	var rec func(i int)
	rec = func(i int) {
		if i == n {
			ops = append(ops, "seq "+string(buf))
			if len(ops) == block {
				emit(ops)
				ops = nil
			}
			return
		}
		for _, c := range alphabet {
			buf[i] = c
			rec(i + 1)
		}
	}
	rec(0)
	if len(ops) > 0 {
		emit(ops)
	}
}

type profile struct{ req, res, export, xreset, reset int }

var profiles = []profile{
	{40, 35, 8, 15, 2},  // balanced
	{55, 20, 5, 18, 2},  // many pending
	{35, 45, 5, 14, 1},  // mostly completed
	{30, 30, 5, 30, 5},  // export-and-reset heavy
	{45, 40, 10, 5, 0},  // long lists, few removals
	{30, 30, 10, 15, 15}, // reset heavy
}

func randomHistory(r *core.Rand, n int) []string {
	p := profiles[r.Intn(len(profiles))]
	ids := []string{"a", "b", "c", "d", "e", "f", "g", "h"}[:r.Range(2, 8)]
	if n > 100 {
		// long histories: a larger ID space so that the list really grows
		for i := 0; i < 40; i++ {
			ids = append(ids, "k"+strconv.Itoa(i))
		}
	}
	tot := p.req + p.res + p.export + p.xreset + p.reset
	ops := make([]string, 0, n)
	// a rough simulation of the log steers IDs: mostly fresh requests and responses for pending
	// entries, with a steady share of duplicates, repeated responses and orphans
	done := map[string]bool{} // live id -> completed
	pickWhere := func(f func(id string) bool) (string, bool) {
		var c []string
		for _, id := range ids {
			if f(id) {
				c = append(c, id)
			}
		}
		if len(c) == 0 {
			return "", false
		}
		return c[r.Intn(len(c))], true
	}
	for i := 0; i < n; i++ {
		x := r.Intn(tot)
		switch {
		case x < p.req:
			id := ids[r.Intn(len(ids))]
			if !r.Chance(1, 5) {
				if f, ok := pickWhere(func(id string) bool { _, live := done[id]; return !live }); ok {
					id = f
				}
			}
			if _, live := done[id]; !live {
				done[id] = false
			}
			ops = append(ops, "req "+id)
		case x < p.req+p.res:
			id := ids[r.Intn(len(ids))]
			if !r.Chance(1, 4) {
				if f, ok := pickWhere(func(id string) bool { d, live := done[id]; return live && !d }); ok {
					id = f
				}
			}
			if _, live := done[id]; live {
				done[id] = true
			}
			ops = append(ops, "res "+id)
		case x < p.req+p.res+p.export:
			ops = append(ops, "export")
		case x < p.req+p.res+p.export+p.xreset:
			for id, d := range done {
				if d {
					delete(done, id)
				}
			}
			ops = append(ops, "xreset")
		default:
			done = map[string]bool{}
			ops = append(ops, "reset")
		}
	}
	// always end by looking at the log twice
	return append(ops, "export", "xreset", "export")
}

func (P) Gen(r *core.Rand, tier string, emit func([]string)) {
	maxLen, nShort, nLong, nConc := 5, 300, 12, 24
	if tier == "thorough" {
		maxLen, nShort, nLong, nConc = 7, 6000, 300, 400
	}
	emit([]string{"alias"})
	for n := 1; n <= maxLen; n++ {
		allWords(n, 6561, emit)
	}
	core.Notes["exhaustive"] = "every word over {req a,b,c; res a,b,c; export; export-and-reset; reset} of length 1.." + strconv.Itoa(maxLen)
	for i := 0; i < nShort; i++ {
		emit(randomHistory(r, r.Range(5, 60)))
	}
	for i := 0; i < nLong; i++ {
		emit(randomHistory(r, r.Range(150, 400)))
	}
	for i := 0; i < nConc; i++ {
		g := 8
		n := r.Range(4, 14)
		mode := r.Pick("own", "shared", "reset")
		emit([]string{"conc " + strconv.FormatUint(r.U64()>>1, 10) + " " + strconv.Itoa(g) + " " + strconv.Itoa(n) + " " + mode})
	}
}
