package c17

import (
	"sort"
	"strconv"
	"strings"

	"verif/harness/internal/core"
)

// base alphabet (req a,b,c; res a,b,c; export; export-and-reset; reset) and the fault letters
// (1 2 3 = response for a b c whose body read fails, 4 5 6 = request for a b c whose body read fails)
var alphabet = []byte("abcABCexr")
var faultAlphabet = []byte("abcABCexr123456")

func isFaultLetter(c byte) bool { return c >= '1' && c <= '6' }

// idOf: which of the three IDs a letter is about (-1: none).
func idOf(c byte) int {
	switch {
	case c >= 'a' && c <= 'c':
		return int(c - 'a')
	case c >= 'A' && c <= 'C':
		return int(c - 'A')
	case c >= '1' && c <= '3':
		return int(c - '1')
	case c >= '4' && c <= '6':
		return int(c - '4')
	}
	return -1
}

// allWords emits every word of exactly n letters over the alphabet that satisfies keep (nil =
// all), in blocks. canon = only words whose IDs first occur in the order a, b, c (one
// representative of every class of words equal up to a renaming of the IDs).
func allWords(alpha []byte, n int, block int, canon bool, keep func([]byte) bool, emit func([]string)) int {
	var ops []string
	buf := make([]byte, n)
	total := 0
	var rec func(i, used int)
	rec = func(i, used int) {
		if i == n {
			if keep != nil && !keep(buf) {
				return
			}
			total++
			ops = append(ops, "seq "+string(buf))
			if len(ops) == block {
				emit(ops)
				ops = nil
			}
			return
		}
		for _, c := range alpha {
			u := used
			if canon {
				if d := idOf(c); d >= 0 {
					if d > used {
						continue
					}
					if d == used {
						u = used + 1
					}
				}
			}
			buf[i] = c
			rec(i+1, u)
		}
	}
	rec(0, 0)
	if len(ops) > 0 {
		emit(ops)
	}
	return total
}

func hasFault(w []byte) bool {
	for _, c := range w {
		if isFaultLetter(c) {
			return true
		}
	}
	return false
}

type profile struct{ req, res, export, xreset, reset, faulty, opts int }

// faulty = percentage of req/res calls that carry a non-plain message (a framed body, a content
// type, a read / decode fault); opts = weight of SetOption calls.
var profiles = []profile{
	{40, 35, 8, 15, 2, 0, 0},    // balanced, plain messages only
	{55, 20, 5, 18, 2, 15, 1},   // many pending
	{35, 45, 5, 14, 1, 25, 2},   // mostly completed
	{30, 30, 5, 30, 5, 30, 2},   // export-and-reset heavy
	{45, 40, 10, 5, 0, 10, 1},   // long lists, few removals
	{30, 30, 10, 15, 15, 20, 3}, // reset heavy
	{35, 40, 5, 18, 2, 60, 6},   // fault heavy
}

var reqCtypes = []string{"", "text/plain", "application/json", "application/x-www-form-urlencoded",
	"multipart/form-data; boundary=" + mpBoundary, "Application/X-WWW-Form-Urlencoded; charset=utf-8", "image/png"}
var resCtypes = []string{"", "text/plain", "Text/HTML; charset=utf-8", "application/json", "image/png", "application/octet-stream"}
var optPrefixes = []string{"text/", "application/", "image/png", "TEXT/html", "multipart/", "application/x-www", "a", ""}

func randMsgOp(r *core.Rand, isReq bool, id string) string {
	if isReq {
		ct := reqCtypes[r.Intn(len(reqCtypes))]
		framed := r.Chance(4, 5)
		fault := "n"
		switch x := r.Intn(10); {
		case x < 4:
			fault = "r"
		case x < 7:
			if _, ok := reqPayload(ct, true); ok {
				fault = "d"
			}
		}
		fr := "0"
		if framed {
			fr = "1"
		}
		return "reqm " + id + " " + fr + " " + core.HexS(ct) + " " + fault + " " + strconv.Itoa(r.Intn(nReqShapes))
	}
	ct := resCtypes[r.Intn(len(resCtypes))]
	fault := "n"
	switch x := r.Intn(10); {
	case x < 4:
		fault = "r"
	case x < 7:
		fault = "d"
	}
	return "resm " + id + " " + core.HexS(ct) + " " + fault + " " + strconv.Itoa(r.Intn(nResShapes))
}

// bulkCases: LARGE logs. n completed + k pending entries with n around each power-of-two
// threshold (an implementation may change representation there: map growth, batching, index
// rebuilds), drained by one export-and-reset, then a duplicate request and a response for EVERY
// entry that stayed (where they sit — first, last, spread, inside — is varied).
//
// The Lean heap model represents fields as functions, so replaying a history of N entries costs
// O(N²) in the driver (0.03 s at 512, 0.12 s at 1024, 2.3 s at 4096): the big sizes get fewer cases.
type bulkPlan struct {
	th     int
	deltas []int
	ks     []int
	wheres []string
}

func bulkCases(r *core.Rand, plans []bulkPlan, emit func([]string)) {
	for _, pl := range plans {
		th := pl.th
		for _, d := range pl.deltas {
			n := th + d
			for _, k := range pl.ks {
				total := n + k
				for _, where := range pl.wheres {
					var idx []int
					switch where {
					case "tail":
						for i := total - k; i < total; i++ {
							idx = append(idx, i)
						}
					case "head":
						for i := 0; i < k; i++ {
							idx = append(idx, i)
						}
					case "spread": // first … last, evenly
						for j := 0; j < k; j++ {
							if k == 1 {
								idx = append(idx, total-1)
							} else {
								idx = append(idx, j*(total-1)/(k-1))
							}
						}
					case "inside": // the newest entry is completed, the pending ones are just before it
						for i := total - 1 - k; i < total-1; i++ {
							idx = append(idx, i)
						}
					case "random":
						seen := map[int]bool{}
						for len(idx) < k {
							i := r.Intn(total)
							if !seen[i] {
								seen[i] = true
								idx = append(idx, i)
							}
						}
						sort.Ints(idx)
					}
					arg := ""
					for j, i := range idx {
						if j > 0 {
							arg += ","
						}
						arg += strconv.Itoa(i)
					}
					emit([]string{"bulk " + strconv.Itoa(total) + " " + arg})
				}
			}
		}
	}
}

func randOptOp(r *core.Rand) string {
	which := r.Pick("post", "body")
	switch r.Intn(4) {
	case 0:
		return "opt " + which + " all 0"
	case 1:
		return "opt " + which + " all 1"
	}
	n := r.Range(0, 3)
	var hs []string
	for i := 0; i < n; i++ {
		hs = append(hs, core.HexS(optPrefixes[r.Intn(len(optPrefixes))]))
	}
	arg := "-"
	if len(hs) > 0 {
		arg = hs[0]
		for _, h := range hs[1:] {
			arg += "," + h
		}
	}
	return "opt " + which + " " + r.Pick("only", "skip") + " " + arg
}

func randomHistory(r *core.Rand, n int) []string {
	p := profiles[r.Intn(len(profiles))]
	ids := []string{"a", "b", "c", "d", "e", "f", "g", "h"}[:r.Range(2, 8)]
	if n > 100 {
		// long histories: a larger ID space so that the list really grows
		for i := 0; i < 40; i++ {
			ids = append(ids, "k"+strconv.Itoa(i))
		}
	}
	tot := p.req + p.res + p.export + p.xreset + p.reset + p.opts
	ops := make([]string, 0, n)
	// a rough simulation of the log steers IDs: mostly fresh requests and responses for pending
	// entries, with a steady share of duplicates, repeated responses and orphans
	done := map[string]bool{} // live id -> completed
	pickWhere := func(f func(id string) bool) (string, bool) {
		var c []string
		for _, id := range ids {
			if f(id) {
				c = append(c, id)
			}
		}
		if len(c) == 0 {
			return "", false
		}
		return c[r.Intn(len(c))], true
	}
	// a quarter of the histories reach the log through the HTTP handlers as well
	handlers := r.Chance(1, 4)
	via := func() string {
		if handlers && r.Chance(1, 2) {
			return "h"
		}
		return ""
	}
	for i := 0; i < n; i++ {
		if handlers && r.Chance(1, 25) {
			ops = append(ops, "hrefused "+r.Pick("export", "reset", "param"))
		}
		x := r.Intn(tot)
		switch {
		case x < p.req:
			id := ids[r.Intn(len(ids))]
			if !r.Chance(1, 5) {
				if f, ok := pickWhere(func(id string) bool { _, live := done[id]; return !live }); ok {
					id = f
				}
			}
			if r.Intn(100) < p.faulty {
				// whether it is recorded depends on the options in force: the steering
				// simulation does not follow that (it only biases the choice of IDs)
				ops = append(ops, randMsgOp(r, true, id))
				continue
			}
			if _, live := done[id]; !live {
				done[id] = false
			}
			ops = append(ops, "req "+id)
		case x < p.req+p.res:
			id := ids[r.Intn(len(ids))]
			if !r.Chance(1, 4) {
				if f, ok := pickWhere(func(id string) bool { d, live := done[id]; return live && !d }); ok {
					id = f
				}
			}
			if r.Intn(100) < p.faulty {
				ops = append(ops, randMsgOp(r, false, id))
				continue
			}
			if _, live := done[id]; live {
				done[id] = true
			}
			ops = append(ops, "res "+id)
		case x < p.req+p.res+p.export:
			ops = append(ops, via()+"export")
		case x < p.req+p.res+p.export+p.xreset:
			for id, d := range done {
				if d {
					delete(done, id)
				}
			}
			ops = append(ops, via()+"xreset")
		case x < p.req+p.res+p.export+p.xreset+p.reset:
			done = map[string]bool{}
			ops = append(ops, via()+"reset")
		default:
			ops = append(ops, randOptOp(r))
		}
	}
	// always end by looking at the log twice
	return append(ops, "export", "xreset", "export")
}

func (P) Gen(r *core.Rand, tier string, emit func([]string)) {
	maxLen, maxFault, canonFault, nShort, nLong, nConc, nStorm, nHammer := 5, 4, 5, 300, 12, 40, 16, 150
	if tier == "thorough" {
		maxLen, maxFault, canonFault, nShort, nLong, nConc, nStorm, nHammer = 7, 5, 6, 6000, 300, 400, 300, 3000
	}
	emit([]string{"alias"})
	// a response body that stalls while other logger calls must complete (gate.go)
	nGate := 12
	if tier == "thorough" {
		nGate = 120
	}
	// ExportAndReset on big, mostly completed logs (ids.go: bigx)
	bigs := []int{255, 1024, 4096, 4097, 4700, 8193}
	if tier == "thorough" {
		bigs = []int{255, 256, 257, 1023, 1024, 1025, 4095, 4096, 4097, 5000, 8191, 8192, 8193, 10000, 16385, 40000}
	}
	for _, n := range bigs {
		emit([]string{"bigx " + strconv.Itoa(n) + " " + strconv.FormatUint(r.U64()%1000000, 10)})
	}
	// the ID alphabet (ids.go): histories over IDs that differ only in case, are prefixes, are empty, ...
	for i := 0; i < 25*nGate; i++ {
		emit([]string{"ids " + strconv.FormatUint(r.U64()%1000000, 10) + " " + strconv.Itoa(r.Range(4, 30))})
	}
	for i := 0; i < nGate; i++ {
		emit([]string{"gate " + strconv.FormatUint(r.U64()%1000000, 10) + " " + strconv.Itoa(r.Range(1, 6))})
	}
	nBase, nFault, nCanon := 0, 0, 0
	for n := 1; n <= maxLen; n++ {
		nBase += allWords(alphabet, n, 6561, false, nil, emit)
	}
	// the same alphabet plus the failing calls (resfail a|b|c, reqfail a|b|c): every word that
	// contains at least one of them (the others were just run)
	for n := 1; n <= maxFault; n++ {
		nFault += allWords(faultAlphabet, n, 6561, false, hasFault, emit)
	}
	// one step longer, one representative per renaming of the IDs
	for n := maxFault + 1; n <= canonFault; n++ {
		nCanon += allWords(faultAlphabet, n, 6561, true, hasFault, emit)
	}
	core.Notes["exhaustive"] = "every word over {req a,b,c; res a,b,c; export; export-and-reset; reset} of length 1.." + strconv.Itoa(maxLen) +
		" (" + strconv.Itoa(nBase) + "); every word over that alphabet + {failing response a,b,c; failing request a,b,c} of length 1.." + strconv.Itoa(maxFault) +
		" with at least one failing call (" + strconv.Itoa(nFault) + "); the same of length " + strconv.Itoa(canonFault) + " up to renaming of the IDs (" + strconv.Itoa(nCanon) + ")"
	for i := 0; i < nShort; i++ {
		emit(randomHistory(r, r.Range(5, 60)))
	}
	for i := 0; i < nLong; i++ {
		emit(randomHistory(r, r.Range(150, 400)))
	}
	// long histories in the other dimension: one op (or a short round) repeated n times on a
	// small fixed state, n around the powers of two. Rounds that record new entries make the Lean
	// heap model slow (its fields are function closures that only grow): those stop at 4097.
	counts := []int{255, 256, 257, 1023, 1024, 1025, 4097}
	if tier == "thorough" {
		counts = []int{63, 64, 65, 127, 128, 129, 255, 256, 257, 511, 512, 513, 1023, 1024, 1025, 2047, 2048, 2049, 4095, 4096, 4097, 8193}
	}
	for _, n := range counts {
		for _, pre := range []string{"a", "abA", "baB"} {
			for _, unit := range []string{"x", "e", "a", "A", "1", "4", "xe", "r", "bBx", "cx", "bx2"} {
				growing := strings.ContainsAny(unit, "abcABC")
				if growing && unit != "a" && unit != "A" && n > 4097 {
					continue
				}
				if tier != "thorough" && pre == "baB" && unit != "x" && unit != "bBx" {
					continue
				}
				// afterwards: the late response, a drain (must return the entry if it is still
				// there), export, the ID again with its own response, drain, export
				emit([]string{"rep " + strconv.Itoa(n) + " " + pre + " " + unit + " AxeaAxe"})
			}
		}
	}
	// the handler level, schedule by schedule
	if tier == "thorough" {
		hparkWords("abABx", "abABxe", 4, 2, emit)
	} else {
		hparkWords("abAB", "abABx", 3, 2, emit)
	}
	for i := 0; i < nConc; i++ {
		g := 8
		n := r.Range(4, 14)
		mode := r.Pick("own", "shared", "reset", "hmix", "hmix")
		emit([]string{"conc " + strconv.FormatUint(r.U64()>>1, 10) + " " + strconv.Itoa(g) + " " + strconv.Itoa(n) + " " + mode})
	}
	allD, allK, allW := []int{-1, 0, 1}, []int{1, 2, 3, 17}, []string{"tail", "head", "spread", "inside", "random"}
	if tier == "thorough" {
		bulkCases(r, []bulkPlan{{64, allD, allK, allW}, {128, allD, allK, allW}, {256, allD, allK, allW}, {512, allD, allK, allW},
			{1024, allD, allK, allW}, {2048, allD, []int{1, 2, 17}, allW}, {4096, allD, []int{1, 2}, []string{"tail", "spread", "inside"}},
			{8192, []int{0}, []int{1}, []string{"tail", "spread"}}}, emit)
	} else {
		someK, someW := []int{1, 2, 17}, []string{"tail", "spread", "inside", "random"}
		bulkCases(r, []bulkPlan{{256, allD, someK, someW}, {512, allD, someK, someW},
			{1024, allD, []int{1, 2}, []string{"tail", "spread"}}, {4096, []int{0}, []int{1}, []string{"tail"}}}, emit)
	}
	// hammering: short bodiless calls back to back (what overlaps is the critical sections)
	for i := 0; i < nHammer; i++ {
		g := r.Pick("4", "8", "8", "12")
		n := r.Range(15, 60)
		emit([]string{"conc " + strconv.FormatUint(r.U64()>>1, 10) + " " + g + " " + strconv.Itoa(n) + " hammer"})
	}
	// duplicate storms: every goroutine hammers the same id at the same time (see stormSteps)
	for i := 0; i < nStorm; i++ {
		g := r.Pick("2", "3", "5", "8")
		n := r.Range(3, 9)
		emit([]string{"conc " + strconv.FormatUint(r.U64()>>1, 10) + " " + g + " " + strconv.Itoa(n) + " storm"})
	}
}
