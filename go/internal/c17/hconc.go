package c17

import (
	"encoding/json"
	"fmt"
	"net/http"
	"net/http/httptest"
	"runtime"
	"strconv"
	"strings"
	"sync"
	"time"

	"github.com/google/martian/v3/har"

	"verif/harness/internal/core"
)

// The handler level under concurrency (har_handlers.go). A handler call is: parse the request,
// ONE Logger call, write that call's result to the client. The writing happens after the lock is
// released and takes as long as the client takes to read: calls of other connections land in it.

// hookWriter is the client of a handler call: a ResponseWriter that, the first time the handler
// hands it anything (header or body), runs `hook` (other connections' calls, or a few yields).
type hookWriter struct {
	rec  *httptest.ResponseRecorder
	hook func()
	once sync.Once
}

func (w *hookWriter) Header() http.Header { return w.rec.Header() }
func (w *hookWriter) Write(p []byte) (int, error) {
	w.once.Do(w.run)
	return w.rec.Write(p)
}
func (w *hookWriter) WriteHeader(code int) {
	w.once.Do(w.run)
	w.rec.WriteHeader(code)
}
func (w *hookWriter) run() {
	if w.hook != nil {
		w.hook()
	}
}

// serveOp runs an export / export-and-reset / reset through its HTTP handler.
func serveOp(l *har.Logger, kind string, hook func()) ([]ent, string) {
	var h http.Handler
	var req *http.Request
	switch kind {
	case "export":
		h, req = har.NewExportHandler(l), httptest.NewRequest("GET", "http://martian.proxy/logs", nil)
	case "xreset":
		h, req = har.NewResetHandler(l), httptest.NewRequest("POST", "http://martian.proxy/logs/reset?return=true", nil)
	case "reset":
		h, req = har.NewResetHandler(l), httptest.NewRequest("DELETE", "http://martian.proxy/logs/reset", nil)
	default:
		return nil, "no handler for " + kind
	}
	w := &hookWriter{rec: httptest.NewRecorder(), hook: hook}
	h.ServeHTTP(w, req)
	if kind == "reset" {
		if w.rec.Code != http.StatusNoContent {
			return nil, fmt.Sprintf("reset handler answered %d", w.rec.Code)
		}
		return nil, ""
	}
	if w.rec.Code != http.StatusOK {
		return nil, fmt.Sprintf("%s handler answered %d", kind, w.rec.Code)
	}
	out := &har.HAR{}
	if err := json.Unmarshal(w.rec.Body.Bytes(), out); err != nil {
		return nil, "handler body is not a HAR log: " + err.Error()
	}
	return readHAR(out, true)
}

// slowClient: a client that takes its time (the handler's goroutine is descheduled a few times
// while it writes).
func slowClient() {
	for i := 0; i < 4; i++ {
		runtime.Gosched()
	}
	time.Sleep(20 * time.Microsecond)
}

func wordProg(w string, base int) ([]*cop, bool) {
	var p []*cop
	for i := 0; i < len(w); i++ {
		k, id, m, ok := letterOp(w[i])
		if !ok || k == "optoff" || k == "opton" {
			return nil, false
		}
		p = append(p, &cop{kind: k, id: id, tag: base + i, fault: m.fault != 'n'})
	}
	return p, true
}

// runHPark: `hpark <export|xreset|reset> <pre> <during>` — the controlled schedule of the handler
// level. On a fresh Logger: the history `pre` (seq letters; `-` = empty), then the handler call,
// whose client, when the handler starts writing to it, lets ANOTHER connection make the calls
// `during` and only then accepts the bytes; afterwards export, export-and-reset, export. Checked
// like every concurrent run: nothing accepted may vanish, nothing may be returned twice, and the
// observed results must be those of one sequential order of the calls that respects real time
// (the handler call overlaps the `during` calls); that order is replayed by the Lean model.
func runHPark(which, pre, during string) core.Result {
	if pre == "-" {
		pre = ""
	}
	mainProg, ok1 := wordProg(pre, 0)
	durProg, ok2 := wordProg(during, 1000)
	if !ok1 || !ok2 || (which != "export" && which != "xreset" && which != "reset") {
		return core.Result{Impl: "bad-op", SkipModel: true}
	}
	if concHangs >= 2 {
		core.Count("conc:skipped-after-hangs")
		return core.Result{Impl: "conc skipped", SkipModel: true}
	}
	l := har.NewLogger()
	var clk int64
	hcall := &cop{kind: which, tag: len(pre), handler: true}
	tailProg := []*cop{{kind: "export", tag: 900000}, {kind: "xreset", tag: 900001}, {kind: "export", tag: 900002}}
	errc := make(chan string, 4)
	finished := make(chan struct{})
	go func() {
		defer close(finished)
		defer func() {
			if x := recover(); x != nil {
				errc <- fmt.Sprintf("panic: %v", x)
			}
		}()
		for _, o := range mainProg {
			if e := execOp(l, o, &clk); e != "" {
				errc <- e
				return
			}
		}
		otherDone := make(chan struct{})
		hcall.hook = func() {
			go func() {
				defer close(otherDone)
				defer func() {
					if x := recover(); x != nil {
						errc <- fmt.Sprintf("panic: %v", x)
					}
				}()
				for _, o := range durProg {
					if e := execOp(l, o, &clk); e != "" {
						errc <- e
						return
					}
				}
			}()
			// the client waits for the other connection — unless that one is itself waiting for
			// the handler (an implementation that writes while holding the lock): then go on
			select {
			case <-otherDone:
			case <-time.After(300 * time.Millisecond):
				core.Count("hpark:other-connection-blocked-by-handler")
			}
		}
		if e := execOp(l, hcall, &clk); e != "" {
			errc <- e
			return
		}
		if !hcall.hooked {
			// the handler never wrote anything: the other connection runs afterwards
			hcall.hook()
		}
		<-otherDone
		for _, o := range tailProg {
			if e := execOp(l, o, &clk); e != "" {
				errc <- e
				return
			}
		}
	}()
	select {
	case <-finished:
	case <-time.After(concBound):
		concHangs++
		return core.Result{Impl: "conc fail", Fail: "the handler run did not finish within " + concBound.String(), Sig: "conc:hang", SkipModel: true}
	}
	select {
	case e := <-errc:
		return core.Result{Impl: "conc fail", Fail: e, Sig: "conc:malformed", SkipModel: true}
	default:
	}
	progs := [][]*cop{append(mainProg, hcall), durProg, tailProg}
	mode := ""
	if which == "reset" || strings.ContainsRune(pre+during, 'r') {
		mode = "reset"
	}
	core.Count("hpark:runs")
	if fail, sig := directChecks(progs, mode); fail != "" {
		return core.Result{Impl: "conc fail", Fail: fail + dumpHistory(progs), Sig: sig, SkipModel: true}
	}
	found, conclusive, _, order := linearise(progs, 200000)
	switch {
	case found:
		core.Count("hpark:linearised")
		op, obs := linLine(order)
		return core.Result{Impl: obs, ModelOp: op}
	case !conclusive:
		core.Count("conc:search-inconclusive")
		return core.Result{Impl: "conc inconclusive", SkipModel: true}
	}
	return core.Result{Impl: "conc fail", Fail: "no sequential order of the calls (respecting real-time order) explains the observed results" + dumpHistory(progs),
		Sig: "conc:not-linearisable", SkipModel: true}
}

// hparkWords emits every `hpark` op with pre over preAlpha up to preLen and during over durAlpha of
// length 1..durLen, for the three handler calls, in blocks.
func hparkWords(preAlpha, durAlpha string, preLen, durLen int, emit func([]string)) int {
	words := func(alpha string, lo, hi int) []string {
		var out []string
		var rec func(w string, n int)
		rec = func(w string, n int) {
			if len(w) == n {
				out = append(out, w)
				return
			}
			for i := 0; i < len(alpha); i++ {
				rec(w+string(alpha[i]), n)
			}
		}
		for n := lo; n <= hi; n++ {
			rec("", n)
		}
		return out
	}
	pres, durs := words(preAlpha, 0, preLen), words(durAlpha, 1, durLen)
	var ops []string
	total := 0
	for _, which := range []string{"xreset", "export", "reset"} {
		for _, p := range pres {
			if p == "" {
				p = "-"
			}
			for _, d := range durs {
				ops = append(ops, "hpark "+which+" "+p+" "+d)
				total++
				if len(ops) == 400 {
					emit(ops)
					ops = nil
				}
			}
		}
	}
	if len(ops) > 0 {
		emit(ops)
	}
	core.Notes["handler-level"] = "every hpark schedule: handler ∈ {export, export-and-reset, reset}, history before it over {" + preAlpha + "} up to length " +
		strconv.Itoa(preLen) + ", calls of another connection while the handler writes over {" + durAlpha + "} of length 1.." + strconv.Itoa(durLen) + " (" + strconv.Itoa(total) + ")"
	return total
}
