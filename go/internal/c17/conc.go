package c17

import (
	"fmt"
	"os"
	"runtime"
	"sort"
	"strconv"
	"strings"
	"sync"
	"sync/atomic"
	"time"

	"github.com/google/martian/v3/har"

	"verif/harness/internal/core"
)

// One call of a concurrent run with its invocation / return stamps (a global atomic counter).
type cop struct {
	kind, id string
	tag      int
	inv, ret int64
	dup      bool
	ents     []ent
	fault    bool   // req / res whose body reader fails (framed request, logging on: the call must fail)
	failed   bool   // the call returned the message error
	slow     bool   // the body yields the processor on every read
	g        *gate  // storm step: parked in the body read until the whole step is in flight
	handler  bool   // export / export-and-reset / reset made through the HTTP handler
	hook     func() // what the handler's client does when the handler starts writing to it
	hooked   bool
}

func (o *cop) String() string {
	s := fmt.Sprintf("[%d,%d] %s %s#%d", o.inv, o.ret, o.kind, o.id, o.tag)
	switch o.kind {
	case "req", "res":
		if o.fault {
			s += "(bad body)"
		}
		if o.dup {
			s += " -> dup"
		}
		if o.failed {
			s += " -> err"
		}
	case "export", "xreset":
		if o.handler {
			s += "(handler)"
		}
		s += " -> " + showEnts(o.ents)
	}
	return s
}

func genProgram(r *core.Rand, g, n int, mode string) []*cop {
	var prog []*cop
	var mine []string
	for k := 0; k < n; k++ {
		o := &cop{tag: g*1000 + k}
		x := r.Intn(100)
		pick := func() string {
			if (mode == "shared" || mode == "hmix") && r.Chance(2, 5) {
				return "s" + strconv.Itoa(r.Intn(3))
			}
			return "g" + strconv.Itoa(g) + "i" + strconv.Itoa(r.Intn(3))
		}
		if mode == "hammer" {
			// bodiless calls back to back on four shared IDs, export-and-reset heavy: the calls
			// are short, so what overlaps is the critical sections themselves
			o.id = "h" + strconv.Itoa(r.Intn(4))
			switch {
			case x < 34:
				o.kind = "req"
			case x < 62:
				o.kind = "res"
			case x < 90:
				o.kind = "xreset"
			default:
				o.kind = "export"
			}
			if o.kind == "xreset" || o.kind == "export" {
				o.handler = r.Chance(1, 4)
			}
			prog = append(prog, o)
			continue
		}
		switch {
		case x < 36:
			o.kind, o.id = "req", pick()
			o.fault, o.slow = r.Chance(1, 8), r.Chance(1, 3)
			if !o.fault {
				mine = append(mine, o.id)
			}
		case x < 70:
			o.kind = "res"
			if len(mine) > 0 && !r.Chance(1, 6) {
				o.id = mine[r.Intn(len(mine))]
			} else {
				o.id = pick()
			}
			o.fault, o.slow = r.Chance(1, 6), r.Chance(1, 3)
		case x < 78:
			o.kind = "export"
		case x < 97 || mode != "reset":
			o.kind = "xreset"
		default:
			o.kind = "reset"
		}
		if mode == "hmix" && o.kind != "req" && o.kind != "res" {
			// through the HTTP handlers, with a client that is slow to take the answer
			o.handler = true
			if r.Chance(2, 3) {
				o.hook = slowClient
			}
		}
		prog = append(prog, o)
	}
	return prog
}

// stormSteps builds the programs of a duplicate storm: at step k every goroutine makes a call
// about the SAME id (mostly RecordRequest, also RecordResponse, now and then an export-and-reset
// or export); the record calls of a step share a gate, so they are all in flight, past everything
// the implementation does before reading the body, when the first of them goes on.
func stormSteps(r *core.Rand, G, n int) [][]*cop {
	progs := make([][]*cop, G)
	ids := []string{"s0", "s1"}
	for k := 0; k < n; k++ {
		id := ids[r.Intn(len(ids))]
		reqW := r.Pick("90", "60", "35") // request-heavy, mixed, response-heavy step
		rw, _ := strconv.Atoi(reqW)
		var gated []*cop
		for g := 0; g < G; g++ {
			o := &cop{tag: g*1000 + k, id: id}
			switch x := r.Intn(100); {
			case x < rw:
				o.kind = "req"
				o.fault = r.Chance(1, 10)
			case x < 92:
				o.kind = "res"
				o.fault = r.Chance(1, 8)
			case x < 98:
				o.kind = "xreset"
			default:
				o.kind = "export"
			}
			if o.kind == "req" || o.kind == "res" {
				gated = append(gated, o)
			}
			progs[g] = append(progs[g], o)
		}
		gt := newGate(len(gated), 250*time.Millisecond)
		for _, o := range gated {
			o.g = gt
		}
	}
	return progs
}

func (o *cop) msg() msg {
	m := msg{fault: 'n', shape: -1}
	if o.fault {
		m.fault = 'r'
	}
	// a framed request / a response with a real body is what makes har read (and so lets the
	// gate or the yields act); plain calls stay bodiless
	if o.kind == "req" && (o.fault || o.slow || o.g != nil) {
		m.framed = true
	}
	return m
}

func execOp(l *har.Logger, o *cop, clk *int64) string {
	var yield func()
	if o.slow {
		yield = runtime.Gosched
	}
	switch o.kind {
	case "req":
		m := o.msg()
		b := mkReqMsg(o.id, o.tag, m, o.g, yield)
		o.inv = atomic.AddInt64(clk, 1)
		err := l.RecordRequest(o.id, b.req)
		o.ret = atomic.AddInt64(clk, 1)
		switch classify(err, b, m) {
		case "err dup":
			o.dup = true
		case "err msg":
			o.failed = true
		}
	case "res":
		m := o.msg()
		var b built
		if m.fault == 'n' && o.g == nil && !o.slow {
			b = mkResMsg(o.tag, m, nil, nil)
		} else {
			b = mkResMsg(o.tag, msg{ctype: "text/plain", fault: m.fault, shape: -1}, o.g, yield)
		}
		o.inv = atomic.AddInt64(clk, 1)
		err := l.RecordResponse(o.id, b.res)
		o.ret = atomic.AddInt64(clk, 1)
		if err != nil {
			if !o.fault {
				return "RecordResponse: " + err.Error()
			}
			o.failed = true
		}
	case "export", "xreset", "reset":
		if !o.handler {
			return execDirect(l, o, clk)
		}
		var hook func()
		if o.hook != nil {
			hook = func() { o.hooked = true; o.hook() }
		}
		o.inv = atomic.AddInt64(clk, 1)
		es, bad := serveOp(l, o.kind, hook)
		o.ret = atomic.AddInt64(clk, 1)
		if bad != "" {
			return bad
		}
		o.ents = es
	}
	return ""
}

func execDirect(l *har.Logger, o *cop, clk *int64) string {
	switch o.kind {
	case "export":
		o.inv = atomic.AddInt64(clk, 1)
		h := l.Export()
		o.ret = atomic.AddInt64(clk, 1)
		// Export hands out copies made under the lock (the `alias` op checks that), so the
		// Response field of what it returned is stable and is part of the observation.
		es, bad := readHAR(h, true)
		if bad != "" {
			return bad
		}
		o.ents = es
	case "xreset":
		o.inv = atomic.AddInt64(clk, 1)
		h := l.ExportAndReset()
		o.ret = atomic.AddInt64(clk, 1)
		es, bad := readHAR(h, true)
		if bad != "" {
			return bad
		}
		o.ents = es
	case "reset":
		o.inv = atomic.AddInt64(clk, 1)
		l.Reset()
		o.ret = atomic.AddInt64(clk, 1)
	}
	return ""
}

// specApply is the sequential reading of the property on a list of entries; it returns the
// next state and whether the observation recorded in o is the one the sequential log gives.
func specApply(st []ent, o *cop) ([]ent, bool) {
	find := func() int {
		for i := range st {
			if st[i].id == o.id {
				return i
			}
		}
		return -1
	}
	switch o.kind {
	case "req":
		if o.failed {
			return st, true // returned the message error: recorded nothing, at any point
		}
		if find() >= 0 {
			return st, o.dup
		}
		if o.dup {
			return st, false
		}
		return append(append([]ent{}, st...), ent{o.id, o.tag, -1}), true
	case "res":
		if o.failed {
			return st, true
		}
		i := find()
		if i < 0 {
			return st, true
		}
		n := append([]ent{}, st...)
		n[i].rs = o.tag
		return n, true
	case "export":
		if len(o.ents) != len(st) {
			return st, false
		}
		for i := range st {
			if st[i] != o.ents[i] {
				return st, false
			}
		}
		return st, true
	case "xreset":
		var keep []ent
		j := 0
		for _, e := range st {
			if e.rs < 0 {
				keep = append(keep, e)
				continue
			}
			if j >= len(o.ents) || o.ents[j] != e {
				return st, false
			}
			j++
		}
		return keep, j == len(o.ents)
	case "reset":
		return nil, true
	}
	return st, false
}

// linearise: Wing-Gong search with memoisation. Returns (found, conclusive).
func linearise(progs [][]*cop, budget int) (bool, bool, int, []*cop) {
	pos := make([]int, len(progs))
	var order []*cop
	dead := map[string]bool{}
	nodes := 0
	key := func(st []ent) string {
		var b strings.Builder
		for _, p := range pos {
			b.WriteByte(byte(p))
		}
		for _, e := range st {
			b.WriteString(strconv.Itoa(e.rq))
			b.WriteByte(':')
			b.WriteString(strconv.Itoa(e.rs))
			b.WriteByte(',')
		}
		return b.String()
	}
	var rec func(st []ent) bool
	exhausted := false
	rec = func(st []ent) bool {
		nodes++
		if nodes > budget {
			exhausted = true
			return false
		}
		minRet := int64(1) << 62
		left := false
		for g, p := range progs {
			if pos[g] < len(p) {
				left = true
				if p[pos[g]].ret < minRet {
					minRet = p[pos[g]].ret
				}
			}
		}
		if !left {
			return true
		}
		k := key(st)
		if dead[k] {
			return false
		}
		// candidates = calls invoked before the earliest pending return; tried in the order in
		// which they returned (with a lock the effect is usually near the end of the call)
		var cand []int
		for g, p := range progs {
			if pos[g] < len(p) && p[pos[g]].inv <= minRet {
				cand = append(cand, g)
			}
		}
		sort.Slice(cand, func(i, j int) bool { return progs[cand[i]][pos[cand[i]]].ret < progs[cand[j]][pos[cand[j]]].ret })
		for _, g := range cand {
			o := progs[g][pos[g]]
			st2, ok := specApply(st, o)
			if !ok {
				continue
			}
			pos[g]++
			order = append(order, o)
			if rec(st2) {
				return true
			}
			order = order[:len(order)-1]
			pos[g]--
			if exhausted {
				return false
			}
			if o.failed {
				// a call that recorded nothing commutes with everything: if no order exists with
				// it placed here, none exists at all from this state
				break
			}
		}
		dead[k] = true
		return false
	}
	found := rec(nil)
	return found, !exhausted, nodes, order
}

// linLine renders a linearisation as the model op (`lin …`, replayed by the Lean model on a fresh
// Logger with the same tags) and as the observations the implementation gave, in that order.
func linLine(order []*cop) (string, string) {
	var op, obs strings.Builder
	op.WriteString("lin")
	obs.WriteString("lin ")
	for i, o := range order {
		if i > 0 {
			obs.WriteByte('|')
		}
		t := strconv.Itoa(o.tag)
		switch o.kind {
		case "req":
			k := ":q:"
			if o.fault {
				k = ":Q:"
			}
			op.WriteString(" " + t + k + o.id)
			switch {
			case o.failed:
				obs.WriteString("err msg")
			case o.dup:
				obs.WriteString("err dup")
			default:
				obs.WriteString("ok")
			}
		case "res":
			k := ":s:"
			if o.fault {
				k = ":S:"
			}
			op.WriteString(" " + t + k + o.id)
			if o.failed {
				obs.WriteString("err msg")
			} else {
				obs.WriteString("ok")
			}
		case "export":
			op.WriteString(" " + t + ":e")
			obs.WriteString(showEnts(o.ents))
		case "xreset":
			op.WriteString(" " + t + ":x")
			obs.WriteString(showEnts(o.ents))
		case "reset":
			op.WriteString(" " + t + ":r")
			obs.WriteString("ok")
		}
	}
	return op.String(), obs.String()
}

func dumpHistory(progs [][]*cop) string {
	var b strings.Builder
	for g, p := range progs {
		fmt.Fprintf(&b, "\n  g%d:", g)
		for _, o := range p {
			b.WriteString(" " + o.String() + ";")
		}
	}
	s := b.String()
	if len(s) > 6000 {
		s = s[:6000] + "…"
	}
	return s
}

// concBound: wall-clock bound of one concurrent run (generous: a run takes milliseconds; the
// per-op watchdog of the runner is 30 s).
const concBound = 20 * time.Second

var concHangs int

// runConc: args = seed, goroutines, ops per goroutine, mode (own | shared | reset | hmix | storm | hammer).
func runConc(a []string) core.Result {
	seed, _ := strconv.ParseUint(a[0], 10, 64)
	G, _ := strconv.Atoi(a[1])
	N, _ := strconv.Atoi(a[2])
	mode := a[3]
	if G < 1 || G > 64 || N < 1 || N > 200 {
		return core.Result{Impl: "bad-op", SkipModel: true}
	}
	if concHangs >= 2 {
		// two runs already left goroutines spinning: further concurrent runs on this tree would
		// only compete with them for the processors
		core.Count("conc:skipped-after-hangs")
		return core.Result{Impl: "conc skipped", SkipModel: true}
	}
	r := core.NewRand(seed)
	progs := make([][]*cop, G)
	if mode == "storm" {
		progs = stormSteps(r, G, N)
	} else {
		for g := range progs {
			progs[g] = genProgram(r.Fork(), g, N, mode)
		}
	}
	l := har.NewLogger()
	var clk int64
	errs := make([]string, G)
	var wg sync.WaitGroup
	start := make(chan struct{})
	for g := 0; g < G; g++ {
		wg.Add(1)
		go func(g int) {
			defer wg.Done()
			defer func() {
				if x := recover(); x != nil {
					errs[g] = fmt.Sprintf("panic: %v", x)
				}
			}()
			<-start
			for i, o := range progs[g] {
				if e := execOp(l, o, &clk); e != "" {
					errs[g] = e
					return
				}
				if (i+g)%3 == 0 && mode != "hammer" {
					runtime.Gosched()
				}
			}
		}(g)
	}
	close(start)
	// afterwards one goroutine looks at what is left: export, export-and-reset, export
	tailProg := []*cop{{kind: "export", tag: 900000}, {kind: "xreset", tag: 900001}, {kind: "export", tag: 900002}}
	tailErr := ""
	finished := make(chan struct{})
	go func() {
		defer close(finished)
		defer func() {
			if x := recover(); x != nil {
				tailErr = fmt.Sprintf("panic: %v", x)
			}
		}()
		wg.Wait()
		for _, o := range tailProg {
			if e := execOp(l, o, &clk); e != "" {
				tailErr = e
				return
			}
		}
	}()
	select {
	case <-finished:
	case <-time.After(concBound):
		// the calls are a few microseconds each (a gated step waits 250 ms at most): a run that is
		// not over after concBound is stuck (a call spinning in a corrupted ring, or blocked behind it)
		concHangs++
		return core.Result{Impl: "conc fail", Fail: "the concurrent run did not finish within " + concBound.String() + ": some call never returned", Sig: "conc:hang", SkipModel: true}
	}
	for g, e := range errs {
		if e != "" {
			return core.Result{Impl: "conc fail", Fail: fmt.Sprintf("goroutine %d: %s", g, e), Sig: "conc:malformed", SkipModel: true}
		}
	}
	if tailErr != "" {
		return core.Result{Impl: "conc fail", Fail: tailErr, Sig: "conc:malformed", SkipModel: true}
	}
	progs = append(progs, tailProg)

	// how concurrent was it: calls of one goroutine overlapping a call of another
	overlap := 0
	for g, p := range progs[:G] {
		for _, o := range p {
		search:
			for g2, p2 := range progs[:G] {
				if g2 == g {
					continue
				}
				for _, o2 := range p2 {
					if o2.inv < o.ret && o.inv < o2.ret {
						overlap++
						break search
					}
				}
			}
		}
	}
	core.Stats["conc:calls"] += G * N
	core.Stats["conc:calls-overlapping-another-goroutine"] += overlap

	// direct consequences of the statement (no reset in the run): every accepted request is
	// returned by exactly one export-and-reset or is still in the final export; returned entries
	// are complete; each goroutine's entries keep their order.
	if fail, sig := directChecks(progs, mode); fail != "" {
		return core.Result{Impl: "conc fail", Fail: fail + dumpHistory(progs), Sig: sig, SkipModel: true}
	}
	late, sameIDOverlap := 0, 0
	seenGate := map[*gate]bool{}
	for _, p := range progs[:G] {
		for _, o := range p {
			if o.g != nil && !seenGate[o.g] {
				seenGate[o.g] = true
				late += o.g.late
			}
		}
	}
	for g, p := range progs[:G] {
		for _, o := range p {
			if o.kind != "req" {
				continue
			}
			for g2, p2 := range progs[:G] {
				if g2 <= g {
					continue
				}
				for _, o2 := range p2 {
					if o2.kind == "req" && o2.id == o.id && o2.inv < o.ret && o.inv < o2.ret {
						sameIDOverlap++
					}
				}
			}
		}
	}
	core.Stats["conc:gate-timeouts"] += late
	core.Stats["conc:overlapping-request-pairs-same-id"] += sameIDOverlap
	found, conclusive, nodes, order := linearise(progs, 600000)
	core.Stats["conc:search-nodes"] += nodes
	if os.Getenv("VERIF_C17_DEBUG") != "" {
		fmt.Fprintf(os.Stderr, "c17 conc %v: nodes=%d found=%v conclusive=%v\n", a, nodes, found, conclusive)
	}
	switch {
	case found:
		core.Count("conc:linearised")
		core.Count("conc:linearised-" + mode)
		op, obs := linLine(order)
		return core.Result{Impl: obs, ModelOp: op}
	case !conclusive:
		core.Count("conc:search-inconclusive")
	default:
		return core.Result{Impl: "conc fail", Fail: "no sequential order of the calls (respecting real-time order) explains the observed results" + dumpHistory(progs),
			Sig: "conc:not-linearisable", SkipModel: true}
	}
	return core.Result{Impl: "conc inconclusive", SkipModel: true}
}

func directChecks(progs [][]*cop, mode string) (string, string) {
	seenX := map[int]bool{}
	for _, p := range progs {
		for _, o := range p {
			if o.kind != "export" && o.kind != "xreset" {
				continue
			}
			last := map[int]int{}
			inOne := map[int]bool{}
			idOne := map[string]int{}
			for _, e := range o.ents {
				if prev, ok := idOne[e.id]; ok {
					return fmt.Sprintf("one %s lists id %s twice (requests %d and %d): a duplicate request id was accepted", o.kind, e.id, prev, e.rq), "conc:id-listed-twice"
				}
				idOne[e.id] = e.rq
				if inOne[e.rq] {
					return fmt.Sprintf("request %d listed twice in one %s", e.rq, o.kind), "conc:entry-listed-twice"
				}
				inOne[e.rq] = true
				g := e.rq / 1000
				if prev, ok := last[g]; ok && prev > e.rq {
					return fmt.Sprintf("%s lists request %d before %d of the same goroutine", o.kind, prev, e.rq), "conc:order"
				}
				last[g] = e.rq
				if o.kind == "xreset" {
					if e.rs < 0 {
						return fmt.Sprintf("export-and-reset returned pending request %d", e.rq), "conc:pending-returned"
					}
					if seenX[e.rq] {
						return fmt.Sprintf("request %d returned by two export-and-resets", e.rq), "conc:returned-twice"
					}
					seenX[e.rq] = true
				}
			}
		}
	}
	if mode == "reset" {
		return "", ""
	}
	final := progs[len(progs)-1][2]
	inFinal := map[int]bool{}
	for _, e := range final.ents {
		inFinal[e.rq] = true
	}
	for _, p := range progs {
		for _, o := range p {
			if o.kind == "req" && !o.dup && !o.failed && !seenX[o.tag] && !inFinal[o.tag] {
				return fmt.Sprintf("accepted request %d (%s) was never returned and is not in the log", o.tag, o.id), "conc:entry-lost"
			}
			if o.kind == "req" && !o.dup && !o.failed && seenX[o.tag] && inFinal[o.tag] {
				return fmt.Sprintf("request %d was returned by export-and-reset and is still in the log", o.tag), "conc:returned-and-kept"
			}
		}
	}
	return "", ""
}

// runAlias: the outcome of an Export must not change after Export returned. The deterministic
// form of the data race between the export handler (JSON-encoding the result outside the lock)
// and RecordResponse (completing a pending entry): if Export hands out the log's own *Entry
// values, a later RecordResponse shows through the snapshot.
func runAlias() core.Result {
	l := har.NewLogger()
	l.RecordRequest("a", mkReq("a", 0))
	l.RecordRequest("b", mkReq("b", 1))
	l.RecordResponse("b", mkRes(2))
	h := l.Export()
	before, bad := readHAR(h, true)
	if bad != "" {
		return core.Result{Impl: "alias bad", Fail: bad, Sig: "export:malformed", SkipModel: true}
	}
	l.RecordResponse("a", mkRes(3))
	l.RecordResponse("b", mkRes(4))
	after, _ := readHAR(h, true)
	if showEnts(before) != showEnts(after) {
		core.Count("alias:export-snapshot-is-live")
		return core.Result{Impl: "alias live", SkipModel: true, Sig: "export:live-entries",
			Fail: fmt.Sprintf("the result of Export changed after it was returned: %q became %q when responses were recorded later "+
				"(Export shares its *Entry values with the log; reading them races with RecordResponse)", showEnts(before), showEnts(after))}
	}
	core.Count("alias:export-snapshot-is-stable")
	return core.Result{Impl: "alias copy", SkipModel: true}
}
