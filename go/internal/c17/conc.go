package c17

import (
	"fmt"
	"runtime"
	"strconv"
	"strings"
	"sync"
	"sync/atomic"

	"github.com/google/martian/v3/har"

	"verif/harness/internal/core"
)

// One call of a concurrent run with its invocation / return stamps (a global atomic counter).
type cop struct {
	kind, id string
	tag      int
	inv, ret int64
	dup      bool
	ents     []ent
}

func (o *cop) String() string {
	s := fmt.Sprintf("[%d,%d] %s %s#%d", o.inv, o.ret, o.kind, o.id, o.tag)
	switch o.kind {
	case "req":
		if o.dup {
			s += " -> dup"
		}
	case "export", "xreset":
		s += " -> " + showEnts(o.ents)
	}
	return s
}

func genProgram(r *core.Rand, g, n int, mode string) []*cop {
	var prog []*cop
	var mine []string
	for k := 0; k < n; k++ {
		o := &cop{tag: g*1000 + k}
		x := r.Intn(100)
		pick := func() string {
			if mode == "shared" && r.Chance(2, 5) {
				return "s" + strconv.Itoa(r.Intn(3))
			}
			return "g" + strconv.Itoa(g) + "i" + strconv.Itoa(r.Intn(3))
		}
		switch {
		case x < 36:
			o.kind, o.id = "req", pick()
			mine = append(mine, o.id)
		case x < 70:
			o.kind = "res"
			if len(mine) > 0 && !r.Chance(1, 6) {
				o.id = mine[r.Intn(len(mine))]
			} else {
				o.id = pick()
			}
		case x < 78:
			o.kind = "export"
		case x < 97 || mode != "reset":
			o.kind = "xreset"
		default:
			o.kind = "reset"
		}
		prog = append(prog, o)
	}
	return prog
}

func execOp(l *har.Logger, o *cop, clk *int64) string {
	switch o.kind {
	case "req":
		req := mkReq(o.id, o.tag)
		o.inv = atomic.AddInt64(clk, 1)
		err := l.RecordRequest(o.id, req)
		o.ret = atomic.AddInt64(clk, 1)
		o.dup = err != nil
	case "res":
		res := mkRes(o.tag)
		o.inv = atomic.AddInt64(clk, 1)
		err := l.RecordResponse(o.id, res)
		o.ret = atomic.AddInt64(clk, 1)
		if err != nil {
			return "RecordResponse: " + err.Error()
		}
	case "export":
		o.inv = atomic.AddInt64(clk, 1)
		h := l.Export()
		o.ret = atomic.AddInt64(clk, 1)
		// Export hands out the live *Entry values: their Response field may be written by a
		// concurrent RecordResponse, so only the immutable parts (ID, request) are read here.
		es, bad := readHAR(h, false)
		if bad != "" {
			return bad
		}
		o.ents = es
	case "xreset":
		o.inv = atomic.AddInt64(clk, 1)
		h := l.ExportAndReset()
		o.ret = atomic.AddInt64(clk, 1)
		es, bad := readHAR(h, true)
		if bad != "" {
			return bad
		}
		o.ents = es
	case "reset":
		o.inv = atomic.AddInt64(clk, 1)
		l.Reset()
		o.ret = atomic.AddInt64(clk, 1)
	}
	return ""
}

// specApply is the sequential reading of the property on a list of entries; it returns the
// next state and whether the observation recorded in o is the one the sequential log gives.
func specApply(st []ent, o *cop) ([]ent, bool) {
	find := func() int {
		for i := range st {
			if st[i].id == o.id {
				return i
			}
		}
		return -1
	}
	switch o.kind {
	case "req":
		if find() >= 0 {
			return st, o.dup
		}
		if o.dup {
			return st, false
		}
		return append(append([]ent{}, st...), ent{o.id, o.tag, -1}), true
	case "res":
		i := find()
		if i < 0 {
			return st, true
		}
		n := append([]ent{}, st...)
		n[i].rs = o.tag
		return n, true
	case "export":
		if len(o.ents) != len(st) {
			return st, false
		}
		for i := range st {
			if st[i].id != o.ents[i].id || st[i].rq != o.ents[i].rq {
				return st, false
			}
		}
		return st, true
	case "xreset":
		var keep []ent
		j := 0
		for _, e := range st {
			if e.rs < 0 {
				keep = append(keep, e)
				continue
			}
			if j >= len(o.ents) || o.ents[j] != e {
				return st, false
			}
			j++
		}
		return keep, j == len(o.ents)
	case "reset":
		return nil, true
	}
	return st, false
}

// linearise: Wing-Gong search with memoisation. Returns (found, conclusive).
func linearise(progs [][]*cop, budget int) (bool, bool, int) {
	pos := make([]int, len(progs))
	dead := map[string]bool{}
	nodes := 0
	key := func(st []ent) string {
		var b strings.Builder
		for _, p := range pos {
			b.WriteByte(byte(p))
		}
		for _, e := range st {
			b.WriteString(strconv.Itoa(e.rq))
			b.WriteByte(':')
			b.WriteString(strconv.Itoa(e.rs))
			b.WriteByte(',')
		}
		return b.String()
	}
	var rec func(st []ent) bool
	exhausted := false
	rec = func(st []ent) bool {
		nodes++
		if nodes > budget {
			exhausted = true
			return false
		}
		minRet := int64(1) << 62
		left := false
		for g, p := range progs {
			if pos[g] < len(p) {
				left = true
				if p[pos[g]].ret < minRet {
					minRet = p[pos[g]].ret
				}
			}
		}
		if !left {
			return true
		}
		k := key(st)
		if dead[k] {
			return false
		}
		for g, p := range progs {
			if pos[g] >= len(p) {
				continue
			}
			o := p[pos[g]]
			if o.inv > minRet {
				continue
			}
			st2, ok := specApply(st, o)
			if !ok {
				continue
			}
			pos[g]++
			if rec(st2) {
				return true
			}
			pos[g]--
			if exhausted {
				return false
			}
		}
		dead[k] = true
		return false
	}
	found := rec(nil)
	return found, !exhausted, nodes
}

func dumpHistory(progs [][]*cop) string {
	var b strings.Builder
	for g, p := range progs {
		fmt.Fprintf(&b, "\n  g%d:", g)
		for _, o := range p {
			b.WriteString(" " + o.String() + ";")
		}
	}
	s := b.String()
	if len(s) > 6000 {
		s = s[:6000] + "…"
	}
	return s
}

// runConc: args = seed, goroutines, ops per goroutine, mode (own | shared | reset).
func runConc(a []string) core.Result {
	seed, _ := strconv.ParseUint(a[0], 10, 64)
	G, _ := strconv.Atoi(a[1])
	N, _ := strconv.Atoi(a[2])
	mode := a[3]
	if G < 1 || G > 64 || N < 1 || N > 200 {
		return core.Result{Impl: "bad-op", SkipModel: true}
	}
	r := core.NewRand(seed)
	progs := make([][]*cop, G)
	for g := range progs {
		progs[g] = genProgram(r.Fork(), g, N, mode)
	}
	l := har.NewLogger()
	var clk int64
	errs := make([]string, G)
	var wg sync.WaitGroup
	start := make(chan struct{})
	for g := 0; g < G; g++ {
		wg.Add(1)
		go func(g int) {
			defer wg.Done()
			defer func() {
				if x := recover(); x != nil {
					errs[g] = fmt.Sprintf("panic: %v", x)
				}
			}()
			<-start
			for i, o := range progs[g] {
				if e := execOp(l, o, &clk); e != "" {
					errs[g] = e
					return
				}
				if (i+g)%3 == 0 {
					runtime.Gosched()
				}
			}
		}(g)
	}
	close(start)
	wg.Wait()
	for g, e := range errs {
		if e != "" {
			return core.Result{Impl: "conc fail", Fail: fmt.Sprintf("goroutine %d: %s", g, e), Sig: "conc:malformed", SkipModel: true}
		}
	}
	// the main goroutine looks at what is left: export, export-and-reset, export
	tailProg := []*cop{{kind: "export", tag: 900000}, {kind: "xreset", tag: 900001}, {kind: "export", tag: 900002}}
	for _, o := range tailProg {
		if e := execOp(l, o, &clk); e != "" {
			return core.Result{Impl: "conc fail", Fail: e, Sig: "conc:malformed", SkipModel: true}
		}
	}
	progs = append(progs, tailProg)

	// how concurrent was it: calls of one goroutine overlapping a call of another
	overlap := 0
	for g, p := range progs[:G] {
		for _, o := range p {
		search:
			for g2, p2 := range progs[:G] {
				if g2 == g {
					continue
				}
				for _, o2 := range p2 {
					if o2.inv < o.ret && o.inv < o2.ret {
						overlap++
						break search
					}
				}
			}
		}
	}
	core.Stats["conc:calls"] += G * N
	core.Stats["conc:calls-overlapping-another-goroutine"] += overlap

	// direct consequences of the statement (no reset in the run): every accepted request is
	// returned by exactly one export-and-reset or is still in the final export; returned entries
	// are complete; each goroutine's entries keep their order.
	if fail, sig := directChecks(progs, mode); fail != "" {
		return core.Result{Impl: "conc fail", Fail: fail + dumpHistory(progs), Sig: sig, SkipModel: true}
	}
	found, conclusive, nodes := linearise(progs, 400000)
	core.Stats["conc:search-nodes"] += nodes
	switch {
	case found:
		core.Count("conc:linearised")
	case !conclusive:
		core.Count("conc:search-inconclusive")
	default:
		return core.Result{Impl: "conc fail", Fail: "no sequential order of the calls (respecting real-time order) explains the observed results" + dumpHistory(progs),
			Sig: "conc:not-linearisable", SkipModel: true}
	}
	return core.Result{Impl: "conc ok", SkipModel: true}
}

func directChecks(progs [][]*cop, mode string) (string, string) {
	seenX := map[int]bool{}
	for _, p := range progs {
		for _, o := range p {
			if o.kind != "export" && o.kind != "xreset" {
				continue
			}
			last := map[int]int{}
			inOne := map[int]bool{}
			for _, e := range o.ents {
				if inOne[e.rq] {
					return fmt.Sprintf("request %d listed twice in one %s", e.rq, o.kind), "conc:entry-listed-twice"
				}
				inOne[e.rq] = true
				g := e.rq / 1000
				if prev, ok := last[g]; ok && prev > e.rq {
					return fmt.Sprintf("%s lists request %d before %d of the same goroutine", o.kind, prev, e.rq), "conc:order"
				}
				last[g] = e.rq
				if o.kind == "xreset" {
					if e.rs < 0 {
						return fmt.Sprintf("export-and-reset returned pending request %d", e.rq), "conc:pending-returned"
					}
					if seenX[e.rq] {
						return fmt.Sprintf("request %d returned by two export-and-resets", e.rq), "conc:returned-twice"
					}
					seenX[e.rq] = true
				}
			}
		}
	}
	if mode == "reset" {
		return "", ""
	}
	final := progs[len(progs)-1][2]
	inFinal := map[int]bool{}
	for _, e := range final.ents {
		inFinal[e.rq] = true
	}
	for _, p := range progs {
		for _, o := range p {
			if o.kind == "req" && !o.dup && !seenX[o.tag] && !inFinal[o.tag] {
				return fmt.Sprintf("accepted request %d (%s) was never returned and is not in the log", o.tag, o.id), "conc:entry-lost"
			}
			if o.kind == "req" && !o.dup && seenX[o.tag] && inFinal[o.tag] {
				return fmt.Sprintf("request %d was returned by export-and-reset and is still in the log", o.tag), "conc:returned-and-kept"
			}
		}
	}
	return "", ""
}

// runAlias: the outcome of an Export must not change after Export returned. The deterministic
// form of the data race between the export handler (JSON-encoding the result outside the lock)
// and RecordResponse (completing a pending entry): if Export hands out the log's own *Entry
// values, a later RecordResponse shows through the snapshot.
func runAlias() core.Result {
	l := har.NewLogger()
	l.RecordRequest("a", mkReq("a", 0))
	l.RecordRequest("b", mkReq("b", 1))
	l.RecordResponse("b", mkRes(2))
	h := l.Export()
	before, bad := readHAR(h, true)
	if bad != "" {
		return core.Result{Impl: "alias bad", Fail: bad, Sig: "export:malformed", SkipModel: true}
	}
	l.RecordResponse("a", mkRes(3))
	l.RecordResponse("b", mkRes(4))
	after, _ := readHAR(h, true)
	if showEnts(before) != showEnts(after) {
		core.Count("alias:export-snapshot-is-live")
		return core.Result{Impl: "alias live", SkipModel: true, Sig: "export:live-entries",
			Fail: fmt.Sprintf("the result of Export changed after it was returned: %q became %q when responses were recorded later "+
				"(Export shares its *Entry values with the log; reading them races with RecordResponse)", showEnts(before), showEnts(after))}
	}
	core.Count("alias:export-snapshot-is-stable")
	return core.Result{Impl: "alias copy", SkipModel: true}
}
