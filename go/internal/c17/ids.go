package c17

import (
	"bytes"
	"fmt"
	"net/http"
	"strconv"
	"strings"

	"github.com/google/martian/v3/har"
	"github.com/google/martian/v3/proxyutil"

	"verif/harness/internal/core"
)

// The ID alphabet. An exchange ID is an opaque string: two IDs name the same entry iff they are EQUAL
// as strings. The word / history ops of this package use the IDs a, b, c; `ids <seed> <n>` runs a random
// history of n logger calls over IDs that differ only in case, contain upper-case letters, digits and
// punctuation, are prefixes of one another, or are empty, against the property read directly (a list
// of live (id, request tag, response tag) with exact string comparison) - oracle-only, the Lean model's
// keys are compared with exact equality as well (HarLog: `decide (e.id = id)`).
var idPool = []string{"Ab", "aB", "ab", "AB", "", "a", "aa", "A", "id-1", "ID-1", "id-1.", "0", "00", "0x0", "DEADbeef", "deadbeef",
	"x y", "é", "É"}

type idEnt struct {
	id     string
	rq, rs int
}

func showIDs(l []idEnt) string {
	var s []string
	for _, e := range l {
		s = append(s, fmt.Sprintf("%q:%d:%d", e.id, e.rq, e.rs))
	}
	return "[" + strings.Join(s, " ") + "]"
}

func readIDs(h *har.HAR) ([]idEnt, string) {
	var out []idEnt
	for _, e := range h.Log.Entries {
		if e.Request == nil {
			return nil, "entry without request"
		}
		i := strings.LastIndexByte(e.Request.URL, '=')
		rq, err := strconv.Atoi(e.Request.URL[i+1:])
		if i < 0 || err != nil {
			return nil, "unexpected request URL " + e.Request.URL
		}
		o := idEnt{id: e.ID, rq: rq, rs: -1}
		if e.Response != nil {
			o.rs = e.Response.Status - 200
		}
		out = append(out, o)
	}
	return out, ""
}

func runIDs(seed uint64, n int) core.Result {
	r := core.NewRand(seed)
	// a few IDs of the pool per history, so that they collide often
	var ids []string
	for i, k := 0, r.Range(2, 4); i < k; i++ {
		ids = append(ids, idPool[r.Intn(len(idPool))])
	}
	if r.Bool() {
		ids = append(ids, strings.ToUpper(ids[0]), strings.ToLower(ids[0]))
	}
	l := har.NewLogger()
	var live []idEnt
	find := func(id string) int {
		for i, e := range live {
			if e.id == id {
				return i
			}
		}
		return -1
	}
	var hist []string
	fail := func(f string, a ...interface{}) core.Result {
		return core.Result{SkipModel: true, Impl: "ids differs", Sig: "c17:ids:" + strings.Fields(hist[len(hist)-1])[0],
			Fail: fmt.Sprintf(f, a...) + "; history: " + strings.Join(hist, " ; ")}
	}
	for t := 0; t < n; t++ {
		id := ids[r.Intn(len(ids))]
		switch r.Intn(7) {
		case 0, 1, 2:
			hist = append(hist, fmt.Sprintf("req %q", id))
			q, _ := http.NewRequest("GET", "http://h.example/?t="+strconv.Itoa(t), nil)
			err := l.RecordRequest(id, q)
			dup := find(id) >= 0
			if (err != nil) != dup {
				return fail("RecordRequest(%q) returned %v, the id is live: %v", id, err, dup)
			}
			if !dup {
				live = append(live, idEnt{id, t, -1})
			}
		case 3, 4:
			hist = append(hist, fmt.Sprintf("res %q", id))
			q, _ := http.NewRequest("GET", "http://h.example/", nil)
			res := proxyutil.NewResponse(200+t, bytes.NewReader([]byte("b")), q)
			if err := l.RecordResponse(id, res); err != nil {
				return fail("RecordResponse(%q): %v", id, err)
			}
			if i := find(id); i >= 0 {
				live[i].rs = t
			}
		case 5:
			hist = append(hist, "export")
			got, bad := readIDs(l.Export())
			if bad != "" {
				return fail("%s", bad)
			}
			if showIDs(got) != showIDs(live) {
				return fail("Export returned %s, the log holds %s", showIDs(got), showIDs(live))
			}
		default:
			hist = append(hist, "xreset")
			got, bad := readIDs(l.ExportAndReset())
			if bad != "" {
				return fail("%s", bad)
			}
			var done, rest []idEnt
			for _, e := range live {
				if e.rs >= 0 {
					done = append(done, e)
				} else {
					rest = append(rest, e)
				}
			}
			if showIDs(got) != showIDs(done) {
				return fail("ExportAndReset returned %s, the completed entries are %s", showIDs(got), showIDs(done))
			}
			live = rest
		}
	}
	got, bad := readIDs(l.Export())
	hist = append(hist, "export")
	if bad != "" || showIDs(got) != showIDs(live) {
		return fail("final Export returned %s %s, the log holds %s", showIDs(got), bad, showIDs(live))
	}
	core.Count("ids")
	return core.Result{SkipModel: true, Impl: fmt.Sprintf("ids ok %d", n)}
}

// bigx <n> <seed>: ExportAndReset on a log with MANY completed entries (sizes around powers of two):
// n requests are logged, about 9 in 10 of them get their response, then ExportAndReset must return
// EXACTLY the completed ones in arrival order, a following Export exactly the pending ones, and a second
// ExportAndReset nothing. Oracle-only: the Lean heap model is quadratic in the log size.
func runBigX(n int, seed uint64) core.Result {
	r := core.NewRand(seed)
	l := har.NewLogger()
	var done, pending []idEnt
	for i := 0; i < n; i++ {
		id := "e" + strconv.Itoa(i)
		q, _ := http.NewRequest("GET", "http://h.example/?t="+strconv.Itoa(i), nil)
		if err := l.RecordRequest(id, q); err != nil {
			return core.Result{SkipModel: true, Impl: "bigx error", Sig: "c17:bigx:req", Fail: err.Error()}
		}
		if r.Chance(9, 10) {
			res := proxyutil.NewResponse(200, bytes.NewReader([]byte("b")), q)
			res.StatusCode = 200 + i%300
			if err := l.RecordResponse(id, res); err != nil {
				return core.Result{SkipModel: true, Impl: "bigx error", Sig: "c17:bigx:res", Fail: err.Error()}
			}
			done = append(done, idEnt{id, i, i % 300})
		} else {
			pending = append(pending, idEnt{id, i, -1})
		}
	}
	cmp := func(what string, got, want []idEnt) string {
		if len(got) != len(want) {
			return fmt.Sprintf("%s returned %d entries, expected %d (log of %d requests, %d completed, %d pending)", what, len(got), len(want), n, len(done), len(pending))
		}
		for i := range got {
			if got[i] != want[i] {
				return fmt.Sprintf("%s: entry %d is %v, expected %v", what, i, got[i], want[i])
			}
		}
		return ""
	}
	got, bad := readIDs(l.ExportAndReset())
	if bad == "" {
		bad = cmp("ExportAndReset", got, done)
	}
	if bad == "" {
		got, bad = readIDs(l.Export())
		if bad == "" {
			bad = cmp("Export after ExportAndReset", got, pending)
		}
	}
	if bad == "" {
		got, bad = readIDs(l.ExportAndReset())
		if bad == "" {
			bad = cmp("second ExportAndReset", got, nil)
		}
	}
	core.Count("bigx")
	if bad != "" {
		return core.Result{SkipModel: true, Impl: "bigx differs", Sig: "c17:bigx:xreset", Fail: bad}
	}
	return core.Result{SkipModel: true, Impl: fmt.Sprintf("bigx ok %d", n)}
}
