package c12

import (
	"encoding/json"
	"fmt"
	"strconv"
	"strings"
)

// node is the configuration tree as carried by the line protocol (see lean/Martian/Drv/C12.lean).
type node struct {
	kind    byte // L leaf, U unknown name, X malformed, F fifo, P priority, C filter
	variant int  // U, X: which rendering
	label   int
	eclass  int  // L: 0 = the error text carries the label; n > 0 = the text is "probe class n failed" (shared by every leaf of that class)
	caps    byte // b both, q request only, s response only, z neither
	failReq bool
	failRes bool
	scope   string // n absent, N null, e [], else string over q s x
	agg     bool
	kids    []*node // F, P children; C: kids[0] = then
	prios   []int64 // P
	cond    *condSpec // C
	els     *node   // C
}

func b01(b bool) string {
	if b {
		return "1"
	}
	return "0"
}

func (n *node) tokens(out *[]string) {
	switch n.kind {
	case 'L':
		if n.eclass != 0 { // M = a leaf whose error text is that of its class, not of its label
			*out = append(*out, "M", strconv.Itoa(n.label), string(n.caps), b01(n.failReq), b01(n.failRes), n.scope, strconv.Itoa(n.eclass))
			break
		}
		*out = append(*out, "L", strconv.Itoa(n.label), string(n.caps), b01(n.failReq), b01(n.failRes), n.scope)
	case 'U', 'X':
		*out = append(*out, string(n.kind)+strconv.Itoa(n.variant))
	case 'F':
		*out = append(*out, "F", n.scope, b01(n.agg), strconv.Itoa(len(n.kids)))
		for _, k := range n.kids {
			k.tokens(out)
		}
	case 'P':
		*out = append(*out, "P", n.scope, strconv.Itoa(len(n.kids)))
		for i, k := range n.kids {
			*out = append(*out, strconv.FormatInt(n.prios[i], 10))
			k.tokens(out)
		}
	case 'C':
		*out = append(*out, "C", n.cond.token(), n.scope, b01(n.els != nil))
		n.kids[0].tokens(out)
		if n.els != nil {
			n.els.tokens(out)
		}
	}
}

func (n *node) String() string {
	var t []string
	n.tokens(&t)
	return strings.Join(t, " ")
}

func validScopeTok(s string) bool {
	if s == "n" || s == "N" || s == "e" {
		return true
	}
	if s == "" {
		return false
	}
	for _, c := range s {
		if c != 'q' && c != 's' && c != 'x' {
			return false
		}
	}
	return true
}

func p01(s string) (bool, bool) { return s == "1", s == "0" || s == "1" }

// parseNode reads one node in prefix form.
func parseNode(t []string) (*node, []string, bool) {
	if len(t) == 0 {
		return nil, nil, false
	}
	switch {
	case t[0] == "L" && len(t) >= 6:
		l, err := strconv.Atoi(t[1])
		fq, ok1 := p01(t[3])
		fs, ok2 := p01(t[4])
		if err != nil || l < 0 || len(t[2]) != 1 || !strings.Contains("bqsz", t[2]) || !ok1 || !ok2 || !validScopeTok(t[5]) {
			return nil, nil, false
		}
		return &node{kind: 'L', label: l, caps: t[2][0], failReq: fq, failRes: fs, scope: t[5]}, t[6:], true
	case t[0] == "M" && len(t) >= 7:
		n, _, ok := parseNode(append([]string{"L"}, t[1:6]...))
		ec, err := strconv.Atoi(t[6])
		if !ok || err != nil || ec <= 0 {
			return nil, nil, false
		}
		n.eclass = ec
		return n, t[7:], true
	case t[0] == "F" && len(t) >= 4:
		agg, ok1 := p01(t[2])
		k, err := strconv.Atoi(t[3])
		if !validScopeTok(t[1]) || !ok1 || err != nil || k < 0 {
			return nil, nil, false
		}
		n := &node{kind: 'F', scope: t[1], agg: agg}
		rest := t[4:]
		for i := 0; i < k; i++ {
			c, r, ok := parseNode(rest)
			if !ok {
				return nil, nil, false
			}
			n.kids = append(n.kids, c)
			rest = r
		}
		return n, rest, true
	case t[0] == "P" && len(t) >= 3:
		k, err := strconv.Atoi(t[2])
		if !validScopeTok(t[1]) || err != nil || k < 0 {
			return nil, nil, false
		}
		n := &node{kind: 'P', scope: t[1]}
		rest := t[3:]
		for i := 0; i < k; i++ {
			if len(rest) == 0 {
				return nil, nil, false
			}
			p, err := strconv.ParseInt(rest[0], 10, 64)
			if err != nil {
				return nil, nil, false
			}
			c, r, ok := parseNode(rest[1:])
			if !ok {
				return nil, nil, false
			}
			n.kids = append(n.kids, c)
			n.prios = append(n.prios, p)
			rest = r
		}
		return n, rest, true
	case t[0] == "C" && len(t) >= 4:
		c, okc := parseCondTok(t[1])
		he, ok1 := p01(t[3])
		if !okc || !validScopeTok(t[2]) || !ok1 || (c.kind == 'p' && he) { // port.Filter has no else
			return nil, nil, false
		}
		n := &node{kind: 'C', cond: c, scope: t[2]}
		th, rest, ok := parseNode(t[4:])
		if !ok {
			return nil, nil, false
		}
		n.kids = []*node{th}
		if he {
			e, r, ok := parseNode(rest)
			if !ok {
				return nil, nil, false
			}
			n.els = e
			rest = r
		}
		return n, rest, true
	case len(t[0]) >= 2 && (t[0][0] == 'U' || t[0][0] == 'X'):
		v, err := strconv.Atoi(t[0][1:])
		if err != nil || v < 0 {
			return nil, nil, false
		}
		return &node{kind: t[0][0], variant: v}, t[1:], true
	}
	return nil, nil, false
}

func parseTree(t []string) (*node, bool) {
	n, rest, ok := parseNode(t)
	if !ok || len(rest) != 0 {
		return nil, false
	}
	return n, true
}

// ---- rendering to the JSON text that parse.FromJSON receives ----

var otherScopeNames = []string{"Request", "req", "", "both", "RESPONSE", "response ", "requests"}

func scopeJSON(s string) string {
	switch s {
	case "n":
		return ""
	case "N":
		return `"scope": null, `
	case "e":
		return `"scope": [], `
	}
	var parts []string
	for i, c := range s {
		switch c {
		case 'q':
			parts = append(parts, `"request"`)
		case 's':
			parts = append(parts, `"response"`)
		default:
			b, _ := json.Marshal(otherScopeNames[(i+len(s))%len(otherScopeNames)])
			parts = append(parts, string(b))
		}
	}
	return `"scope": [` + strings.Join(parts, ", ") + `], `
}

var unknownNames = []string{"nosuch.Modifier", "fifo.group", "Fifo.Group", "verif.probe", "header.filter", "", "fifo.Group ", "priority.group", "url.filter", "body.modifier"}

const okLeaf = `{"verif.Probe": {"label": 99, "caps": "b"}}`

// malformedJSON: values that are not "a JSON object with exactly one key whose body has the right shape".
var malformedJSON = []string{
	`{}`,
	`{"fifo.Group": {"modifiers": []}, "verif.Probe": {"label": 98, "caps": "b"}}`,
	`[]`,
	`5`,
	`"fifo.Group"`,
	`null`,
	`{"fifo.Group": 5}`,
	`{"fifo.Group": {"modifiers": 5}}`,
	`{"priority.Group": {"modifiers": [{"priority": "x", "modifier": ` + okLeaf + `}]}}`,
	`{"header.Filter": {"name": "X-A", "value": "1"}}`,
	`{"fifo.Group": {"scope": "request", "modifiers": []}}`,
	`{"priority.Group": {"modifiers": [{"priority": 1.5, "modifier": ` + okLeaf + `}]}}`,
	`{"url.Filter": {"host": "a.example", "modifier": null}}`,
	`{"fifo.Group": {"modifiers": [` + okLeaf + `, 7]}}`,
	`{"method.Filter": {"method": "GET", "modifier": ` + okLeaf + `, "else": null}}`,
	`{"cookie.Filter": {"name": "c1", "modifier": ` + okLeaf + `, "else": []}}`,
	`{"querystring.Filter": {"name": 5, "modifier": ` + okLeaf + `}}`,
	`{"fifo.Group": {"modifiers": [` + okLeaf + `], "scope": [5]}}`,
	`{"priority.Group": {"modifiers": [{"priority": 1}]}}`,
	`true`,
}

// rootOnlyMalformed are texts that are not JSON at all (only meaningful as the whole body).
var rootOnlyMalformed = []string{
	`{"fifo.Group": {"modifiers": [`,
	`{"fifo.Group": {"modifiers": []}} trailing`,
	``,
	`{'fifo.Group': {}}`,
	`{"fifo.Group": {"modifiers": [` + okLeaf + `,]}}`,
	"\x00",
	`{"fifo.Group": {"modifiers": []}`,
}

const rootOnlyBase = 100

func (n *node) json(root bool) string {
	switch n.kind {
	case 'L':
		et := ""
		if n.eclass != 0 {
			et = fmt.Sprintf(`, "etext": %d`, n.eclass)
		}
		return fmt.Sprintf(`{"verif.Probe": {%s"label": %d, "caps": "%c", "failReq": %t, "failRes": %t%s}}`, scopeJSON(n.scope), n.label, n.caps, n.failReq, n.failRes, et)
	case 'U':
		name, _ := json.Marshal(unknownNames[n.variant%len(unknownNames)])
		return fmt.Sprintf(`{%s: {"modifiers": []}}`, name)
	case 'X':
		if root && n.variant >= rootOnlyBase {
			return rootOnlyMalformed[(n.variant-rootOnlyBase)%len(rootOnlyMalformed)]
		}
		return malformedJSON[n.variant%len(malformedJSON)]
	case 'F':
		var ks []string
		for _, k := range n.kids {
			ks = append(ks, k.json(false))
		}
		agg := ""
		if n.agg {
			agg = `"aggregateErrors": true, `
		}
		return fmt.Sprintf(`{"fifo.Group": {%s%s"modifiers": [%s]}}`, scopeJSON(n.scope), agg, strings.Join(ks, ", "))
	case 'P':
		var ks []string
		for i, k := range n.kids {
			ks = append(ks, fmt.Sprintf(`{"priority": %d, "modifier": %s}`, n.prios[i], k.json(false)))
		}
		return fmt.Sprintf(`{"priority.Group": {%s"modifiers": [%s]}}`, scopeJSON(n.scope), strings.Join(ks, ", "))
	case 'C':
		c := n.cond
		els := ""
		if n.els != nil {
			els = `, "else": ` + n.els.json(false)
		}
		return fmt.Sprintf(`{"%s": {%s%s"modifier": %s%s}}`, c.filter(), c.params(), scopeJSON(n.scope), n.kids[0].json(false), els)
	}
	return "?"
}

func (n *node) depth() int {
	d := 0
	for _, k := range n.kids {
		if x := k.depth(); x > d {
			d = x
		}
	}
	if n.els != nil {
		if x := n.els.depth(); x > d {
			d = x
		}
	}
	return d + 1
}

func (n *node) walk(f func(*node)) {
	f(n)
	for _, k := range n.kids {
		k.walk(f)
	}
	if n.els != nil {
		n.els.walk(f)
	}
}
