// Package c12: JSON modifier configuration trees (parse, fifo, priority, the five filters,
// martianhttp's configure handler) against a depth-first reading of the tree.
package c12

import (
	"bytes"
	"encoding/json"
	"fmt"
	"net/http"
	"net/http/httptest"
	"net/url"
	"sort"
	"strconv"
	"strings"
	"sync"

	"github.com/google/martian/v3"
	_ "github.com/google/martian/v3/cookie"
	_ "github.com/google/martian/v3/fifo"
	_ "github.com/google/martian/v3/header"
	"github.com/google/martian/v3/martianhttp"
	"github.com/google/martian/v3/martianurl"
	_ "github.com/google/martian/v3/method"
	_ "github.com/google/martian/v3/port"
	"github.com/google/martian/v3/parse"
	_ "github.com/google/martian/v3/priority"
	_ "github.com/google/martian/v3/querystring"

	"verif/harness/internal/core"
)

type P struct{}

func init() { core.Register(P{}) }

func (P) ID() string { return "C12" }
func (P) Rule() string {
	return "case = 2-4 configuration bodies POSTed to the real martianhttp configure handler (and parsed by parse.FromJSON), each followed by 3-6 " +
		"requests/responses run through the handler's active modifier; a body is a random tree (depth <= 5, width <= 4) over fifo.Group (with and " +
		"without aggregateErrors), priority.Group (priorities with many ties), url/header/querystring/method/cookie/port filters (random parameters " +
		"over small universes incl. host wildcards, escaped queries, pseudo-headers; with and without else) and probe leaves registered through " +
		"parse.Register (request-only/response-only/both/neither, optionally failing; in a share of the trees several leaves share one error TEXT " +
		"or even one label, the error VALUE staying the leaf's), with scope absent/null/[]/[request]/[response]/both/duplicated " +
		"at every level; about a third of the bodies carry one or two defects (unknown name, unsupported or unknown scope, wrong JSON shape, non-JSON " +
		"text); exchanges are concrete (method, URL, raw query, Host/Content-Length/Transfer-Encoding, header lines, cookies), half of them bent " +
		"towards a condition of the tree; plus wide cases (one group of 13-40 children, few distinct priorities in mixed patterns), JSON cases (the " +
		"plain JSON value of a tree with 1-3 blind mutations: duplicate/folded/unknown members, nulls, number forms, wrong kinds, registry-level " +
		"duplicates), aggregation cases (aggregating fifo groups nested at depth 2-5 directly and through filters/priority groups, leaves failing " +
		"with p >= 1/2 and equal error texts/labels), matcher cases (single conditions, MatchHost and ParseQuery on arbitrary strings), the exhaustive two-level scope matrix and a " +
		"concurrent tier (bodies POSTed while 2-6 goroutines run traffic); distinct by hash of the op list; non-trivial when the case has an " +
		"accepted tree of depth >= 3 and a message whose trace is not empty"
}

func (P) Nontrivial(ops []string, impl []string) bool {
	deep, traced := false, false
	for i, op := range ops {
		f := strings.Fields(op)
		if len(f) > 1 && f[0] == "post" && i < len(impl) && strings.HasPrefix(impl[i], "ok") {
			if n, ok := parseTree(f[1:]); ok && n.depth() >= 3 {
				deep = true
			}
		}
		if len(f) > 2 && f[0] == "postj" && i < len(impl) && strings.HasPrefix(impl[i], "ok") {
			if j, rest, ok := parseJV(f[2:], 0); ok && len(rest) == 0 {
				if n := decodeJV(j); n != nil && n.depth() >= 3 {
					deep = true
				}
			}
		}
		if len(f) > 0 && f[0] == "run" && i < len(impl) && strings.HasPrefix(impl[i], "t=") && !strings.HasPrefix(impl[i], "t=- ") {
			traced = true
		}
	}
	return deep && traced
}

// ---- the probe leaf, registered through the public API ----

const traceHeader = "X-Trace"

// probeErr: the identity of a leaf's error is the VALUE (its label field, read by the harness);
// its TEXT is shared by every leaf of the same class (eclass > 0), so nothing in the code under test
// may tell errors apart — or merge them — by their message.
type probeErr struct{ label, eclass int }

func (e *probeErr) Error() string {
	if e.eclass > 0 {
		return "probe class " + strconv.Itoa(e.eclass) + " failed"
	}
	return "probe " + strconv.Itoa(e.label) + " failed"
}

type probe struct {
	label            int
	failReq, failRes bool
	eclass           int
}

func (p *probe) doReq(req *http.Request) error {
	req.Header.Add(traceHeader, strconv.Itoa(p.label))
	if p.failReq {
		return &probeErr{p.label, p.eclass}
	}
	return nil
}
func (p *probe) doRes(res *http.Response) error {
	res.Header.Add(traceHeader, strconv.Itoa(p.label))
	if p.failRes {
		return &probeErr{p.label, p.eclass}
	}
	return nil
}

type probeReq struct{ p probe }
type probeRes struct{ p probe }
type probeBoth struct{ p probe }
type probeNone struct{ p probe }

func (x *probeReq) ModifyRequest(req *http.Request) error    { return x.p.doReq(req) }
func (x *probeRes) ModifyResponse(res *http.Response) error  { return x.p.doRes(res) }
func (x *probeBoth) ModifyRequest(req *http.Request) error   { return x.p.doReq(req) }
func (x *probeBoth) ModifyResponse(res *http.Response) error { return x.p.doRes(res) }

type probeJSON struct {
	Label   int                  `json:"label"`
	Caps    string               `json:"caps"`
	FailReq bool                 `json:"failReq"`
	FailRes bool                 `json:"failRes"`
	Scope   []parse.ModifierType `json:"scope"`
	EText   int                  `json:"etext"`
}

func probeFromJSON(b []byte) (*parse.Result, error) {
	msg := &probeJSON{}
	if err := json.Unmarshal(b, msg); err != nil {
		return nil, err
	}
	if msg.Label < 0 {
		return nil, fmt.Errorf("verif.Probe: negative label")
	}
	p := probe{msg.Label, msg.FailReq, msg.FailRes, msg.EText}
	var mod interface{}
	switch msg.Caps {
	case "q":
		mod = &probeReq{p}
	case "s":
		mod = &probeRes{p}
	case "z":
		mod = &probeNone{p}
	default:
		mod = &probeBoth{p}
	}
	return parse.NewResult(mod, msg.Scope)
}

var regOnce sync.Once

func register() { regOnce.Do(func() { parse.Register("verif.Probe", probeFromJSON) }) }

// ---- the oracle: an independent depth-first reading of the tree ----

// actsOn: which message kinds the node's scope names (absent scope = every kind the node supports),
// and whether the scope is one the node supports at all.
func (n *node) capsOf() (req, res bool) {
	if n.kind != 'L' {
		return true, true
	}
	return n.caps == 'b' || n.caps == 'q', n.caps == 'b' || n.caps == 's'
}

func (n *node) actsOn(response bool) bool {
	creq, cres := n.capsOf()
	switch n.scope {
	case "n", "N":
		if response {
			return cres
		}
		return creq
	case "e":
		return false
	}
	if response {
		return strings.ContainsRune(n.scope, 's')
	}
	return strings.ContainsRune(n.scope, 'q')
}

// wellFormed: every name registered, every scope supported, every value of the right shape.
func (n *node) wellFormed() bool {
	if n.kind == 'U' || n.kind == 'X' {
		return false
	}
	creq, cres := n.capsOf()
	if n.scope != "n" && n.scope != "N" && n.scope != "e" {
		for _, c := range n.scope {
			if c == 'x' || (c == 'q' && !creq) || (c == 's' && !cres) {
				return false
			}
		}
	}
	for _, k := range n.kids {
		if !k.wellFormed() {
			return false
		}
	}
	return n.els == nil || n.els.wellFormed()
}

type outcome struct {
	trace, errs []int
	stopped     bool // some group stopped at an error with children left
}

func interp(n *node, response bool, truth func(*condSpec) bool) outcome {
	var o outcome
	if n == nil || !n.actsOn(response) {
		return o
	}
	switch n.kind {
	case 'L':
		o.trace = []int{n.label}
		if (response && n.failRes) || (!response && n.failReq) {
			o.errs = []int{n.label}
		}
	case 'F', 'P':
		order := make([]int, len(n.kids))
		for i := range order {
			order[i] = i
		}
		if n.kind == 'P' { // descending priority, later-listed first among equals
			for i, j := 0, len(order)-1; i < j; i, j = i+1, j-1 {
				order[i], order[j] = order[j], order[i]
			}
			sort.SliceStable(order, func(a, b int) bool { return n.prios[order[a]] > n.prios[order[b]] })
		}
		for pos, i := range order {
			c := interp(n.kids[i], response, truth)
			o.trace = append(o.trace, c.trace...)
			o.stopped = o.stopped || c.stopped
			if len(c.errs) > 0 {
				if n.kind == 'F' && n.agg {
					o.errs = append(o.errs, c.errs...)
					continue
				}
				o.errs = c.errs
				if pos < len(order)-1 {
					o.stopped = true
				}
				return o
			}
		}
	case 'C':
		if truth(n.cond) {
			core.Count("cond:" + n.cond.filter() + ":true")
			return interp(n.kids[0], response, truth)
		}
		core.Count("cond:" + n.cond.filter() + ":false")
		return interp(n.els, response, truth)
	}
	return o
}

// ---- executing ops on the real code ----

// matcherSays: which branch the REAL filter built from the condition's JSON takes on the message.
func matcherSays(c *condSpec, m *message, response bool) bool {
	register()
	// (port.Filter has no else branch: its "else" member is ignored and an untouched message means "does not hold")
	text := fmt.Sprintf(`{"%s": {%s"modifier": {"verif.Probe": {"label": 1, "caps": "b"}}, "else": {"verif.Probe": {"label": 0, "caps": "b"}}}}`, c.filter(), c.params())
	r, err := parse.FromJSON([]byte(text))
	if err != nil {
		panic("matcherSays: " + err.Error() + ": " + text)
	}
	req, res := m.build()
	var tr []string
	if response {
		r.ResponseModifier().ModifyResponse(res)
		tr = res.Header[traceHeader]
	} else {
		r.RequestModifier().ModifyRequest(req)
		tr = req.Header[traceHeader]
	}
	if c.kind == 'p' && len(tr) == 0 {
		return false
	}
	if len(tr) != 1 {
		panic(fmt.Sprintf("matcherSays: trace %v", tr))
	}
	return tr[0] == "1"
}

func hasPortFilter(n *node) bool {
	found := false
	if n != nil {
		n.walk(func(x *node) { found = found || (x.kind == 'C' && x.cond.kind == 'p') })
	}
	return found
}

func (m *message) describe() string {
	return fmt.Sprintf("%s %s://%s%s?%s Host=%q CL=%d TE=%q hdr=%q cookies=%q | response CL=%d TE=%q hdr=%q cookies=%q",
		m.method, m.scheme, m.host, m.path, m.rawQuery, m.reqHost, m.reqCL, m.reqTE, m.reqHdr, m.reqCk, m.resCL, m.resTE, m.resHdr, m.resCk)
}

type ex struct {
	mod        *martianhttp.Modifier
	active     *node  // the oracle's view: last body it judged acceptable
	sideQ      *node  // … and the tree in force per side (differs from active after a `set` op)
	sideS      *node
	activeText []byte // indented text of that body
	rejected   bool   // a rejected body was seen since the last accepted one
}

func (P) NewExec() core.Exec {
	register()
	return &ex{mod: martianhttp.NewModifier()}
}
func (e *ex) Close() {}

func fail(sig, format string, a ...interface{}) core.Result {
	return core.Result{Fail: fmt.Sprintf(format, a...), Sig: sig}
}

func canonParseErr(err error) string {
	if _, ok := err.(parse.ErrUnknownModifier); ok {
		return "unknown-modifier"
	}
	if strings.HasPrefix(err.Error(), "parse: invalid scope") {
		return "invalid-scope"
	}
	return "malformed"
}

func canonErr(err error) (string, []int, bool) {
	switch x := err.(type) {
	case nil:
		return "-", nil, true
	case *probeErr:
		return "E" + strconv.Itoa(x.label), []int{x.label}, true
	case *martian.MultiError:
		var ls []int
		for _, e := range x.Errors() {
			pe, ok := e.(*probeErr)
			if !ok {
				return "other", nil, false
			}
			ls = append(ls, pe.label)
		}
		return "M" + strings.TrimPrefix(intsToken(ls), "-"), ls, true
	}
	return "other", nil, false
}

func sameInts(a, b []int) bool {
	if len(a) != len(b) {
		return false
	}
	for i := range a {
		if a[i] != b[i] {
			return false
		}
	}
	return true
}

func (e *ex) post(n *node) core.Result { return e.postText([]byte(n.json(true)), n) }

// postText: the body text goes to parse.FromJSON and to the configure handler; n is what the text says.
func (e *ex) postText(text []byte, n *node) core.Result {
	r, perr := parse.FromJSON(text)
	var impl string
	if perr != nil {
		impl = "rej " + canonParseErr(perr)
	} else {
		impl = "ok " + b01(r.RequestModifier() != nil) + " " + b01(r.ResponseModifier() != nil)
	}
	core.Count("post:" + impl)

	req := httptest.NewRequest("POST", "http://martian.proxy/configure", bytes.NewReader(text))
	rw := httptest.NewRecorder()
	e.mod.ServeHTTP(rw, req)
	if (perr == nil) != (rw.Code == 200) || (perr != nil && rw.Code != 400) {
		return fail("c12:handler-status", "configure handler answered %d but parse.FromJSON returned %v for %s", rw.Code, perr, text)
	}
	want := n.wellFormed()
	switch {
	case want && rw.Code != 200:
		return fail("c12:rejected-valid", "configure handler answered %d (%s) for a well-formed tree %s", rw.Code, strings.TrimSpace(rw.Body.String()), text)
	case !want && rw.Code == 200:
		return fail("c12:accepted-invalid", "configure handler accepted a body that names an unknown modifier, an unsupported scope or is malformed: %s", text)
	}
	if want {
		var buf bytes.Buffer
		json.Indent(&buf, text, "", "  ")
		e.active, e.sideQ, e.sideS, e.activeText, e.rejected = n, n, n, buf.Bytes(), false
	} else {
		e.rejected = true
	}
	// the stored configuration text is that of the last accepted body
	gw := httptest.NewRecorder()
	e.mod.ServeHTTP(gw, httptest.NewRequest("GET", "http://martian.proxy/configure", nil))
	if !bytes.Equal(gw.Body.Bytes(), e.activeText) {
		return fail("c12:config-text", "GET configure returns %q, last accepted body is %q", gw.Body.String(), e.activeText)
	}
	return core.Result{Impl: impl}
}

// set: the tree is built by parse.FromJSON and one of its sides installed through the Go API
// (SetRequestModifier / SetResponseModifier), which leaves the stored configuration text alone.
func (e *ex) set(response bool, n *node) core.Result {
	r, perr := parse.FromJSON([]byte(n.json(true)))
	if perr != nil {
		core.Count("set:rejected-by-parse")
		return core.Result{Impl: "set rej " + canonParseErr(perr), ModelOp: "set " + map[bool]string{false: "q", true: "s"}[response] + " " + n.String()}
	}
	var has bool
	if response {
		m := r.ResponseModifier()
		has = m != nil
		e.mod.SetResponseModifier(m)
		e.sideS = n
	} else {
		m := r.RequestModifier()
		has = m != nil
		e.mod.SetRequestModifier(m)
		e.sideQ = n
	}
	core.Count("set:installed-" + b01(has))
	gw := httptest.NewRecorder()
	e.mod.ServeHTTP(gw, httptest.NewRequest("GET", "http://martian.proxy/configure", nil))
	if !bytes.Equal(gw.Body.Bytes(), e.activeText) {
		return fail("c12:config-text", "GET configure returns %q after Set*Modifier, last accepted body is %q", gw.Body.String(), e.activeText)
	}
	return core.Result{Impl: "set " + b01(has), ModelOp: "set " + map[bool]string{false: "q", true: "s"}[response] + " " + n.String()}
}

func traceInts(trace []string) []int {
	var tr []int
	for _, s := range trace {
		l, _ := strconv.Atoi(s)
		tr = append(tr, l)
	}
	return tr
}

func (e *ex) run(kind string, m *message) core.Result {
	response := kind == "s"
	req, res := m.build()
	if response {
		err := e.mod.ModifyResponse(res)
		if len(req.Header[traceHeader]) > 0 {
			return fail("c12:wrong-kind", "a response run touched the request (trace %v)", req.Header[traceHeader])
		}
		return e.judgeRun(true, m, traceInts(res.Header[traceHeader]), err)
	}
	err := e.mod.ModifyRequest(req)
	return e.judgeRun(false, m, traceInts(req.Header[traceHeader]), err)
}

// xrun: ONE exchange with a real martian.Context: its request goes through the request side as m1 says,
// then the exchange changes (as a modifier or the round trip may change it) to what m2 says, then the
// response — attached to the SAME *http.Request, same context — goes through the response side. Each
// side must decide on the exchange as it is at that moment.
func (e *ex) xrun(m1, m2 *message) core.Result {
	req, _ := m1.build()
	_, remove, err := martian.TestContext(req, nil, nil)
	if err != nil {
		return fail("c12:harness", "martian.TestContext: %v", err)
	}
	defer remove()
	err1 := e.mod.ModifyRequest(req)
	r1 := e.judgeRun(false, m1, traceInts(req.Header[traceHeader]), err1)
	req2, res := m2.build()
	req.Method, req.URL, req.Host, req.ContentLength, req.TransferEncoding, req.Header =
		req2.Method, req2.URL, req2.Host, req2.ContentLength, req2.TransferEncoding, req2.Header
	res.Request = req
	err2 := e.mod.ModifyResponse(res)
	if len(req.Header[traceHeader]) > 0 {
		return fail("c12:wrong-kind", "the response side touched the request (trace %v)", req.Header[traceHeader])
	}
	r2 := e.judgeRun(true, m2, traceInts(res.Header[traceHeader]), err2)
	core.Count("xrun:exchanges")
	out := core.Result{Impl: r1.Impl + " | " + r2.Impl}
	if r1.Fail != "" {
		out.Fail, out.Sig = "request side of the exchange: "+r1.Fail, r1.Sig
	} else if r2.Fail != "" {
		out.Fail, out.Sig = "response side of an exchange whose request side ran first on "+m1.describe()+": "+r2.Fail, r2.Sig
		if r2.Sig == "c12:trace-mismatch" || r2.Sig == "c12:error-mismatch" {
			// does the response side replay the request-time reading?
			old := interp(e.sideS, true, func(c *condSpec) bool { h, _ := holdsSpec(c, m1, true); return h })
			if sameInts(old.trace, r2trace(r2.Impl)) {
				out.Sig = "c12:response-side-decided-on-the-request-time-exchange"
			}
		}
	}
	return out
}

// r2trace: the labels of an observation line "t=<labels> e=…".
func r2trace(impl string) []int {
	f := strings.Fields(impl)
	if len(f) == 0 || !strings.HasPrefix(f[0], "t=") || f[0] == "t=-" {
		return nil
	}
	var out []int
	for _, x := range strings.Split(f[0][2:], ",") {
		l, _ := strconv.Atoi(x)
		out = append(out, l)
	}
	return out
}

// judgeRun: one side's observation against the depth-first reading of the tree in force on that side.
func (e *ex) judgeRun(response bool, m *message, tr []int, err error) core.Result {
	inForce := e.sideQ
	if response {
		inForce = e.sideS
	}
	if inForce != e.active {
		core.Count("run:on-a-side-installed-through-the-api")
	}
	es, flat, ok := canonErr(err)
	if !ok && response && strings.Contains(err.Error(), "missing port in address") && hasPortFilter(inForce) {
		return fail("c12:port-filter-response-error", "a response whose request URL (%s://%s) has no explicit port went through a port.Filter for another port: ModifyResponse returned %q instead of leaving the response alone (the request side returns nil); in a group this error stops the group (tree %s)", m.scheme, m.host, err, inForce)
	}
	if !ok {
		return fail("c12:foreign-error", "modifier returned something other than nil, a leaf error, or one MultiError of leaf errors (nesting deeper than one?): %T %v", err, err)
	}
	impl := "t=" + intsToken(tr) + " e=" + es
	abstain := false
	exp := interp(inForce, response, func(c *condSpec) bool {
		h, known := holdsSpec(c, m, response)
		if !known { // outside the domain where the statement fixes the matcher's meaning: follow the code
			abstain = true
			return matcherSays(c, m, response)
		}
		return h
	})
	if abstain {
		core.Count("run:oracle-followed-the-matcher-outside-its-domain")
	}
	core.Count("run:err-" + es[:1])
	if len(tr) == 0 {
		core.Count("run:trace-empty")
	} else {
		core.Count("run:trace-nonempty")
	}
	if exp.stopped {
		core.Count("run:first-error-stopped-a-group")
	}
	if len(exp.errs) >= 2 {
		core.Count("run:aggregated>=2")
	}
	if e.rejected {
		core.Count("run:after-rejected-post")
	}
	if !sameInts(tr, exp.trace) {
		sig := "c12:trace-mismatch"
		if e.rejected {
			sig = "c12:trace-mismatch-after-reject"
		}
		return core.Result{Impl: impl, Fail: fmt.Sprintf("leaves that ran: %v, depth-first reading of the active tree says %v (tree %s)", tr, exp.trace, inForce), Sig: sig}
	}
	if !sameInts(flat, exp.errs) {
		return core.Result{Impl: impl, Fail: fmt.Sprintf("errors reported: %v (%s), depth-first reading says %v (tree %s)", flat, es, exp.errs, inForce), Sig: "c12:error-mismatch"}
	}
	return core.Result{Impl: impl}
}

func (e *ex) Do(op string) core.Result {
	f := strings.Fields(op)
	switch {
	case len(f) >= 2 && f[0] == "post":
		n, ok := parseTree(f[1:])
		if !ok {
			return core.Result{Impl: "bad-op"}
		}
		r := e.post(n)
		r.ModelOp = "post " + n.String()
		return r
	case len(f) >= 3 && f[0] == "set" && (f[1] == "q" || f[1] == "s"):
		n, ok := parseTree(f[2:])
		if !ok {
			return core.Result{Impl: "bad-op"}
		}
		return e.set(f[1] == "s", n)
	case len(f) == 4 && f[0] == "run" && (f[1] == "q" || f[1] == "s"): // legacy: 9-integer message, atoms ignored
		m, ok := legacyMessage(f[2])
		if !ok {
			return core.Result{Impl: "bad-op"}
		}
		r := e.run(f[1], m)
		r.ModelOp = "run " + f[1] + " " + m.token()
		return r
	case len(f) == 3 && f[0] == "run" && (f[1] == "q" || f[1] == "s"):
		m, ok := parseMessage(f[2])
		if !ok {
			return core.Result{Impl: "bad-op"}
		}
		return e.run(f[1], m)
	case len(f) == 3 && f[0] == "xrun":
		m1, ok1 := parseMessage(f[1])
		m2, ok2 := parseMessage(f[2])
		if !ok1 || !ok2 {
			return core.Result{Impl: "bad-op"}
		}
		return e.xrun(m1, m2)
	case len(f) == 4 && f[0] == "cond" && (f[1] == "q" || f[1] == "s"):
		c, ok1 := parseCondTok(f[2])
		m, ok2 := parseMessage(f[3])
		if !ok1 || !ok2 {
			return core.Result{Impl: "bad-op"}
		}
		got := matcherSays(c, m, f[1] == "s")
		core.Count("condop:" + c.filter() + ":" + b01(got))
		if want, known := holdsSpec(c, m, f[1] == "s"); known && want != got {
			return core.Result{Impl: b01(got), Sig: "c12:cond-mismatch", Fail: fmt.Sprintf("%s {%s} on a %s of the exchange %s: the filter took its %s branch, the condition %s",
				c.filter(), c.params(), map[string]string{"q": "request", "s": "response"}[f[1]], m.describe(), map[bool]string{true: "modifier", false: "else"}[got],
				map[bool]string{true: "holds", false: "does not hold"}[want])}
		}
		return core.Result{Impl: b01(got), ModelOp: "cond " + f[1] + " " + c.token() + " " + f[3]}
	case len(f) >= 3 && f[0] == "postj":
		style, err := strconv.Atoi(f[1])
		j, rest, ok := parseJV(f[2:], 0)
		if err != nil || style < 0 || style > 7 || !ok || len(rest) != 0 {
			return core.Result{Impl: "bad-op"}
		}
		n := decodeJV(j)
		if n == nil {
			return core.Result{Impl: "bad-op"}
		}
		return e.postText([]byte(j.render(style)), n)
	case len(f) == 5 && f[0] == "race":
		seed, err := strconv.ParseUint(f[1], 10, 64)
		nb, err1 := strconv.Atoi(f[2])
		nw, err2 := strconv.Atoi(f[3])
		nr, err3 := strconv.Atoi(f[4])
		if err != nil || err1 != nil || err2 != nil || err3 != nil || nb < 1 || nb > 64 || nw < 1 || nw > 16 || nr < 1 || nr > 5000 {
			return core.Result{Impl: "bad-op"}
		}
		return e.race(seed, nb, nw, nr)
	case len(f) == 3 && f[0] == "matchhost":
		h, ok1 := core.Unhex(f[1])
		p, ok2 := core.Unhex(f[2])
		if !ok1 || !ok2 {
			return core.Result{Impl: "bad-op"}
		}
		got := martianurl.MatchHost(string(h), string(p))
		core.Count("matchhost:" + b01(got))
		if want, known := specHost(string(h), string(p)); known && want != got {
			return core.Result{Impl: b01(got), Sig: "c12:matchhost-mismatch", Fail: fmt.Sprintf("MatchHost(%q, %q) = %v", h, p, got)}
		}
		return core.Result{Impl: b01(got)}
	case len(f) == 2 && f[0] == "query":
		q, ok := core.Unhex(f[1])
		if !ok {
			return core.Result{Impl: "bad-op"}
		}
		vals, _ := url.ParseQuery(string(q))
		var keys []string
		for k := range vals {
			keys = append(keys, k)
		}
		sort.Strings(keys)
		var ps [][2]string
		for _, k := range keys {
			for _, v := range vals[k] {
				ps = append(ps, [2]string{k, v})
			}
		}
		core.Count("query:pairs-" + strconv.Itoa(len(ps)))
		return core.Result{Impl: pairsTok(ps)}
	}
	return core.Result{Impl: "bad-op"}
}
