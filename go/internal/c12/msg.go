package c12

import (
	"encoding/json"
	"net/http"
	"net/url"
	"strconv"
	"strings"
	"unicode/utf8"

	"github.com/google/martian/v3/proxyutil"

	"verif/harness/internal/core"
)

// condSpec is one filter condition as its JSON body gives it (see lean/Martian/Model/ConfigCond.lean).
type condSpec struct {
	kind       byte // m method, u url, q querystring, h header, c cookie, p port (a = decimal port)
	a, b, c, d string
}

var filterNames = map[byte]string{'m': "method.Filter", 'u': "url.Filter", 'q': "querystring.Filter", 'h': "header.Filter", 'c': "cookie.Filter", 'p': "port.Filter"}

func (c *condSpec) filter() string { return filterNames[c.kind] }

func (c *condSpec) token() string {
	switch c.kind {
	case 'm':
		return "m:" + core.HexS(c.a)
	case 'p':
		return "p:" + c.a
	case 'u':
		return "u:" + core.HexS(c.a) + ":" + core.HexS(c.b) + ":" + core.HexS(c.c) + ":" + core.HexS(c.d)
	}
	return string(c.kind) + ":" + core.HexS(c.a) + ":" + core.HexS(c.b)
}

func jstr(s string) string {
	b, _ := json.Marshal(s)
	return string(b)
}

// params: the JSON members of the filter body (with trailing ", ").
func (c *condSpec) params() string {
	switch c.kind {
	case 'm':
		return `"method": ` + jstr(c.a) + `, `
	case 'p':
		return `"port": ` + c.a + `, `
	case 'u':
		s := ""
		for i, kv := range [][2]string{{"scheme", c.a}, {"host", c.b}, {"path", c.c}, {"query", c.d}} {
			if kv[1] != "" || (i+len(c.b))%5 == 0 { // an empty segment is sometimes spelled out
				s += `"` + kv[0] + `": ` + jstr(kv[1]) + `, `
			}
		}
		return s
	}
	return `"name": ` + jstr(c.a) + `, "value": ` + jstr(c.b) + `, `
}

func isASCII(s string) bool {
	for i := 0; i < len(s); i++ {
		if s[i] >= 0x80 {
			return false
		}
	}
	return true
}

func validToken(s string) bool {
	if s == "" {
		return false
	}
	for i := 0; i < len(s); i++ {
		c := s[i]
		if !(c >= '0' && c <= '9' || c >= 'a' && c <= 'z' || c >= 'A' && c <= 'Z' || strings.IndexByte("!#$%&'*+-.^_`|~", c) >= 0) {
			return false
		}
	}
	return true
}

// parseCondTok: the token form, or (legacy corpus) an index into legacyPool. Parameters must be
// valid UTF-8 (they travel through a JSON string), methods ASCII (the model's EqualFold is ASCII),
// and a header condition must not name the probes' own trace header.
func parseCondTok(s string) (*condSpec, bool) {
	if i, err := strconv.Atoi(s); err == nil {
		if i < 0 || i >= len(legacyPool) {
			return nil, false
		}
		c := legacyPool[i]
		return &c, true
	}
	f := strings.Split(s, ":")
	if len(f[0]) != 1 {
		return nil, false
	}
	if f[0] == "p" { // port.Filter: a decimal int64
		if len(f) != 2 {
			return nil, false
		}
		if i, err := strconv.ParseInt(f[1], 10, 64); err != nil || strconv.FormatInt(i, 10) != f[1] {
			return nil, false
		}
		return &condSpec{kind: 'p', a: f[1]}, true
	}
	c := &condSpec{kind: f[0][0]}
	want := map[byte]int{'m': 2, 'u': 5, 'q': 3, 'h': 3, 'c': 3}[c.kind]
	if want == 0 || len(f) != want {
		return nil, false
	}
	dst := []*string{&c.a, &c.b, &c.c, &c.d}
	for i, x := range f[1:] {
		b, ok := core.Unhex(x)
		if !ok || !utf8.Valid(b) {
			return nil, false
		}
		*dst[i] = string(b)
	}
	if c.kind == 'm' && !isASCII(c.a) {
		return nil, false
	}
	if c.kind == 'h' && http.CanonicalHeaderKey(c.a) == traceHeader {
		return nil, false
	}
	return c, true
}

var legacyPool = []condSpec{
	0: {kind: 'm', a: "POST"}, 1: {kind: 'm', a: "get"},
	2: {kind: 'u', a: "https"}, 3: {kind: 'u', b: "a.example"}, 4: {kind: 'u', c: "/p1"}, 5: {kind: 'u', b: "b.example", c: "/p2"}, 6: {kind: 'u', d: "k1=v1"},
	7: {kind: 'q', a: "k1", b: "v1"}, 8: {kind: 'q', a: "k2"}, 9: {kind: 'q', a: "k1", b: "v2"},
	10: {kind: 'h', a: "X-A", b: "1"}, 11: {kind: 'h', a: "x-a", b: "2"}, 12: {kind: 'h', a: "X-B", b: "1"},
	13: {kind: 'c', a: "c1", b: "v1"}, 14: {kind: 'c', a: "c1"}, 15: {kind: 'c', a: "c2", b: "v1"},
	16: {kind: 'u'}, 17: {kind: 'm', a: ""},
}

// message: the part of one exchange the matchers read (lean: Config.Message).
type message struct {
	method, scheme, host, path, rawQuery string
	reqHost                              string
	reqCL                                int64
	reqTE                                []string // nil vs empty matters
	reqHdr, reqCk                        [][2]string
	resCL                                int64
	resTE                                []string
	resHdr, resCk                        [][2]string
}

func pairsTok(ps [][2]string) string {
	if len(ps) == 0 {
		return "-"
	}
	s := make([]string, len(ps))
	for i, p := range ps {
		s[i] = core.HexS(p[0]) + ":" + core.HexS(p[1])
	}
	return strings.Join(s, ",")
}

func teTok(te []string) string {
	if te == nil {
		return "n"
	}
	if len(te) == 0 {
		return "e"
	}
	s := make([]string, len(te))
	for i, x := range te {
		s[i] = core.HexS(x)
	}
	return strings.Join(s, ",")
}

func (m *message) token() string {
	return strings.Join([]string{core.HexS(m.method), core.HexS(m.scheme), core.HexS(m.host), core.HexS(m.path), core.HexS(m.rawQuery),
		core.HexS(m.reqHost), strconv.FormatInt(m.reqCL, 10), teTok(m.reqTE), pairsTok(m.reqHdr), pairsTok(m.reqCk),
		strconv.FormatInt(m.resCL, 10), teTok(m.resTE), pairsTok(m.resHdr), pairsTok(m.resCk)}, ";")
}

func parsePairsTok(s string) ([][2]string, bool) {
	if s == "-" {
		return nil, true
	}
	var out [][2]string
	for _, kv := range strings.Split(s, ",") {
		f := strings.Split(kv, ":")
		if len(f) != 2 {
			return nil, false
		}
		k, ok1 := core.Unhex(f[0])
		v, ok2 := core.Unhex(f[1])
		if !ok1 || !ok2 {
			return nil, false
		}
		out = append(out, [2]string{string(k), string(v)})
	}
	return out, true
}

func parseTETok(s string) ([]string, bool) {
	switch s {
	case "n":
		return nil, true
	case "e":
		return []string{}, true
	}
	var out []string
	for _, x := range strings.Split(s, ",") {
		b, ok := core.Unhex(x)
		if !ok {
			return nil, false
		}
		out = append(out, string(b))
	}
	return out, true
}

// hostPortOK: URL.Host has no port, or exactly one ':' followed by a decimal port (port.Filter returns
// an error of its own for anything else; such hosts are outside the domain of the check).
func hostPortOK(h string) bool {
	i := strings.IndexByte(h, ':')
	if i < 0 {
		return true
	}
	p := h[i+1:]
	if p == "" || len(p) > 5 {
		return false
	}
	for _, c := range p {
		if c < '0' || c > '9' {
			return false
		}
	}
	return true
}

func sameCookies(cs []*http.Cookie, want [][2]string) bool {
	if len(cs) != len(want) {
		return false
	}
	for i, c := range cs {
		if c.Name != want[i][0] || c.Value != want[i][1] {
			return false
		}
	}
	return true
}

// parseMessage reads the token and checks that it is one the harness can stand behind: ASCII method,
// no pre-set trace header, and the cookie lists are what net/http parses out of the header lines.
func parseMessage(tok string) (*message, bool) {
	f := strings.Split(tok, ";")
	if len(f) != 14 {
		return nil, false
	}
	m := &message{}
	for i, dst := range []*string{&m.method, &m.scheme, &m.host, &m.path, &m.rawQuery, &m.reqHost} {
		b, ok := core.Unhex(f[i])
		if !ok {
			return nil, false
		}
		*dst = string(b)
	}
	var err1, err2 error
	var ok [6]bool
	m.reqCL, err1 = strconv.ParseInt(f[6], 10, 64)
	m.reqTE, ok[0] = parseTETok(f[7])
	m.reqHdr, ok[1] = parsePairsTok(f[8])
	m.reqCk, ok[2] = parsePairsTok(f[9])
	m.resCL, err2 = strconv.ParseInt(f[10], 10, 64)
	m.resTE, ok[3] = parseTETok(f[11])
	m.resHdr, ok[4] = parsePairsTok(f[12])
	m.resCk, ok[5] = parsePairsTok(f[13])
	if err1 != nil || err2 != nil || ok != [6]bool{true, true, true, true, true, true} || !isASCII(m.method) || !hostPortOK(m.host) {
		return nil, false
	}
	for _, h := range append(append([][2]string{}, m.reqHdr...), m.resHdr...) {
		if http.CanonicalHeaderKey(h[0]) == traceHeader {
			return nil, false
		}
	}
	req, res := m.build()
	if !sameCookies(req.Cookies(), m.reqCk) || !sameCookies(res.Cookies(), m.resCk) {
		return nil, false
	}
	return m, true
}

// build constructs the real messages (URL fields are stored directly, nothing is re-parsed).
func (m *message) build() (*http.Request, *http.Response) {
	req := &http.Request{
		Method: m.method,
		URL:    &url.URL{Scheme: m.scheme, Host: m.host, Path: m.path, RawQuery: m.rawQuery},
		Proto:  "HTTP/1.1", ProtoMajor: 1, ProtoMinor: 1,
		Header:           http.Header{},
		Host:             m.reqHost,
		ContentLength:    m.reqCL,
		TransferEncoding: m.reqTE,
	}
	for _, kv := range m.reqHdr {
		req.Header.Add(kv[0], kv[1])
	}
	res := proxyutil.NewResponse(200, nil, req)
	res.ContentLength = m.resCL
	res.TransferEncoding = m.resTE
	for _, kv := range m.resHdr {
		res.Header.Add(kv[0], kv[1])
	}
	return req, res
}

// ---- the independent reading of "the condition holds for the message" ----

// specQuery: the query parameters of a raw query, read independently of url.ParseQuery: pieces between
// '&'; a piece with ';' or without a key is not a parameter; '+' is a space, %XX a byte; a piece whose
// key or value has a broken escape is not a parameter.
func specQuery(raw string) [][2]string {
	var out [][2]string
	for _, piece := range strings.Split(raw, "&") {
		if piece == "" || strings.Contains(piece, ";") {
			continue
		}
		kv := strings.SplitN(piece, "=", 2)
		if len(kv) == 1 {
			kv = append(kv, "")
		}
		k, err1 := url.PathUnescape(strings.ReplaceAll(kv[0], "+", " "))
		v, err2 := url.PathUnescape(strings.ReplaceAll(kv[1], "+", " "))
		if err1 != nil || err2 != nil {
			continue
		}
		out = append(out, [2]string{k, v})
	}
	return out
}

// specHost: host patterns whose labels are literal or exactly "*" (one label), on hosts without empty
// labels. known=false outside that domain (partial-label globs, leading dots): the statement does not
// say what such patterns mean; there the model is compared with the code, the oracle abstains.
func specHost(host, pat string) (match, known bool) {
	if host == "" {
		return false, true
	}
	if host == pat {
		return true, true
	}
	hl, pl := strings.Split(host, "."), strings.Split(pat, ".")
	for _, l := range hl {
		if l == "" || strings.Contains(l, "*") {
			return false, false
		}
	}
	for _, l := range pl {
		if l != "*" && strings.Contains(l, "*") {
			return false, false
		}
	}
	if len(hl) != len(pl) {
		return false, true
	}
	for i := range hl {
		if pl[i] != "*" && pl[i] != hl[i] {
			return false, true
		}
	}
	return true, true
}

func asciiUpper(s string) string {
	b := []byte(s)
	for i, c := range b {
		if c >= 'a' && c <= 'z' {
			b[i] = c - 32
		}
	}
	return string(b)
}

// specHeaders: the header fields of the message as the proxy sees them: the explicit header lines plus
// Host (requests), Content-Length (when positive) and Transfer-Encoding.
func (m *message) specHeaders(response bool) [][2]string {
	var out [][2]string
	hdr, cl, te, host := m.reqHdr, m.reqCL, m.reqTE, m.reqHost
	if response {
		hdr, cl, te, host = m.resHdr, m.resCL, m.resTE, ""
	}
	for _, kv := range hdr {
		switch asciiUpper(kv[0]) {
		case "HOST", "CONTENT-LENGTH", "TRANSFER-ENCODING": // carried by the dedicated fields
		default:
			out = append(out, kv)
		}
	}
	if host != "" {
		out = append(out, [2]string{"Host", host})
	}
	if cl > 0 {
		out = append(out, [2]string{"Content-Length", strconv.FormatInt(cl, 10)})
	}
	for _, t := range te {
		out = append(out, [2]string{"Transfer-Encoding", t})
	}
	return out
}

// holdsSpec: does the condition hold for the request (or the response) of the exchange?
func holdsSpec(c *condSpec, m *message, response bool) (holds, known bool) {
	switch c.kind {
	case 'm':
		return asciiUpper(c.a) == asciiUpper(m.method), true
	case 'u':
		if c.a != "" && c.a != m.scheme || c.c != "" && c.c != m.path || c.d != "" && c.d != m.rawQuery {
			return false, true
		}
		if c.b == "" {
			return true, true
		}
		return specHost(m.host, c.b)
	case 'q':
		for _, kv := range specQuery(m.rawQuery) {
			if kv[0] == c.a && (c.b == "" || kv[1] == c.b) {
				return true, true
			}
		}
		return false, true
	case 'h':
		if !validToken(c.a) {
			return false, false
		}
		for _, kv := range m.specHeaders(response) {
			if !validToken(kv[0]) {
				return false, false
			}
			if asciiUpper(kv[0]) == asciiUpper(c.a) && kv[1] == c.b {
				return true, true
			}
		}
		return false, true
	case 'p':
		// the port of the request URL, explicit or the scheme's default
		port := map[string]string{"http": "80", "https": "443"}[m.scheme]
		if port == "" {
			port = "0"
		}
		if i := strings.IndexByte(m.host, ':'); i >= 0 {
			port = strings.TrimLeft(m.host[i+1:], "0")
			if port == "" {
				port = "0"
			}
		}
		return port == c.a, true
	case 'c':
		cks := m.reqCk
		if response {
			cks = m.resCk
		}
		for _, kv := range cks {
			if kv[0] == c.a && (c.b == "" || kv[1] == c.b) {
				return true, true
			}
		}
		return false, true
	}
	return false, false
}

// ---- legacy message specs (9 small integers; corpus files written before messages were concrete) ----

var (
	methods  = []string{"GET", "POST", "PUT"}
	schemes  = []string{"http", "https"}
	hosts    = []string{"a.example", "b.example"}
	paths    = []string{"/p1", "/p2"}
	queryKVs = [][2]string{{"k1", "v1"}, {"k1", "v2"}, {"k2", "v1"}}
	hdrKVs   = [][2]string{{"X-A", "1"}, {"X-A", "2"}, {"X-B", "1"}}
	ckKVs    = [][2]string{{"c1", "v1"}, {"c1", "v2"}, {"c2", "v1"}}
)

func legacyMessage(s string) (*message, bool) {
	f := strings.Split(s, ",")
	if len(f) != 9 {
		return nil, false
	}
	lim := []int{len(methods), len(schemes), len(hosts), len(paths), 8, 8, 8, 8, 8}
	var v [9]int
	for i, x := range f {
		n, err := strconv.Atoi(x)
		if err != nil || n < 0 || n >= lim[i] {
			return nil, false
		}
		v[i] = n
	}
	m := &message{method: methods[v[0]], scheme: schemes[v[1]], host: hosts[v[2]], path: paths[v[3]], reqHost: hosts[v[2]]}
	pick := func(set int, table [][2]string) (out [][2]string) {
		for i, kv := range table {
			if set&(1<<i) != 0 {
				out = append(out, kv)
			}
		}
		return
	}
	var q []string
	for _, kv := range pick(v[4], queryKVs) {
		q = append(q, kv[0]+"="+kv[1])
	}
	m.rawQuery = strings.Join(q, "&")
	m.reqHdr, m.reqCk = pick(v[5], hdrKVs), pick(v[6], ckKVs)
	m.resHdr, m.resCk = pick(v[7], hdrKVs), pick(v[8], ckKVs)
	m.addCookieHeaders()
	return m, true
}

// addCookieHeaders writes the Cookie / Set-Cookie lines that carry m.reqCk / m.resCk.
func (m *message) addCookieHeaders() {
	if len(m.reqCk) > 0 {
		var cks []string
		for _, kv := range m.reqCk {
			cks = append(cks, kv[0]+"="+kv[1])
		}
		m.reqHdr = append(m.reqHdr, [2]string{"Cookie", strings.Join(cks, "; ")})
	}
	for _, kv := range m.resCk {
		m.resHdr = append(m.resHdr, [2]string{"Set-Cookie", kv[0] + "=" + kv[1]})
	}
}

func intsToken(xs []int) string {
	if len(xs) == 0 {
		return "-"
	}
	s := make([]string, len(xs))
	for i, x := range xs {
		s[i] = strconv.Itoa(x)
	}
	return strings.Join(s, ",")
}
