package c12

import (
	"fmt"
	"net/http"
	"strconv"
	"strings"

	"github.com/google/martian/v3/proxyutil"
)

// cond is one filter condition of the pool: the registered filter name and its JSON parameters,
// plus an independent reading of when it holds (the property's "its condition holds for the message").
type cond struct {
	filter string
	params string // JSON members, with trailing ", "
	holds  func(m *msgSpec, response bool) bool
}

// msgSpec describes one exchange: the request and (for responses) the response attached to it.
type msgSpec struct {
	method, scheme, host, path int
	query, reqHdr, reqCk       int // bit sets over the tables below
	resHdr, resCk              int
}

var (
	methods  = []string{"GET", "POST", "PUT"}
	schemes  = []string{"http", "https"}
	hosts    = []string{"a.example", "b.example"}
	paths    = []string{"/p1", "/p2"}
	queryKVs = [][2]string{{"k1", "v1"}, {"k1", "v2"}, {"k2", "v1"}}
	hdrKVs   = [][2]string{{"X-A", "1"}, {"X-A", "2"}, {"X-B", "1"}}
	ckKVs    = [][2]string{{"c1", "v1"}, {"c1", "v2"}, {"c2", "v1"}}
)

func (m *msgSpec) String() string {
	return fmt.Sprintf("%d,%d,%d,%d,%d,%d,%d,%d,%d", m.method, m.scheme, m.host, m.path, m.query, m.reqHdr, m.reqCk, m.resHdr, m.resCk)
}

func parseMsg(s string) (*msgSpec, bool) {
	f := strings.Split(s, ",")
	if len(f) != 9 {
		return nil, false
	}
	lim := []int{len(methods), len(schemes), len(hosts), len(paths), 8, 8, 8, 8, 8}
	var v [9]int
	for i, x := range f {
		n, err := strconv.Atoi(x)
		if err != nil || n < 0 || n >= lim[i] {
			return nil, false
		}
		v[i] = n
	}
	return &msgSpec{v[0], v[1], v[2], v[3], v[4], v[5], v[6], v[7], v[8]}, true
}

func (m *msgSpec) rawQuery() string {
	var p []string
	for i, kv := range queryKVs {
		if m.query&(1<<i) != 0 {
			p = append(p, kv[0]+"="+kv[1])
		}
	}
	return strings.Join(p, "&")
}

func has(set int, table [][2]string, k, v string) bool {
	for i, kv := range table {
		if set&(1<<i) != 0 && kv[0] == k && (v == "" || kv[1] == v) {
			return true
		}
	}
	return false
}

// build constructs the real messages.
func (m *msgSpec) build() (*http.Request, *http.Response) {
	u := schemes[m.scheme] + "://" + hosts[m.host] + paths[m.path]
	if q := m.rawQuery(); q != "" {
		u += "?" + q
	}
	req, err := http.NewRequest(methods[m.method], u, nil)
	if err != nil {
		panic(err)
	}
	var cks []string
	for i, kv := range hdrKVs {
		if m.reqHdr&(1<<i) != 0 {
			req.Header.Add(kv[0], kv[1])
		}
	}
	for i, kv := range ckKVs {
		if m.reqCk&(1<<i) != 0 {
			cks = append(cks, kv[0]+"="+kv[1])
		}
	}
	if len(cks) > 0 {
		req.Header.Set("Cookie", strings.Join(cks, "; "))
	}
	res := proxyutil.NewResponse(200, nil, req)
	for i, kv := range hdrKVs {
		if m.resHdr&(1<<i) != 0 {
			res.Header.Add(kv[0], kv[1])
		}
	}
	for i, kv := range ckKVs {
		if m.resCk&(1<<i) != 0 {
			res.Header.Add("Set-Cookie", kv[0]+"="+kv[1])
		}
	}
	return req, res
}

func hdrSet(m *msgSpec, response bool) int {
	if response {
		return m.resHdr
	}
	return m.reqHdr
}
func ckSet(m *msgSpec, response bool) int {
	if response {
		return m.resCk
	}
	return m.reqCk
}

// condPool: conditions over the five filters. URL, method and query conditions look at the request
// of the exchange (also for responses); header and cookie conditions look at the message itself.
var condPool = []cond{
	0:  {"method.Filter", `"method": "POST", `, func(m *msgSpec, _ bool) bool { return methods[m.method] == "POST" }},
	1:  {"method.Filter", `"method": "get", `, func(m *msgSpec, _ bool) bool { return methods[m.method] == "GET" }},
	2:  {"url.Filter", `"scheme": "https", `, func(m *msgSpec, _ bool) bool { return schemes[m.scheme] == "https" }},
	3:  {"url.Filter", `"host": "a.example", `, func(m *msgSpec, _ bool) bool { return hosts[m.host] == "a.example" }},
	4:  {"url.Filter", `"path": "/p1", `, func(m *msgSpec, _ bool) bool { return paths[m.path] == "/p1" }},
	5:  {"url.Filter", `"host": "b.example", "path": "/p2", `, func(m *msgSpec, _ bool) bool { return hosts[m.host] == "b.example" && paths[m.path] == "/p2" }},
	6:  {"url.Filter", `"query": "k1=v1", `, func(m *msgSpec, _ bool) bool { return m.query == 1 }},
	7:  {"querystring.Filter", `"name": "k1", "value": "v1", `, func(m *msgSpec, _ bool) bool { return has(m.query, queryKVs, "k1", "v1") }},
	8:  {"querystring.Filter", `"name": "k2", `, func(m *msgSpec, _ bool) bool { return has(m.query, queryKVs, "k2", "") }},
	9:  {"querystring.Filter", `"name": "k1", "value": "v2", `, func(m *msgSpec, _ bool) bool { return has(m.query, queryKVs, "k1", "v2") }},
	10: {"header.Filter", `"name": "X-A", "value": "1", `, func(m *msgSpec, r bool) bool { return has(hdrSet(m, r), hdrKVs, "X-A", "1") }},
	11: {"header.Filter", `"name": "x-a", "value": "2", `, func(m *msgSpec, r bool) bool { return has(hdrSet(m, r), hdrKVs, "X-A", "2") }},
	12: {"header.Filter", `"name": "X-B", "value": "1", `, func(m *msgSpec, r bool) bool { return has(hdrSet(m, r), hdrKVs, "X-B", "1") }},
	13: {"cookie.Filter", `"name": "c1", "value": "v1", `, func(m *msgSpec, r bool) bool { return has(ckSet(m, r), ckKVs, "c1", "v1") }},
	14: {"cookie.Filter", `"name": "c1", `, func(m *msgSpec, r bool) bool { return has(ckSet(m, r), ckKVs, "c1", "") }},
	15: {"cookie.Filter", `"name": "c2", "value": "v1", `, func(m *msgSpec, r bool) bool { return has(ckSet(m, r), ckKVs, "c2", "v1") }},
	16: {"url.Filter", ``, func(m *msgSpec, _ bool) bool { return true }},
	17: {"method.Filter", `"method": "", `, func(m *msgSpec, _ bool) bool { return false }},
}

func (m *msgSpec) truths(response bool) []int {
	var out []int
	for i, c := range condPool {
		if c.holds(m, response) {
			out = append(out, i)
		}
	}
	return out
}

func intsToken(xs []int) string {
	if len(xs) == 0 {
		return "-"
	}
	s := make([]string, len(xs))
	for i, x := range xs {
		s[i] = strconv.Itoa(x)
	}
	return strings.Join(s, ",")
}
