package c12

import (
	"strings"

	"verif/harness/internal/core"
)

// ---- JSON corner cases: mutations of the plain JSON value of a tree ----
// The mutations are blind (they do not know what they mean); what the mutated value says is read off
// by decodeJV (oracle) and by the Lean model, and by the real code.

var numVariants = []string{"-0", "0", "7", "-1", "1e2", "1E2", "1.0", "1.5", "0.0", "-1.5e-3", "9223372036854775807", "9223372036854775808",
	"-9223372036854775808", "-9223372036854775809", "100000000000000000000", "2", "1", "100"}

var unknownKeys = []string{"x", "comment", "Modifier s", "scope2", "label_", "priorityy", "modifierz", "", "ſ", "name ", "els", "K", "é", "aggregate"}

func foldVariant(r *core.Rand, k string) string {
	switch r.Intn(6) {
	case 0:
		return strings.ToUpper(k)
	case 1:
		return strings.Title(k)
	case 2:
		return strings.ReplaceAll(k, "s", "ſ")
	case 3:
		return strings.ReplaceAll(strings.ToUpper(k), "S", "ſ")
	case 4:
		b := []byte(k)
		for i := range b {
			if r.Bool() && b[i] >= 'a' && b[i] <= 'z' {
				b[i] -= 32
			}
		}
		return string(b)
	}
	return k
}

func (j *jv) clone() *jv {
	c := *j
	c.arr = nil
	c.obj = nil
	for _, x := range j.arr {
		c.arr = append(c.arr, x.clone())
	}
	for _, e := range j.obj {
		c.obj = append(c.obj, jkv{e.key, e.v.clone()})
	}
	return &c
}

func (j *jv) walk(f func(*jv)) {
	f(j)
	for _, x := range j.arr {
		x.walk(f)
	}
	for _, e := range j.obj {
		e.v.walk(f)
	}
}

func junk(r *core.Rand) *jv {
	switch r.Intn(9) {
	case 0:
		return jNull()
	case 1:
		return jBool(r.Bool())
	case 2:
		return jNum(numVariants[r.Intn(len(numVariants))])
	case 3:
		return jStr(r.Pick("", "request", "response", "x", "q", "fifo.Group", "true", "5"))
	case 4:
		return jArr()
	case 5:
		return jArr(jNull(), jStr("request"), jNum("1"))
	case 6:
		return jObj()
	case 7:
		return jObj(kv("y", jArr(jNum("1"), jObj(kv("z", jNull())))))
	}
	return jObj(kv("verif.Probe", jObj(kv("label", jNum("77")), kv("caps", jStr("b")))))
}

// plausible: a value of the kind the member usually has.
func plausible(r *core.Rand, key string, root *jv) *jv {
	leaf := func() *jv {
		return jObj(kv("verif.Probe", jObj(kv("label", jInt(int64(900+r.Intn(50)))), kv("caps", jStr(r.Pick("b", "b", "q", "s"))))))
	}
	sub := func() *jv { // an existing modifier object of the tree, or a fresh leaf
		var subs []*jv
		root.walk(func(x *jv) {
			if x.kind == 'O' && len(x.obj) == 1 && strings.Contains(x.obj[0].key, ".") {
				subs = append(subs, x)
			}
		})
		if len(subs) == 0 || r.Chance(1, 3) {
			return leaf()
		}
		return subs[r.Intn(len(subs))].clone()
	}
	switch strings.ToLower(strings.ReplaceAll(key, "ſ", "s")) {
	case "scope":
		var xs []*jv
		for i, n := 0, r.Intn(4); i < n; i++ {
			switch r.Intn(5) {
			case 0:
				xs = append(xs, jNull())
			case 1, 2:
				xs = append(xs, jStr("request"))
			case 3:
				xs = append(xs, jStr("response"))
			default:
				xs = append(xs, jStr(r.Pick("Request", "", "both")))
			}
		}
		if r.Chance(1, 6) {
			return jNull()
		}
		return jArr(xs...)
	case "modifiers":
		var xs []*jv
		for i, n := 0, r.Intn(4); i < n; i++ {
			switch r.Intn(6) {
			case 0:
				xs = append(xs, jNull())
			case 1:
				xs = append(xs, jObj()) // for a priority group: an element that keeps what is there
			case 2:
				xs = append(xs, jObj(kv("priority", jNum(numVariants[r.Intn(len(numVariants))]))))
			case 3:
				xs = append(xs, jObj(kv("modifier", sub())))
			case 4:
				xs = append(xs, jObj(kv("priority", jInt(int64(r.Intn(3)))), kv("modifier", sub())))
			default:
				xs = append(xs, sub())
			}
		}
		if r.Chance(1, 8) {
			return jNull()
		}
		return jArr(xs...)
	case "priority", "label", "port":
		if r.Chance(1, 5) {
			return jNull()
		}
		return jNum(numVariants[r.Intn(len(numVariants))])
	case "aggregateerrors", "failreq", "failres":
		if r.Chance(1, 4) {
			return jNull()
		}
		return jBool(r.Bool())
	case "modifier", "else":
		if r.Chance(1, 6) {
			return jNull()
		}
		return sub()
	case "caps":
		return jStr(r.Pick("b", "q", "s", "z", "x", ""))
	case "name", "value", "method", "scheme", "host", "path", "query":
		if r.Chance(1, 4) {
			return jNull()
		}
		return jStr(r.Pick("", "GET", "k1", "v1", "X-A", "1", "c1", "http", "a.example", "/p1"))
	}
	return junk(r)
}

func mutateJV(r *core.Rand, root *jv) *jv {
	var objs, arrs, nums []*jv
	root.walk(func(x *jv) {
		switch x.kind {
		case 'O':
			objs = append(objs, x)
		case 'A':
			arrs = append(arrs, x)
		case '#':
			nums = append(nums, x)
		}
	})
	insert := func(o *jv, at int, e jkv) {
		o.obj = append(o.obj[:at:at], append([]jkv{e}, o.obj[at:]...)...)
	}
	o := objs[r.Intn(len(objs))]
	switch k := r.Intn(12); {
	case k == 0: // unknown member
		insert(o, r.Intn(len(o.obj)+1), jkv{unknownKeys[r.Intn(len(unknownKeys))], junk(r)})
		core.Count("jmut:unknown-member")
	case k == 1 && len(o.obj) > 0: // case-folded key
		i := r.Intn(len(o.obj))
		o.obj[i].key = foldVariant(r, o.obj[i].key)
		core.Count("jmut:folded-key")
	case k <= 4 && len(o.obj) > 0: // duplicate key, before or after, same or folded spelling
		i := r.Intn(len(o.obj))
		e := jkv{o.obj[i].key, plausible(r, o.obj[i].key, root)}
		if r.Chance(1, 3) {
			e.key = foldVariant(r, e.key)
		}
		if r.Chance(1, 4) {
			e.v = o.obj[i].v.clone()
		}
		at := i
		if r.Bool() {
			at = i + 1
			core.Count("jmut:duplicate-after")
		} else {
			core.Count("jmut:duplicate-before")
		}
		insert(o, at, e)
		if r.Chance(1, 3) { // a third occurrence
			insert(o, r.Intn(len(o.obj)+1), jkv{e.key, plausible(r, e.key, root)})
			core.Count("jmut:triplicate")
		}
	case k == 5 && len(o.obj) > 1: // member order
		for i := len(o.obj) - 1; i > 0; i-- {
			j := r.Intn(i + 1)
			o.obj[i], o.obj[j] = o.obj[j], o.obj[i]
		}
		core.Count("jmut:shuffled-members")
	case k == 6 && len(o.obj) > 0: // a member of the usual kind but another value (null, number forms, other subtree)
		i := r.Intn(len(o.obj))
		o.obj[i].v = plausible(r, o.obj[i].key, root)
		core.Count("jmut:other-value")
	case k == 7 && len(o.obj) > 0: // a member of the wrong kind
		i := r.Intn(len(o.obj))
		o.obj[i].v = junk(r)
		core.Count("jmut:wrong-kind")
	case k == 8 && len(o.obj) > 0: // drop a member
		i := r.Intn(len(o.obj))
		o.obj = append(o.obj[:i:i], o.obj[i+1:]...)
		core.Count("jmut:dropped-member")
	case k == 9 && len(nums) > 0:
		nums[r.Intn(len(nums))].num = numVariants[r.Intn(len(numVariants))]
		core.Count("jmut:number-form")
	case k == 10 && len(arrs) > 0: // array surgery
		a := arrs[r.Intn(len(arrs))]
		at := r.Intn(len(a.arr) + 1)
		switch r.Intn(3) {
		case 0:
			a.arr = append(a.arr[:at:at], append([]*jv{jNull()}, a.arr[at:]...)...)
			core.Count("jmut:null-element")
		case 1:
			a.arr = append(a.arr[:at:at], append([]*jv{junk(r)}, a.arr[at:]...)...)
			core.Count("jmut:junk-element")
		default:
			if len(a.arr) > 0 {
				i := r.Intn(len(a.arr))
				a.arr = append(a.arr[:at:at], append([]*jv{a.arr[i].clone()}, a.arr[at:]...)...)
				core.Count("jmut:repeated-element")
			}
		}
	default: // the registry level: a second name, the same name twice, a null body
		var mods []*jv
		for _, x := range objs {
			if len(x.obj) == 1 && strings.Contains(x.obj[0].key, ".") {
				mods = append(mods, x)
			}
		}
		if len(mods) == 0 {
			break
		}
		m := mods[r.Intn(len(mods))]
		switch r.Intn(4) {
		case 0:
			insert(m, r.Intn(2), jkv{m.obj[0].key, plausible(r, "modifier", root).obj0()})
			core.Count("jmut:registry-name-twice")
		case 1:
			insert(m, r.Intn(2), jkv{r.Pick("fifo.Group", "nosuch.Modifier", "Fifo.Group", "verif.Probe"), jObj()})
			core.Count("jmut:two-registry-names")
		case 2:
			m.obj[0].v = jNull()
			core.Count("jmut:null-body")
		default:
			m.obj[0].key = foldVariant(r, m.obj[0].key)
			core.Count("jmut:folded-registry-name")
		}
	}
	return root
}

// obj0: the body of a one-member object (or the value itself).
func (j *jv) obj0() *jv {
	if j.kind == 'O' && len(j.obj) == 1 {
		return j.obj[0].v
	}
	return j
}

// jsonCase: a plain tree's JSON value with one to three mutations, POSTed and then exercised.
func jsonCase(r *core.Rand) []string {
	var ops []string
	posts := r.Range(1, 3)
	for i := 0; i < posts; i++ {
		g := &genState{r: r, maxD: r.Range(2, 4), maxW: 3}
		t := g.tree(1)
		if r.Chance(1, 8) {
			t = g.wideGroup(r.Range(3, 16))
		}
		if t.kind == 'L' { // a bare leaf has little to mutate
			t = &node{kind: byte(r.Pick2('F', 'P')), scope: "n", kids: []*node{t, g.leaf()}, prios: []int64{0, 0}}
		}
		j := t.toJV()
		for k, n := 0, []int{1, 1, 1, 2, 2, 3}[r.Intn(6)]; k < n; k++ {
			j = mutateJV(r, j)
		}
		exp := decodeJV(j)
		if exp == nil {
			continue
		}
		if exp.wellFormed() {
			core.Count("jsoncase:reading-is-acceptable")
		} else {
			core.Count("jsoncase:reading-is-unacceptable")
		}
		ops = append(ops, "postj "+r.Pick("0", "0", "1", "2", "3", "6", "7")+" "+j.String())
		for _, k := range []string{"q", "s", r.Pick("q", "s")} {
			ops = append(ops, "run "+k+" "+genMessage(r, exp.conds()...).token())
		}
	}
	return ops
}
