package c12

import (
	"strconv"

	"verif/harness/internal/core"
)

type genState struct {
	r     *core.Rand
	label int
	maxD  int
	maxW  int
}

var groupScopes = []string{"n", "n", "n", "n", "n", "n", "n", "n", "n", "N", "e", "q", "q", "s", "s", "qs", "qs", "qs", "sq", "qq", "qsq", "ss"}
var prioPool = []int64{-5, -1, 0, 0, 0, 1, 1, 1, 2, 2, 100}

func (g *genState) leaf() *node {
	r := g.r
	n := &node{kind: 'L', label: g.label}
	g.label++
	switch r.Intn(16) {
	case 0:
		n.caps = 'z'
	case 1, 2, 3:
		n.caps = 'q'
	case 4, 5, 6:
		n.caps = 's'
	default:
		n.caps = 'b'
	}
	n.failReq = r.Chance(1, 4)
	n.failRes = r.Chance(1, 4)
	// a scope the leaf supports
	var choices []string
	switch n.caps {
	case 'b':
		choices = []string{"n", "n", "n", "n", "N", "e", "q", "s", "qs", "sq", "qq"}
	case 'q':
		choices = []string{"n", "n", "n", "N", "e", "q", "qq"}
	case 's':
		choices = []string{"n", "n", "n", "N", "e", "s", "ss"}
	default:
		choices = []string{"n", "n", "N", "e"}
	}
	n.scope = choices[r.Intn(len(choices))]
	return n
}

func (g *genState) tree(depth int) *node {
	r := g.r
	if depth >= g.maxD || (depth > 1 && r.Chance(3, 10)) {
		return g.leaf()
	}
	switch r.Intn(10) {
	case 0, 1, 2, 3:
		n := &node{kind: 'F', scope: groupScopes[r.Intn(len(groupScopes))], agg: r.Chance(2, 5)}
		w := r.Range(1, g.maxW)
		if r.Chance(1, 15) {
			w = 0
		}
		for i := 0; i < w; i++ {
			n.kids = append(n.kids, g.tree(depth+1))
		}
		return n
	case 4, 5, 6:
		n := &node{kind: 'P', scope: groupScopes[r.Intn(len(groupScopes))]}
		w := r.Range(1, g.maxW)
		if r.Chance(1, 15) {
			w = 0
		}
		for i := 0; i < w; i++ {
			n.prios = append(n.prios, prioPool[r.Intn(len(prioPool))])
			n.kids = append(n.kids, g.tree(depth+1))
		}
		return n
	default:
		n := &node{kind: 'C', cond: r.Intn(len(condPool)), scope: groupScopes[r.Intn(len(groupScopes))]}
		n.kids = []*node{g.tree(depth + 1)}
		if r.Bool() {
			n.els = g.tree(depth + 1)
		}
		return n
	}
}

// defect makes the tree unacceptable at one random place.
func defect(r *core.Rand, root *node) *node {
	var all []*node
	root.walk(func(n *node) { all = append(all, n) })
	t := all[r.Intn(len(all))]
	switch r.Intn(6) {
	case 0: // unknown modifier name
		*t = node{kind: 'U', variant: r.Intn(len(unknownNames))}
		core.Count("defect:unknown-name")
	case 1: // wrong JSON shape
		*t = node{kind: 'X', variant: r.Intn(len(malformedJSON))}
		core.Count("defect:wrong-shape")
	case 2: // a scope name that is neither request nor response
		s := []byte(t.scope)
		if t.scope == "n" || t.scope == "N" || t.scope == "e" {
			s = nil
		}
		i := r.Intn(len(s) + 1)
		s = append(s[:i:i], append([]byte{'x'}, s[i:]...)...)
		t.scope = string(s)
		core.Count("defect:scope-name")
	case 3: // a scope the leaf does not support
		var leaves []*node
		root.walk(func(n *node) {
			if n.kind == 'L' {
				leaves = append(leaves, n)
			}
		})
		if len(leaves) == 0 {
			*t = node{kind: 'U', variant: 0}
			break
		}
		l := leaves[r.Intn(len(leaves))]
		switch r.Intn(3) {
		case 0:
			l.caps, l.scope = 'q', r.Pick("s", "qs", "sq")
		case 1:
			l.caps, l.scope = 's', r.Pick("q", "qs", "sq")
		default:
			l.caps, l.scope = 'z', r.Pick("q", "s", "qs")
		}
		core.Count("defect:scope-unsupported")
	case 4: // not JSON at all
		return &node{kind: 'X', variant: rootOnlyBase + r.Intn(len(rootOnlyMalformed))}
	default: // filter without modifier / else of the wrong shape: replace a filter branch
		*t = node{kind: 'X', variant: r.Pick2(5, 0)}
		core.Count("defect:null-or-empty-object")
	}
	return root
}

func genMsg(r *core.Rand) *msgSpec {
	return &msgSpec{r.Intn(len(methods)), r.Intn(len(schemes)), r.Intn(len(hosts)), r.Intn(len(paths)),
		r.Intn(8), r.Intn(8), r.Intn(8), r.Intn(8), r.Intn(8)}
}

func runOp(r *core.Rand, m *msgSpec) string {
	k := r.Pick("q", "s")
	return "run " + k + " " + m.String() + " " + intsToken(m.truths(k == "s"))
}

func genCase(r *core.Rand, maxD, maxW int) []string {
	var ops []string
	posts := r.Range(2, 4)
	for i := 0; i < posts; i++ {
		g := &genState{r: r, maxD: r.Range(2, maxD), maxW: maxW}
		t := g.tree(1)
		core.Count("tree:depth-" + strconv.Itoa(t.depth()))
		if r.Chance(1, 3) {
			t = defect(r, t)
			if r.Chance(1, 4) {
				t = defect(r, t)
			}
		}
		ops = append(ops, "post "+t.String())
		runs := r.Range(3, 6)
		for j := 0; j < runs; j++ {
			ops = append(ops, runOp(r, genMsg(r)))
		}
	}
	return ops
}

// prioPattern: the priorities of a wide group: few distinct values in a mixed pattern (so that many
// children tie and the ties are interleaved with other priorities), or all equal, or all distinct.
func prioPattern(r *core.Rand, w int) []int64 {
	ps := make([]int64, w)
	kind := r.Intn(9)
	k := int64(r.Range(2, 5))
	blk := r.Range(2, 6)
	base := int64(r.Pick2(0, 0))
	if r.Chance(1, 6) {
		base = int64(r.Pick2(-1000000, 1<<40))
	}
	for i := range ps {
		switch kind {
		case 0:
			ps[i] = int64(i) % 2
		case 1:
			ps[i] = int64(i) % 3
		case 2:
			ps[i] = -(int64(i) % 4)
		case 3:
			ps[i] = int64(i) % k
		case 4: // blocks of equal priorities, ascending or descending
			ps[i] = int64(i / blk)
			if k%2 == 0 {
				ps[i] = -ps[i]
			}
		case 5: // random over a few values
			ps[i] = int64(r.Intn(int(k))) - 1
		case 6: // all equal
			ps[i] = 7
		case 7: // all distinct, shuffled below
			ps[i] = int64(i)
		default: // two interleaved runs: 0 1 0 1 ... with a rare high one
			ps[i] = int64(i) % 2
			if r.Chance(1, 8) {
				ps[i] = 9
			}
		}
		ps[i] += base
	}
	if kind == 7 {
		for i := len(ps) - 1; i > 0; i-- {
			j := r.Intn(i + 1)
			ps[i], ps[j] = ps[j], ps[i]
		}
	}
	core.Count("wide:prio-pattern-" + strconv.Itoa(kind))
	return ps
}

// wideGroup: a fifo or priority group with many children (sorting networks, insertion-sort cut-offs
// and similar width-dependent code paths only show beyond a dozen elements). Children are mostly
// leaves that do not fail (so the whole run order is visible), of mixed capabilities (so the request
// and the response order differ), with a few small subtrees.
func (g *genState) wideGroup(w int) *node {
	r := g.r
	n := &node{kind: byte(r.Pick2('P', 'P')), scope: r.Pick("n", "n", "n", "N", "qs", "sq", "q", "s")}
	if r.Chance(1, 3) {
		n.kind = 'F'
		n.agg = r.Bool()
	}
	failDen := r.Pick2(25, 1000)
	for i := 0; i < w; i++ {
		var c *node
		switch r.Intn(12) {
		case 0:
			c = &node{kind: 'F', scope: "n", agg: r.Bool(), kids: []*node{g.quietLeaf(failDen), g.quietLeaf(failDen)}}
		case 1:
			c = &node{kind: 'C', cond: r.Intn(len(condPool)), scope: "n", kids: []*node{g.quietLeaf(failDen)}}
			if r.Bool() {
				c.els = g.quietLeaf(failDen)
			}
		case 2:
			c = &node{kind: 'P', scope: "n", kids: []*node{g.quietLeaf(failDen), g.quietLeaf(failDen), g.quietLeaf(failDen)},
				prios: []int64{int64(r.Intn(2)), int64(r.Intn(2)), int64(r.Intn(2))}}
		default:
			c = g.quietLeaf(failDen)
		}
		n.kids = append(n.kids, c)
	}
	if n.kind == 'P' {
		n.prios = prioPattern(r, w)
	}
	return n
}

func (g *genState) quietLeaf(failDen int) *node {
	n := g.leaf()
	n.failReq = g.r.Chance(1, failDen)
	n.failRes = g.r.Chance(1, failDen)
	return n
}

// wideCase: one or two wide groups (at the root, or below a group/filter), each run on both kinds.
func wideCase(r *core.Rand, maxW int) []string {
	var ops []string
	posts := r.Range(1, 2)
	for i := 0; i < posts; i++ {
		g := &genState{r: r, maxD: 2, maxW: 3}
		w := r.Range(13, maxW)
		if r.Chance(1, 5) {
			w = r.Range(2, 13)
		}
		t := g.wideGroup(w)
		core.Count("wide:width-" + strconv.Itoa(w/8*8) + "+")
		switch r.Intn(6) {
		case 0: // below a fifo group with siblings
			t = &node{kind: 'F', scope: "n", agg: r.Bool(), kids: []*node{g.quietLeaf(1000), t, g.quietLeaf(1000)}}
		case 1: // below a filter that holds for every message (pool condition 16)
			t = &node{kind: 'C', cond: 16, scope: "n", kids: []*node{t}}
		case 2: // two wide groups side by side in a priority group
			t = &node{kind: 'P', scope: "n", kids: []*node{t, g.wideGroup(r.Range(13, maxW))}, prios: []int64{0, 0}}
		}
		if r.Chance(1, 10) {
			t = defect(r, t)
		}
		ops = append(ops, "post "+t.String())
		for _, k := range []string{"q", "s", r.Pick("q", "s")} {
			m := genMsg(r)
			ops = append(ops, "run "+k+" "+m.String()+" "+intsToken(m.truths(k == "s")))
		}
	}
	return ops
}

// scopeMatrix: every combination of scopes on a two-level tree (group over two leaves).
func scopeMatrix(emit func([]string)) {
	scopes := []string{"n", "e", "q", "s", "qs", "x"}
	caps := []byte{'b', 'q', 's'}
	m := &msgSpec{}
	for _, kind := range []byte{'F', 'P'} {
		for _, gs := range scopes {
			for _, s1 := range scopes {
				for _, s2 := range scopes {
					for _, c1 := range caps {
						n := &node{kind: kind, scope: gs, agg: true,
							kids:  []*node{{kind: 'L', label: 1, caps: c1, scope: s1, failReq: true}, {kind: 'L', label: 2, caps: 'b', scope: s2, failRes: true}},
							prios: []int64{0, 0}}
						emit([]string{"post L 0 b 0 0 n", "post " + n.String(),
							"run q " + m.String() + " " + intsToken(m.truths(false)), "run s " + m.String() + " " + intsToken(m.truths(true))})
					}
				}
			}
		}
	}
}

func (P) Gen(r *core.Rand, tier string, emit func([]string)) {
	n := 1500
	if tier == "thorough" {
		n = 40000
	}
	scopeMatrix(emit)
	wide := n / 5
	for i := 0; i < n; i++ {
		if i%5 == 0 && i/5 < wide {
			emit(wideCase(r.Fork(), 40))
		}
		emit(genCase(r, 5, 4))
	}
}
