package c12

import (
	"net/http"
	"net/url"
	"strconv"
	"strings"

	"verif/harness/internal/core"
)

type genState struct {
	r     *core.Rand
	label int
	maxD  int
	maxW  int
	// error VALUES: leaves may share their error text (classes) and even their label (the same leaf
	// listed twice); the identity the oracle counts with is the error value, never its message
	shareText int // > 0: every leaf's error text is that of one of this many classes
	dupLabels int // > 0: labels are drawn from this many values instead of being fresh
	failNum   int // leaves fail with probability failNum/4 per side (0 = the default 1/4)
}

var groupScopes = []string{"n", "n", "n", "n", "n", "n", "n", "n", "n", "N", "e", "q", "q", "s", "s", "qs", "qs", "qs", "sq", "qq", "qsq", "ss"}
var prioPool = []int64{-5, -1, 0, 0, 0, 1, 1, 1, 2, 2, 100}

func (g *genState) leaf() *node {
	r := g.r
	n := &node{kind: 'L', label: g.label}
	g.label++
	if g.dupLabels > 0 {
		n.label = r.Intn(g.dupLabels)
	}
	if g.shareText > 0 {
		n.eclass = 1 + r.Intn(g.shareText)
	}
	switch r.Intn(16) {
	case 0:
		n.caps = 'z'
	case 1, 2, 3:
		n.caps = 'q'
	case 4, 5, 6:
		n.caps = 's'
	default:
		n.caps = 'b'
	}
	fn := g.failNum
	if fn == 0 {
		fn = 1
	}
	n.failReq = r.Chance(fn, 4)
	n.failRes = r.Chance(fn, 4)
	// a scope the leaf supports
	var choices []string
	switch n.caps {
	case 'b':
		choices = []string{"n", "n", "n", "n", "N", "e", "q", "s", "qs", "sq", "qq"}
	case 'q':
		choices = []string{"n", "n", "n", "N", "e", "q", "qq"}
	case 's':
		choices = []string{"n", "n", "n", "N", "e", "s", "ss"}
	default:
		choices = []string{"n", "n", "N", "e"}
	}
	n.scope = choices[r.Intn(len(choices))]
	return n
}

func (g *genState) tree(depth int) *node {
	r := g.r
	if depth >= g.maxD || (depth > 1 && r.Chance(3, 10)) {
		return g.leaf()
	}
	switch r.Intn(10) {
	case 0, 1, 2, 3:
		n := &node{kind: 'F', scope: groupScopes[r.Intn(len(groupScopes))], agg: r.Chance(2, 5)}
		w := r.Range(1, g.maxW)
		if r.Chance(1, 15) {
			w = 0
		}
		for i := 0; i < w; i++ {
			n.kids = append(n.kids, g.tree(depth+1))
		}
		return n
	case 4, 5, 6:
		n := &node{kind: 'P', scope: groupScopes[r.Intn(len(groupScopes))]}
		w := r.Range(1, g.maxW)
		if r.Chance(1, 15) {
			w = 0
		}
		for i := 0; i < w; i++ {
			n.prios = append(n.prios, prioPool[r.Intn(len(prioPool))])
			n.kids = append(n.kids, g.tree(depth+1))
		}
		return n
	default:
		n := &node{kind: 'C', cond: genCond(r), scope: groupScopes[r.Intn(len(groupScopes))]}
		n.kids = []*node{g.tree(depth + 1)}
		if r.Bool() && n.cond.kind != 'p' {
			n.els = g.tree(depth + 1)
		}
		return n
	}
}

// defect makes the tree unacceptable at one random place.
func defect(r *core.Rand, root *node) *node {
	var all []*node
	root.walk(func(n *node) { all = append(all, n) })
	t := all[r.Intn(len(all))]
	switch r.Intn(6) {
	case 0: // unknown modifier name
		*t = node{kind: 'U', variant: r.Intn(len(unknownNames))}
		core.Count("defect:unknown-name")
	case 1: // wrong JSON shape
		*t = node{kind: 'X', variant: r.Intn(len(malformedJSON))}
		core.Count("defect:wrong-shape")
	case 2: // a scope name that is neither request nor response
		s := []byte(t.scope)
		if t.scope == "n" || t.scope == "N" || t.scope == "e" {
			s = nil
		}
		i := r.Intn(len(s) + 1)
		s = append(s[:i:i], append([]byte{'x'}, s[i:]...)...)
		t.scope = string(s)
		core.Count("defect:scope-name")
	case 3: // a scope the leaf does not support
		var leaves []*node
		root.walk(func(n *node) {
			if n.kind == 'L' {
				leaves = append(leaves, n)
			}
		})
		if len(leaves) == 0 {
			*t = node{kind: 'U', variant: 0}
			break
		}
		l := leaves[r.Intn(len(leaves))]
		switch r.Intn(3) {
		case 0:
			l.caps, l.scope = 'q', r.Pick("s", "qs", "sq")
		case 1:
			l.caps, l.scope = 's', r.Pick("q", "qs", "sq")
		default:
			l.caps, l.scope = 'z', r.Pick("q", "s", "qs")
		}
		core.Count("defect:scope-unsupported")
	case 4: // not JSON at all
		return &node{kind: 'X', variant: rootOnlyBase + r.Intn(len(rootOnlyMalformed))}
	default: // filter without modifier / else of the wrong shape: replace a filter branch
		*t = node{kind: 'X', variant: r.Pick2(5, 0)}
		core.Count("defect:null-or-empty-object")
	}
	return root
}

// ---- conditions and messages: small universes around the boundaries of the five matchers ----

var (
	uMethods  = []string{"GET", "POST", "PUT", "get", "Post", "pOsT", "", "DELETE", "GETT"}
	uSchemes  = []string{"http", "https", "http", "https", "", "HTTP", "ftp"}
	uHosts    = []string{"a.example", "b.example", "www.a.example", "a.example:8080", "x.y.a.example", "example", "localhost:80", "A.example", ""}
	uPatterns = []string{"a.example", "b.example", "*.example", "*.a.example", "a.*", "*.*.example", "*", "*.example:8080", "a.example:8080", "*.y.a.example", "x.*.a.example", "*.*", "example", "a.exampl", ".example", "a*.example", "*a.example"}
	uPaths    = []string{"/p1", "/p2", "/", "", "/p1/", "/P1", "/p1/p2"}
	uQPieces  = []string{"k1=v1", "k1=v2", "k2=v1", "k2", "k1=", "=v1", "k%31=v1", "k1=v%31", "k1=v+1", "k+1=v1", "k;1=v1", "%zz=v1", "k1=%4", "k1=%", "k1=v1=x", "", "k1=v1;k2=v1", "K1=v1", "k1=%76%31", "%6b2=%76%31"}
	uQNames   = []string{"k1", "k2", "k 1", "K1", "", "k;1", "k%31"}
	uQValues  = []string{"", "v1", "v2", "v 1", "v1=x", "v%31"}
	uHNames   = []string{"X-A", "x-a", "X-B", "x-B", "Content-Length", "content-length", "Host", "host", "Transfer-Encoding", "Cookie", "Set-Cookie", "X-a", "X_A"}
	uHValues  = []string{"1", "2", "", "a b", "chunked", "5", "a.example", "gzip", "c1=v1", "1234"}
	uCNames   = []string{"c1", "c2", "C1", "c3"}
	uCValues  = []string{"v1", "v2", "", "V1"}
	uCLs      = []int64{-1, 0, 0, 5, 1234}
	uTEs      = [][]string{nil, nil, {}, {"chunked"}, {"gzip", "chunked"}}
	uReqHosts = []string{"", "a.example", "a.example", "other.example", "a.example:8080"}
)

func pickS(r *core.Rand, xs []string) string { return xs[r.Intn(len(xs))] }

var uPorts = []string{"80", "443", "8080", "8080", "0", "81"}

func genCond(r *core.Rand) *condSpec {
	if r.Chance(1, 16) {
		return &condSpec{kind: 'p', a: pickS(r, uPorts)}
	}
	switch r.Intn(10) {
	case 0, 1:
		return &condSpec{kind: 'm', a: pickS(r, uMethods)}
	case 2, 3, 4:
		c := &condSpec{kind: 'u'}
		// one to three constrained segments (rarely none or all)
		for _, seg := range []struct {
			dst  *string
			pool []string
		}{{&c.a, uSchemes}, {&c.b, uPatterns}, {&c.c, uPaths}, {&c.d, nil}} {
			if r.Chance(2, 5) {
				if seg.pool != nil {
					*seg.dst = pickS(r, seg.pool)
				} else {
					*seg.dst = genRawQuery(r, 2)
				}
			}
		}
		return c
	case 5, 6:
		return &condSpec{kind: 'q', a: pickS(r, uQNames), b: pickS(r, uQValues)}
	case 7, 8:
		return &condSpec{kind: 'h', a: pickS(r, uHNames), b: pickS(r, uHValues)}
	default:
		return &condSpec{kind: 'c', a: pickS(r, uCNames), b: pickS(r, uCValues)}
	}
}

func genRawQuery(r *core.Rand, max int) string {
	n := r.Intn(max + 1)
	var ps []string
	for i := 0; i < n; i++ {
		if r.Chance(2, 3) {
			ps = append(ps, uQPieces[r.Intn(3)]) // the plain ones most of the time
		} else {
			ps = append(ps, pickS(r, uQPieces))
		}
	}
	return strings.Join(ps, "&")
}

func genPairs(r *core.Rand, names, values []string, max int) [][2]string {
	var out [][2]string
	for i, n := 0, r.Intn(max+1); i < n; i++ {
		out = append(out, [2]string{pickS(r, names), pickS(r, values)})
	}
	return out
}

// satisfy bends the message so that the condition holds for it (both kinds).
func satisfy(r *core.Rand, c *condSpec, m *message) {
	switch c.kind {
	case 'm':
		m.method = r.Pick(c.a, strings.ToLower(c.a), strings.ToUpper(c.a))
	case 'u':
		if c.a != "" {
			m.scheme = c.a
		}
		if c.b != "" {
			m.host = strings.ReplaceAll(c.b, "*", r.Pick("zz", "a", "www"))
		}
		if c.c != "" {
			m.path = c.c
		}
		if c.d != "" {
			m.rawQuery = c.d
		}
	case 'q':
		piece := url.QueryEscape(c.a) + "=" + url.QueryEscape(r.Pick(c.b, c.b, "v1"))
		if m.rawQuery == "" || r.Bool() {
			m.rawQuery = piece
		} else {
			m.rawQuery = r.Pick(m.rawQuery+"&"+piece, piece+"&"+m.rawQuery)
		}
	case 'h':
		switch http.CanonicalHeaderKey(c.a) {
		case "Host":
			m.reqHost = c.b
		case "Content-Length":
			if n, err := strconv.ParseInt(c.b, 10, 64); err == nil {
				m.reqCL, m.resCL = n, n
			}
		case "Transfer-Encoding":
			m.reqTE, m.resTE = append(m.reqTE[:len(m.reqTE):len(m.reqTE)], c.b), append(m.resTE[:len(m.resTE):len(m.resTE)], c.b)
		case "Cookie", "Set-Cookie": // these lines carry the cookie lists; leave them alone
		default:
			kv := [2]string{r.Pick(c.a, strings.ToLower(c.a), strings.ToUpper(c.a)), c.b}
			m.reqHdr, m.resHdr = append(m.reqHdr, kv), append(m.resHdr, kv)
		}
	case 'p':
		if !hostPortOK("h:" + c.a) { // a port no URL can carry (negative, huge): nothing to bend
			break
		}
		if i := strings.IndexByte(m.host, ':'); i >= 0 {
			m.host = m.host[:i]
		}
		switch c.a {
		case "80":
			m.scheme = "http"
		case "443":
			m.scheme = "https"
		default:
			m.host += ":" + c.a
		}
	case 'c':
		kv := [2]string{c.a, c.b}
		if c.b == "" {
			kv[1] = "v2"
		}
		if !validToken(kv[0]) || !validToken(kv[1]) || strings.ContainsAny(kv[0]+kv[1], "%&'*+!#$^`|~") { // keep to cookies net/http parses back as written
			break
		}
		m.reqCk, m.resCk = append(m.reqCk, kv), append(m.resCk, kv)
	}
}

// genMessage: a random exchange; half of the time bent towards one or two of the given conditions.
func genMessage(r *core.Rand, conds ...*condSpec) *message {
	m := &message{method: pickS(r, uMethods[:6]), scheme: pickS(r, uSchemes[:4]), host: pickS(r, uHosts), path: pickS(r, uPaths),
		rawQuery: genRawQuery(r, 3), reqHost: pickS(r, uReqHosts), reqCL: uCLs[r.Intn(len(uCLs))], reqTE: uTEs[r.Intn(len(uTEs))],
		resCL: uCLs[r.Intn(len(uCLs))], resTE: uTEs[r.Intn(len(uTEs))]}
	plainH := []string{"X-A", "x-a", "X-B", "x-B", "X-a", "X_A", "Host", "Content-Length"}
	m.reqHdr = genPairs(r, plainH, uHValues, 3)
	m.resHdr = genPairs(r, plainH, uHValues, 3)
	m.reqCk = genPairs(r, uCNames[:3], uCValues[:2], 2)
	m.resCk = genPairs(r, uCNames[:3], uCValues[:2], 2)
	if len(conds) > 0 && r.Bool() {
		satisfy(r, conds[r.Intn(len(conds))], m)
		if r.Chance(1, 3) {
			satisfy(r, conds[r.Intn(len(conds))], m)
		}
		core.Count("msg:bent-towards-a-condition")
	}
	m.addCookieHeaders()
	return m
}

func (n *node) conds() (out []*condSpec) {
	n.walk(func(x *node) {
		if x.kind == 'C' {
			out = append(out, x.cond)
		}
	})
	return
}

func randOver(r *core.Rand, alphabet string, max int) string {
	b := make([]byte, r.Intn(max+1))
	for i := range b {
		b[i] = alphabet[r.Intn(len(alphabet))]
	}
	return string(b)
}

// matcherCase: the matchers one by one (model = code on every input; oracle where the statement fixes the meaning).
func matcherCase(r *core.Rand) []string {
	var ops []string
	for i, n := 0, r.Range(6, 10); i < n; i++ {
		switch r.Intn(8) {
		case 0, 1, 2, 3:
			c := genCond(r)
			ops = append(ops, "cond "+r.Pick("q", "s")+" "+c.token()+" "+genMessage(r, c).token())
		case 4: // a host pattern against hosts of the same family
			h, p := pickS(r, uHosts), pickS(r, uPatterns)
			ops = append(ops, "matchhost "+core.HexS(h)+" "+core.HexS(p))
		case 5: // arbitrary short strings over the alphabet MatchHost branches on
			ops = append(ops, "matchhost "+core.HexS(randOver(r, "ab.*:", 7))+" "+core.HexS(randOver(r, "ab.**:", 7)))
		case 6:
			ops = append(ops, "query "+core.HexS(genRawQuery(r, 5)))
		default:
			ops = append(ops, "query "+core.HexS(randOver(r, "kv1=&&;%+3zA ", 14)))
		}
	}
	return ops
}

func runOp(r *core.Rand, m *message) string {
	return "run " + r.Pick("q", "s") + " " + m.token()
}

// xrunOp: one exchange: the request side sees m1; before the response side runs the exchange has changed
// in some of the parts the matchers read (URL segments, method, Host/length/encoding, header lines and
// cookies), half of the time bent towards (another) condition of the tree.
func xrunOp(r *core.Rand, conds []*condSpec) string {
	m1 := genMessage(r, conds...)
	m2 := genMessage(r, conds...)
	keep := func() bool { return r.Chance(3, 5) }
	if keep() {
		m2.method = m1.method
	}
	if keep() {
		m2.scheme = m1.scheme
	}
	if keep() {
		m2.host = m1.host
	}
	if keep() {
		m2.path = m1.path
	}
	if keep() {
		m2.rawQuery = m1.rawQuery
	}
	if keep() {
		m2.reqHost, m2.reqCL, m2.reqTE = m1.reqHost, m1.reqCL, m1.reqTE
	}
	if keep() {
		m2.reqHdr, m2.reqCk = m1.reqHdr, m1.reqCk
	}
	return "xrun " + m1.token() + " " + m2.token()
}

// exchangeCase: a filter-rich tree, then exchanges that change between their two sides.
func exchangeCase(r *core.Rand) []string {
	g := &genState{r: r, maxD: r.Range(2, 4), maxW: 3}
	var kids []*node
	for i, n := 0, r.Range(1, 3); i < n; i++ {
		c := &node{kind: 'C', cond: genCond(r), scope: r.Pick("n", "n", "qs", "s"), kids: []*node{g.tree(2)}}
		if c.cond.kind != 'p' && r.Chance(2, 3) {
			c.els = g.tree(2)
		}
		kids = append(kids, c)
	}
	t := &node{kind: 'F', scope: "n", agg: r.Bool(), kids: kids}
	ops := []string{"post " + t.String()}
	for i, n := 0, r.Range(4, 8); i < n; i++ {
		ops = append(ops, xrunOp(r, t.conds()))
	}
	return ops
}

func genCase(r *core.Rand, maxD, maxW int) []string {
	var ops []string
	posts := r.Range(2, 4)
	for i := 0; i < posts; i++ {
		g := &genState{r: r, maxD: r.Range(2, maxD), maxW: maxW}
		switch r.Intn(8) {
		case 0:
			g.shareText = r.Range(1, 2)
		case 1:
			g.dupLabels = r.Range(2, 4)
		}
		t := g.tree(1)
		core.Count("tree:depth-" + strconv.Itoa(t.depth()))
		if r.Chance(1, 3) {
			t = defect(r, t)
			if r.Chance(1, 4) {
				t = defect(r, t)
			}
		}
		ops = append(ops, "post "+t.String())
		runs := r.Range(3, 6)
		for j := 0; j < runs; j++ {
			if r.Chance(1, 5) {
				ops = append(ops, xrunOp(r, t.conds()))
				continue
			}
			ops = append(ops, runOp(r, genMessage(r, t.conds()...)))
		}
	}
	return ops
}

// prioPattern: the priorities of a wide group: few distinct values in a mixed pattern (so that many
// children tie and the ties are interleaved with other priorities), or all equal, or all distinct.
func prioPattern(r *core.Rand, w int) []int64 {
	ps := make([]int64, w)
	kind := r.Intn(9)
	k := int64(r.Range(2, 5))
	blk := r.Range(2, 6)
	base := int64(r.Pick2(0, 0))
	if r.Chance(1, 6) {
		base = int64(r.Pick2(-1000000, 1<<40))
	}
	for i := range ps {
		switch kind {
		case 0:
			ps[i] = int64(i) % 2
		case 1:
			ps[i] = int64(i) % 3
		case 2:
			ps[i] = -(int64(i) % 4)
		case 3:
			ps[i] = int64(i) % k
		case 4: // blocks of equal priorities, ascending or descending
			ps[i] = int64(i / blk)
			if k%2 == 0 {
				ps[i] = -ps[i]
			}
		case 5: // random over a few values
			ps[i] = int64(r.Intn(int(k))) - 1
		case 6: // all equal
			ps[i] = 7
		case 7: // all distinct, shuffled below
			ps[i] = int64(i)
		default: // two interleaved runs: 0 1 0 1 ... with a rare high one
			ps[i] = int64(i) % 2
			if r.Chance(1, 8) {
				ps[i] = 9
			}
		}
		ps[i] += base
	}
	if kind == 7 {
		for i := len(ps) - 1; i > 0; i-- {
			j := r.Intn(i + 1)
			ps[i], ps[j] = ps[j], ps[i]
		}
	}
	core.Count("wide:prio-pattern-" + strconv.Itoa(kind))
	return ps
}

// wideGroup: a fifo or priority group with many children (sorting networks, insertion-sort cut-offs
// and similar width-dependent code paths only show beyond a dozen elements). Children are mostly
// leaves that do not fail (so the whole run order is visible), of mixed capabilities (so the request
// and the response order differ), with a few small subtrees.
func (g *genState) wideGroup(w int) *node {
	r := g.r
	n := &node{kind: byte(r.Pick2('P', 'P')), scope: r.Pick("n", "n", "n", "N", "qs", "sq", "q", "s")}
	if r.Chance(1, 3) {
		n.kind = 'F'
		n.agg = r.Bool()
	}
	failDen := r.Pick2(25, 1000)
	for i := 0; i < w; i++ {
		var c *node
		switch r.Intn(12) {
		case 0:
			c = &node{kind: 'F', scope: "n", agg: r.Bool(), kids: []*node{g.quietLeaf(failDen), g.quietLeaf(failDen)}}
		case 1:
			c = &node{kind: 'C', cond: genCond(r), scope: "n", kids: []*node{g.quietLeaf(failDen)}}
			if r.Bool() && c.cond.kind != 'p' {
				c.els = g.quietLeaf(failDen)
			}
		case 2:
			c = &node{kind: 'P', scope: "n", kids: []*node{g.quietLeaf(failDen), g.quietLeaf(failDen), g.quietLeaf(failDen)},
				prios: []int64{int64(r.Intn(2)), int64(r.Intn(2)), int64(r.Intn(2))}}
		default:
			c = g.quietLeaf(failDen)
		}
		n.kids = append(n.kids, c)
	}
	if n.kind == 'P' {
		n.prios = prioPattern(r, w)
	}
	return n
}

func (g *genState) quietLeaf(failDen int) *node {
	n := g.leaf()
	n.failReq = g.r.Chance(1, failDen)
	n.failRes = g.r.Chance(1, failDen)
	return n
}

// wideCase: one or two wide groups (at the root, or below a group/filter), each run on both kinds.
func wideCase(r *core.Rand, maxW int) []string {
	var ops []string
	posts := r.Range(1, 2)
	for i := 0; i < posts; i++ {
		g := &genState{r: r, maxD: 2, maxW: 3}
		w := r.Range(13, maxW)
		if r.Chance(1, 5) {
			w = r.Range(2, 13)
		}
		t := g.wideGroup(w)
		core.Count("wide:width-" + strconv.Itoa(w/8*8) + "+")
		switch r.Intn(6) {
		case 0: // below a fifo group with siblings
			t = &node{kind: 'F', scope: "n", agg: r.Bool(), kids: []*node{g.quietLeaf(1000), t, g.quietLeaf(1000)}}
		case 1: // below a filter that holds for every message (url.Filter without segments)
			t = &node{kind: 'C', cond: &condSpec{kind: 'u'}, scope: "n", kids: []*node{t}}
		case 2: // two wide groups side by side in a priority group
			t = &node{kind: 'P', scope: "n", kids: []*node{t, g.wideGroup(r.Range(13, maxW))}, prios: []int64{0, 0}}
		}
		if r.Chance(1, 10) {
			t = defect(r, t)
		}
		ops = append(ops, "post "+t.String())
		for _, k := range []string{"q", "s", r.Pick("q", "s")} {
			ops = append(ops, "run "+k+" "+genMessage(r, t.conds()...).token())
		}
	}
	return ops
}

// aggTree: aggregation at depth >= 2: aggregating fifo groups inside aggregating fifo groups, directly
// and through filters / priority groups / non-aggregating groups, with leaves that mostly fail.
func (g *genState) aggTree(depth int) *node {
	r := g.r
	if depth >= g.maxD {
		return g.leaf()
	}
	sub := func() *node {
		if r.Chance(1, 3) {
			return g.leaf()
		}
		return g.aggTree(depth + 1)
	}
	switch k := r.Intn(10); {
	case k < 6:
		n := &node{kind: 'F', scope: r.Pick("n", "n", "n", "qs", "N"), agg: !r.Chance(1, 6)}
		for i, w := 0, r.Range(2, 4); i < w; i++ {
			n.kids = append(n.kids, sub())
		}
		return n
	case k < 8: // through a filter (half of the time one that holds for every message)
		c := genCond(r)
		if r.Bool() {
			c = &condSpec{kind: 'u'}
		}
		n := &node{kind: 'C', cond: c, scope: "n", kids: []*node{sub()}}
		if c.kind != 'p' && r.Bool() {
			n.els = sub()
		}
		return n
	default:
		n := &node{kind: 'P', scope: "n"}
		for i, w := 0, r.Range(1, 3); i < w; i++ {
			n.kids = append(n.kids, sub())
			n.prios = append(n.prios, int64(r.Intn(2)))
		}
		return n
	}
}

// aggCase: nested aggregation over leaves whose errors are equal as text (shared classes) or even as
// leaves (shared labels): "every error is reported once" means once EACH.
func aggCase(r *core.Rand) []string {
	var ops []string
	for i, posts := 0, r.Range(1, 2); i < posts; i++ {
		g := &genState{r: r, maxD: r.Range(3, 5), maxW: 3, failNum: r.Range(2, 4)}
		switch r.Intn(4) {
		case 0:
			g.shareText = 1
		case 1:
			g.shareText = 2
		case 2:
			g.dupLabels = r.Range(1, 3)
		default:
			g.shareText, g.dupLabels = 1, 2
		}
		t := &node{kind: 'F', scope: "n", agg: true, kids: []*node{g.leaf(), g.aggTree(2), g.leaf()}}
		core.Count("agg:depth-" + strconv.Itoa(t.depth()))
		op := "post " + t.String()
		if r.Chance(1, 4) { // the same tree as a JSON value
			op = "postj " + r.Pick("0", "1", "3") + " " + t.toJV().String()
		}
		ops = append(ops, op)
		for _, k := range []string{"q", "s", r.Pick("q", "s")} {
			ops = append(ops, "run "+k+" "+genMessage(r, t.conds()...).token())
		}
	}
	return ops
}

// scopeMatrix: every combination of scopes on a two-level tree (group over two leaves).
func scopeMatrix(emit func([]string)) {
	scopes := []string{"n", "e", "q", "s", "qs", "x"}
	caps := []byte{'b', 'q', 's'}
	m, _ := legacyMessage("0,0,0,0,0,0,0,0,0")
	for _, kind := range []byte{'F', 'P'} {
		for _, gs := range scopes {
			for _, s1 := range scopes {
				for _, s2 := range scopes {
					for _, c1 := range caps {
						n := &node{kind: kind, scope: gs, agg: true,
							kids:  []*node{{kind: 'L', label: 1, caps: c1, scope: s1, failReq: true}, {kind: 'L', label: 2, caps: 'b', scope: s2, failRes: true}},
							prios: []int64{0, 0}}
						emit([]string{"post L 0 b 0 0 n", "post " + n.String(),
							"run q " + m.token(), "run s " + m.token()})
					}
				}
			}
		}
	}
}

// setCase: a side installed through the Go API (SetRequestModifier / SetResponseModifier) between
// POSTs: the body accepted before is posted again (same text), or another one, or a rejected one first;
// traffic of both kinds after every step.
func setCase(r *core.Rand) []string {
	var ops []string
	tree := func() *node {
		g := &genState{r: r, maxD: r.Range(1, 3), maxW: 3}
		return g.tree(1)
	}
	both := func(ts ...*node) {
		var cs []*condSpec
		for _, t := range ts {
			cs = append(cs, t.conds()...)
		}
		for _, k := range []string{"q", "s", r.Pick("q", "s")} {
			ops = append(ops, "run "+k+" "+genMessage(r, cs...).token())
		}
	}
	a := tree()
	ops = append(ops, "post "+a.String())
	both(a)
	sets := r.Range(1, 2)
	var bs []*node
	for i := 0; i < sets; i++ {
		b := tree()
		if r.Chance(1, 6) {
			b = defect(r, b)
		}
		bs = append(bs, b)
		ops = append(ops, "set "+r.Pick("q", "s")+" "+b.String())
		both(append([]*node{a}, bs...)...)
	}
	switch r.Intn(4) {
	case 0, 1: // the body that was accepted before, again
		ops = append(ops, "post "+a.String())
	case 2: // a rejected body first
		ops = append(ops, "post "+defect(r, tree()).String())
		both(append([]*node{a}, bs...)...)
		ops = append(ops, "post "+a.String())
	default:
		a = tree()
		ops = append(ops, "post "+a.String())
	}
	both(append([]*node{a}, bs...)...)
	return ops
}

func (P) Gen(r *core.Rand, tier string, emit func([]string)) {
	n := 1500
	cp := *r // an own stream for the set cases, so that the other cases stay what they were
	rs := (&cp).Fork()
	if tier == "thorough" {
		n = 40000
	}
	scopeMatrix(emit)
	races := 24
	if tier == "thorough" {
		races = 400
	}
	wide := n / 5
	for i := 0; i < n; i++ {
		if i == n/4 { // the concurrent tier, after enough sequential cases that a sequential defect is reported as such
			rr := r.Fork()
			for j := 0; j < races; j++ {
				emit([]string{"race " + strconv.FormatUint(rr.U64()>>1, 10) + " " + strconv.Itoa(rr.Range(4, 12)) + " " + strconv.Itoa(rr.Range(2, 6)) + " " + strconv.Itoa(rr.Range(50, 300))})
			}
		}
		if i%5 == 0 && i/5 < wide {
			emit(wideCase(r.Fork(), 40))
		}
		emit(genCase(r, 5, 4))
		if i%3 == 0 {
			emit(matcherCase(r.Fork()))
		}
		if i%6 == 1 {
			emit(aggCase(r.Fork()))
		}
		if i%5 == 2 {
			emit(exchangeCase(r.Fork()))
		}
		if i%4 == 2 {
			emit(setCase(rs.Fork()))
		}
		if i%2 == 0 {
			if c := jsonCase(r.Fork()); len(c) > 0 {
				emit(c)
			}
		}
	}
}
