package c12

import (
	"bytes"
	"net/http/httptest"
	"runtime"
	"strconv"
	"sync"
	"sync/atomic"
	"time"

	"github.com/google/martian/v3/martianhttp"

	"verif/harness/internal/core"
)

// The concurrent tier (oracle only): traffic races reconfiguration.
//
// One goroutine POSTs a sequence of bodies (accepted and rejected ones) to a fresh
// martianhttp.Modifier while several traffic goroutines keep calling ModifyRequest/ModifyResponse.
// Every body's leaves carry labels unique to that body, and every accepted body runs a first and a
// last marker leaf on both kinds, so the observation of one call identifies the configuration it saw —
// or shows that it saw none in particular (a mixture, a half-installed or a transiently cleared one).
//
// All events take a ticket from one atomic counter, which orders them consistently with real time.
// A call that took tickets (t0, t1) may see exactly the accepted bodies from the last one whose POST
// had RETURNED before t0 up to the last one whose POST had STARTED before t1 ("a rejected
// reconfiguration leaves the previously active configuration fully in force, an accepted one replaces
// it completely"): the whole depth-first reading of one of them, nothing else. Within one traffic
// goroutine the configuration seen never goes back (also not from the request side to the response
// side: both sides are replaced together).

type raceBody struct {
	n        *node
	accepted bool
	t0, t1   int64 // tickets around the POST
}

type raceObs struct {
	response bool
	msg      *message
	trace    []int
	errs     []int
	errOK    bool
	t0, t1   int64
}

func raceBodies(r *core.Rand, nbodies int) []*raceBody {
	var out []*raceBody
	for i := 0; i < nbodies; i++ {
		base := (i + 1) * 1000
		g := &genState{r: r, label: base + 1, maxD: r.Range(2, 4), maxW: 4}
		var mid *node
		if r.Chance(1, 3) {
			mid = g.wideGroup(r.Range(8, 24))
		} else {
			mid = g.tree(1)
		}
		root := &node{kind: 'F', scope: "n", agg: true, kids: []*node{
			{kind: 'L', label: base, caps: 'b', scope: "n"}, mid, {kind: 'L', label: base + 999, caps: 'b', scope: "n"}}}
		root.walk(func(x *node) { // keep the open port.Filter finding out of this tier
			if x.kind == 'C' && x.cond.kind == 'p' {
				x.cond = &condSpec{kind: 'u', b: "*.example"}
			}
		})
		if r.Chance(1, 3) {
			root = defect(r, root)
		}
		out = append(out, &raceBody{n: root, accepted: root.wellFormed()})
	}
	return out
}

func (e *ex) race(seed uint64, nbodies, nworkers, nruns int) core.Result {
	res := e.raceJudge(seed, nbodies, nworkers, nruns)
	res.SkipModel = true
	return res
}

func (e *ex) raceJudge(seed uint64, nbodies, nworkers, nruns int) core.Result {
	r := core.NewRand(seed)
	bodies := raceBodies(r, nbodies)
	msgs := make([]*message, 16)
	var conds []*condSpec
	for _, b := range bodies {
		conds = append(conds, b.n.conds()...)
	}
	for i := range msgs {
		msgs[i] = genMessage(r, conds...)
	}
	mod := martianhttp.NewModifier()
	var clock int64
	tick := func() int64 { return atomic.AddInt64(&clock, 1) }

	obs := make([][]raceObs, nworkers)
	var wg sync.WaitGroup
	var posted int32
	start := make(chan struct{})
	for w := 0; w < nworkers; w++ {
		wr := r.Fork()
		wg.Add(1)
		go func(w int) {
			defer wg.Done()
			<-start
			for i := 0; i < nruns || atomic.LoadInt32(&posted) == 0 && i < 50*nruns; i++ {
				o := raceObs{response: wr.Bool(), msg: msgs[wr.Intn(len(msgs))]}
				req, res := o.msg.build()
				var err error
				var tr []string
				o.t0 = tick()
				if o.response {
					err = mod.ModifyResponse(res)
					tr = res.Header[traceHeader]
				} else {
					err = mod.ModifyRequest(req)
					tr = req.Header[traceHeader]
				}
				o.t1 = tick()
				for _, s := range tr {
					l, _ := strconv.Atoi(s)
					o.trace = append(o.trace, l)
				}
				_, o.errs, o.errOK = canonErr(err)
				obs[w] = append(obs[w], o)
				if i%8 == 0 {
					runtime.Gosched()
				}
			}
		}(w)
	}
	wg.Add(1)
	go func() {
		defer wg.Done()
		<-start
		for _, b := range bodies {
			for i := 0; i < 3; i++ {
				runtime.Gosched()
			}
			text := []byte(b.n.json(true))
			b.t0 = tick()
			rw := httptest.NewRecorder()
			mod.ServeHTTP(rw, httptest.NewRequest("POST", "http://martian.proxy/configure", bytes.NewReader(text)))
			b.t1 = tick()
			if (rw.Code == 200) != b.accepted {
				b.accepted = !b.accepted // reported below
				b.t0 = -b.t0
			}
		}
		atomic.StoreInt32(&posted, 1)
	}()
	done := make(chan struct{})
	go func() { wg.Wait(); close(done) }()
	close(start)
	select {
	case <-done:
	case <-time.After(25 * time.Second):
		return fail("c12:race-hang", "reconfiguration racing traffic did not finish within 25 s (%d bodies, %d traffic goroutines)", nbodies, nworkers)
	}

	for i, b := range bodies {
		if b.t0 < 0 {
			return fail("c12:race-status", "body %d (%s): configure handler's verdict differs from the tree's well-formedness while traffic was running", i, b.n)
		}
	}
	// judge
	reading := func(b *raceBody, o *raceObs) outcome {
		if b == nil {
			return outcome{}
		}
		return interp(b.n, o.response, func(c *condSpec) bool {
			if h, known := holdsSpec(c, o.msg, o.response); known {
				return h
			}
			return matcherSays(c, o.msg, o.response)
		})
	}
	var acc []*raceBody // accepted bodies in POST order; index -1 = the initial noop
	for _, b := range bodies {
		if b.accepted {
			acc = append(acc, b)
		}
	}
	overlapped, total := 0, 0
	for w := range obs {
		last := -1
		for oi := range obs[w] {
			o := &obs[w][oi]
			total++
			if !o.errOK {
				return fail("c12:foreign-error", "a modifier returned something other than nil, a leaf error or one MultiError of leaf errors under concurrent reconfiguration")
			}
			lo, hi := -1, -1
			for i, b := range acc {
				if b.t1 < o.t0 {
					lo = i
				}
				if b.t0 < o.t1 {
					hi = i
				}
			}
			if hi > lo {
				overlapped++
			}
			seen := -2
			for i := lo; i <= hi; i++ {
				var b *raceBody
				if i >= 0 {
					b = acc[i]
				}
				exp := reading(b, o)
				if sameInts(exp.trace, o.trace) && sameInts(exp.errs, o.errs) {
					seen = i
					break
				}
			}
			kind := map[bool]string{false: "request", true: "response"}[o.response]
			if seen == -2 {
				// which configuration was it, if any?
				for i := -1; i < len(acc); i++ {
					var b *raceBody
					if i >= 0 {
						b = acc[i]
					}
					exp := reading(b, o)
					if sameInts(exp.trace, o.trace) && sameInts(exp.errs, o.errs) {
						return fail("c12:race-stale-or-early", "a %s modified between tickets %d and %d saw accepted configuration #%d, but the configurations in force in that interval were #%d..#%d (-1 = initial)", kind, o.t0, o.t1, i, lo, hi)
					}
				}
				return fail("c12:race-not-one-configuration", "a %s modified while configurations #%d..#%d were in force ran leaves %v with errors %v: not the depth-first reading of any single accepted configuration (a mixture, a half-installed or a transiently cleared one)", kind, lo, hi, o.trace, o.errs)
			}
			if seen < last {
				return fail("c12:race-went-back", "one traffic goroutine saw configuration #%d after it had already seen #%d (the two sides are not replaced together, or a rejected body disturbed the active one)", seen, last)
			}
			last = seen
		}
	}
	core.Count("race:calls")
	Stats("race:calls-total", total)
	Stats("race:calls-overlapping-a-reconfiguration", overlapped)
	return core.Result{Impl: "race ok"}
}

func Stats(k string, n int) { core.Stats[k] += n }
