package c12

import (
	"fmt"
	"strconv"
	"strings"
	"unicode/utf8"

	"verif/harness/internal/core"
)

// ---- JSON values as the line protocol carries them (lean: Config.JVal) ----

type jkv struct {
	key string
	v   *jv
}

type jv struct {
	kind byte // N null, T true, F false, # number (num = the literal), S string, A array, O object
	num  string
	s    string
	arr  []*jv
	obj  []jkv
}

func jNull() *jv           { return &jv{kind: 'N'} }
func jBool(b bool) *jv     { return &jv{kind: map[bool]byte{true: 'T', false: 'F'}[b]} }
func jNum(lit string) *jv  { return &jv{kind: '#', num: lit} }
func jInt(i int64) *jv     { return jNum(strconv.FormatInt(i, 10)) }
func jStr(s string) *jv    { return &jv{kind: 'S', s: s} }
func jArr(xs ...*jv) *jv   { return &jv{kind: 'A', arr: xs} }
func jObj(kvs ...jkv) *jv  { return &jv{kind: 'O', obj: kvs} }
func kv(k string, v *jv) jkv { return jkv{k, v} }

func (j *jv) tokens(out *[]string) {
	switch j.kind {
	case 'N', 'T', 'F':
		*out = append(*out, string(j.kind))
	case '#':
		*out = append(*out, "#"+j.num)
	case 'S':
		*out = append(*out, "S"+core.HexS(j.s))
	case 'A':
		*out = append(*out, "A"+strconv.Itoa(len(j.arr)))
		for _, x := range j.arr {
			x.tokens(out)
		}
	case 'O':
		*out = append(*out, "O"+strconv.Itoa(len(j.obj)))
		for _, e := range j.obj {
			*out = append(*out, core.HexS(e.key))
			e.v.tokens(out)
		}
	}
}

func (j *jv) String() string {
	var t []string
	j.tokens(&t)
	return strings.Join(t, " ")
}

// validNumLit: the JSON number grammar.
func validNumLit(s string) bool {
	i := 0
	if i < len(s) && s[i] == '-' {
		i++
	}
	digits := func() int {
		n := 0
		for i < len(s) && s[i] >= '0' && s[i] <= '9' {
			i++
			n++
		}
		return n
	}
	if i < len(s) && s[i] == '0' {
		i++
	} else if digits() == 0 {
		return false
	}
	if i < len(s) && s[i] == '.' {
		i++
		if digits() == 0 {
			return false
		}
	}
	if i < len(s) && (s[i] == 'e' || s[i] == 'E') {
		i++
		if i < len(s) && (s[i] == '+' || s[i] == '-') {
			i++
		}
		if digits() == 0 {
			return false
		}
	}
	return i == len(s)
}

func parseJV(t []string, depth int) (*jv, []string, bool) {
	if len(t) == 0 || depth > 64 {
		return nil, nil, false
	}
	h, rest := t[0], t[1:]
	switch {
	case h == "N" || h == "T" || h == "F":
		return &jv{kind: h[0]}, rest, true
	case h[0] == '#':
		if !validNumLit(h[1:]) || len(h) > 400 {
			return nil, nil, false
		}
		return jNum(h[1:]), rest, true
	case h[0] == 'S':
		b, ok := core.Unhex(h[1:])
		if !ok || !utf8.Valid(b) {
			return nil, nil, false
		}
		return jStr(string(b)), rest, true
	case h[0] == 'A' || h[0] == 'O':
		n, err := strconv.Atoi(h[1:])
		if err != nil || n < 0 || n > len(rest) {
			return nil, nil, false
		}
		j := &jv{kind: h[0]}
		for i := 0; i < n; i++ {
			key := ""
			if h[0] == 'O' {
				if len(rest) == 0 {
					return nil, nil, false
				}
				b, ok := core.Unhex(rest[0])
				if !ok || !utf8.Valid(b) {
					return nil, nil, false
				}
				key, rest = string(b), rest[1:]
			}
			v, r, ok := parseJV(rest, depth+1)
			if !ok {
				return nil, nil, false
			}
			rest = r
			if h[0] == 'O' {
				j.obj = append(j.obj, jkv{key, v})
			} else {
				j.arr = append(j.arr, v)
			}
		}
		return j, rest, true
	}
	return nil, nil, false
}

// ---- rendering to JSON text; the style only changes the spelling, never the value ----

func renderStr(s string, style int, isKey bool) string {
	if isKey && style&2 != 0 {
		// spell (some of) the characters as \uXXXX escapes
		var b strings.Builder
		b.WriteByte('"')
		for i, r := range s {
			if r < 0x10000 && (style&4 != 0 || i%2 == 0) {
				fmt.Fprintf(&b, `\u%04x`, r)
			} else {
				b.WriteString(strings.Trim(jstr(string(r)), `"`))
			}
		}
		b.WriteByte('"')
		return b.String()
	}
	return jstr(s)
}

func (j *jv) render(style int) string {
	sp, nl := "", ""
	if style&1 != 0 {
		sp, nl = " ", "\n\t "
	}
	switch j.kind {
	case 'N':
		return "null"
	case 'T':
		return "true"
	case 'F':
		return "false"
	case '#':
		return j.num
	case 'S':
		return renderStr(j.s, style, false)
	case 'A':
		var ps []string
		for _, x := range j.arr {
			ps = append(ps, x.render(style))
		}
		return "[" + nl + strings.Join(ps, ","+sp) + sp + "]"
	default:
		var ps []string
		for _, e := range j.obj {
			ps = append(ps, renderStr(e.key, style, true)+sp+":"+sp+e.v.render(style))
		}
		return "{" + sp + strings.Join(ps, ","+nl) + "}"
	}
}

// ---- the canonical JSON value of a tree ----

func scopeJV(s string) (jkv, bool) {
	switch s {
	case "n":
		return jkv{}, false
	case "N":
		return kv("scope", jNull()), true
	case "e":
		return kv("scope", jArr()), true
	}
	var parts []*jv
	for i, c := range s {
		switch c {
		case 'q':
			parts = append(parts, jStr("request"))
		case 's':
			parts = append(parts, jStr("response"))
		default:
			parts = append(parts, jStr(otherScopeNames[(i+len(s))%len(otherScopeNames)]))
		}
	}
	return kv("scope", jArr(parts...)), true
}

func (c *condSpec) jkvs() []jkv {
	switch c.kind {
	case 'm':
		return []jkv{kv("method", jStr(c.a))}
	case 'p':
		return []jkv{kv("port", jNum(c.a))}
	case 'u':
		var out []jkv
		for _, e := range [][2]string{{"scheme", c.a}, {"host", c.b}, {"path", c.c}, {"query", c.d}} {
			if e[1] != "" {
				out = append(out, kv(e[0], jStr(e[1])))
			}
		}
		return out
	}
	return []jkv{kv("name", jStr(c.a)), kv("value", jStr(c.b))}
}

// toJV: the plain JSON value of a tree (U and X nodes are spelled by one representative each).
func (n *node) toJV() *jv {
	var body []jkv
	if sc, ok := scopeJV(n.scope); ok {
		body = append(body, sc)
	}
	switch n.kind {
	case 'L':
		body = append(body, kv("label", jInt(int64(n.label))), kv("caps", jStr(string(n.caps))), kv("failReq", jBool(n.failReq)), kv("failRes", jBool(n.failRes)))
		if n.eclass != 0 {
			body = append(body, kv("etext", jInt(int64(n.eclass))))
		}
		return jObj(kv("verif.Probe", jObj(body...)))
	case 'U':
		return jObj(kv(unknownNames[n.variant%len(unknownNames)], jObj(kv("modifiers", jArr()))))
	case 'X':
		return []*jv{jObj(), jArr(), jNum("5"), jStr("fifo.Group"), jNull(), jBool(true)}[n.variant%6]
	case 'F':
		if n.agg {
			body = append(body, kv("aggregateErrors", jBool(true)))
		}
		var ks []*jv
		for _, k := range n.kids {
			ks = append(ks, k.toJV())
		}
		body = append(body, kv("modifiers", jArr(ks...)))
		return jObj(kv("fifo.Group", jObj(body...)))
	case 'P':
		var ks []*jv
		for i, k := range n.kids {
			ks = append(ks, jObj(kv("priority", jInt(n.prios[i])), kv("modifier", k.toJV())))
		}
		body = append(body, kv("modifiers", jArr(ks...)))
		return jObj(kv("priority.Group", jObj(body...)))
	default:
		body = append(n.cond.jkvs(), body...)
		body = append(body, kv("modifier", n.kids[0].toJV()))
		if n.els != nil {
			body = append(body, kv("else", n.els.toJV()))
		}
		return jObj(kv(n.cond.filter(), jObj(body...)))
	}
}

// ---- what encoding/json and the *FromJSON functions make of a JSON value: the oracle's reading ----
// (written against the documented/observed behaviour of encoding/json in go1.23: a struct field is
// found by exact name, else by case-folded name; unknown fields are skipped; a later duplicate key
// decodes INTO what the earlier one left: null leaves scalars alone and nils slices, an array decodes
// element-wise into the existing backing array; any value of the wrong JSON type is an error.)

func foldsTo(key string, fields []string) string {
	for _, f := range fields {
		if f == key {
			return f
		}
	}
	for _, f := range fields {
		if strings.EqualFold(f, key) {
			return f
		}
	}
	return ""
}

// sl is a Go slice seen by the decoder: visible elements plus what the backing array still holds behind them.
type sl[T any] struct {
	isNil bool
	vis   []T
	stale []T
}

func decSlice[T any](old sl[T], v *jv, elem func(old T, v *jv) (T, bool)) (sl[T], bool) {
	switch v.kind {
	case 'N':
		return sl[T]{isNil: true}, true
	case 'A':
		if len(v.arr) == 0 {
			return sl[T]{}, true
		}
		mem := append(append([]T{}, old.vis...), old.stale...)
		out := sl[T]{}
		ok := true
		for i, x := range v.arr {
			var o T
			if i < len(mem) {
				o = mem[i]
			}
			e, ok1 := elem(o, x)
			ok = ok && ok1
			out.vis = append(out.vis, e)
		}
		if len(mem) > len(v.arr) {
			out.stale = mem[len(v.arr):]
		}
		return out, ok
	}
	return old, false
}

func decString(old string, v *jv) (string, bool) {
	switch v.kind {
	case 'S':
		return v.s, true
	case 'N':
		return old, true
	}
	return old, false
}

func decBool(old bool, v *jv) (bool, bool) {
	switch v.kind {
	case 'T', 'F':
		return v.kind == 'T', true
	case 'N':
		return old, true
	}
	return old, false
}

// decInt: an int64 field takes a number literal without fraction and exponent that fits.
func decInt(old int64, v *jv) (int64, bool) {
	switch v.kind {
	case '#':
		if strings.ContainsAny(v.num, ".eE") {
			return old, false
		}
		i, err := strconv.ParseInt(v.num, 10, 64)
		return i, err == nil
	case 'N':
		return old, true
	}
	return old, false
}

func decRaw(_ *jv, v *jv) (*jv, bool) { return v, true }

// decodeStruct walks the members of body in order. null leaves the zero struct; a non-object is an error.
func decodeStruct(body *jv, fields []string, set func(field string, v *jv) bool) bool {
	switch body.kind {
	case 'N':
		return true
	case 'O':
		ok := true
		for _, e := range body.obj {
			if f := foldsTo(e.key, fields); f != "" {
				ok = set(f, e.v) && ok
			}
		}
		return ok
	}
	return false
}

func scopeOf(s sl[string]) string {
	if s.isNil {
		return "n"
	}
	if len(s.vis) == 0 {
		return "e"
	}
	var b []byte
	for _, x := range s.vis {
		switch x {
		case "request":
			b = append(b, 'q')
		case "response":
			b = append(b, 's')
		default:
			b = append(b, 'x')
		}
	}
	return string(b)
}

var malformedNode = func() *node { return &node{kind: 'X', variant: 0} }

// child: parse.FromJSON on a json.RawMessage field (nil = the member never appeared).
func child(raw *jv) *node {
	if raw == nil {
		return malformedNode()
	}
	return decodeJV(raw)
}

type prioElem struct {
	prio int64
	mod  *jv
}

// modelledNames are the registered names the model covers; otherRegistered are registered in the
// harness process too (the filter packages register their siblings) but are outside C12's trees.
var otherRegistered = map[string]bool{"header.Modifier": true, "header.RegexFilter": true, "header.Append": true, "header.Blacklist": true,
	"header.Copy": true, "header.Id": true, "header.Verifier": true, "cookie.Modifier": true, "url.Modifier": true, "url.RegexFilter": true,
	"url.Verifier": true, "method.Verifier": true, "querystring.Modifier": true, "querystring.Verifier": true, "port.Modifier": true}

// decodeJV: the tree a JSON value says (nil = names a registered modifier outside the model).
func decodeJV(j *jv) *node {
	if j.kind != 'O' {
		return malformedNode()
	}
	// map[string]json.RawMessage: exact keys, the last duplicate wins
	var keys []string
	last := map[string]*jv{}
	for _, e := range j.obj {
		if _, seen := last[e.key]; !seen {
			keys = append(keys, e.key)
		}
		last[e.key] = e.v
	}
	if len(keys) != 1 {
		return malformedNode()
	}
	name, body := keys[0], last[keys[0]]
	if otherRegistered[name] {
		return nil
	}
	var scope = sl[string]{isNil: true}
	setScope := func(v *jv) (ok bool) {
		scope, ok = decSlice(scope, v, decString)
		return
	}
	bad := func(kids ...*node) bool { // a child outside the model poisons the reading
		for _, k := range kids {
			if k == nil {
				return true
			}
		}
		return false
	}
	switch name {
	case "verif.Probe":
		var label, etext int64
		var caps string
		var fq, fs bool
		ok := decodeStruct(body, []string{"label", "caps", "failReq", "failRes", "scope", "etext"}, func(f string, v *jv) (ok bool) {
			switch f {
			case "label":
				label, ok = decInt(label, v)
			case "etext":
				etext, ok = decInt(etext, v)
			case "caps":
				caps, ok = decString(caps, v)
			case "failReq":
				fq, ok = decBool(fq, v)
			case "failRes":
				fs, ok = decBool(fs, v)
			default:
				ok = setScope(v)
			}
			return
		})
		if !ok || label < 0 {
			return malformedNode()
		}
		c := byte('b')
		if caps == "q" || caps == "s" || caps == "z" {
			c = caps[0]
		}
		ec := 0
		if etext > 0 {
			ec = int(etext)
		}
		return &node{kind: 'L', label: int(label), eclass: ec, caps: c, failReq: fq, failRes: fs, scope: scopeOf(scope)}
	case "fifo.Group":
		var agg bool
		mods := sl[*jv]{isNil: true}
		ok := decodeStruct(body, []string{"scope", "aggregateErrors", "modifiers"}, func(f string, v *jv) (ok bool) {
			switch f {
			case "aggregateErrors":
				agg, ok = decBool(agg, v)
			case "modifiers":
				mods, ok = decSlice(mods, v, decRaw)
			default:
				ok = setScope(v)
			}
			return
		})
		if !ok {
			return malformedNode()
		}
		n := &node{kind: 'F', agg: agg, scope: scopeOf(scope)}
		for _, m := range mods.vis {
			n.kids = append(n.kids, child(m))
		}
		if bad(n.kids...) {
			return nil
		}
		return n
	case "priority.Group":
		mods := sl[prioElem]{isNil: true}
		ok := decodeStruct(body, []string{"scope", "modifiers"}, func(f string, v *jv) (ok bool) {
			if f == "scope" {
				return setScope(v)
			}
			mods, ok = decSlice(mods, v, func(old prioElem, v *jv) (prioElem, bool) {
				ok := decodeStruct(v, []string{"priority", "modifier"}, func(f string, v *jv) (ok bool) {
					if f == "priority" {
						old.prio, ok = decInt(old.prio, v)
					} else {
						old.mod, ok = v, true
					}
					return
				})
				return old, ok
			})
			return
		})
		if !ok {
			return malformedNode()
		}
		n := &node{kind: 'P', scope: scopeOf(scope)}
		for _, m := range mods.vis {
			n.kids = append(n.kids, child(m.mod))
			n.prios = append(n.prios, m.prio)
		}
		if bad(n.kids...) {
			return nil
		}
		return n
	case "port.Filter":
		var port int64
		var mod *jv
		ok := decodeStruct(body, []string{"port", "modifier", "scope"}, func(f string, v *jv) (ok bool) {
			switch f {
			case "port":
				port, ok = decInt(port, v)
			case "modifier":
				mod, ok = v, true
			default:
				ok = setScope(v)
			}
			return
		})
		if !ok {
			return malformedNode()
		}
		n := &node{kind: 'C', cond: &condSpec{kind: 'p', a: strconv.FormatInt(port, 10)}, scope: scopeOf(scope), kids: []*node{child(mod)}}
		if bad(n.kids...) {
			return nil
		}
		return n
	case "url.Filter", "header.Filter", "querystring.Filter", "method.Filter", "cookie.Filter":
		c := &condSpec{}
		var strs map[string]*string
		switch name {
		case "url.Filter":
			c.kind, strs = 'u', map[string]*string{"scheme": &c.a, "host": &c.b, "path": &c.c, "query": &c.d}
		case "method.Filter":
			c.kind, strs = 'm', map[string]*string{"method": &c.a}
		default:
			c.kind, strs = map[string]byte{"header.Filter": 'h', "querystring.Filter": 'q', "cookie.Filter": 'c'}[name], map[string]*string{"name": &c.a, "value": &c.b}
		}
		fields := []string{"scheme", "host", "path", "query", "method", "name", "value"}
		var own []string
		for _, f := range fields {
			if strs[f] != nil {
				own = append(own, f)
			}
		}
		own = append(own, "modifier", "else", "scope")
		var mod, els *jv
		ok := decodeStruct(body, own, func(f string, v *jv) (ok bool) {
			switch f {
			case "modifier":
				mod, ok = v, true
			case "else":
				els, ok = v, true
			case "scope":
				ok = setScope(v)
			default:
				*strs[f], ok = decString(*strs[f], v)
			}
			return
		})
		if !ok {
			return malformedNode()
		}
		n := &node{kind: 'C', cond: c, scope: scopeOf(scope), kids: []*node{child(mod)}}
		if els != nil {
			n.els = child(els)
			if n.els == nil {
				return nil
			}
		}
		if bad(n.kids...) {
			return nil
		}
		return n
	}
	return &node{kind: 'U', variant: 0}
}
