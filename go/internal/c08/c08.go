// Package c08: HTTP/2 relay frame fidelity (shares the harness in internal/h2relay with C09).
package c08

import (
	"regexp"
	"strings"

	"verif/harness/internal/core"
	"verif/harness/internal/h2relay"
)

type P struct{}

func init() { core.Register(P{}) }

func (P) ID() string { return "C08" }
func (P) Rule() string {
	return "case = one two-way session of 1..6 interleaved streams (request/response messages with HEADERS, 0..3 DATA padded or not, " +
		"trailers, RST_STREAM, PRIORITY, server PUSH_PROMISE; one case in six with a response body above 65535 octets whose receiver granted " +
		"the stream window before the first response frame) fed frame by frame into the two real relays through the verif hook, header " +
		"blocks cut into 1..4 HEADERS/CONTINUATION fragments, interleaved with SETTINGS as LISTS (an identifier up to three times, unknown " +
		"identifiers, any order; INITIAL_WINDOW_SIZE 0/1/10/65535/2^31-1, MAX_FRAME_SIZE, HEADER_TABLE_SIZE 0..65536), SETTINGS " +
		"acknowledgements that lag behind (an endpoint's encoder applies a table size only when it acknowledges), WINDOW_UPDATE, PING, GOAWAY " +
		"from either endpoint; header blocks are literal (half of the cases), or lists of HPACK representations emitted by a hand-driven " +
		"encoder with its own dynamic table - indexed fields, incremental indexing, size updates (a quarter), both compared line by line " +
		"with the Lean model, or encoded by a real hpack.Encoder when the op runs (a quarter, oracle only); plus histories of a bare " +
		"hpack.Decoder/Encoder against the Lean table model (hp.* ops); distinct by hash of the op list; non-trivial when the case has a " +
		"CONTINUATION, at least two streams and at least one frame that waited in an output queue"
}

var queued = regexp.MustCompile(`:-?\d+:[dhupr]\d`)

func (P) Nontrivial(ops []string, impl []string) bool {
	cont, waited := false, false
	sids := map[string]bool{}
	for _, o := range ops {
		f := strings.Fields(o)
		if f[0] == "cont" {
			cont = true
		}
		if f[0] == "rcont" {
			cont = true
		}
		if (f[0] == "headers" || f[0] == "data" || f[0] == "hb" || f[0] == "rhdr") && len(f) > 2 {
			sids[f[2]] = true
		}
	}
	for _, l := range impl {
		if queued.MatchString(l) {
			waited = true
		}
	}
	return cont && waited && len(sids) >= 2
}

func (P) Gen(r *core.Rand, tier string, emit func([]string)) { h2relay.Gen("C08", r, tier, emit) }
func (P) NewExec() core.Exec                                 { return h2relay.NewExec("C08") }
