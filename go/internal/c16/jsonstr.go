package c16

import (
	"encoding/json"
	"fmt"
	"strings"
	"unicode/utf8"

	"verif/harness/internal/core"
	"verif/harness/internal/msggen"
)

// jsonstr: the tie of the Lean model of encoding/json's string coder (Model/JsonString.lean) to
// the real package.
//
//	jsonstr enc <hex s>    json.Marshal(string(s)) and what json.Unmarshal makes of that token
//	jsonstr dec <hex tok>  json.Unmarshal(tok, &string) on an arbitrary (adversarial) token
//	jsonstr san <hex s>    string([]rune(s)): the image of the round trip for invalid UTF-8
func jsonstr(t []string) core.Result {
	if len(t) != 3 {
		return core.Result{Impl: "bad-op"}
	}
	b, ok := core.Unhex(t[2])
	if !ok {
		return core.Result{Impl: "bad-op"}
	}
	switch t[1] {
	case "enc":
		tok, err := json.Marshal(string(b))
		if err != nil {
			return core.Result{Impl: "marshal-error"}
		}
		var back string
		rt := "err"
		if err := json.Unmarshal(tok, &back); err == nil {
			rt = core.HexS(back)
		}
		core.Count("jsonstr:enc:" + map[bool]string{true: "valid", false: "invalid"}[utf8.Valid(b)])
		impl := fmt.Sprintf("enc %s rt=%s", core.Hex(tok), rt)
		// the hypothesis the JSON round-trip theorems used to assume, now a theorem about the model:
		// valid UTF-8 is read back exactly; anything else as string([]rune(s))
		want := string(b)
		if !utf8.Valid(b) {
			want = string([]rune(string(b)))
		}
		if rt == "err" || back != want {
			return core.Result{Impl: impl, Sig: "c16:jsonstr-roundtrip",
				Fail: fmt.Sprintf("json.Unmarshal(json.Marshal(s)) = %q for s = %q (valid UTF-8: %v)", back, clip(string(b)), utf8.Valid(b))}
		}
		return core.Result{Impl: impl}
	case "dec":
		var s string
		if err := json.Unmarshal(b, &s); err != nil {
			core.Count("jsonstr:dec:err")
			return core.Result{Impl: "dec err"}
		}
		core.Count("jsonstr:dec:ok")
		return core.Result{Impl: "dec ok " + core.HexS(s)}
	case "san":
		return core.Result{Impl: "san " + core.HexS(string([]rune(string(b))))}
	}
	return core.Result{Impl: "bad-op"}
}

var jsonRunes = []string{"a", "z", " ", "\"", "\\", "/", "'", "<", ">", "&", "\x00", "\x01", "\b", "\f", "\n", "\r", "\t", "\x1f", "\x7f",
	"\u0080", "\u00e9", "\u07ff", "\u0800", "\u20ac", "\u2027", "\u2028", "\u2029", "\u202a", "\ud7ff", "\ue000", "\ufffd", "\uffff",
	"\U00010000", "\U0001f600", "\U0010ffff"}

var jsonBadBytes = []string{"\xff", "\xfe", "\x80", "\xbf", "\xc0\xaf", "\xc1\xbf", "\xc2", "\xe0\x80\x80", "\xe0\x9f\xbf", "\xe2\x82",
	"\xed\xa0\x80", "\xed\xbf\xbf", "\xef\xbf", "\xf0\x80\x80\x80", "\xf0\x8f\xbf\xbf", "\xf0\x9f\x98", "\xf4\x90\x80\x80", "\xf5\x80\x80\x80", "\xf8"}

// jsonText draws a string for the coder: runes around every boundary of the encoder's case
// analysis, optionally with ill-formed bytes between them.
func jsonText(r *core.Rand, bad bool) []byte {
	var b []byte
	for i, n := 0, r.Intn(12); i < n; i++ {
		if bad && r.Chance(1, 3) {
			b = append(b, jsonBadBytes[r.Intn(len(jsonBadBytes))]...)
		} else {
			b = append(b, jsonRunes[r.Intn(len(jsonRunes))]...)
		}
	}
	return b
}

var jsonEscapes = []string{`\"`, `\\`, `\/`, `\'`, `\b`, `\f`, `\n`, `\r`, `\t`, `\x`, `\a`, `\0`, `\u0041`, `\u00e9`, `\u00E9`, `\u2028`, `\ufffd`, `\uFFFD`,
	`\u0000`, `\ud83d\ude00`, `\uD83D\uDE00`, `\ud83d`, `\ude00`, `\ud83d\u0041`, `\ud83dx`, `\ud83d\ud83d\ude00`, `\ud83d\u12`, `\udbff\udfff`, `\ud800\udc00`,
	`\ude00\ud83d`, `\u12`, `\u`, `\u00g0`, `\ud7ff`, `\ue000`, `\`, `"`, "\x01", "\x1f", "\n", "a", "\u00e9", "\xff", "\xe2\x82", "\U0001f600", "<", "\u2028"}

// jsonToken draws an adversarial string token: escapes of every kind (valid, truncated, lone and
// paired surrogates), raw control and ill-formed bytes, then sometimes a byte-level mutation.
func jsonToken(r *core.Rand) []byte {
	var b []byte
	b = append(b, '"')
	for i, n := 0, r.Intn(7); i < n; i++ {
		if r.Chance(2, 3) {
			b = append(b, jsonEscapes[r.Intn(len(jsonEscapes))]...)
		} else {
			b = append(b, jsonText(r, r.Chance(1, 3))...)
		}
	}
	b = append(b, '"')
	if r.Chance(1, 4) && len(b) > 2 {
		i := 1 + r.Intn(len(b)-2)
		switch r.Intn(3) {
		case 0:
			b[i] = byte(r.Intn(256))
		case 1:
			b = append(b[:i], b[i+1:]...)
		default:
			b = append(b[:i], append([]byte{byte(r.Intn(256))}, b[i:]...)...)
		}
	}
	return b
}

func jsonstrOps(r *core.Rand, n int) []string {
	var ops []string
	for i := 0; i < n; i++ {
		switch r.Intn(5) {
		case 0, 1:
			s := jsonText(r, r.Chance(1, 3))
			if r.Chance(1, 6) {
				s = msggen.Payload(r, r.Pick("utf8", "badutf", "bin", "text", "latebad"), r.Intn(60))
			}
			ops = append(ops, "jsonstr enc "+core.Hex(s))
		case 2:
			ops = append(ops, "jsonstr san "+core.Hex(jsonText(r, true)))
		default:
			ops = append(ops, "jsonstr dec "+core.Hex(jsonToken(r)))
		}
	}
	return ops
}

// jsonstrDirected: every single rune / bad sequence / escape on its own and in pairs.
func jsonstrDirected(emit func([]string)) {
	var ops []string
	for _, x := range jsonRunes {
		ops = append(ops, "jsonstr enc "+core.HexS(x), "jsonstr enc "+core.HexS("a"+x+"b"))
	}
	emit(ops)
	ops = nil
	for _, x := range jsonBadBytes {
		ops = append(ops, "jsonstr enc "+core.HexS(x), "jsonstr san "+core.HexS(x), "jsonstr enc "+core.HexS("a"+x+"é"), "jsonstr san "+core.HexS(x+x+"z"),
			"jsonstr dec "+core.HexS(`"`+x+`"`))
	}
	emit(ops)
	ops = nil
	for _, x := range jsonEscapes {
		ops = append(ops, "jsonstr dec "+core.HexS(`"`+x+`"`), "jsonstr dec "+core.HexS(`"p`+x+`q"`))
	}
	for _, x := range []string{``, `"`, `""`, `"a`, `a"`, `"a"b"`, `"a" "`, `"a""`, strings.Repeat(`"`, 3)} {
		ops = append(ops, "jsonstr dec "+core.HexS(x))
	}
	emit(ops)
}
