package c16

import (
	"strconv"
	"strings"

	"github.com/google/martian/v3/har"

	"verif/harness/internal/c15"
	"verif/harness/internal/core"
	"verif/harness/internal/msggen"
)

func wantParams(s *msggen.Spec) []har.Param {
	var ps []har.Param
	for _, kv := range s.FormWant {
		ps = append(ps, har.Param{Name: kv.K, Value: kv.V})
	}
	for _, p := range s.PartsWant {
		ps = append(ps, har.Param{Name: p.Name, Value: p.Value, Filename: p.Filename, ContentType: p.CT})
	}
	return ps
}

// inflateCases: decoded sizes far above the compressed size, at several magnitudes: a highly
// compressible body (a short pattern repeated) of 1 MiB .. 70 MiB that is a few KiB .. 100 KiB on the
// wire, gzip and deflate, Content-Length and chunked. A decoder with a cap on what it inflates, a log
// that keeps only so much, shows as a content shorter than the decoded body. Each in a case of its own
// (no export of a 70 MiB entry); body and decoded body travel as seed+length / length+hash.
func inflateCases(r *core.Rand, tier string, emit func([]string)) {
	const M = 1 << 20
	sizes := []int{M + 5, 33*M + 7, 65*M + 1}
	if tier == "thorough" {
		sizes = []int{M + 5, 4*M + 1, 16*M + 1, 32*M - 1, 32 * M, 32*M + 1, 40 * M, 64*M - 1, 64 * M, 64*M + 1, 70 * M}
	}
	for i, n := range sizes {
		encs := []string{[]string{"gzip", "deflate"}[i%2]}
		if tier == "thorough" {
			encs = []string{"gzip", "deflate"}
		}
		for _, enc := range encs {
			seed := r.U64() % 1000000
			fr := r.Pick("cl", "chunked")
			s := &msggen.Spec{Req: false, Code: 200, Framing: fr, Enc: enc, CT: "text/plain",
				Payload: msggen.Payload(core.NewRand(seed), "rep", n)}
			s.BodyTok = "gen:" + enc + ":rep:" + strconv.FormatUint(seed, 10) + ":" + strconv.Itoa(n)
			if fr == "chunked" {
				s.Chunks = []int{1 + r.Intn(5000)}
			}
			a := s.Abs()
			core.Count("inflate:" + enc)
			emit([]string{strings.Join(append([]string{"hres", "all", "p", c15.InflatedTok(a)}, a.Tokens()...), " ")})
		}
	}
}

// redirectCases: every status in [300, 400) and its neighbours x Location absent / relative / absolute
// (and repeated): the entry's redirectURL is the Location of exactly the 3xx responses.
func redirectCases(r *core.Rand, emit func([]string)) {
	for _, code := range []int{299, 300, 301, 302, 303, 304, 305, 306, 307, 308, 310, 399, 400} {
		var ops []string
		for _, loc := range [][]string{nil, {"/rel?x=1"}, {"http://h.example/next"}, {"//other.example/p", "/second"}} {
			s := &msggen.Spec{Req: false, Code: code, Framing: "cl", CT: "text/plain", Payload: []byte("moved")}
			if code == 304 {
				s.Framing, s.Payload = "cl0", nil
			}
			for _, l := range loc {
				s.Extra = append(s.Extra, msggen.KV{K: "Location", V: l})
			}
			a := s.Abs()
			if a.Status == strconv.Itoa(code)+" " {
				a.Status = strconv.Itoa(code) + " Status"
			}
			core.Count("redirect:directed")
			ops = append(ops, strings.Join(append([]string{"hres", r.Pick("all", "none"), "p", c15.InflatedTok(a)}, a.Tokens()...), " "))
		}
		emit(ops)
	}
}

func (P) Gen(r *core.Rand, tier string, emit func([]string)) {
	redirectCases(r.Fork(), emit)
	inflateCases(r.Fork(), tier, emit)
	n := 300
	if tier == "thorough" {
		n = 4000
	}
	jsonstrDirected(emit)
	var qd []string
	for _, q := range []string{"", "a", "a=", "=", "==", "a=b=c", "sig=c2ln=", "t=YWJjZA==&t=x", "&&a=1&&", "a=1;b=2&c=3", "k%3D=v%26w", "x+y=+", "%zz=1&ok=1",
		"a=%4", "a=%", "b=2&a=1&b=1", "%3d=%3D", "a=%00", "=v&=w"} {
		qd = append(qd, "query "+core.HexS(q))
	}
	emit(qd)
	for i, m := 0, n/2; i < m; i++ {
		emit(jsonstrOps(r, 12))
	}
	for i := 0; i < n; i++ {
		var ops []string
		var specs []*msggen.Spec
		for k, m := 0, r.Range(2, 4); k < m; k++ {
			req := r.Bool()
			max := 3000
			if tier == "thorough" && r.Chance(1, 30) {
				max = 70000
			}
			s := msggen.Gen(r, req, max)
			s.BodyTok = ""
			if s.IsForm || s.IsMulti {
				s.Enc = "" // har parses the body as the origin receives it; keep the expectation known
			}
			a := s.Abs()
			specs = append(specs, s)
			core.Count("msg:" + s.Class())
			mode := "p"
			if r.Chance(1, 6) {
				mode = "l" // repeated field names spelled in different case on the wire
			} else if r.Chance(1, 4) {
				// struct fields that disagree with same-named keys of the header map (a modifier
				// changed the field after the message was parsed)
				if label, m := msggen.Disagree(r, a); label != "" {
					mode = m
					core.Count("disagree:" + label)
				}
			}
			spec := c15.HarSpec(r)
			if req {
				ps := ParamsTok(wantParams(s))
				ops = append(ops, strings.Join(append([]string{"hreq", spec, mode, core.HexS(MediaType(s.CT)), ps}, a.Tokens()...), " "))
			} else {
				ops = append(ops, strings.Join(append([]string{"hres", spec, mode, c15.InflatedTok(a)}, a.Tokens()...), " "))
			}
		}
		// JSON forms: the bodies of this case and a few drawn byte strings
		for k, m := 0, r.Range(1, 3); k < m; k++ {
			var text []byte
			if r.Chance(1, 3) {
				// longer than any prefix a classifier might sniff (512 = http.DetectContentType, 4096,
				// 8192 = buffer sizes), invalid UTF-8 only at the very end
				n := []int{500, 511, 512, 513, 520, 1024, 1500, 4095, 4096, 4097, 4200, 8192, 8200, 9000}[r.Intn(14)]
				text = msggen.Payload(r, "latebad", n)
				core.Count("json:latebad")
			} else if r.Bool() && len(specs) > 0 {
				text = specs[r.Intn(len(specs))].Encoded()
				if len(text) > 4000 {
					text = text[:4000]
				}
			} else {
				text = msggen.Payload(r, r.Pick("text", "utf8", "bin", "badutf", "badutf"), r.Intn(80))
			}
			if r.Bool() {
				var ps []har.Param
				for j, q := 0, r.Intn(3); j < q; j++ {
					kind := "utf8"
					if r.Chance(1, 6) {
						kind = "badutf"
					}
					ps = append(ps, har.Param{Name: r.Pick("a", "b", "né"), Value: string(msggen.Payload(r, kind, r.Intn(12))), Filename: r.Pick("", "f.bin")})
				}
				ops = append(ops, "jsonpd "+core.HexS(r.Pick("text/plain", "application/octet-stream", "")+"")+" "+ParamsTok(ps)+" "+core.Hex(text))
			} else {
				ops = append(ops, "jsoncontent "+r.Pick("1", "1", "1", "0")+" "+core.HexS(r.Pick("image/png", "text/html; charset=utf-8", ""))+" "+core.Hex(text))
			}
		}
		ops = append(ops, jsonstrOps(r, r.Range(1, 3))...)
		for k, m := 0, r.Range(1, 2); k < m; k++ {
			ops = append(ops, "query "+core.HexS(msggen.RawQuery(r)))
		}
		if r.Chance(1, 4) {
			// the log as a whole: many more entries, then everything is inspected again
			ops = append(ops, "logmany "+strconv.Itoa(r.Range(2, 40))+" "+strconv.FormatUint(r.U64()%1000000, 10))
		}
		ops = append(ops, "export")
		emit(ops)
	}
}
