package c16

import (
	"bytes"
	"fmt"
	"strconv"

	"github.com/google/martian/v3"
	"github.com/google/martian/v3/har"

	"verif/harness/internal/core"
	"verif/harness/internal/msggen"
)

// The log as a whole: several entries are logged, and ALL of them are inspected afterwards - not
// each one right after it was logged. An entry must keep describing its own exchange whatever is
// logged after it (a body that lives in a recycled buffer would be overwritten by a later entry).

type entryWant struct {
	hasPost    bool
	postText   string
	postParams string
	hasContent bool
	content    []byte
	size       int64
}

func (e *ex) remember(id string, en *har.Entry) {
	w := e.want[id]
	if w == nil {
		w = &entryWant{}
		e.want[id] = w
	}
	if en.Request != nil && en.Request.PostData != nil {
		w.hasPost, w.postText, w.postParams = true, string(append([]byte(nil), en.Request.PostData.Text...)), ParamsTok(en.Request.PostData.Params)
	}
	if en.Response != nil && en.Response.Content != nil {
		w.hasContent, w.content, w.size = true, append([]byte(nil), en.Response.Content.Text...), en.Response.Content.Size
	}
}

// changedSinceLogged compares every entry of the log with what it held when it was logged.
func (e *ex) changedSinceLogged() string {
	n := 0
	first := ""
	es := e.log.Export().Log.Entries
	for i, en := range es {
		w := e.want[en.ID]
		if w == nil {
			continue
		}
		d := ""
		switch {
		case w.hasPost && (en.Request == nil || en.Request.PostData == nil):
			d = "post data gone"
		case w.hasPost && (en.Request.PostData.Text != w.postText || ParamsTok(en.Request.PostData.Params) != w.postParams):
			d = fmt.Sprintf("post data is now %q, was %q", clip(en.Request.PostData.Text), clip(w.postText))
		case w.hasContent && (en.Response == nil || en.Response.Content == nil):
			d = "content gone"
		case w.hasContent && (!bytes.Equal(en.Response.Content.Text, w.content) || en.Response.Content.Size != w.size):
			d = fmt.Sprintf("content is now %d bytes %q, was %d bytes %q", len(en.Response.Content.Text), clip(string(en.Response.Content.Text)), len(w.content), clip(string(w.content)))
		}
		if d != "" {
			n++
			if first == "" {
				first = fmt.Sprintf("entry %d of %d: %s", i, len(es), d)
			}
		}
	}
	if n == 0 {
		return ""
	}
	return fmt.Sprintf("%d of %d entries no longer hold what was logged for them; %s", n, len(es), first)
}

// logmany <n> <seed>: n exchanges with response bodies of various sizes go through the case's logger one
// after the other (in one goroutine, so that a per-P pool in the code under test is hit), each entry
// is remembered, and then the whole log is compared with what was remembered.
func (e *ex) logmany(t []string) core.Result {
	if len(t) != 3 {
		return core.Result{Impl: "bad-op"}
	}
	n, err1 := strconv.Atoi(t[1])
	seed, err2 := strconv.ParseUint(t[2], 10, 64)
	if err1 != nil || err2 != nil || n < 1 || n > 200 {
		return core.Result{Impl: "bad-op"}
	}
	r := core.NewRand(seed)
	e.log.SetOption(har.BodyLogging(true), har.PostDataLogging(true))
	var removes []func()
	defer func() {
		for _, f := range removes {
			f()
		}
	}()
	for i := 0; i < n; i++ {
		size := []int{0, 1, 17, 300, 5000, 64, 2000, 9}[r.Intn(8)] + r.Intn(40)
		body := msggen.Payload(r, r.Pick("text", "bin", "utf8"), size)
		enc := r.Pick("", "", "gzip", "deflate")
		wire := body
		hdr := []msggen.KV{{K: "Content-Type", V: r.Pick("text/plain", "application/octet-stream", "text/html; charset=iso-8859-1")}}
		switch enc {
		case "gzip":
			wire = msggen.Gzip(body)
		case "deflate":
			wire = msggen.Deflate(body)
		}
		if enc != "" {
			hdr = append(hdr, msggen.KV{K: "Content-Encoding", V: enc})
		}
		a := &msggen.Abs{Major: 1, Minor: 1, Code: 200, Status: "200 OK", NilTrailer: true, Hdr: hdr, Body: wire, CL: int64(len(wire))}
		req := msggen.DummyReq()
		res := a.DirectResponse(req)
		ctx, remove, err := martian.TestContext(req, nil, nil)
		if err != nil {
			return core.Result{Impl: "ctx-error"}
		}
		removes = append(removes, remove)
		if e.log.ModifyRequest(req) != nil || e.log.ModifyResponse(res) != nil {
			return core.Result{SkipModel: true, Impl: "logmany-error", Fail: "a well-formed exchange was not logged", Sig: "c16:response-not-logged"}
		}
		en := lastEntry(e.log, ctx.ID())
		if en == nil || en.Response == nil || en.Response.Content == nil || !bytes.Equal(en.Response.Content.Text, body) {
			return core.Result{SkipModel: true, Impl: "logmany-differs", Fail: fmt.Sprintf("entry %d: content is not the decoded body right after logging", i), Sig: "c16:content-not-decoded-body"}
		}
		e.remember(ctx.ID(), en)
	}
	core.Count("logmany")
	if d := e.changedSinceLogged(); d != "" {
		return core.Result{SkipModel: true, Impl: "logmany-differs", Fail: d, Sig: "c16:entry-changed-after-logging"}
	}
	return core.Result{SkipModel: true, Impl: fmt.Sprintf("logmany-ok %d", n)}
}
