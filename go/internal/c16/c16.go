// Package c16: HAR entries faithfully describe the exchange and survive a JSON round trip.
package c16

import (
	"bytes"
	"encoding/json"
	"fmt"
	"net/http"
	"net/url"
	"net/http/httptest"
	"sort"
	"strconv"
	"strings"
	"unicode/utf8"


	"github.com/google/martian/v3"
	"github.com/google/martian/v3/har"
	mlog "github.com/google/martian/v3/log"

	"verif/harness/internal/c15"
	"verif/harness/internal/core"
	"verif/harness/internal/msggen"
)

type P struct{}

func init() {
	core.Register(P{})
	mlog.SetLevel(mlog.Silent)
}

func (P) ID() string { return "C16" }
func (P) Rule() string {
	return "case = 2-4 generated messages (as in C15: Content-Length / chunked / close-delimited / none; trailers; identity, gzip, deflate, br, " +
		"mis-announced gzip; text, UTF-8, binary and invalid-UTF-8 bodies; urlencoded and multipart uploads incl. binary files) logged by a " +
		"real har.Logger under a post-data / body option (all, none, opt-in and opt-out content-type prefix lists, case variants), the " +
		"resulting entry compared field by field with the Lean model and with an independent oracle (own query/cookie/media-type parsing, " +
		"expected form parameters from the generator), plus PostData/Content values through real json.Marshal/Unmarshal compared with the " +
		"model's text-or-base64 choice and base64 string, plus the whole log through the export handler and back; distinct by hash of the " +
		"op list; non-trivial when the case has a captured non-empty body and a base64 JSON form"
}

func (P) Nontrivial(ops []string, impl []string) bool {
	body, b64 := false, false
	for i, l := range impl {
		f := strings.Fields(l)
		if strings.HasPrefix(ops[i], "hreq ") && len(f) >= 10 && f[6] == "pd" && (f[8] != "-" || f[9] != "-") {
			body = true
		}
		if strings.HasPrefix(ops[i], "hres ") && len(f) >= 9 && f[6] != "0" {
			body = true
		}
		if strings.HasPrefix(l, "base64 ") {
			b64 = true
		}
	}
	return body && b64
}

func fail(sig, format string, a ...interface{}) core.Result {
	return core.Result{Fail: fmt.Sprintf(format, a...), Sig: sig}
}

type ex struct {
	log *har.Logger
	// what each entry held at the moment it was logged (deep copies): the log as a whole is checked
	// against it later, after further entries have been logged (export, logmany)
	want map[string]*entryWant
}

func (P) NewExec() core.Exec { return &ex{log: har.NewLogger(), want: map[string]*entryWant{}} }
func (e *ex) Close()         {}

// ---- independent readings used by the oracle ----

// MediaType: lower-cased type/subtype in front of the parameters; the raw header when it is not
// of that shape (har logs the raw header when mime.ParseMediaType fails).
func MediaType(ct string) string {
	if ct == "" || strings.Contains(ct, ";;") {
		return ct
	}
	if i := strings.IndexByte(ct, ';'); i >= 0 {
		ct = ct[:i]
	}
	return strings.ToLower(strings.TrimSpace(ct))
}

// unescape is url.QueryUnescape read independently: '+' is a space, %XX a byte; ok = false for a '%'
// that is not followed by two hex digits.
func unescape(s string) (string, bool) {
	var b []byte
	for i := 0; i < len(s); i++ {
		switch {
		case s[i] == '+':
			b = append(b, ' ')
		case s[i] == '%':
			if i+3 > len(s) || hexVal(s[i+1]) < 0 || hexVal(s[i+2]) < 0 {
				return "", false
			}
			b = append(b, byte(hexVal(s[i+1])<<4|hexVal(s[i+2])))
			i += 2
		default:
			b = append(b, s[i])
		}
	}
	return string(b), true
}

func hexVal(c byte) int {
	switch {
	case '0' <= c && c <= '9':
		return int(c - '0')
	case 'a' <= c && c <= 'f':
		return int(c-'a') + 10
	case 'A' <= c && c <= 'F':
		return int(c-'A') + 10
	}
	return -1
}

// queryOf reads the raw query of the URL the way url.ParseQuery does (what req.URL.Query() gives):
// pairs are separated by '&'; an empty pair is skipped; a pair containing ';' or an invalid escape is
// dropped; a pair is split at its FIRST '=' (everything after it, further '=' included, is the value;
// no '=' means an empty value); both sides are unescaped. With multiplicity, order kept per name.
func queryOf(u string) []msggen.KV {
	i := strings.IndexByte(u, '?')
	if i < 0 || i == len(u)-1 {
		return nil
	}
	var out []msggen.KV
	for _, p := range strings.Split(u[i+1:], "&") {
		if p == "" || strings.Contains(p, ";") {
			continue
		}
		k, v := p, ""
		if j := strings.IndexByte(p, '='); j >= 0 {
			k, v = p[:j], p[j+1:]
		}
		uk, ok1 := unescape(k)
		uv, ok2 := unescape(v)
		if !ok1 || !ok2 {
			continue
		}
		out = append(out, msggen.KV{K: uk, V: uv})
	}
	return sortPairs(out)
}

func sortPairs(l []msggen.KV) []msggen.KV {
	o := append([]msggen.KV(nil), l...)
	sort.SliceStable(o, func(i, j int) bool {
		if o[i].K != o[j].K {
			return o[i].K < o[j].K
		}
		return o[i].V < o[j].V
	})
	return o
}

func cookiePairs(a *msggen.Abs) []msggen.KV {
	var out []msggen.KV
	for _, h := range a.Hdr {
		switch {
		case a.Req && h.K == "Cookie":
			for _, p := range strings.Split(h.V, ";") {
				p = strings.TrimSpace(p)
				if j := strings.IndexByte(p, '='); j > 0 {
					out = append(out, msggen.KV{K: p[:j], V: strings.Trim(p[j+1:], "\"")})
				}
			}
		case !a.Req && h.K == "Set-Cookie":
			p := h.V
			if j := strings.IndexByte(p, ';'); j >= 0 {
				p = p[:j]
			}
			if j := strings.IndexByte(p, '='); j > 0 {
				out = append(out, msggen.KV{K: p[:j], V: strings.Trim(p[j+1:], "\"")})
			}
		}
	}
	return out
}

func captured(spec, ct string) bool {
	kind, arg := spec, ""
	if i := strings.IndexByte(spec, ':'); i >= 0 {
		kind, arg = spec[:i], spec[i+1:]
	}
	match := false
	if arg != "" && arg != "-" {
		for _, x := range strings.Split(arg, "+") {
			b, _ := core.Unhex(x)
			if strings.HasPrefix(strings.ToLower(ct), strings.ToLower(string(b))) {
				match = true
			}
		}
	}
	switch kind {
	case "all":
		return true
	case "none":
		return false
	case "in":
		return match
	}
	return !match
}

// ---- tokens for parameters ----

func ParamsTok(ps []har.Param) string {
	if len(ps) == 0 {
		return "-"
	}
	q := append([]har.Param(nil), ps...)
	sort.SliceStable(q, func(i, j int) bool { return q[i].Name < q[j].Name })
	var s []string
	for _, p := range q {
		s = append(s, core.HexS(p.Name)+":"+core.HexS(p.Value)+":"+core.HexS(p.Filename)+":"+core.HexS(p.ContentType))
	}
	return strings.Join(s, ",")
}

func parseParams(tok string) ([]har.Param, bool) {
	if tok == "-" || tok == "err" {
		return []har.Param{}, true
	}
	out := []har.Param{}
	for _, p := range strings.Split(tok, ",") {
		f := strings.Split(p, ":")
		if len(f) != 4 {
			return nil, false
		}
		var v [4]string
		for i := range f {
			b, ok := core.Unhex(f[i])
			if !ok {
				return nil, false
			}
			v[i] = string(b)
		}
		out = append(out, har.Param{Name: v[0], Value: v[1], Filename: v[2], ContentType: v[3]})
	}
	return out, true
}

func hdrTok(hs []har.Header) string {
	var l []msggen.KV
	for _, h := range hs {
		l = append(l, msggen.KV{K: h.Name, V: h.Value})
	}
	return kvTok(msggen.SortKV(l))
}

func kvTok(l []msggen.KV) string {
	if len(l) == 0 {
		return "-"
	}
	var s []string
	for _, h := range l {
		s = append(s, core.HexS(h.K)+":"+core.HexS(h.V))
	}
	return strings.Join(s, ",")
}

// fieldPresent: does the struct field that net/http writes on the wire exist for this key
// (proxyutil.Header.All's notion: non-empty Host of a request, positive ContentLength, non-nil
// TransferEncoding)?
func fieldPresent(a *msggen.Abs, k string) bool {
	switch k {
	case "Host":
		return a.Req && a.Host != ""
	case "Content-Length":
		return a.CL > 0
	case "Transfer-Encoding":
		return len(a.TE) > 0
	}
	return false
}

// expectedHeaders: the fields of the message. Host, Content-Length and Transfer-Encoding are the
// struct fields when those are present (they are what is sent), whatever the header map holds
// under the same key; otherwise the map's own lines.
func expectedHeaders(a *msggen.Abs) []msggen.KV {
	var l []msggen.KV
	for _, h := range a.Hdr {
		if !fieldPresent(a, h.K) {
			l = append(l, h)
		}
	}
	if fieldPresent(a, "Host") {
		l = append(l, msggen.KV{K: "Host", V: a.Host})
	}
	if fieldPresent(a, "Content-Length") {
		l = append(l, msggen.KV{K: "Content-Length", V: strconv.FormatInt(a.CL, 10)})
	}
	for _, t := range a.TE {
		l = append(l, msggen.KV{K: "Transfer-Encoding", V: t})
	}
	return msggen.SortKV(l)
}

// wireFields reads the field lines of the head that net/http's Write puts on the wire.
func wireFields(out []byte) map[string][]string {
	m := map[string][]string{}
	head := out
	if i := bytes.Index(out, []byte("\r\n\r\n")); i >= 0 {
		head = out[:i]
	}
	lines := strings.Split(string(head), "\r\n")
	for _, ln := range lines[1:] {
		if j := strings.IndexByte(ln, ':'); j > 0 {
			k := http.CanonicalHeaderKey(ln[:j])
			m[k] = append(m[k], strings.TrimSpace(ln[j+1:]))
		}
	}
	return m
}

// headerListVsWire: for Host, Content-Length and Transfer-Encoding, whenever the message has the
// struct field, the entry's header list must say what a fresh copy of the message puts on the wire
// (the property's "header list (including Host, Content-Length and Transfer-Encoding) equal those
// of the message"). Independent of the model: the wire is produced by net/http itself.
func headerListVsWire(a *msggen.Abs, mode string, hs []har.Header) string {
	var out bytes.Buffer
	if a.Req {
		twin, bad := a.BuildRequest(mode)
		if bad != "" {
			return ""
		}
		twin.Write(&out)
	} else {
		twin, bad := a.BuildResponse(mode, msggen.DummyReq())
		if bad != "" {
			return ""
		}
		twin.Write(&out)
	}
	wire := wireFields(out.Bytes())
	for _, k := range []string{"Host", "Content-Length", "Transfer-Encoding"} {
		if !fieldPresent(a, k) || (k == "Content-Length" && a.Chunked()) {
			continue
		}
		var got []string
		for _, h := range hs {
			if h.Name == k {
				got = append(got, h.Value)
			}
		}
		core.Count("hdr-vs-wire:" + k)
		if strings.Join(got, ", ") != strings.Join(wire[k], ", ") {
			return fmt.Sprintf("%s: entry lists %q, the wire carries %q (header map holds %q)", k, got, wire[k], a.Get(k))
		}
	}
	return ""
}

func (e *ex) Do(op string) core.Result {
	t := strings.Fields(op)
	switch t[0] {
	case "hreq":
		return e.hreq(t)
	case "hres":
		return e.hres(t)
	case "jsonpd":
		return jsonpd(t)
	case "jsoncontent":
		return jsoncontent(t)
	case "export":
		return e.export()
	case "jsonstr":
		return jsonstr(t)
	case "logmany":
		return e.logmany(t)
	case "query":
		return queryOp(t)
	}
	return core.Result{Impl: "bad-op"}
}

func lastEntry(l *har.Logger, id string) *har.Entry {
	for _, en := range l.Export().Log.Entries {
		if en.ID == id {
			return en
		}
	}
	return nil
}

// hreq <pdspec> <mode> <mt> <params> M...
func (e *ex) hreq(t []string) core.Result {
	if len(t) != 5+msggen.NTok {
		return core.Result{Impl: "bad-op"}
	}
	spec, mode, paramsTok := t[1], t[2], t[4]
	a, ok := msggen.FromTokens(t[5:])
	wantParams, ok2 := parseParams(paramsTok)
	if !ok || !ok2 {
		return core.Result{Impl: "bad-op"}
	}
	req, bad := a.BuildRequest(mode)
	if bad != "" {
		return core.Result{Impl: "gen-mismatch " + bad}
	}
	ctx, remove, err := martian.TestContext(req, nil, nil)
	if err != nil {
		return core.Result{Impl: "ctx-error"}
	}
	defer remove()
	e.log.SetOption(c15.HarOpt(true, spec))
	if err := e.log.ModifyRequest(req); err != nil {
		core.Count("hreq:err")
		if paramsTok != "err" {
			r := fail("c16:request-not-logged", "ModifyRequest failed on a well-formed request: %v", err)
			r.Impl = "err"
			return r
		}
		return core.Result{Impl: "err"}
	}
	en := lastEntry(e.log, ctx.ID())
	if en == nil || en.Request == nil {
		r := fail("c16:request-not-logged", "no entry for the request")
		r.Impl = "none"
		return r
	}
	r := en.Request
	e.remember(ctx.ID(), en)
	pd := "none"
	if r.PostData != nil {
		pd = fmt.Sprintf("pd %s %s %s", core.HexS(r.PostData.MimeType), ParamsTok(r.PostData.Params), core.HexS(r.PostData.Text))
	}
	impl := fmt.Sprintf("ok %s %s %s %d %s %s", core.HexS(r.Method), core.HexS(r.URL), core.HexS(r.HTTPVersion), r.BodySize, hdrTok(r.Headers), pd)
	ret := func(sig, f string, x ...interface{}) core.Result {
		res := fail(sig, f, x...)
		res.Impl = impl
		return res
	}
	// ---- oracle ----
	ct := a.Get("Content-Type")
	if r.Method != a.Method || r.URL != a.URL || r.HTTPVersion != fmt.Sprintf("HTTP/%d.%d", a.Major, a.Minor) {
		return ret("c16:request-line", "entry has %s %s %s, message %s %s HTTP/%d.%d", r.Method, r.URL, r.HTTPVersion, a.Method, a.URL, a.Major, a.Minor)
	}
	if d := headerListVsWire(a, mode, r.Headers); d != "" {
		return ret("c16:header-list-not-wire", "%s", d)
	}
	if hdrTok(r.Headers) != kvTok(expectedHeaders(a)) {
		var got []msggen.KV
		for _, h := range r.Headers {
			got = append(got, msggen.KV{K: h.Name, V: h.Value})
		}
		return ret("c16:request-headers", "header list %s, message has %s", msggen.KVString(msggen.SortKV(got)), msggen.KVString(expectedHeaders(a)))
	}
	var q []msggen.KV
	for _, x := range r.QueryString {
		q = append(q, msggen.KV{K: x.Name, V: x.Value})
	}
	if msggen.KVString(sortPairs(q)) != msggen.KVString(queryOf(a.URL)) {
		return ret("c16:query", "query parameters %s, URL has %s", msggen.KVString(sortPairs(q)), msggen.KVString(queryOf(a.URL)))
	}
	var cs []msggen.KV
	for _, c := range r.Cookies {
		cs = append(cs, msggen.KV{K: c.Name, V: c.Value})
	}
	if msggen.KVString(cs) != msggen.KVString(cookiePairs(a)) {
		return ret("c16:cookies", "cookies %s, message has %s", msggen.KVString(cs), msggen.KVString(cookiePairs(a)))
	}
	if r.BodySize != a.CL {
		return ret("c16:body-size", "bodySize %d, Content-Length %d", r.BodySize, a.CL)
	}
	hasBody := a.CL > 0 || len(a.TE) > 0
	if (r.PostData != nil) != hasBody {
		return ret("c16:postdata-presence", "postData present=%v, message has a body=%v", r.PostData != nil, hasBody)
	}
	if r.PostData != nil {
		p := r.PostData
		mt := MediaType(ct)
		if p.MimeType != mt {
			return ret("c16:postdata-mime", "postData.mimeType %q, Content-Type %q", p.MimeType, ct)
		}
		switch {
		case !captured(spec, ct):
			core.Count("hreq:not-captured")
			if p.Text != "" || len(p.Params) != 0 {
				return ret("c16:capture-option", "post data captured although option %s excludes Content-Type %q", spec, ct)
			}
		case mt == "multipart/form-data" || mt == "application/x-www-form-urlencoded":
			core.Count("hreq:params")
			if ParamsTok(p.Params) != ParamsTok(wantParams) || p.Text != "" {
				return ret("c16:postdata-params", "postData.params %v (text %q), the body carries %v", p.Params, p.Text, wantParams)
			}
		default:
			core.Count("hreq:text")
			if p.Text != string(a.Body) {
				sig := "c16:postdata-not-body"
				if a.Chunked() && strings.Contains(p.Text, "\r\n0\r\n") {
					sig = "c16:postdata-has-chunk-framing"
				}
				return ret(sig, "postData.text is %d bytes %q…, the origin receives %d bytes %q…", len(p.Text), clip(p.Text), len(a.Body), clip(string(a.Body)))
			}
			if !captured(spec, ct) {
				return ret("c16:capture-option", "unreachable")
			}
		}
	}
	return core.Result{Impl: impl}
}

func clip(s string) string {
	if len(s) > 40 {
		return s[:40]
	}
	return s
}

// hres <bdspec> <mode> <inflated> M...
func (e *ex) hres(t []string) core.Result {
	if len(t) != 4+msggen.NTok {
		return core.Result{Impl: "bad-op"}
	}
	spec, mode, infl := t[1], t[2], t[3]
	a, ok := msggen.FromTokens(t[4:])
	if !ok {
		return core.Result{Impl: "bad-op"}
	}
	req := msggen.DummyReq()
	res, bad := a.BuildResponse(mode, req)
	if bad != "" {
		return core.Result{Impl: "gen-mismatch " + bad}
	}
	ctx, remove, err := martian.TestContext(req, nil, nil)
	if err != nil {
		return core.Result{Impl: "ctx-error"}
	}
	defer remove()
	e.log.SetOption(c15.HarOpt(false, spec))
	if err := e.log.ModifyRequest(req); err != nil {
		return core.Result{Impl: "ctx-error"}
	}
	ct := a.Get("Content-Type")
	cap := captured(spec, ct)
	if err := e.log.ModifyResponse(res); err != nil {
		core.Count("hres:err")
		if !(cap && infl == "err") {
			r := fail("c16:response-not-logged", "ModifyResponse failed although the body is decodable: %v", err)
			r.Impl = "err"
			return r
		}
		return core.Result{Impl: "err"}
	}
	en := lastEntry(e.log, ctx.ID())
	if en == nil || en.Response == nil {
		r := fail("c16:response-not-logged", "no response in the entry")
		r.Impl = "none"
		return r
	}
	r := en.Response
	e.remember(ctx.ID(), en)
	c := r.Content
	impl := fmt.Sprintf("ok %d %s %d %s %s %d %s %s", r.Status, core.HexS(r.HTTPVersion), r.BodySize, hdrTok(r.Headers),
		core.HexS(r.RedirectURL), c.Size, core.HexS(c.MimeType), c15.BytesTok(c.Text))
	ret := func(sig, f string, x ...interface{}) core.Result {
		res := fail(sig, f, x...)
		res.Impl = impl
		return res
	}
	// statusText is http.StatusText(code), not the reason phrase of the message (not claimed)
	if r.Status != a.Code || r.HTTPVersion != fmt.Sprintf("HTTP/%d.%d", a.Major, a.Minor) || r.StatusText != http.StatusText(a.Code) {
		return ret("c16:status-line", "entry has %d %q %s, message %q HTTP/%d.%d", r.Status, r.StatusText, r.HTTPVersion, a.Status, a.Major, a.Minor)
	}
	if d := headerListVsWire(a, mode, r.Headers); d != "" {
		return ret("c16:header-list-not-wire", "%s", d)
	}
	if hdrTok(r.Headers) != kvTok(expectedHeaders(a)) {
		return ret("c16:response-headers", "header list %s, message has %s", hdrTok(r.Headers), kvTok(expectedHeaders(a)))
	}
	wantLoc := ""
	if a.Code >= 300 && a.Code < 400 {
		wantLoc = a.Get("Location")
	}
	if r.RedirectURL != wantLoc {
		return ret("c16:redirect-url", "redirectURL %q, Location %q (status %d)", r.RedirectURL, a.Get("Location"), a.Code)
	}
	var cs []msggen.KV
	for _, c := range r.Cookies {
		cs = append(cs, msggen.KV{K: c.Name, V: c.Value})
	}
	if msggen.KVString(cs) != msggen.KVString(cookiePairs(a)) {
		return ret("c16:cookies", "cookies %s, message has %s", msggen.KVString(cs), msggen.KVString(cookiePairs(a)))
	}
	if r.BodySize != a.CL {
		return ret("c16:body-size", "bodySize %d, Content-Length %d", r.BodySize, a.CL)
	}
	if c.MimeType != ct {
		return ret("c16:content-mime", "content.mimeType %q, Content-Type %q", c.MimeType, ct)
	}
	if !cap {
		core.Count("hres:not-captured")
		if len(c.Text) != 0 || c.Size != 0 {
			return ret("c16:capture-option", "body captured although option %s excludes Content-Type %q", spec, ct)
		}
		return core.Result{Impl: impl}
	}
	want := a.Body
	if strings.HasPrefix(infl, "h:") {
		// a decoded body too big to travel in the op: the reference decoder is run here and must give
		// what the op announces
		want, _ = msggen.Inflate(a.Get("Content-Encoding"), a.Body)
		if c15.BytesTok(want) != infl {
			return core.Result{Impl: "gen-mismatch decoded body is " + c15.BytesTok(want)}
		}
		core.Count("hres:decoded-big")
	} else if infl != "na" && infl != "err" {
		want, _ = core.Unhex(infl)
		core.Count("hres:decoded")
	} else {
		core.Count("hres:identity")
	}
	if infl == "err" {
		return ret("c16:content-undecodable-logged", "undecodable body was logged as %d bytes", len(c.Text))
	}
	if !bytes.Equal(c.Text, want) {
		if len(c.Text) < len(want) && bytes.Equal(c.Text, want[:len(c.Text)]) {
			return ret("c16:content-truncated", "content.text is the first %d bytes of the decoded body of %d bytes (content.size %d)", len(c.Text), len(want), c.Size)
		}
		return ret("c16:content-not-decoded-body", "content.text is %d bytes %q…, decoded body is %d bytes %q…", len(c.Text), clip(string(c.Text)), len(want), clip(string(want)))
	}
	if c.Size != int64(len(want)) {
		return ret("c16:content-size", "content.size %d, decoded body has %d bytes", c.Size, len(want))
	}
	return core.Result{Impl: impl}
}

// ---- JSON ----

func paramsEq(a, b []har.Param) bool {
	if len(a) != len(b) {
		return false
	}
	for i := range a {
		if a[i] != b[i] {
			return false
		}
	}
	return true
}

func paramsValid(ps []har.Param) bool {
	for _, p := range ps {
		if !utf8.ValidString(p.Name) || !utf8.ValidString(p.Value) || !utf8.ValidString(p.Filename) || !utf8.ValidString(p.ContentType) {
			return false
		}
	}
	return true
}

func jsonForm(b []byte) (string, string, bool) {
	var m map[string]json.RawMessage
	if json.Unmarshal(b, &m) != nil {
		return "", "", false
	}
	kind := "text"
	if e, ok := m["encoding"]; ok {
		var s string
		json.Unmarshal(e, &s)
		if s != "" {
			kind = s
		}
	}
	// the raw string token of the text member, as encoding/json wrote it (compared with the model's
	// quote); an omitted member (omitempty) reads as the empty string token
	txt := `""`
	if x, ok := m["text"]; ok {
		var s string
		if json.Unmarshal(x, &s) != nil {
			return "", "", false
		}
		txt = string(x)
	}
	return kind, txt, true
}

// jsonpd <mime> <params> <text>
func jsonpd(t []string) core.Result {
	if len(t) != 4 {
		return core.Result{Impl: "bad-op"}
	}
	mime, ok1 := core.Unhex(t[1])
	ps, ok2 := parseParams(t[2])
	text, ok3 := core.Unhex(t[3])
	if !ok1 || !ok2 || !ok3 || t[2] == "err" {
		return core.Result{Impl: "bad-op"}
	}
	p := &har.PostData{MimeType: string(mime), Params: ps, Text: string(text)}
	b, err := json.Marshal(p)
	if err != nil {
		return core.Result{Impl: "marshal-error"}
	}
	kind, txt, ok := jsonForm(b)
	if !ok {
		return core.Result{Impl: "not-json"}
	}
	var q har.PostData
	rt := "ok"
	if err := json.Unmarshal(b, &q); err != nil || q.MimeType != p.MimeType || q.Text != p.Text || !paramsEq(q.Params, p.Params) {
		rt = "lossy"
	}
	core.Count("jsonpd:" + kind)
	impl := fmt.Sprintf("%s %s rt=%s", kind, core.HexS(txt), rt)
	if rt != "ok" {
		impl = kind + " ? rt=lossy"
	}
	// the whole object as encoding/json wrote it: member order, omitempty, base64 of []byte
	impl += " obj=" + core.Hex(b)
	if rt != "ok" {
		sig := "c16:json-roundtrip-postdata"
		if q.Text == p.Text && q.MimeType == p.MimeType && !paramsValid(p.Params) {
			sig = "c16:json-roundtrip-nonutf8-param"
		}
		r := fail(sig, "PostData does not survive json.Marshal/Unmarshal: text %d bytes kept=%v, mime kept=%v, params kept=%v", len(p.Text), q.Text == p.Text, q.MimeType == p.MimeType, paramsEq(q.Params, p.Params))
		r.Impl = impl
		return r
	}
	return core.Result{Impl: impl}
}

// jsoncontent <b64:0|1> <mime> <text>
func jsoncontent(t []string) core.Result {
	if len(t) != 4 {
		return core.Result{Impl: "bad-op"}
	}
	mime, ok1 := core.Unhex(t[2])
	text, ok3 := core.Unhex(t[3])
	if !ok1 || !ok3 {
		return core.Result{Impl: "bad-op"}
	}
	c := har.Content{Size: int64(len(text)), MimeType: string(mime), Text: text}
	if t[1] == "1" {
		c.Encoding = "base64"
	}
	b, err := json.Marshal(c)
	if err != nil {
		return core.Result{Impl: "marshal-error"}
	}
	kind, txt, ok := jsonForm(b)
	if !ok {
		return core.Result{Impl: "not-json"}
	}
	var q har.Content
	rt := "ok"
	if err := json.Unmarshal(b, &q); err != nil || q.MimeType != c.MimeType || !bytes.Equal(q.Text, c.Text) || q.Size != c.Size || q.Encoding != c.Encoding {
		rt = "lossy"
	}
	core.Count("jsoncontent:" + kind)
	impl := fmt.Sprintf("%s %s rt=%s", kind, core.HexS(txt), rt)
	if rt != "ok" {
		impl = kind + " ? rt=lossy"
	}
	impl += " obj=" + core.Hex(b)
	// the logger only produces base64 content; the plain form is exercised for the model tie only
	if rt != "ok" && t[1] == "1" {
		r := fail("c16:json-roundtrip-content", "Content does not survive json.Marshal/Unmarshal (%d bytes)", len(text))
		r.Impl = impl
		return r
	}
	return core.Result{Impl: impl}
}

// export: the whole log through the export handler and back.
func (e *ex) export() core.Result {
	rw := httptest.NewRecorder()
	req, _ := http.NewRequest("GET", "http://martian.proxy/logs", nil)
	har.NewExportHandler(e.log).ServeHTTP(rw, req)
	var back har.HAR
	if err := json.Unmarshal(rw.Body.Bytes(), &back); err != nil || back.Log == nil {
		return core.Result{SkipModel: true, Impl: "export-bad-json", Fail: fmt.Sprintf("export handler output does not parse: %v", err), Sig: "c16:export-json"}
	}
	orig := e.log.Export().Log.Entries
	core.Count("export")
	if d := e.changedSinceLogged(); d != "" {
		return core.Result{SkipModel: true, Impl: "export-differs", Fail: d, Sig: "c16:entry-changed-after-logging"}
	}
	if len(back.Log.Entries) != len(orig) {
		return core.Result{SkipModel: true, Impl: "export-differs", Fail: fmt.Sprintf("%d entries exported, %d parsed back", len(orig), len(back.Log.Entries)), Sig: "c16:export-roundtrip"}
	}
	for i, o := range orig {
		b := back.Log.Entries[i]
		if d, paramOnly := entryDiff(o, b); d != "" {
			sig := "c16:export-roundtrip"
			if paramOnly {
				sig = "c16:json-roundtrip-nonutf8-param"
			}
			return core.Result{SkipModel: true, Impl: "export-differs", Fail: fmt.Sprintf("entry %d differs after JSON round trip: %s", i, d), Sig: sig}
		}
	}
	return core.Result{SkipModel: true, Impl: fmt.Sprintf("export-ok %d", len(orig))}
}

func headersEq(a, b []har.Header) bool {
	if len(a) != len(b) {
		return false
	}
	for i := range a {
		if a[i] != b[i] {
			return false
		}
	}
	return true
}

func cookiesEq(a, b []har.Cookie) bool {
	if len(a) != len(b) {
		return false
	}
	for i := range a {
		x, y := a[i], b[i]
		if x.Name != y.Name || x.Value != y.Value || x.Path != y.Path || x.Domain != y.Domain || x.Expires8601 != y.Expires8601 || x.HTTPOnly != y.HTTPOnly || x.Secure != y.Secure {
			return false
		}
	}
	return true
}

// entryDiff compares an entry with its JSON round trip; paramOnly = the only loss is in post-data
// parameters that are not valid UTF-8.
func entryDiff(o, b *har.Entry) (string, bool) {
	switch {
	case o.ID != b.ID:
		return "id", false
	case !o.StartedDateTime.Equal(b.StartedDateTime) || o.Time != b.Time:
		return "times", false
	case (o.Request == nil) != (b.Request == nil) || (o.Response == nil) != (b.Response == nil):
		return "presence of request/response", false
	}
	if r, s := o.Request, b.Request; r != nil {
		switch {
		case r.Method != s.Method || r.URL != s.URL || r.HTTPVersion != s.HTTPVersion || r.BodySize != s.BodySize || r.HeadersSize != s.HeadersSize:
			return "request line/sizes", false
		case !headersEq(r.Headers, s.Headers):
			return fmt.Sprintf("request headers %v vs %v", r.Headers, s.Headers), false
		case !cookiesEq(r.Cookies, s.Cookies):
			return "request cookies", false
		case len(r.QueryString) != len(s.QueryString):
			return "query string", false
		case (r.PostData == nil) != (s.PostData == nil):
			return "postData presence", false
		}
		for i := range r.QueryString {
			if r.QueryString[i] != s.QueryString[i] {
				return "query string", false
			}
		}
		if r.PostData != nil {
			p, q := r.PostData, s.PostData
			if p.MimeType != q.MimeType {
				return "postData.mimeType", false
			}
			if p.Text != q.Text {
				return fmt.Sprintf("postData.text (%d bytes)", len(p.Text)), false
			}
			if !paramsEq(p.Params, q.Params) {
				return fmt.Sprintf("postData.params %q vs %q", p.Params, q.Params), !paramsValid(p.Params)
			}
		}
	}
	if r, s := o.Response, b.Response; r != nil {
		switch {
		case r.Status != s.Status || r.StatusText != s.StatusText || r.HTTPVersion != s.HTTPVersion || r.RedirectURL != s.RedirectURL || r.BodySize != s.BodySize || r.HeadersSize != s.HeadersSize:
			return "status line/sizes", false
		case !headersEq(r.Headers, s.Headers):
			return fmt.Sprintf("response headers %v vs %v", r.Headers, s.Headers), false
		case !cookiesEq(r.Cookies, s.Cookies):
			return "response cookies", false
		case (r.Content == nil) != (s.Content == nil):
			return "content presence", false
		}
		if r.Content != nil {
			c, d := r.Content, s.Content
			if c.Size != d.Size || c.MimeType != d.MimeType || c.Encoding != d.Encoding || !bytes.Equal(c.Text, d.Text) {
				return fmt.Sprintf("content (%d bytes, encoding %q)", len(c.Text), c.Encoding), false
			}
		}
	}
	return "", false
}

// query <hex raw>: the tie of Model/Query.lean: (&url.URL{RawQuery: raw}).Query(), names sorted, values
// of one name in order, against the model's parseQuery; and the independent reading queryOf.
func queryOp(t []string) core.Result {
	if len(t) != 2 {
		return core.Result{Impl: "bad-op"}
	}
	raw, ok := core.Unhex(t[1])
	if !ok {
		return core.Result{Impl: "bad-op"}
	}
	q := (&url.URL{RawQuery: string(raw)}).Query()
	var names []string
	for n := range q {
		names = append(names, n)
	}
	sort.Strings(names)
	var l []msggen.KV
	for _, n := range names {
		for _, v := range q[n] {
			l = append(l, msggen.KV{K: n, V: v})
		}
	}
	core.Count("query")
	impl := "query " + kvTok(l)
	if msggen.KVString(sortPairs(l)) != msggen.KVString(queryOf("?"+string(raw))) {
		return core.Result{Impl: impl, Sig: "c16:query-reader", Fail: fmt.Sprintf("url.ParseQuery reads %q as %s, the oracle's own reader as %s", raw, msggen.KVString(sortPairs(l)), msggen.KVString(queryOf("?"+string(raw))))}
	}
	return core.Result{Impl: impl}
}
