// Package c05: property C05 over the shared exchange-machine harness (internal/pxy).
package c05

import (
	"verif/harness/internal/core"
	"verif/harness/internal/pxy"
)

type P struct{}

func init() { core.Register(P{}) }

func (P) ID() string                                  { return "C05" }
func (P) NewExec() core.Exec                          { return pxy.New() }
func (P) Nontrivial(ops []string, impl []string) bool { return pxy.Nontrivial(ops, impl) }

func (P) Rule() string {
	return "case = one client connection to a MITM-configured proxy (plain, traffic-shaped, transparent-TLS, transparent-TLS+MITM listeners): optional plain request, CONNECT, then 1..6 requests inside the tunnel over a real TLS client session (origin-form, http:// and https:// absolute-form targets) or as plain HTTP, CONNECT inside CONNECT up to depth 3 with a handshake or cleartext at each level; every TLS layer of a connection has its own SNI, protocol version and ALPN outcome and req.TLS is compared with the client's view of the session the request was sent through; TLS origin and cleartext origin on different ports; modifier behaviours incl. hijack inside the tunnel; distinct by op-list hash; non-trivial when >= 2 tunnelled requests were served or a hijack occurred"
}

func (P) Gen(r *core.Rand, tier string, emit func([]string)) {
	n := 300
	if tier == "thorough" {
		n = 2000
	}
	pr := pxy.Profile{Modifiers: true, Tunnels: true}
	for i := 0; i < n; {
		c := pxy.GenCase(r, pr)
		if len(c) > 0 && len(c[0]) > 0 && !contains(c[0], "mitm") && !contains(c[0], "tls") {
			continue
		}
		emit(c)
		i++
	}
}

func contains(s, sub string) bool {
	for i := 0; i+len(sub) <= len(s); i++ {
		if s[i:i+len(sub)] == sub {
			return true
		}
	}
	return false
}
