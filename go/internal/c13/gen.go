package c13

import (
	"fmt"
	"strconv"
	"strings"

	"verif/harness/internal/core"
)

// Small alphabets so that expectations are met and unmet about equally often and filter
// conditions take both values.
var (
	methods  = []string{"GET", "POST", "PUT"}
	schemes  = []string{"http", "https"}
	hosts    = []string{"a.example", "b.example", "c.test"}
	paths    = []string{"/", "/x", "/x/y", "", "/X"}
	queries  = []string{"", "k=v", "k=w", "k=v&k=w", "j=1", "k=v&j=1", "k", "k=", "&&k=v&", "j=1&k=w", "K=v", "k=V"}
	hnames   = []string{"X-A", "X-B", "Accept"}
	hvalues  = []string{"1", "2", "", "a b", "A B"}
	statuses = []int{200, 204, 404, 500}
)

func pick(r *core.Rand, xs []string) string { return xs[r.Intn(len(xs))] }

// orEmpty: a configured part is a wildcard ("") about a third of the time.
func orEmpty(r *core.Rand, xs []string) string {
	if r.Chance(1, 3) {
		return ""
	}
	return pick(r, xs)
}

func genHdr(r *core.Rand) [][]string {
	var h [][]string
	for _, n := range hnames {
		switch r.Intn(6) {
		case 0, 1:
			h = append(h, []string{n, pick(r, hvalues)})
		case 2:
			h = append(h, []string{n, pick(r, hvalues), pick(r, hvalues)})
		case 3:
			if r.Chance(1, 4) {
				h = append(h, []string{n}) // key present with an empty value list
			}
		}
	}
	return h
}

// Methods of exchanges: mostly the ones verifiers and filters are configured with; now and then any
// other, CONNECT included (an API request is an API request whatever its method).
func genMethod(r *core.Rand, api bool) string {
	if r.Chance(1, 12) || (api && r.Chance(1, 3)) {
		return pick(r, []string{"CONNECT", "CONNECT", "DELETE", "HEAD", "OPTIONS", "PATCH"})
	}
	return caseVariant(r, pick(r, methods))
}

// caseVariant: now and then the same word in lower or mixed case. Methods, header values, URL parts
// and query values are compared exactly by the verifiers (method.Filter alone folds case).
func caseVariant(r *core.Rand, s string) string {
	switch r.Intn(8) {
	case 0:
		return strings.ToLower(s)
	case 1:
		if len(s) > 1 {
			return s[:1] + strings.ToLower(s[1:])
		}
	}
	return s
}

func genMsg(r *core.Rand, id int) *msg {
	api := r.Chance(3, 20)
	m := &msg{api: api, method: genMethod(r, api), scheme: pick(r, schemes), host: pick(r, hosts), path: pick(r, paths),
		qry: pick(r, queries), frag: "m" + strconv.Itoa(id), id: id, reqH: genHdr(r), resH: genHdr(r), status: statuses[r.Intn(len(statuses))]}
	return m
}

type treeGen struct {
	r     *core.Rand
	leafN int
	// watchBias: about a third of the leaves are watch probes (concurrent cases: is a reset ever
	// run while a verifier below martianhttp.Modifier / a fifo.Group is being evaluated?)
	watchBias bool
	// qsBias: a third of the leaves are querystring verifiers (malformed-input cases)
	qsBias bool
}

func (g *treeGen) scope(n *node) string {
	r := g.r
	if r.Chance(7, 10) {
		return "d"
	}
	q, s := implements(n)
	var ok []string
	ok = append(ok, "e")
	if q {
		ok = append(ok, "q", "q")
	}
	if s {
		ok = append(ok, "s", "s")
	}
	if q && s {
		ok = append(ok, "b", "b")
	}
	if r.Chance(1, 25) { // now and then a scope the modifier does not support
		return pick(r, []string{"q", "s", "b"})
	}
	return pick(r, ok)
}

func (g *treeGen) urlArgs() []string {
	r := g.r
	a := []string{orEmpty(r, schemes), orEmpty(r, hosts), orEmpty(r, paths), orEmpty(r, queries)}
	if r.Chance(1, 3) { // mostly-wildcard patterns match often
		a[r.Intn(4)] = ""
		a[r.Intn(4)] = ""
	}
	return a
}

func (g *treeGen) leaf() *node {
	r := g.r
	n := &node{typ: "L"}
	g.leafN++
	x := r.Intn(21)
	if g.watchBias && r.Chance(1, 3) {
		x = 20
	}
	if g.qsBias && r.Chance(1, 3) {
		x = 12
	}
	switch x {
	case 0, 1, 2:
		n.leaf, n.args = "status", []string{strconv.Itoa(statuses[r.Intn(len(statuses))])}
	case 3, 4, 5, 6:
		n.leaf, n.args = "header", []string{pick(r, hnames), pick(r, hvalues)}
	case 7, 8:
		n.leaf, n.args = "method", []string{caseVariant(r, pick(r, methods))}
		if r.Chance(1, 30) {
			n.args[0] = ""
		}
	case 9, 10, 11:
		n.leaf, n.args = "url", g.urlArgs()
	case 12, 13, 14:
		n.leaf, n.args = "qs", []string{pick(r, []string{"k", "j", "z"}), pick(r, []string{"", "v", "w", "1"})}
		if r.Chance(1, 30) {
			n.args[0] = ""
		}
	case 15, 16:
		n.leaf, n.args = "failure", []string{fmt.Sprintf("L%d", g.leafN)}
	case 17:
		n.leaf, n.args = "ping", g.urlArgs()
	case 18:
		n.leaf = "nop"
	case 19:
		n.leaf = "fail"
	case 20:
		n.leaf, n.args = "watch", []string{strconv.Itoa(g.leafN)}
	}
	n.scope = g.scope(n)
	core.Count("leaf:" + n.leaf)
	return n
}

func (g *treeGen) node(depth int) *node {
	r := g.r
	x := r.Intn(100)
	switch {
	case depth >= 4 || x < 52:
		return g.leaf()
	case x < 58:
		n := &node{typ: "P"}
		k := r.Range(0, 3)
		for i := 0; i < k; i++ {
			n.kids = append(n.kids, g.node(depth+1))
			n.prio = append(n.prio, r.Range(-1, 2))
		}
		n.scope = g.scope(n)
		core.Count("priority-group")
		return n
	case x < 81:
		n := &node{typ: "F", cond: pick(r, []string{"header", "header", "url", "method", "qs"})}
		switch n.cond {
		case "qs":
			n.args = []string{pick(r, []string{"k", "j", "z"}), pick(r, []string{"", "v", "w", "1"})}
		case "header":
			n.args = []string{pick(r, hnames), pick(r, hvalues)}
		case "url":
			n.args = g.urlArgs()
		case "method":
			n.args = []string{pick(r, []string{"GET", "POST", "get", "Put", ""})}
		}
		n.kids = []*node{g.node(depth + 1)}
		if r.Chance(2, 3) {
			n.kids = append(n.kids, g.node(depth+1))
			core.Count("filter:with-else")
		} else {
			core.Count("filter:no-else")
		}
		n.scope = g.scope(n)
		return n
	default:
		n := &node{typ: "G", agg: r.Chance(1, 3)}
		k := r.Range(0, 4)
		for i := 0; i < k; i++ {
			n.kids = append(n.kids, g.node(depth+1))
		}
		n.scope = g.scope(n)
		core.Count("group:agg=" + b01(n.agg))
		return n
	}
}

func genTree(r *core.Rand) *node { return genTreeB(r, false) }

// genTreeB with watch: trees for the concurrent cases. Half of them have a filter or a bare leaf at
// the root (no fifo.Group lock between martianhttp.Modifier and the verifiers).
func genTreeB(r *core.Rand, watch bool) *node {
	g := &treeGen{r: r, watchBias: watch}
	if watch && r.Bool() {
		for i := 0; i < 8; i++ {
			if n := g.node(0); n.typ == "F" || (n.typ == "L" && n.leaf == "watch") {
				n.scope = "d"
				return n
			}
		}
	}
	// the root is a group or a filter most of the time
	for i := 0; i < 4; i++ {
		n := g.node(0)
		if n.typ != "L" || r.Chance(1, 6) {
			return n
		}
	}
	n := &node{typ: "G", scope: "d", agg: r.Bool()}
	for i := 0; i < 4; i++ {
		n.kids = append(n.kids, g.node(1))
	}
	return n
}

// reconfTree: what a re-POST or a Set*Modifier installs over a tree that has recorded failures: often
// something one-sided or no verifier at all (the handlers must not keep reading the tree it replaces).
func reconfTree(r *core.Rand) *node {
	g := &treeGen{r: r}
	switch r.Intn(5) {
	case 0:
		return &node{typ: "L", scope: "d", leaf: pick(r, []string{"nop", "fail"})}
	case 1:
		return &node{typ: "L", scope: "d", leaf: "status", args: []string{"404"}} // response side only
	case 2:
		return &node{typ: "L", scope: "d", leaf: "method", args: []string{"PUT"}} // request side only
	case 3:
		n := g.node(1)
		n.scope = pick(r, []string{"q", "s", "e", "d"})
		return n
	}
	return genTree(r)
}

func treeOp(r *core.Rand, n *node) string {
	w := "m"
	if r.Chance(1, 3) {
		w = "d"
	}
	return "tree " + w + " " + strings.Join(n.tokens(), " ")
}

func genCase(r *core.Rand, conc bool) []string {
	ops := []string{treeOp(r, genTreeB(r, conc))}
	id := 0
	n := r.Range(8, 40)
	for i := 0; i < n; i++ {
		x := r.Intn(100)
		switch {
		case x < 62:
			m := genMsg(r, id)
			ops = append(ops, m.op())
			id++
			// identical repeats of the exchange (same URL, same headers, same id): in a row, with a
			// query in between, and straddling a reset — each repetition is an evaluation of its own
			if r.Chance(1, 7) {
				rep := fmt.Sprintf("rep %d %s", r.Range(1, 4), strings.TrimPrefix(m.op(), "t "))
				switch r.Intn(4) {
				case 0:
					ops = append(ops, "r", rep)
				case 1:
					ops = append(ops, "q", rep)
				case 2:
					ops = append(ops, rep, "r", rep)
				default:
					ops = append(ops, rep)
				}
				core.Count("repeat:sequences")
			}
		case x < 80:
			ops = append(ops, "q")
		case x < 92:
			ops = append(ops, "r")
		case x < 93:
			ops = append(ops, "qbad")
		case x < 94:
			ops = append(ops, "rbad")
		case x < 95:
			ops = append(ops, "r", "q")
		default:
			switch r.Intn(4) {
			case 0:
				ops = append(ops, treeOp(r, genTree(r)))
			case 1, 2:
				ops = append(ops, "tree r "+strings.Join(reconfTree(r).tokens(), " "), "q")
			default:
				ops = append(ops, "set "+r.Pick("q", "s")+" "+strings.Join(reconfTree(r).tokens(), " "))
			}
		}
	}
	if conc {
		ops = append(ops, fmt.Sprintf("ovl %d", r.U64()%1000000), "q")
		ops = append(ops, fmt.Sprintf("conc %d %s", r.U64()%1000000, r.Pick("q", "q", "r")), "q")
	} else {
		ops = append(ops, "q", "r", "q")
	}
	return ops
}

// Malformed and odd inputs: what a client can send but a well-behaved one would not. The model's domain
// excludes them (the driver answers out-of-model from the first such exchange on), the ledger oracle does
// not: one evaluation, met or unmet, yields at most one error whatever the input looks like.
var (
	badQueries = []string{"x=1;y=2", "k=v;j=1", "j=1;k=v", "bad=%zz", "k=%zz", "%zz=1", "k=v&bad=%zz", "k=w&x=1;y=2", "bad=%zz&k=v",
		"k=%76", "k=a+b", "=v", "=", "k=v&=x", "%", "k=%", "k=v&%", ";", "k;", "k=v;", "j=%4", "k=%zz&k=v", "z=1&bad=%", "k=w;k=v"}
	oddValues = []string{"1, 2", " 1", "1 ", "a,b", "\xe9", "1\t", "", "0"}
	oddPaths  = []string{"/a b", "/%41", "//x", "/x/", "/x;p=1", "/\xe9"}
)

func genMsgMal(r *core.Rand, id int) *msg {
	m := genMsg(r, id)
	if r.Chance(1, 2) {
		m.qry = pick(r, badQueries)
		core.Count("malformed:query")
	}
	if r.Chance(1, 4) {
		h := &m.reqH
		if r.Bool() {
			h = &m.resH
		}
		ent := []string{pick(r, []string{"X-C", "X-A", "X-B"}), pick(r, oddValues)}
		if r.Chance(1, 3) {
			ent = append(ent, pick(r, oddValues))
		}
		replaced := false
		for i, e := range *h {
			if e[0] == ent[0] {
				(*h)[i], replaced = ent, true
			}
		}
		if !replaced {
			*h = append(*h, ent)
		}
		core.Count("malformed:header-value")
	}
	if r.Chance(1, 6) {
		m.path = pick(r, oddPaths)
		core.Count("malformed:path")
	}
	return m
}

func genCaseMal(r *core.Rand) []string {
	g := &treeGen{r: r, qsBias: true}
	n := g.node(0)
	if n.typ == "L" {
		k := &node{typ: "G", scope: "d", agg: r.Bool()}
		for i := 0; i < 3; i++ {
			k.kids = append(k.kids, g.node(1))
		}
		n = k
	}
	ops := []string{treeOp(r, n)}
	cnt := r.Range(6, 24)
	for i := 0; i < cnt; i++ {
		switch x := r.Intn(100); {
		case x < 70:
			ops = append(ops, genMsgMal(r, i).op())
		case x < 88:
			ops = append(ops, "q")
		default:
			ops = append(ops, "r")
		}
	}
	return append(ops, "q", "r", "q")
}

// Long histories between resets: n exchanges that fail the same verifiers; per-verifier counts and
// flattened totals around the given size. Reports are compared by count and hash (op qh).
func genLong(r *core.Rand, total int) []string {
	mk := func(method string, status int, id int) *msg {
		return &msg{method: method, scheme: "http", host: "a.example", path: "/x", frag: "m" + strconv.Itoa(id), id: id, status: status}
	}
	tb := func(n int, m *msg) string { return "tb " + strconv.Itoa(n) + " " + strings.TrimPrefix(m.op(), "t ") }
	leaf := func(kind string, args ...string) *node { return &node{typ: "L", scope: "d", leaf: kind, args: args} }
	var ops []string
	switch r.Intn(3) {
	case 0: // k verifiers in a group share the total
		k := r.Range(2, 4)
		g := &node{typ: "G", scope: "d", agg: r.Bool()}
		for i := 0; i < k; i++ {
			g.kids = append(g.kids, leaf("failure", "L"+strconv.Itoa(i)))
		}
		ops = []string{treeOp(r, g), tb(total/k+1, mk("GET", 200, 0)), "qh"}
	case 1: // one verifier alone
		ops = []string{treeOp(r, leaf("failure", "L0")), tb(total+r.Range(1, 40), mk("GET", 200, 0)), "qh"}
	default: // both branches of a filter, request and response side
		f := &node{typ: "F", scope: "d", cond: "method", args: []string{"GET"}, kids: []*node{leaf("status", "404"), leaf("header", "X-A", "1")}}
		a := total/3 + 1
		ops = []string{treeOp(r, f), tb(a, mk("GET", 200, 0)), "qh", tb(a, mk("POST", 200, a)), "qh"}
	}
	core.Count("long-history:cases")
	return append(ops, "r", "qh")
}

// genE2E: one end-to-end case (see e2e.go): everything is a real HTTP request through a real proxy.
func genE2E(r *core.Rand) []string {
	ops := []string{"tree e " + strings.Join(genTree(r).tokens(), " ")}
	id := 0
	n := r.Range(8, 30)
	for i := 0; i < n; i++ {
		x := r.Intn(100)
		switch {
		case x < 60:
			m := genMsg(r, id)
			id++
			m.api, m.scheme = false, "http"
			if m.method == "CONNECT" { // a CONNECT on the wire opens a tunnel; it is an exchange of the Modify*-driven tier only
				m.method = "GET"
			}
			if m.path == "" {
				m.path = "/"
			}
			for _, h := range []*[][]string{&m.reqH, &m.resH} {
				var keep [][]string
				for _, e := range *h {
					if len(e) >= 2 {
						keep = append(keep, e)
					}
				}
				*h = keep
			}
			ops = append(ops, m.op())
		case x < 76:
			ops = append(ops, "q")
		case x < 86:
			ops = append(ops, "r")
		case x < 90:
			ops = append(ops, "cget")
		case x < 92:
			ops = append(ops, "qbad")
		case x < 94:
			ops = append(ops, "rbad")
		case x < 97:
			ops = append(ops, "tree r "+strings.Join(reconfTree(r).tokens(), " "), "q")
		default:
			ops = append(ops, "r", "q")
		}
	}
	return append(ops, "q", "r", "q")
}

func (P) Gen(r *core.Rand, tier string, emit func([]string)) {
	// core.NewRand(seed) starts at seed*γ and steps by γ, so the streams of consecutive seeds are one
	// draw apart and re-synchronise; restart from a mixed value to make seeds independent.
	r = core.NewRand(r.U64())
	nSeq, nConc, nURL, nE2E := 450, 60, 6, 30
	if tier == "thorough" {
		nSeq, nConc, nURL, nE2E = 12000, 1500, 100, 600
	}
	for i := 0; i < nSeq; i++ {
		emit(genCase(r, false))
	}
	for i := 0; i < nConc; i++ {
		emit(genCase(r, true))
	}
	for i := 0; i < nE2E; i++ {
		emit(genE2E(r))
	}
	nMal, longs := 120, []int{13000}
	if tier == "thorough" {
		nMal, longs = 3000, []int{10000, 13000, 16384, 20000, 32768, 65536}
	}
	for i := 0; i < nMal; i++ {
		emit(genCaseMal(r))
	}
	for _, t := range longs {
		emit(genLong(r, t))
	}
	if tier != "thorough" {
		emit(genLong(r, 10000)) // the boundary itself, a second shape
	}
	for i := 0; i < nURL; i++ {
		var ops []string
		for j := 0; j < 25; j++ {
			ops = append(ops, strings.Join([]string{"urlstr", core.HexS(orEmpty(r, schemes)), core.HexS(orEmpty(r, hosts)),
				core.HexS(pick(r, append([]string{"x", "x/y"}, paths...))), core.HexS(orEmpty(r, queries)), core.HexS(orEmpty(r, []string{"m1", "f"}))}, " "))
		}
		emit(ops)
	}
	if raceInTier(tier) {
		for _, m := range []string{"A", "B", "P", "Q"} {
			emit([]string{"race " + m})
		}
	}
}
