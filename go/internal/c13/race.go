package c13

import (
	"bytes"
	"flag"
	"fmt"
	"os"
	"os/exec"
	"path/filepath"
	"regexp"
	"sort"
	"strings"
	"sync"
	"sync/atomic"
	"time"

	"verif/harness/internal/core"
)

// The race tier: cmd/c13race is this package's RaceMain built with `go build -race`. It drives
// a fixed tree that holds verifiers directly under filters (no fifo.Group lock above them) and
// under groups, with 8 goroutines of traffic racing queries and resets.
//
//	mode A: every verifier kind except pingback; the tree is installed through martianhttp.Modifier,
//	        as cmd/proxy wires it. Its RWMutex makes a reset exclusive with traffic; queries run
//	        concurrently with traffic. ANY race report is a violation.
//	mode B: the same tree, but the parse result (a filter) is handed to the handlers directly.
//	        Nothing orders `v.err = martian.NewMultiError()` in Reset*Verifications with `v.err.Add` /
//	        `v.err.Empty` in traffic and queries: reports with a verifier's Reset*Verifications as
//	        one of the two accesses are the known finding F13c-swap; any other report is a violation.
//	mode P / Q: pingback verifiers only, behind martianhttp.Modifier / wired directly. pingback keeps a
//	        bare `err` field: reports whose two accesses are both pingback.(*Verifier) methods have
//	        their own signature (repaired by repo-patches/C13-fix-pingback-lock.patch); others violate.

func raceTree(withPing, onlyPing bool) *node {
	leaf := func(kind string, args ...string) *node { return &node{typ: "L", scope: "d", leaf: kind, args: args} }
	all := func() []*node {
		var l []*node
		if !onlyPing {
			l = []*node{leaf("status", "200"), leaf("header", "X-A", "1"), leaf("method", "GET"), leaf("url", "http", "", "/x", ""),
				leaf("qs", "k", "v"), leaf("failure", "L1")}
		}
		if withPing {
			l = append(l, leaf("ping", "", "a.example", "", ""), leaf("ping", "", "", "", ""))
		}
		return l
	}
	group := func(agg bool, kids ...*node) *node { return &node{typ: "G", scope: "d", agg: agg, kids: kids} }
	filter := func(cond string, args []string, kids ...*node) *node {
		return &node{typ: "F", scope: "d", cond: cond, args: args, kids: kids}
	}
	// verifiers directly under filters on both branches (no group lock above them), and under groups
	var direct, direct2 *node
	if onlyPing {
		direct = filter("method", []string{"GET"}, leaf("ping", "http", "", "", ""), leaf("ping", "", "", "/x", ""))
		direct2 = filter("method", []string{"PUT"}, leaf("ping", "", "b.example", "", ""), leaf("ping", "", "", "", "k=v"))
	} else {
		direct = filter("method", []string{"GET"},
			filter("url", []string{"", "a.example", "", ""}, leaf("header", "X-B", "2"), leaf("status", "404")),
			filter("header", []string{"X-B", "1"}, leaf("failure", "L2"), leaf("method", "POST")))
		direct2 = filter("method", []string{"PUT"}, leaf("qs", "j", "1"), leaf("url", "", "b.example", "", ""))
	}
	return filter("header", []string{"X-A", "1"},
		filter("url", []string{"http", "", "", ""}, group(false, all()...), direct),
		filter("url", []string{"", "", "/x", ""}, direct2, group(true, all()...)))
}

// RaceMain is the body of cmd/c13race.
func RaceMain() {
	mode := flag.String("mode", "A", "A/P: through martianhttp.Modifier, B/Q: wired directly; P/Q: pingback verifiers only")
	dur := flag.Duration("dur", 400*time.Millisecond, "how long to run")
	flag.Parse()
	w := "m"
	if *mode == "B" || *mode == "Q" {
		w = "d"
	}
	im := install(w, raceTree(*mode == "P" || *mode == "Q", *mode == "P" || *mode == "Q"), nil)
	if im == nil {
		fmt.Println("configuration rejected")
		os.Exit(3)
	}
	var stop atomic.Bool
	var wg sync.WaitGroup
	for g := 0; g < 8; g++ {
		wg.Add(1)
		go func(g int) {
			defer wg.Done()
			r := core.NewRand(uint64(g) + 77)
			for k := 0; !stop.Load(); k++ {
				im.traffic(genMsg(r, g*100000+k))
			}
		}(g)
	}
	deadline := time.Now().Add(*dur)
	q, rs := 0, 0
	for i := 0; time.Now().Before(deadline); i++ {
		if _, problem := im.query(); problem != "" {
			fmt.Println("handler problem:", problem)
			os.Exit(4)
		}
		q++
		if i%2 == 1 {
			im.reset()
			rs++
		}
		time.Sleep(200 * time.Microsecond)
	}
	stop.Store(true)
	wg.Wait()
	fmt.Printf("c13race mode=%s queries=%d resets=%d\n", *mode, q, rs)
}

func raceInTier(tier string) bool {
	if v := os.Getenv("VERIF_C13_RACE"); v != "" {
		return v == "1"
	}
	return true
}

var (
	raceOnce   sync.Once
	raceBin    string
	raceBuildE string
)

func outDir() string {
	if f := flag.Lookup("out"); f != nil && f.Value.String() != "" {
		return f.Value.String()
	}
	return ""
}

func buildRace() {
	exe, err := os.Executable()
	if err != nil {
		raceBuildE = err.Error()
		return
	}
	goDir := filepath.Join(filepath.Dir(filepath.Dir(exe)), "go")
	out := outDir()
	if out == "" {
		raceBuildE = "no -out directory"
		return
	}
	modfile := filepath.Join(out, "go.mod")
	if _, err := os.Stat(modfile); err != nil {
		raceBuildE = "no " + modfile
		return
	}
	raceBin = filepath.Join(out, "c13race")
	cmd := exec.Command("go", "build", "-race", "-modfile", modfile, "-tags", "verif", "-o", raceBin, "./cmd/c13race")
	cmd.Dir = goDir
	cmd.Env = append(os.Environ(), "CGO_ENABLED=1", "GOFLAGS=-mod=mod", "GOPROXY=off", "GOSUMDB=off", "GOTOOLCHAIN=local")
	t0 := time.Now()
	b, err := cmd.CombinedOutput()
	core.Stats["race:build-ms"] = int(time.Since(t0).Milliseconds())
	if err != nil {
		s := string(b)
		if len(s) > 400 {
			s = s[len(s)-400:]
		}
		raceBuildE = err.Error() + ": " + s
	}
}

var accessRe = regexp.MustCompile(`(?m)^(?:Write|Read|Previous write|Previous read|Atomic write|Atomic read|Previous atomic write|Previous atomic read) at [^\n]*\n  ([^\s]+)\(\)`)

var swapFrameRe = regexp.MustCompile(`\.\(\*[vV]erifier\)\.Reset(Request|Response)Verifications$|^\.NewMultiError$`)

var raceModes = map[string]string{"A": "tree behind martianhttp.Modifier", "B": "tree wired directly to the handlers",
	"P": "pingback verifiers behind martianhttp.Modifier", "Q": "pingback verifiers wired directly to the handlers"}

// raceOp runs the race-instrumented driver and classifies its reports by the two accessing functions.
func raceOp(mode string) core.Result {
	raceOnce.Do(buildRace)
	if raceBuildE != "" {
		core.Notes["race"] = "race tier skipped (cannot build with -race): " + raceBuildE
		core.Count("race:skipped")
		return core.Result{Impl: "race skipped", SkipModel: true}
	}
	cmd := exec.Command(raceBin, "-mode", mode, "-dur", "400ms")
	cmd.Env = append(os.Environ(), "GORACE=halt_on_error=0")
	var out bytes.Buffer
	cmd.Stdout, cmd.Stderr = &out, &out
	done := make(chan error, 1)
	if err := cmd.Start(); err != nil {
		core.Notes["race"] = "race tier skipped: " + err.Error()
		return core.Result{Impl: "race skipped", SkipModel: true}
	}
	go func() { done <- cmd.Wait() }()
	select {
	case <-done:
	case <-time.After(25 * time.Second):
		cmd.Process.Kill()
		return core.Result{Impl: "race hang", SkipModel: true, Fail: "race driver did not finish", Sig: "hang"}
	}
	text := out.String()
	if !strings.Contains(text, "c13race mode="+mode) {
		if len(text) > 600 {
			text = text[:600]
		}
		return core.Result{Impl: "race crashed", SkipModel: true, Fail: "race driver failed: " + text, Sig: "c13:race-driver"}
	}
	reports := strings.Split(text, "WARNING: DATA RACE")[1:]
	core.Stats["race:"+mode+":reports"] += len(reports)
	swap, ping, other := 0, 0, ""
	for _, rep := range reports {
		var acc []string
		for _, m := range accessRe.FindAllStringSubmatch(rep, -1) {
			acc = append(acc, strings.TrimPrefix(m[1], "github.com/google/martian/v3"))
		}
		// the swap: a verifier's Reset*Verifications is on one of the two stacks (the access itself, or
		// the initialisation of the fresh MultiError it allocates)
		// (only when that is where the access IS: a race inside a method the reset calls, e.g. an
		// unlocked MultiError.Reset, is not this finding)
		isSwap := false
		for _, f := range acc {
			if swapFrameRe.MatchString(f) {
				isSwap = true
			}
		}
		allPing := len(acc) > 0
		for _, f := range acc {
			if !strings.HasPrefix(f, "/pingback.(*Verifier).") {
				allPing = false
			}
		}
		switch {
		case allPing && (mode == "P" || mode == "Q"):
			ping++
		case isSwap && !allPing && mode == "B":
			swap++
		case other == "":
			sort.Strings(acc)
			other = strings.Join(acc, " / ")
		}
	}
	core.Stats["race:"+mode+":reset-swap-reports"] += swap
	core.Stats["race:"+mode+":pingback-reports"] += ping
	switch {
	case other != "":
		return core.Result{Impl: "race " + mode, SkipModel: true, Sig: "c13:race",
			Fail: fmt.Sprintf("data race (mode %s: %s) between %s", mode, raceModes[mode], other)}
	case ping > 0:
		return core.Result{Impl: "race " + mode, SkipModel: true, Sig: "c13:race-pingback-err-unlocked",
			Fail: fmt.Sprintf("%d data race report(s) (mode %s: %s): pingback.Verifier reads and writes its err field without a lock", ping, mode, raceModes[mode])}
	case swap > 0:
		return core.Result{Impl: "race " + mode, SkipModel: true, Sig: "c13:race-reset-swap-unlocked-root",
			Fail: fmt.Sprintf("%d data race report(s): a verifier's Reset*Verifications replaces its *MultiError while traffic/queries read the field; the tree is wired to the handlers without a locking parent", swap)}
	}
	return core.Result{Impl: "race " + mode, SkipModel: true}
}
