package c13

// End-to-end tier (wiring "e"): a real martian.Proxy on a socket, wired exactly as cmd/proxy
// wires it — top-level fifo.Group with a servemux.Filter that forwards API traffic
// (api.Forwarder marks the context as an API request), the httpspec stack, martianhttp.Modifier in
// its inner group, verify.Handler / verify.ResetHandler / the configure endpoint on a ServeMux
// served by a real API server under the host name martian.proxy. The configuration is POSTed
// to http://martian.proxy/configure THROUGH the proxy, exchanges are real HTTP requests through
// the proxy to a real origin server, queries and resets are GET/POST to
// http://martian.proxy/verify[/reset] through the proxy. Those API requests themselves flow
// through the installed verifier tree (request and response side) and must never be counted.
//
// What a verifier can see differs from the Modify*-driven tier in two respects only: a URL
// fragment is never on the wire (so the exchange id cannot ride there: the ledger oracle compares
// per verifier kind instead of per exchange; the model comparison stays message for message), and
// an empty path arrives as "/".

import (
	"bytes"
	"context"
	"fmt"
	"io"
	"net"
	"net/http"
	"net/url"
	"strconv"
	"strings"
	"time"

	"github.com/google/martian/v3"
	mapi "github.com/google/martian/v3/api"
	"github.com/google/martian/v3/fifo"
	"github.com/google/martian/v3/httpspec"
	"github.com/google/martian/v3/martianhttp"
	"github.com/google/martian/v3/servemux"
	"github.com/google/martian/v3/verify"

	"verif/harness/internal/core"
)

const apiHost = "martian.proxy"

type e2eWorld struct {
	p          *martian.Proxy
	pl, al, ol net.Listener
	apiSrv     *http.Server
	originSrv  *http.Server
	tr         *http.Transport
	client     *http.Client
}

func listenLocal() (net.Listener, error) { return net.Listen("tcp", "127.0.0.1:0") }

func newE2E() (*e2eWorld, error) {
	w := &e2eWorld{}
	var err error
	if w.pl, err = listenLocal(); err != nil {
		return nil, err
	}
	if w.al, err = listenLocal(); err != nil {
		w.pl.Close()
		return nil, err
	}
	if w.ol, err = listenLocal(); err != nil {
		w.pl.Close()
		w.al.Close()
		return nil, err
	}
	apiAddr := w.al.Addr().(*net.TCPAddr)
	originAddr := w.ol.Addr().String()

	// origin: status and response headers are dictated by the X-C13-Ctl request header
	w.originSrv = &http.Server{ReadHeaderTimeout: 10 * time.Second, Handler: http.HandlerFunc(func(rw http.ResponseWriter, req *http.Request) {
		io.Copy(io.Discard, req.Body)
		ctl := strings.SplitN(req.Header.Get("X-C13-Ctl"), ";", 2)
		status, _ := strconv.Atoi(ctl[0])
		if status == 0 {
			status = 599 // a request that did not come from the harness
		}
		if len(ctl) == 2 {
			if h, ok := parseHdr(ctl[1]); ok {
				for _, e := range h {
					rw.Header()[e[0]] = append([]string{}, e[1:]...)
				}
			}
		}
		if len(req.Header["Warning"]) > 0 {
			rw.Header().Set("X-C13-Reqwarn", "1")
		}
		rw.WriteHeader(status)
	})}
	go w.originSrv.Serve(w.ol)

	// the proxy, as in cmd/proxy/main.go
	mux := http.NewServeMux()
	w.p = martian.NewProxy()
	dialer := &net.Dialer{Timeout: 5 * time.Second}
	w.p.SetRoundTripper(&http.Transport{
		DialContext: func(ctx context.Context, network, addr string) (net.Conn, error) {
			if addr == apiAddr.String() {
				return dialer.DialContext(ctx, network, addr)
			}
			return dialer.DialContext(ctx, network, originAddr) // every origin host name resolves to the origin server
		},
		ResponseHeaderTimeout: 10 * time.Second,
		DisableCompression:    true,
	})
	w.p.SetTimeout(10 * time.Second)
	stack, fg := httpspec.NewStack("c13")
	topg := fifo.NewGroup()
	apif := servemux.NewFilter(mux)
	apif.SetRequestModifier(mapi.NewForwarder("127.0.0.1", apiAddr.Port))
	topg.AddRequestModifier(apif)
	topg.AddRequestModifier(stack)
	topg.AddResponseModifier(stack)
	w.p.SetRequestModifier(topg)
	w.p.SetResponseModifier(topg)
	m := martianhttp.NewModifier()
	fg.AddRequestModifier(m)
	fg.AddResponseModifier(m)
	mux.Handle(apiHost+"/configure", m)
	vh := verify.NewHandler()
	vh.SetRequestVerifier(m)
	vh.SetResponseVerifier(m)
	mux.Handle(apiHost+"/verify", vh)
	rh := verify.NewResetHandler()
	rh.SetRequestVerifier(m)
	rh.SetResponseVerifier(m)
	mux.Handle(apiHost+"/verify/reset", rh)
	w.apiSrv = &http.Server{ReadHeaderTimeout: 10 * time.Second, Handler: mux}
	go w.apiSrv.Serve(w.al)
	go w.p.Serve(w.pl)

	pu := &url.URL{Scheme: "http", Host: w.pl.Addr().String()}
	w.tr = &http.Transport{Proxy: http.ProxyURL(pu), DisableCompression: true, ResponseHeaderTimeout: 15 * time.Second}
	w.client = &http.Client{Transport: w.tr, Timeout: 20 * time.Second,
		CheckRedirect: func(*http.Request, []*http.Request) error { return http.ErrUseLastResponse }}
	return w, nil
}

func (w *e2eWorld) close() {
	w.tr.CloseIdleConnections()
	w.pl.Close()
	done := make(chan struct{})
	go func() { w.p.Close(); close(done) }()
	select {
	case <-done:
	case <-time.After(3 * time.Second):
		core.Count("e2e:proxy-close-timeout")
	}
	w.apiSrv.Close()
	w.originSrv.Close()
}

// apiCall sends one request to the API host through the proxy.
func (w *e2eWorld) apiCall(method, path string, body []byte) (int, http.Header, []byte, error) {
	var rd io.Reader
	if body != nil {
		rd = bytes.NewReader(body)
	}
	req, err := http.NewRequest(method, "http://"+apiHost+path, rd)
	if err != nil {
		return 0, nil, nil, err
	}
	res, err := w.client.Do(req)
	if err != nil {
		return 0, nil, nil, err
	}
	defer res.Body.Close()
	b, err := io.ReadAll(io.LimitReader(res.Body, 64<<20))
	return res.StatusCode, res.Header, b, err
}

// exchange sends one request through the proxy to the origin; reqErr/resErr: did the proxy's
// request / response modifiers return an error (the proxy then attaches a Warning header).
func (w *e2eWorld) exchange(m *msg) (reqErr, resErr bool, err error) {
	u := &url.URL{Scheme: m.scheme, Host: m.host, Path: m.path, RawQuery: m.qry}
	req := &http.Request{Method: m.method, URL: u, Host: m.host, Header: toHeader(m.reqH), Proto: "HTTP/1.1", ProtoMajor: 1, ProtoMinor: 1}
	req.Header.Set("X-C13-Ctl", strconv.Itoa(m.status)+";"+hdrToken(m.resH))
	res, err := w.client.Do(req)
	if err != nil {
		return false, false, err
	}
	defer res.Body.Close()
	io.Copy(io.Discard, res.Body)
	if res.StatusCode != m.status {
		return false, false, fmt.Errorf("status %d, origin was told %d", res.StatusCode, m.status)
	}
	return res.Header.Get("X-C13-Reqwarn") == "1", len(res.Header["Warning"]) > 0, nil
}

// wireable: can the exchange be put on the wire unchanged (see the file comment).
func wireable(m *msg) bool {
	if m.api || m.scheme != "http" || m.path == "" || m.host == "" || m.method == "CONNECT" {
		return false
	}
	for _, h := range [][][]string{m.reqH, m.resH} {
		for _, e := range h {
			if len(e) < 2 {
				return false
			}
		}
	}
	return true
}
