// Package c13: verification reports exactly the unmet expectations since the last reset.
//
// Op grammar (tokens separated by one space; strings hex-encoded with core.Hex, "-" = empty):
//
//	tree <m|d|e> NODE         install a configuration (m: through martianhttp.Modifier as cmd/proxy does,
//	                          d: the parse result wired to the handlers directly,
//	                          e: end to end — POSTed to http://martian.proxy/configure through a real proxy
//	                          wired as cmd/proxy; from then on t/q/r/qbad/rbad/cget are real HTTP requests
//	                          through that proxy, see e2e.go)
//	tree r NODE               re-POST a configuration to the martianhttp.Modifier in force (wiring m or e; otherwise as m):
//	                          the handlers must from then on read the NEW tree only
//	set <q|s> NODE            Modifier.SetRequestModifier / SetResponseModifier with that side of NODE (wiring m)
//	cget                      GET the configure endpoint (an API request passing through the tree)
//	  NODE  := L <scope> LEAF | G <scope> <agg> <n> NODE*n | F <scope> COND <hasElse> NODE [NODE] |
//	           P <scope> <n> (<priority> NODE)*n        (priority.Group: no verifier, hides what is below it)
//	  LEAF  := status <n> | header <name> <value> | method <m> | url <s> <h> <p> <q> | qs <k> <v> |
//	           failure <msg> | ping <s> <h> <p> <q> | nop | fail
//	  COND  := header <name> <value> | url <s> <h> <p> <q> | method <m> | qs <k> <v>
//	  scope := d (absent) | e ([]) | q | s | b
//	t <api> <method> <scheme> <host> <path> <query> <frag> <reqhdrs> <status> <reshdrs>
//	                          one exchange: ModifyRequest then ModifyResponse; frag is the message id "m<k>"
//	rep <k> <t-args>          the SAME exchange k more times (identical, id included; it may have occurred before, also
//	                          before a reset): every repetition is an evaluation of its own
//	tb <n> <t-args>           n exchanges that differ in their id only (frag m<k>, m<k+1>, …): long histories
//	qh                        GET the verification handler      -> qh <n> <FNV-1a 64 of the messages joined by \n>
//	q                         GET the verification handler      -> q <n> <message>*n
//	r                         POST the reset handler            -> r 204
//	qbad / rbad               wrong method on the handlers      -> 405, nothing changes
//	ovl <seed>                overlapping queries: query 1 is held open mid-walk at a watch probe, exchanges run,
//	                          query 2 starts and must report every failure of an exchange completed before it began
//	conc <seed> <q|r>         8 goroutines of traffic racing queries (and resets); oracle only; ends with a reset
//	race <A|B|P|Q>              race-detector run of cmd/c13race (oracle only)
//	urlstr <s> <h> <p> <q> <f> url.URL.String() against the model's urlString
package c13

import (
	"bytes"
	"encoding/json"
	"fmt"
	"hash/fnv"
	"io"
	"net/http"
	"net/http/httptest"
	"net/url"
	"regexp"
	"runtime"
	"sort"
	"strconv"
	"strings"
	"sync"
	"sync/atomic"
	"time"

	"github.com/google/martian/v3"
	mapi "github.com/google/martian/v3/api"
	_ "github.com/google/martian/v3/failure"
	_ "github.com/google/martian/v3/fifo"
	_ "github.com/google/martian/v3/header"
	"github.com/google/martian/v3/martianhttp"
	_ "github.com/google/martian/v3/martianurl"
	_ "github.com/google/martian/v3/method"
	"github.com/google/martian/v3/parse"
	_ "github.com/google/martian/v3/pingback"
	_ "github.com/google/martian/v3/priority"
	"github.com/google/martian/v3/proxyutil"
	_ "github.com/google/martian/v3/querystring"
	_ "github.com/google/martian/v3/status"
	"github.com/google/martian/v3/verify"

	"verif/harness/internal/core"
)

type P struct{}

var apiForwarder = mapi.NewForwarder("127.0.0.1", 1)

func init() {
	core.Register(P{})
	parse.Register("c13.Nop", func(b []byte) (*parse.Result, error) {
		var msg struct {
			Scope []parse.ModifierType `json:"scope"`
		}
		if err := json.Unmarshal(b, &msg); err != nil {
			return nil, err
		}
		return parse.NewResult(probe{false}, msg.Scope)
	})
	parse.Register("c13.Fail", func(b []byte) (*parse.Result, error) {
		var msg struct {
			Scope []parse.ModifierType `json:"scope"`
		}
		if err := json.Unmarshal(b, &msg); err != nil {
			return nil, err
		}
		return parse.NewResult(probe{true}, msg.Scope)
	})
	parse.Register("c13.Watch", func(b []byte) (*parse.Result, error) {
		var msg struct {
			ID    int                  `json:"id"`
			Scope []parse.ModifierType `json:"scope"`
		}
		if err := json.Unmarshal(b, &msg); err != nil {
			return nil, err
		}
		w := &watch{id: msg.ID}
		watchReg.mu.Lock()
		if watchReg.m != nil {
			watchReg.m[msg.ID] = append(watchReg.m[msg.ID], w)
		}
		watchReg.mu.Unlock()
		return parse.NewResult(w, msg.Scope)
	})
}

// watch is a verifier written the way a third party would write one against the public
// verify.RequestVerifier / verify.ResponseVerifier interfaces: it has no lock of its own and relies
// on its parent (martianhttp.Modifier, fifo.Group) never to reset it while one of its evaluations
// (Modify*, Verify*) is in flight. It never records a failure, so in reports it is a no-op; what it
// observes is whether a reset overlapped an evaluation. This is the non-race-detector witness of the
// exclusive lock that the reset walk holds above a verifier.
type watch struct {
	id       int
	side     [2]watchSide // request, response: fifo.Group locks its two sides separately, so does the probe
	overlaps atomic.Int32
	evals    atomic.Int32
	resets   atomic.Int32
}

type watchSide struct{ inflight, resetting atomic.Int32 }

var watchSlow atomic.Bool // set during concurrent phases: evaluations take long enough to be overlapped

var watchReg struct {
	mu sync.Mutex
	m  map[int][]*watch
}

func (w *watch) eval(s int) {
	w.side[s].inflight.Add(1)
	w.evals.Add(1)
	if w.side[s].resetting.Load() != 0 {
		w.overlaps.Add(1)
	}
	if watchSlow.Load() {
		runtime.Gosched()
		time.Sleep(10 * time.Microsecond)
	}
	if w.side[s].resetting.Load() != 0 {
		w.overlaps.Add(1)
	}
	w.side[s].inflight.Add(-1)
}
func (w *watch) doReset(s int) {
	w.side[s].resetting.Add(1)
	w.resets.Add(1)
	if w.side[s].inflight.Load() != 0 {
		w.overlaps.Add(1)
	}
	if watchSlow.Load() {
		runtime.Gosched()
	}
	if w.side[s].inflight.Load() != 0 {
		w.overlaps.Add(1)
	}
	w.side[s].resetting.Add(-1)
}
func (w *watch) ModifyRequest(*http.Request) error   { w.eval(0); return nil }
func (w *watch) ModifyResponse(*http.Response) error { w.eval(1); return nil }
func (w *watch) VerifyRequests() error               { watchGate.pass(); w.eval(0); return nil }
func (w *watch) VerifyResponses() error              { watchGate.pass(); w.eval(1); return nil }

// gate: while armed, a verify walk that reaches a watch probe stops there until the controller lets
// it go on (one token) or opens the gate for everybody. This holds a query open mid-walk,
// deterministically, so that other queries and traffic can be made to overlap it (op ovl).
type gate struct {
	mu      sync.Mutex
	armed   bool
	entered chan struct{}
	token   chan struct{}
	open    chan struct{}
}

var watchGate gate

func (g *gate) arm() {
	g.mu.Lock()
	g.armed, g.entered, g.token, g.open = true, make(chan struct{}, 64), make(chan struct{}), make(chan struct{})
	g.mu.Unlock()
}
func (g *gate) disarm() {
	g.mu.Lock()
	if g.armed {
		g.armed = false
		close(g.open)
	}
	g.mu.Unlock()
}
func (g *gate) pass() {
	g.mu.Lock()
	armed, entered, token, open := g.armed, g.entered, g.token, g.open
	g.mu.Unlock()
	if !armed {
		return
	}
	select {
	case entered <- struct{}{}:
	default:
	}
	select {
	case <-token:
	case <-open:
	}
}
func (w *watch) ResetRequestVerifications()          { w.doReset(0) }
func (w *watch) ResetResponseVerifications()         { w.doReset(1) }

// probe is a modifier that is no verifier; with fail set it returns an error (halts a
// non-aggregating fifo.Group).
type probe struct{ fail bool }

func (p probe) ModifyRequest(*http.Request) error {
	if p.fail {
		return fmt.Errorf("c13 probe error")
	}
	return nil
}
func (p probe) ModifyResponse(*http.Response) error {
	if p.fail {
		return fmt.Errorf("c13 probe error")
	}
	return nil
}

func (P) ID() string { return "C13" }
func (P) Rule() string {
	return "case = one random configuration tree (fifo.Group nested up to depth 4, header/url/method filters with and without else branch, " +
		"all seven verifier kinds, non-verifier probes, request/response/both/empty scopes; installed through martianhttp.Modifier or wired directly) " +
		"followed by 8-40 ops: exchanges (15% marked as API requests), verification queries, resets, wrong-method handler calls, and in part of the cases a " +
		"concurrent phase (8 goroutines of traffic racing queries/resets); distinct by hash of the op list; non-trivial when a query reports at least one " +
		"failure, a reset follows it and a query follows the reset"
}

func (P) Nontrivial(ops []string, impl []string) bool {
	stage := 0
	for i, op := range ops {
		switch {
		case op == "q" && stage == 0 && i < len(impl) && !strings.HasPrefix(impl[i], "q 0"):
			stage = 1
		case op == "r" && stage == 1:
			stage = 2
		case op == "q" && stage == 2:
			return true
		}
	}
	return false
}

// ---------------------------------------------------------------------------------------------
// configuration trees

type node struct {
	typ   string // L G F P
	prio  []int  // P: priority of each child
	scope string
	leaf  string   // status header method url qs failure ping nop fail
	args  []string // decoded strings of the leaf / the condition
	cond  string   // header url method
	agg   bool
	kids  []*node // G: children; F: then [, else]
}

func unhexS(t string) (string, bool) {
	b, ok := core.Unhex(t)
	return string(b), ok
}

var leafArity = map[string]int{"status": 1, "header": 2, "method": 1, "url": 4, "qs": 2, "failure": 1, "ping": 4, "nop": 0, "fail": 0, "watch": 1}
var condArity = map[string]int{"header": 2, "url": 4, "method": 1, "qs": 2}

func takeArgs(toks []string, n int, raw bool) ([]string, []string, bool) {
	if len(toks) < n {
		return nil, nil, false
	}
	out := make([]string, n)
	for i := 0; i < n; i++ {
		if raw {
			out[i] = toks[i]
			continue
		}
		s, ok := unhexS(toks[i])
		if !ok {
			return nil, nil, false
		}
		out[i] = s
	}
	return out, toks[n:], true
}

func parseNode(toks []string, depth int) (*node, []string, bool) {
	if len(toks) < 2 || depth > 64 {
		return nil, nil, false
	}
	n := &node{typ: toks[0], scope: toks[1]}
	if !strings.Contains("d e q s b", n.scope) || len(n.scope) != 1 {
		return nil, nil, false
	}
	toks = toks[2:]
	switch n.typ {
	case "L":
		if len(toks) < 1 {
			return nil, nil, false
		}
		n.leaf = toks[0]
		ar, ok := leafArity[n.leaf]
		if !ok {
			return nil, nil, false
		}
		var ok2 bool
		n.args, toks, ok2 = takeArgs(toks[1:], ar, n.leaf == "status" || n.leaf == "watch")
		if !ok2 {
			return nil, nil, false
		}
		if n.leaf == "status" || n.leaf == "watch" {
			if _, err := strconv.ParseUint(n.args[0], 10, 31); err != nil {
				return nil, nil, false
			}
		}
		return n, toks, true
	case "G":
		if len(toks) < 2 || (toks[0] != "0" && toks[0] != "1") {
			return nil, nil, false
		}
		n.agg = toks[0] == "1"
		k, err := strconv.Atoi(toks[1])
		if err != nil || k < 0 || k > 64 {
			return nil, nil, false
		}
		toks = toks[2:]
		for i := 0; i < k; i++ {
			c, rest, ok := parseNode(toks, depth+1)
			if !ok {
				return nil, nil, false
			}
			n.kids = append(n.kids, c)
			toks = rest
		}
		return n, toks, true
	case "P":
		if len(toks) < 1 {
			return nil, nil, false
		}
		k, err := strconv.Atoi(toks[0])
		if err != nil || k < 0 || k > 64 {
			return nil, nil, false
		}
		toks = toks[1:]
		for i := 0; i < k; i++ {
			if len(toks) < 1 {
				return nil, nil, false
			}
			pr, err := strconv.Atoi(toks[0])
			if err != nil {
				return nil, nil, false
			}
			c, rest, ok := parseNode(toks[1:], depth+1)
			if !ok {
				return nil, nil, false
			}
			n.prio = append(n.prio, pr)
			n.kids = append(n.kids, c)
			toks = rest
		}
		return n, toks, true
	case "F":
		if len(toks) < 1 {
			return nil, nil, false
		}
		n.cond = toks[0]
		ar, ok := condArity[n.cond]
		if !ok {
			return nil, nil, false
		}
		var ok2 bool
		n.args, toks, ok2 = takeArgs(toks[1:], ar, false)
		if !ok2 || len(toks) < 1 || (toks[0] != "0" && toks[0] != "1") {
			return nil, nil, false
		}
		k := 1
		if toks[0] == "1" {
			k = 2
		}
		toks = toks[1:]
		for i := 0; i < k; i++ {
			c, rest, ok := parseNode(toks, depth+1)
			if !ok {
				return nil, nil, false
			}
			n.kids = append(n.kids, c)
			toks = rest
		}
		return n, toks, true
	}
	return nil, nil, false
}

func (n *node) tokens() []string {
	out := []string{n.typ, n.scope}
	switch n.typ {
	case "L":
		out = append(out, n.leaf)
		for _, a := range n.args {
			if n.leaf == "status" || n.leaf == "watch" {
				out = append(out, a)
			} else {
				out = append(out, core.HexS(a))
			}
		}
	case "G":
		out = append(out, b01(n.agg), strconv.Itoa(len(n.kids)))
		for _, k := range n.kids {
			out = append(out, k.tokens()...)
		}
	case "P":
		out = append(out, strconv.Itoa(len(n.kids)))
		for i, k := range n.kids {
			out = append(out, strconv.Itoa(n.prio[i]))
			out = append(out, k.tokens()...)
		}
	case "F":
		out = append(out, n.cond)
		for _, a := range n.args {
			out = append(out, core.HexS(a))
		}
		out = append(out, b01(len(n.kids) == 2))
		for _, k := range n.kids {
			out = append(out, k.tokens()...)
		}
	}
	return out
}

func b01(b bool) string {
	if b {
		return "1"
	}
	return "0"
}

func (n *node) json() interface{} {
	body := map[string]interface{}{}
	switch n.scope {
	case "e":
		body["scope"] = []string{}
	case "q":
		body["scope"] = []string{"request"}
	case "s":
		body["scope"] = []string{"response"}
	case "b":
		body["scope"] = []string{"request", "response"}
	}
	name := ""
	urlArgs := func() {
		body["scheme"], body["host"], body["path"], body["query"] = n.args[0], n.args[1], n.args[2], n.args[3]
	}
	switch n.typ {
	case "L":
		switch n.leaf {
		case "status":
			name = "status.Verifier"
			c, _ := strconv.Atoi(n.args[0])
			body["statusCode"] = c
		case "header":
			name = "header.Verifier"
			body["name"], body["value"] = n.args[0], n.args[1]
		case "method":
			name = "method.Verifier"
			body["method"] = n.args[0]
		case "url":
			name = "url.Verifier"
			urlArgs()
		case "qs":
			name = "querystring.Verifier"
			body["name"], body["value"] = n.args[0], n.args[1]
		case "failure":
			name = "failure.Verifier"
			body["message"] = n.args[0]
		case "ping":
			name = "pingback.Verifier"
			urlArgs()
		case "nop":
			name = "c13.Nop"
		case "fail":
			name = "c13.Fail"
		case "watch":
			name = "c13.Watch"
			body["id"], _ = strconv.Atoi(n.args[0])
		}
	case "G":
		name = "fifo.Group"
		body["aggregateErrors"] = n.agg
		ms := []interface{}{}
		for _, k := range n.kids {
			ms = append(ms, k.json())
		}
		body["modifiers"] = ms
	case "P":
		name = "priority.Group"
		ms := []interface{}{}
		for i, k := range n.kids {
			ms = append(ms, map[string]interface{}{"priority": n.prio[i], "modifier": k.json()})
		}
		body["modifiers"] = ms
	case "F":
		switch n.cond {
		case "qs":
			name = "querystring.Filter"
			body["name"], body["value"] = n.args[0], n.args[1]
		case "header":
			name = "header.Filter"
			body["name"], body["value"] = n.args[0], n.args[1]
		case "url":
			name = "url.Filter"
			urlArgs()
		case "method":
			name = "method.Filter"
			body["method"] = n.args[0]
		}
		body["modifier"] = n.kids[0].json()
		if len(n.kids) == 2 {
			body["else"] = n.kids[1].json()
		}
	}
	return map[string]interface{}{name: body}
}

// ---------------------------------------------------------------------------------------------
// messages

type msg struct {
	api                             bool
	method, scheme, host, path, qry string
	frag                            string
	reqH, resH                      [][]string // name, values...
	status                          int
	id                              int
}

func parseHdr(t string) ([][]string, bool) {
	if t == "-" {
		return nil, true
	}
	var out [][]string
	for _, e := range strings.Split(t, ";") {
		nv := strings.Split(e, ":")
		if len(nv) != 2 {
			return nil, false
		}
		n, ok := unhexS(nv[0])
		if !ok {
			return nil, false
		}
		ent := []string{n}
		if nv[1] != "" {
			for _, v := range strings.Split(nv[1], ",") {
				s, ok := unhexS(v)
				if !ok {
					return nil, false
				}
				ent = append(ent, s)
			}
		}
		out = append(out, ent)
	}
	return out, true
}

func hdrToken(h [][]string) string {
	if len(h) == 0 {
		return "-"
	}
	var es []string
	for _, e := range h {
		var vs []string
		for _, v := range e[1:] {
			vs = append(vs, core.HexS(v))
		}
		es = append(es, core.HexS(e[0])+":"+strings.Join(vs, ","))
	}
	return strings.Join(es, ";")
}

var fragRe = regexp.MustCompile(`^m([0-9]{1,9})$`)

func parseMsg(f []string) (*msg, bool) {
	if len(f) != 10 || (f[0] != "0" && f[0] != "1") {
		return nil, false
	}
	m := &msg{api: f[0] == "1"}
	var ok bool
	for i, p := range []*string{&m.method, &m.scheme, &m.host, &m.path, &m.qry, &m.frag} {
		if *p, ok = unhexS(f[1+i]); !ok {
			return nil, false
		}
	}
	if m.reqH, ok = parseHdr(f[7]); !ok {
		return nil, false
	}
	st, err := strconv.ParseUint(f[8], 10, 31)
	if err != nil {
		return nil, false
	}
	m.status = int(st)
	if m.resH, ok = parseHdr(f[9]); !ok {
		return nil, false
	}
	fm := fragRe.FindStringSubmatch(m.frag)
	if fm == nil {
		return nil, false
	}
	m.id, _ = strconv.Atoi(fm[1])
	return m, true
}

func (m *msg) op() string {
	return strings.Join([]string{"t", b01(m.api), core.HexS(m.method), core.HexS(m.scheme), core.HexS(m.host), core.HexS(m.path),
		core.HexS(m.qry), core.HexS(m.frag), hdrToken(m.reqH), strconv.Itoa(m.status), hdrToken(m.resH)}, " ")
}

func toHeader(h [][]string) http.Header {
	out := http.Header{}
	for _, e := range h {
		out[e[0]] = append([]string{}, e[1:]...)
	}
	return out
}

// ---------------------------------------------------------------------------------------------
// the implementation under test

type impl struct {
	reqmod martian.RequestModifier
	resmod martian.ResponseModifier
	vh     *verify.Handler
	rh     *verify.ResetHandler
	// watch probes of the installed tree that sit below an exclusive reset lock (martianhttp.Modifier
	// at the root, or a fifo.Group above them), by id
	guarded map[int][]*watch
	above   map[int]string
	w       *e2eWorld // wiring e
	mod     *martianhttp.Modifier // wiring m: the Modifier the handlers are attached to
}

func newImpl() *impl {
	m := martianhttp.NewModifier()
	i := &impl{reqmod: m, resmod: m, vh: verify.NewHandler(), rh: verify.NewResetHandler(), mod: m}
	i.vh.SetRequestVerifier(m)
	i.vh.SetResponseVerifier(m)
	i.rh.SetRequestVerifier(m)
	i.rh.SetResponseVerifier(m)
	return i
}

// install returns nil when the configuration was rejected (the previous tree stays).
func install(wiring string, n *node, cur *impl) *impl {
	watchReg.mu.Lock()
	watchReg.m = map[int][]*watch{}
	watchReg.mu.Unlock()
	i := install1(wiring, n, cur)
	watchReg.mu.Lock()
	reg := watchReg.m
	watchReg.m = nil
	watchReg.mu.Unlock()
	if i == nil {
		return nil
	}
	i.guarded, i.above = map[int][]*watch{}, map[int]string{}
	var walk func(n *node, lock string)
	walk = func(n *node, lock string) {
		switch {
		case n.typ == "G" && lock == "":
			lock = "fifo.Group"
		case n.typ == "L" && n.leaf == "watch" && lock != "":
			id, _ := strconv.Atoi(n.args[0])
			i.guarded[id], i.above[id] = reg[id], lock
		}
		for _, k := range n.kids {
			walk(k, lock)
		}
	}
	walk(n, map[string]string{"m": "martianhttp.Modifier", "r": "martianhttp.Modifier", "d": ""}[wiring])
	return i
}

// overlaps reports a guarded watch probe that saw a reset overlap one of its evaluations.
func (i *impl) overlaps() string {
	var ids []int
	for id := range i.guarded {
		ids = append(ids, id)
	}
	sort.Ints(ids)
	for _, id := range ids {
		for _, w := range i.guarded[id] {
			if n := w.overlaps.Load(); n > 0 {
				return fmt.Sprintf("a reset overlapped an evaluation (Modify*/Verify*) of the verifier probe watch#%d %d time(s) although the probe sits below %s, whose exclusive lock must keep a reset from running concurrently with traffic and queries (%d evaluations, %d resets)",
					id, n, i.above[id], w.evals.Load(), w.resets.Load())
			}
		}
	}
	return ""
}

func install1(wiring string, n *node, cur *impl) *impl {
	b, _ := json.Marshal(n.json())
	if wiring == "r" {
		switch {
		case cur != nil && cur.w != nil:
			code, _, _, err := cur.w.apiCall("POST", "/configure", b)
			if err != nil || code != 200 {
				return nil
			}
			core.Count("reconfigure:e2e")
			return &impl{w: cur.w}
		case cur != nil && cur.mod != nil:
			rw := httptest.NewRecorder()
			cur.mod.ServeHTTP(rw, httptest.NewRequest("POST", "http://martian.proxy/configure", bytes.NewReader(b)))
			if rw.Code != 200 {
				return nil
			}
			core.Count("reconfigure:same-modifier")
			return &impl{reqmod: cur.reqmod, resmod: cur.resmod, vh: cur.vh, rh: cur.rh, mod: cur.mod}
		}
		wiring = "m"
	}
	if wiring == "e" {
		w, err := newE2E()
		if err != nil {
			panic(err)
		}
		code, _, _, err := w.apiCall("POST", "/configure", b)
		if err != nil || code != 200 {
			w.close()
			if err != nil {
				core.Count("e2e:configure-transport-error")
			}
			return nil
		}
		return &impl{w: w}
	}
	if wiring == "d" {
		r, err := parse.FromJSON(b)
		if err != nil {
			return nil
		}
		i := &impl{reqmod: r.RequestModifier(), resmod: r.ResponseModifier(), vh: verify.NewHandler(), rh: verify.NewResetHandler()}
		if v, ok := i.reqmod.(verify.RequestVerifier); ok {
			i.vh.SetRequestVerifier(v)
			i.rh.SetRequestVerifier(v)
		}
		if v, ok := i.resmod.(verify.ResponseVerifier); ok {
			i.vh.SetResponseVerifier(v)
			i.rh.SetResponseVerifier(v)
		}
		return i
	}
	i := newImpl()
	rw := httptest.NewRecorder()
	req := httptest.NewRequest("POST", "http://martian.proxy/configure", bytes.NewReader(b))
	i.reqmod.(*martianhttp.Modifier).ServeHTTP(rw, req)
	if rw.Code != 200 {
		return nil
	}
	return i
}

func (i *impl) traffic(m *msg) (reqErr, resErr bool) {
	if i.w != nil {
		a, b, err := i.w.exchange(m)
		if err != nil {
			panic("e2e exchange: " + err.Error())
		}
		return a, b
	}
	req := &http.Request{Method: m.method, URL: &url.URL{Scheme: m.scheme, Host: m.host, Path: m.path, RawQuery: m.qry, Fragment: m.frag},
		Proto: "HTTP/1.1", ProtoMajor: 1, ProtoMinor: 1, Header: toHeader(m.reqH), Host: m.host, Body: http.NoBody}
	ctx, remove, err := martian.TestContext(req, nil, nil)
	if err != nil {
		panic(err)
	}
	defer remove()
	if m.api {
		// the real api.Forwarder marks the context (that is what makes a request an API request in
		// cmd/proxy); it also redirects the URL to the API server, which is undone here so that the
		// filters below see the same exchange as the model
		sch, host := req.URL.Scheme, req.URL.Host
		apiForwarder.ModifyRequest(req)
		req.URL.Scheme, req.URL.Host = sch, host
		_ = ctx
	}
	if i.reqmod != nil {
		reqErr = i.reqmod.ModifyRequest(req) != nil
	}
	res := proxyutil.NewResponse(m.status, nil, req)
	res.Header = toHeader(m.resH)
	if i.resmod != nil {
		resErr = i.resmod.ModifyResponse(res) != nil
	}
	return
}

// query performs GET on the verification handler; problem != "" when the response is not the
// documented JSON document.
func (i *impl) query() (msgs []string, problem string) {
	rw := httptest.NewRecorder()
	if i.w != nil {
		code, hdr, body, err := i.w.apiCall("GET", "/verify", nil)
		if err != nil {
			return nil, "transport: " + err.Error()
		}
		rw.Code = code
		rw.Header().Set("Content-Type", hdr.Get("Content-Type"))
		rw.Body = bytes.NewBuffer(body)
	} else {
		i.vh.ServeHTTP(rw, httptest.NewRequest("GET", "http://martian.proxy/verify", nil))
	}
	if rw.Code != 200 {
		return nil, fmt.Sprintf("status %d", rw.Code)
	}
	if ct := rw.Header().Get("Content-Type"); ct != "application/json" {
		return nil, "content type " + ct
	}
	var doc struct {
		Errors *[]struct {
			Message *string `json:"message"`
		} `json:"errors"`
	}
	dec := json.NewDecoder(rw.Body)
	dec.DisallowUnknownFields()
	if err := dec.Decode(&doc); err != nil {
		return nil, "body is not the documented JSON: " + err.Error()
	}
	if doc.Errors == nil {
		return nil, "no errors array"
	}
	for _, e := range *doc.Errors {
		if e.Message == nil {
			return nil, "error without message"
		}
		msgs = append(msgs, *e.Message)
	}
	return msgs, ""
}

func (i *impl) reset() int {
	if i.w != nil {
		code, _, _, err := i.w.apiCall("POST", "/verify/reset", nil)
		if err != nil {
			return -1
		}
		return code
	}
	rw := httptest.NewRecorder()
	i.rh.ServeHTTP(rw, httptest.NewRequest("POST", "http://martian.proxy/verify/reset", nil))
	return rw.Code
}

// ---------------------------------------------------------------------------------------------
// the oracle: independent bookkeeping of unmet expectation evaluations since the last reset

type onode struct {
	n       *node
	kids    []*onode // G: children on this side; F: [then, else] (nil = nothing on this side)
	prio    []int    // P: priority of each child present on this side
	unmet   []int    // ids of exchanges whose evaluation was unmet (verifier leaves)
	pending bool     // pingback
}

func implements(n *node) (bool, bool) {
	if n.typ != "L" {
		return true, true
	}
	switch n.leaf {
	case "status":
		return false, true
	case "header", "nop", "fail", "watch":
		return true, true
	}
	return true, false
}

// present: is the node part of this side's tree; valid: is the configuration acceptable.
func present(n *node, req bool) (present, valid bool) {
	q, s := implements(n)
	switch n.scope {
	case "d":
	case "e":
		q, s = false, false
	case "q":
		if !q {
			return false, false
		}
		s = false
	case "s":
		if !s {
			return false, false
		}
		q = false
	case "b":
		if !q || !s {
			return false, false
		}
	}
	if req {
		return q, true
	}
	return s, true
}

func project(n *node, req bool) (*onode, bool) {
	if n.typ == "L" && ((n.leaf == "method" && n.args[0] == "") || (n.leaf == "qs" && n.args[0] == "")) {
		return nil, false
	}
	p, valid := present(n, req)
	if !valid {
		return nil, false
	}
	o := &onode{n: n, pending: true}
	switch n.typ {
	case "G", "P":
		for i, k := range n.kids {
			ko, ok := project(k, req)
			if !ok {
				return nil, false
			}
			if ko != nil {
				o.kids = append(o.kids, ko)
				if n.typ == "P" {
					o.prio = append(o.prio, n.prio[i])
				}
			}
		}
	case "F":
		o.kids = []*onode{nil, nil}
		for i, k := range n.kids {
			ko, ok := project(k, req)
			if !ok {
				return nil, false
			}
			o.kids[i] = ko
		}
	}
	if !p {
		return nil, true
	}
	return o, true
}

func hdrValues(h [][]string, name string) ([]string, bool) {
	for _, e := range h {
		if e[0] == name {
			return e[1:], true
		}
	}
	return nil, false
}

func contains(vs []string, v string) bool {
	for _, x := range vs {
		if x == v {
			return true
		}
	}
	return false
}

func urlDiffers(a []string, m *msg, exactHost bool) bool {
	return (a[0] != "" && a[0] != m.scheme) || (a[1] != "" && a[1] != m.host) || (a[2] != "" && a[2] != m.path) || (a[3] != "" && a[3] != m.qry)
}

// met decides whether a verifier's expectation holds for an exchange (statement of each
// verifier's documentation, written without looking at the implementation's control flow).
func met(n *node, m *msg, req bool) bool {
	switch n.leaf {
	case "status":
		return strconv.Itoa(m.status) == n.args[0]
	case "header":
		h := m.resH
		if req {
			h = m.reqH
		}
		vs, ok := hdrValues(h, n.args[0])
		if !ok {
			return false
		}
		if n.args[1] == "" {
			return len(vs) > 0
		}
		return contains(vs, n.args[1])
	case "method":
		return m.method == n.args[0]
	case "url":
		return !urlDiffers(n.args, m, false)
	case "qs":
		// the pairs that could be decoded (a request whose query cannot be parsed as a whole is handled
		// by the caller: the first verifier that parses it reports exactly that, see evaluate)
		vals, _ := url.ParseQuery(m.qry)
		vs, ok := vals[n.args[0]]
		if !ok {
			return false
		}
		return n.args[1] == "" || contains(vs, n.args[1])
	case "failure":
		return false
	}
	return true
}

func condHolds(n *node, m *msg, req bool) bool {
	switch n.cond {
	case "header":
		h := m.resH
		if req {
			h = m.reqH
		}
		vs, _ := hdrValues(h, n.args[0])
		return contains(vs, n.args[1])
	case "url":
		return !urlDiffers(n.args, m, false)
	case "method":
		return strings.EqualFold(m.method, n.args[0])
	case "qs":
		vals, _ := url.ParseQuery(m.qry)
		vs, ok := vals[n.args[0]]
		return ok && (n.args[1] == "" || contains(vs, n.args[1]))
	}
	return false
}

type evalHit struct {
	o  *onode
	ok bool // expectation met
}

// evaluate walks one side of the tree for one exchange and lists the verifier evaluations that
// take place (reached and not an API request); it returns whether the node returned an error.
//
// xs is the state one exchange carries through the walk of a side: http.Request.ParseForm parses once,
// so of the querystring verifiers an exchange reaches (also those hidden below a priority.Group) only the
// FIRST sees that the query cannot be parsed — its evaluation is unmet, one error —; the later ones are
// evaluated against the pairs that could be decoded.
type xstate struct{ formParsed bool }

func evaluate(o *onode, m *msg, req bool, hits *[]evalHit, xs *xstate) bool {
	if o == nil {
		return false
	}
	switch o.n.typ {
	case "L":
		switch o.n.leaf {
		case "nop", "watch":
			return false
		case "fail":
			return true
		}
		if m.api {
			return false
		}
		if o.n.leaf == "ping" {
			*hits = append(*hits, evalHit{o, !urlDiffers(o.n.args, m, true)})
			return false
		}
		if o.n.leaf == "qs" {
			first := !xs.formParsed
			xs.formParsed = true
			if _, err := url.ParseQuery(m.qry); err != nil && first {
				*hits = append(*hits, evalHit{o, false})
				return false
			}
		}
		*hits = append(*hits, evalHit{o, met(o.n, m, req)})
		return false
	case "G":
		failed := false
		for _, k := range o.kids {
			if evaluate(k, m, req, hits, xs) {
				failed = true
				if !o.n.agg {
					return true
				}
			}
		}
		return failed
	case "P":
		// priority.Group implements neither verify interface: the verify and reset walks of its parent
		// skip it, so nothing below it is ever reported (or reset). It returns the first error of its
		// children, i.e. an error iff one of them returns one.
		// Its children run by descending priority, of equal priorities the one added later first.
		var hidden []evalHit
		order := make([]int, len(o.kids))
		for i := range order {
			order[i] = i
		}
		sort.SliceStable(order, func(a, b int) bool {
			if o.prio[order[a]] != o.prio[order[b]] {
				return o.prio[order[a]] > o.prio[order[b]]
			}
			return order[a] > order[b]
		})
		for _, i := range order {
			if evaluate(o.kids[i], m, req, &hidden, xs) {
				return true
			}
		}
		return false
	case "F":
		if condHolds(o.n, m, req) {
			return evaluate(o.kids[0], m, req, hits, xs)
		}
		return evaluate(o.kids[1], m, req, hits, xs)
	}
	return false
}

func (o *onode) walk(f func(*onode)) {
	if o == nil {
		return
	}
	f(o)
	if o.n.typ == "P" {
		return // nothing below a priority.Group is visible to the verify and reset walks
	}
	for _, k := range o.kids {
		k.walk(f)
	}
}

func tagOf(n *node) string {
	switch n.leaf {
	case "failure":
		return "failure:" + n.args[0]
	case "qs":
		return "param"
	}
	return n.leaf
}

var headRe = regexp.MustCompile(`(?m)^(request|response)\(`)

var idRe = regexp.MustCompile(`#m([0-9]+)\)`)

// classify maps an error message of the implementation to (exchange id, verifier tag).
func classify(s string) (int, string) {
	id := -1
	if m := idRe.FindStringSubmatch(s); m != nil {
		id, _ = strconv.Atoi(m[1])
	}
	switch {
	case strings.Contains(s, ": pingback never occurred"):
		return -1, "ping"
	case strings.Contains(s, ") status code verify failure: "):
		return id, "status"
	case strings.Contains(s, ") header verify failure: "):
		return id, "header"
	case strings.Contains(s, ") method verification error: "):
		return id, "method"
	case strings.Contains(s, ") url verify failure:"):
		return id, "url"
	case strings.Contains(s, ") param verification error: "), strings.Contains(s, ") parsing failed;"):
		return id, "param"
	}
	if i := strings.Index(s, ") verification error: "); i >= 0 {
		return id, "failure:" + s[i+len(") verification error: "):]
	}
	return id, "unknown"
}

type key struct {
	id  int
	tag string
}

type oracle struct {
	req, res *onode
	api      map[int]bool // ids of API exchanges
	epoch    map[int]int  // id -> number of resets before the exchange
	resets   int
	// collapse: the exchange id is not visible in the messages (end-to-end tier: no fragment on the
	// wire); compare per verifier kind
	collapse bool
	// old: ids of exchanges that went through a configuration this one has replaced
	old map[int]bool
}

func newOracle(n *node) (*oracle, bool) {
	q, ok1 := project(n, true)
	s, ok2 := project(n, false)
	if !ok1 || !ok2 {
		return nil, false
	}
	return &oracle{req: q, res: s, api: map[int]bool{}, epoch: map[int]int{}}, true
}

func (o *oracle) sides(f func(root *onode, req bool)) {
	f(o.req, true)
	f(o.res, false)
}

// failuresOf lists, for one exchange, the (tag) of every unmet verifier evaluation, and the
// pingback verifiers it satisfies.
func (o *oracle) failuresOf(m *msg) (unmet []*onode, pinged []*onode) {
	o.sides(func(root *onode, req bool) {
		var hits []evalHit
		evaluate(root, m, req, &hits, &xstate{})
		for _, h := range hits {
			if h.o.n.leaf == "ping" {
				if h.ok {
					pinged = append(pinged, h.o)
				}
			} else if !h.ok {
				unmet = append(unmet, h.o)
			}
		}
	})
	return
}

func (o *oracle) traffic(m *msg) {
	if m.api {
		o.api[m.id] = true
	}
	o.epoch[m.id] = o.resets
	unmet, pinged := o.failuresOf(m)
	for _, l := range unmet {
		l.unmet = append(l.unmet, m.id)
	}
	for _, l := range pinged {
		l.pending = false
	}
}

func (o *oracle) reset() {
	o.resets++
	o.sides(func(root *onode, _ bool) {
		root.walk(func(n *onode) { n.unmet = nil; n.pending = true })
	})
}

func (o *oracle) expected() map[key]int {
	exp := map[key]int{}
	o.sides(func(root *onode, _ bool) {
		root.walk(func(n *onode) {
			if n.n.typ != "L" {
				return
			}
			if n.n.leaf == "ping" {
				if n.pending {
					exp[key{-1, "ping"}]++
				}
				return
			}
			for _, id := range n.unmet {
				if o.collapse {
					id = -1
				}
				exp[key{id, tagOf(n.n)}]++
			}
		})
	})
	return exp
}

func count(msgs []string) map[key]int {
	got := map[key]int{}
	for _, s := range msgs {
		id, tag := classify(s)
		got[key{id, tag}]++
	}
	return got
}

// check compares a query result with the ledger: one error per unmet evaluation since the
// last reset, none lost, none duplicated, none from API exchanges or from before the reset.
func (o *oracle) check(msgs []string) (fail, sig string) {
	for _, s := range msgs {
		if len(headRe.FindAllString(s, -1)) > 1 {
			return "one reported error carries several failures (nested errors not flattened): " + strconv.Quote(s), "c13:not-flat"
		}
	}
	exp, got := o.expected(), count(msgs)
	var keys []key
	for k := range exp {
		keys = append(keys, k)
	}
	for k := range got {
		if _, ok := exp[k]; !ok {
			keys = append(keys, k)
		}
	}
	sort.Slice(keys, func(i, j int) bool {
		if keys[i].id != keys[j].id {
			return keys[i].id < keys[j].id
		}
		return keys[i].tag < keys[j].tag
	})
	for _, k := range keys {
		e, g := exp[k], got[k]
		if e == g {
			continue
		}
		what := fmt.Sprintf("exchange m%d, %s verifier: %d error(s) reported, %d unmet evaluation(s) since the last reset", k.id, k.tag, g, e)
		switch {
		case k.tag == "unknown":
			return "unrecognised error message in the report: " + what, "c13:unknown-message"
		case g < e:
			return "failure lost: " + what, "c13:lost"
		case o.api[k.id]:
			return "API request counted: " + what, "c13:api-counted"
		case o.old[k.id] && e == 0:
			return "failure recorded in a configuration that has since been replaced is still reported: " + what, "c13:stale-after-reconfigure"
		case k.id >= 0 && o.epoch[k.id] < o.resets && e == 0:
			return "failure from before the last reset still reported: " + what, "c13:stale-after-reset"
		case k.tag == "ping" && o.resets > 0:
			return "pingback state differs after reset: " + what, "c13:ping"
		case e > 0:
			return "failure duplicated: " + what, "c13:duplicated"
		default:
			return "error reported without an unmet evaluation: " + what, "c13:extra"
		}
	}
	return "", ""
}

// ---------------------------------------------------------------------------------------------
// Exec

type ex struct {
	im *impl
	or *oracle
}

func (P) NewExec() core.Exec {
	o, _ := newOracle(&node{typ: "L", scope: "d", leaf: "nop"})
	return &ex{im: newImpl(), or: o}
}
func (e *ex) Close() {
	if e.im != nil && e.im.w != nil {
		e.im.w.close()
		e.im.w = nil
	}
}

func hexAll(msgs []string) string {
	out := []string{"q", strconv.Itoa(len(msgs))}
	for _, s := range msgs {
		out = append(out, core.HexS(s))
	}
	return strings.Join(out, " ")
}

func (e *ex) checkedQuery() ([]string, core.Result) {
	msgs, problem := e.im.query()
	if problem != "" {
		return nil, core.Result{Impl: "q invalid", Fail: "verification handler: " + problem, Sig: "c13:handler"}
	}
	again, _ := e.im.query()
	if strings.Join(msgs, "\x00") != strings.Join(again, "\x00") {
		return msgs, core.Result{Impl: hexAll(msgs), Fail: "two consecutive queries differ", Sig: "c13:query-not-idempotent"}
	}
	if f, sig := e.or.check(msgs); f != "" {
		return msgs, core.Result{Impl: hexAll(msgs), Fail: f, Sig: sig}
	}
	return msgs, core.Result{Impl: hexAll(msgs)}
}

func (e *ex) Do(op string) core.Result {
	f := strings.Split(op, " ")
	switch f[0] {
	case "tree":
		if len(f) < 3 || (f[1] != "m" && f[1] != "d" && f[1] != "e" && f[1] != "r") {
			return core.Result{Impl: "bad-op"}
		}
		n, rest, ok := parseNode(f[2:], 0)
		if !ok || len(rest) != 0 {
			return core.Result{Impl: "bad-op"}
		}
		im := install(f[1], n, e.im)
		or, valid := newOracle(n)
		core.Count("tree:" + map[bool]string{true: "accepted", false: "rejected"}[im != nil])
		if (im != nil) != valid {
			return core.Result{Impl: "tree ?", Fail: fmt.Sprintf("configuration accepted=%v but scope rules say valid=%v", im != nil, valid), Sig: "c13:config"}
		}
		if im == nil {
			return core.Result{Impl: "tree err"}
		}
		if e.im == nil || e.im.w == nil || e.im.w != im.w {
			e.Close()
		}
		or.old = map[int]bool{}
		if e.or != nil {
			for id := range e.or.old {
				or.old[id] = true
			}
			for id := range e.or.epoch {
				or.old[id] = true
			}
		}
		e.im, e.or = im, or
		e.or.collapse = im.w != nil
		if im.w != nil {
			core.Count("e2e:trees")
		}
		return core.Result{Impl: "tree ok"}
	case "t":
		m, ok := parseMsg(f[1:])
		if !ok {
			return core.Result{Impl: "bad-op"}
		}
		if _, dup := e.or.epoch[m.id]; dup {
			return core.Result{Impl: "bad-op"} // ids must be unique within a case
		}
		if e.im.w != nil {
			if !wireable(m) {
				return core.Result{Impl: "bad-op"} // not expressible on the wire (see e2e.go)
			}
			a, b := e.im.traffic(m)
			e.or.traffic(m)
			core.Count("e2e:exchanges")
			wire := *m
			wire.frag = "" // a fragment is never sent
			return core.Result{Impl: "t " + b01(a) + " " + b01(b), ModelOp: wire.op()}
		}
		a, b := e.im.traffic(m)
		e.or.traffic(m)
		return core.Result{Impl: "t " + b01(a) + " " + b01(b)}
	case "set":
		if len(f) < 4 || (f[1] != "q" && f[1] != "s") || e.im.w != nil {
			return core.Result{Impl: "bad-op"}
		}
		n, rest, ok := parseNode(f[2:], 0)
		if !ok || len(rest) != 0 {
			return core.Result{Impl: "bad-op"}
		}
		b, _ := json.Marshal(n.json())
		r, err := parse.FromJSON(b)
		side, valid := project(n, f[1] == "q")
		if _, v2 := project(n, f[1] != "q"); !v2 {
			valid = false
		}
		if (err == nil) != valid {
			return core.Result{Impl: "set ?", Fail: fmt.Sprintf("configuration accepted=%v but scope rules say valid=%v", err == nil, valid), Sig: "c13:config"}
		}
		if err != nil {
			return core.Result{Impl: "set err"}
		}
		switch {
		case e.im.mod != nil && f[1] == "q":
			e.im.mod.SetRequestModifier(r.RequestModifier())
		case e.im.mod != nil:
			e.im.mod.SetResponseModifier(r.ResponseModifier())
		case f[1] == "q": // direct wiring: the harness itself re-attaches the handlers to the new side
			e.im.reqmod = r.RequestModifier()
			v, _ := e.im.reqmod.(verify.RequestVerifier)
			e.im.vh.SetRequestVerifier(v)
			e.im.rh.SetRequestVerifier(v)
		default:
			e.im.resmod = r.ResponseModifier()
			v, _ := e.im.resmod.(verify.ResponseVerifier)
			e.im.vh.SetResponseVerifier(v)
			e.im.rh.SetResponseVerifier(v)
		}
		if f[1] == "q" {
			e.or.req = side
		} else {
			e.or.res = side
		}
		core.Count("set-modifier:" + f[1])
		res := core.Result{Impl: "set ok"}
		// the handlers read the pair in force: this side is fresh, the other side keeps its ledger
		if _, rq := e.checkedQuery(); rq.Fail != "" {
			res.Fail, res.Sig = "right after Set"+map[string]string{"q": "Request", "s": "Response"}[f[1]]+"Modifier: "+rq.Fail, rq.Sig
		}
		return res
	case "rep":
		if len(f) != 12 || e.im.w != nil {
			return core.Result{Impl: "bad-op"}
		}
		k, err := strconv.Atoi(f[1])
		m, ok := parseMsg(f[2:])
		if err != nil || k < 1 || k > 64 || !ok {
			return core.Result{Impl: "bad-op"}
		}
		var a, b bool
		for i := 0; i < k; i++ {
			a, b = e.im.traffic(m)
			e.or.traffic(m)
		}
		core.Stats["repeat:identical-exchanges"] += k
		return core.Result{Impl: "rep " + strconv.Itoa(k) + " " + b01(a) + " " + b01(b)}
	case "tb":
		if len(f) != 12 || e.im.w != nil {
			return core.Result{Impl: "bad-op"}
		}
		n, err := strconv.Atoi(f[1])
		m0, ok := parseMsg(f[2:])
		if err != nil || n < 1 || n > 200000 || !ok {
			return core.Result{Impl: "bad-op"}
		}
		for i := 0; i < n; i++ {
			if _, dup := e.or.epoch[m0.id+i]; dup {
				return core.Result{Impl: "bad-op"}
			}
		}
		var a, b bool
		for i := 0; i < n; i++ {
			m := *m0
			m.id = m0.id + i
			m.frag = "m" + strconv.Itoa(m.id)
			a, b = e.im.traffic(&m)
			e.or.traffic(&m)
		}
		core.Stats["long-history:exchanges"] += n
		return core.Result{Impl: "tb " + strconv.Itoa(n) + " " + b01(a) + " " + b01(b)}
	case "qh":
		if len(f) != 1 {
			return core.Result{Impl: "bad-op"}
		}
		msgs, r := e.checkedQuery()
		if r.Impl != "q invalid" {
			h := fnv.New64a()
			for i, s := range msgs {
				if i > 0 {
					h.Write([]byte{10})
				}
				h.Write([]byte(s))
			}
			r.Impl = "qh " + strconv.Itoa(len(msgs)) + " " + strconv.FormatUint(h.Sum64(), 10)
			if len(msgs) > core.Stats["long-history:longest-report"] {
				core.Stats["long-history:longest-report"] = len(msgs)
			}
		}
		return r
	case "q":
		if len(f) != 1 {
			return core.Result{Impl: "bad-op"}
		}
		_, r := e.checkedQuery()
		return r
	case "r":
		if len(f) != 1 {
			return core.Result{Impl: "bad-op"}
		}
		code := e.im.reset()
		e.or.reset()
		if code != 204 {
			return core.Result{Impl: "r " + strconv.Itoa(code), Fail: "reset handler answered " + strconv.Itoa(code), Sig: "c13:handler"}
		}
		// a reset returns every verifier to its initial state: the report right after it is the initial one
		if _, r := e.checkedQuery(); r.Fail != "" {
			r.Impl = "r 204"
			r.Fail = "right after the reset: " + r.Fail
			return r
		}
		return core.Result{Impl: "r 204"}
	case "qbad", "rbad":
		if len(f) != 1 {
			return core.Result{Impl: "bad-op"}
		}
		rw := httptest.NewRecorder()
		switch {
		case e.im.w != nil:
			meth, path := "POST", "/verify"
			if f[0] == "rbad" {
				meth, path = "GET", "/verify/reset"
			}
			code, _, _, err := e.im.w.apiCall(meth, path, nil)
			if err != nil {
				code = -1
			}
			rw.Code = code
		case f[0] == "qbad":
			e.im.vh.ServeHTTP(rw, httptest.NewRequest("POST", "http://martian.proxy/verify", nil))
		default:
			e.im.rh.ServeHTTP(rw, httptest.NewRequest("GET", "http://martian.proxy/verify/reset", nil))
		}
		io.Copy(io.Discard, rw.Body)
		res := core.Result{Impl: f[0] + " " + strconv.Itoa(rw.Code)}
		if _, r := e.checkedQuery(); r.Fail != "" { // nothing may have changed
			res.Fail, res.Sig = "after a wrong-method call: "+r.Fail, r.Sig
		}
		return res
	case "cget":
		// an API request that is neither a query nor a reset: it passes through the tree and changes nothing
		if len(f) != 1 {
			return core.Result{Impl: "bad-op"}
		}
		res := core.Result{Impl: "cget 200", SkipModel: true}
		if e.im.w != nil {
			code, _, _, err := e.im.w.apiCall("GET", "/configure", nil)
			if err != nil {
				code = -1
			}
			res.Impl = "cget " + strconv.Itoa(code)
			if code != 200 {
				res.Fail, res.Sig = "GET http://martian.proxy/configure through the proxy answered "+strconv.Itoa(code), "c13:handler"
			}
		}
		if _, r := e.checkedQuery(); r.Fail != "" {
			res.Fail, res.Sig = "after an API request passed through the tree: "+r.Fail, r.Sig
		}
		return res
	case "ovl":
		if e.im.w != nil || len(f) != 2 {
			return core.Result{Impl: "bad-op"}
		}
		seed, err := strconv.ParseUint(f[1], 10, 64)
		if err != nil {
			return core.Result{Impl: "bad-op"}
		}
		return e.overlap(seed)
	case "conc":
		if e.im.w != nil {
			return core.Result{Impl: "bad-op"}
		}
		if len(f) != 3 || (f[2] != "q" && f[2] != "r") {
			return core.Result{Impl: "bad-op"}
		}
		seed, err := strconv.ParseUint(f[1], 10, 64)
		if err != nil {
			return core.Result{Impl: "bad-op"}
		}
		return e.concurrent(seed, f[2] == "r")
	case "race":
		if len(f) != 2 || raceModes[f[1]] == "" {
			return core.Result{Impl: "bad-op"}
		}
		return raceOp(f[1])
	case "urlstr":
		if len(f) != 6 {
			return core.Result{Impl: "bad-op"}
		}
		var p [5]string
		for i := range p {
			s, ok := unhexS(f[1+i])
			if !ok {
				return core.Result{Impl: "bad-op"}
			}
			p[i] = s
		}
		u := url.URL{Scheme: p[0], Host: p[1], Path: p[2], RawQuery: p[3], Fragment: p[4]}
		return core.Result{Impl: "urlstr " + core.HexS(u.String())}
	}
	return core.Result{Impl: "bad-op"}
}

// ---------------------------------------------------------------------------------------------
// concurrent tier: 8 goroutines issue traffic while the main goroutine queries (and resets).
// Checked by the oracle only:
//   * a failure of an exchange that completed before a query began (and began after the last
//     reset ended) is in that query's report, exactly as often as it was unmet;
//   * a report contains nothing but failures of exchanges that began before the query ended and
//     had not completed before the last reset began; never more than the unmet evaluations;
//   * at quiescence the report is exact (queries only) / within the same bounds (with resets);
//   * after a final reset the report is the initial one.

const concG, concK = 8, 24

func (e *ex) concurrent(seed uint64, withResets bool) core.Result {
	r := core.NewRand(seed)
	type planned struct {
		m      *msg
		unmet  map[key]int
		pinged bool
	}
	plan := make([][]planned, concG)
	for g := range plan {
		for k := 0; k < concK; k++ {
			m := genMsg(r, 1000000+g*1000+k)
			unmet, pinged := e.or.failuresOf(m)
			p := planned{m: m, unmet: map[key]int{}, pinged: len(pinged) > 0}
			for _, l := range unmet {
				p.unmet[key{m.id, tagOf(l.n)}]++
			}
			plan[g] = append(plan[g], p)
		}
	}
	pre := e.or.expected() // ledger before the phase (exact)
	delete(pre, key{-1, "ping"})

	var started, done [concG]atomic.Int32
	var wg sync.WaitGroup
	im := e.im
	watchSlow.Store(true)
	defer watchSlow.Store(false)
	for g := 0; g < concG; g++ {
		wg.Add(1)
		go func(g int) {
			defer wg.Done()
			for k, p := range plan[g] {
				started[g].Store(int32(k + 1))
				im.traffic(p.m)
				done[g].Store(int32(k + 1))
				if k%6 == 5 {
					time.Sleep(time.Duration(50+g*10) * time.Microsecond)
				}
			}
		}(g)
	}
	snap := func(a *[concG]atomic.Int32) (s [concG]int) {
		for g := range s {
			s[g] = int(a[g].Load())
		}
		return
	}
	var resetBegunDone, resetEndedStarted [concG]int // snapshots around the last reset
	resetSeen := false
	verdict := func(msgs []string, doneBefore, startedAfter [concG]int, where string) (string, string) {
		got := count(msgs)
		need, may := map[key]int{}, map[key]int{}
		if !resetSeen {
			for k, n := range pre {
				need[k], may[k] = n, n
			}
		}
		for g := range plan {
			for k, p := range plan[g] {
				completedBeforeQuery := k < doneBefore[g]
				startedBeforeQueryEnd := k < startedAfter[g]
				completedBeforeReset := resetSeen && k < resetBegunDone[g]
				startedAfterReset := !resetSeen || k >= resetEndedStarted[g]
				for kk, n := range p.unmet {
					if completedBeforeQuery && startedAfterReset {
						need[kk] += n
					}
					if startedBeforeQueryEnd && !completedBeforeReset {
						may[kk] += n
					}
				}
			}
		}
		for k, g := range got {
			if k.tag == "ping" {
				continue
			}
			if k.tag == "unknown" {
				return fmt.Sprintf("%s: unrecognised error message (exchange m%d)", where, k.id), "c13:unknown-message"
			}
			if g > may[k] {
				sig := "c13:conc-extra"
				if _, inPre := pre[k]; inPre || may[k] == 0 {
					sig = "c13:conc-stale-or-extra"
				}
				return fmt.Sprintf("%s: exchange m%d, %s verifier reported %d time(s), at most %d possible", where, k.id, k.tag, g, may[k]), sig
			}
		}
		for k, n := range need {
			if got[k] < n {
				return fmt.Sprintf("%s: failure lost: exchange m%d (%s verifier) completed before the query began, reported %d of %d", where, k.id, k.tag, got[k], n), "c13:conc-lost"
			}
		}
		return "", ""
	}

	queries, resets := 0, 0
	allDone := func() bool {
		for g := range done {
			if int(done[g].Load()) < concK {
				return false
			}
		}
		return true
	}
	for round := 0; !allDone() && round < 10000; round++ {
		if withResets && round%3 == 2 {
			b := snap(&done)
			im.reset()
			a := snap(&started)
			resetBegunDone, resetEndedStarted, resetSeen = b, a, true
			resets++
		}
		b := snap(&done)
		msgs, problem := im.query()
		a := snap(&started)
		if problem != "" {
			wg.Wait()
			return core.Result{Impl: "conc", Fail: "verification handler during traffic: " + problem, Sig: "c13:handler"}
		}
		queries++
		if f, sig := verdict(msgs, b, a, fmt.Sprintf("query %d during traffic", queries)); f != "" {
			wg.Wait()
			return core.Result{Impl: "conc", Fail: f, Sig: sig}
		}
	}
	wg.Wait()
	core.Stats["conc:queries-during-traffic"] += queries
	core.Stats["conc:resets-during-traffic"] += resets
	if len(im.guarded) > 0 {
		core.Count("conc:guarded-watch-probes")
		if resets > 0 {
			core.Count("conc:guarded-watch-probes-with-resets")
		}
	}
	if f := im.overlaps(); f != "" {
		return core.Result{Impl: "conc", Fail: f, Sig: "c13:reset-overlaps-evaluation"}
	}
	full := snap(&done)
	msgs, problem := im.query()
	if problem != "" {
		return core.Result{Impl: "conc", Fail: "verification handler: " + problem, Sig: "c13:handler"}
	}
	if f, sig := verdict(msgs, full, full, "query at quiescence"); f != "" {
		return core.Result{Impl: "conc", Fail: f, Sig: sig}
	}
	res := core.Result{Impl: "conc"}
	if !withResets {
		// exact totals: ledger before the phase + every unmet evaluation of the phase
		for g := range plan {
			for _, p := range plan[g] {
				e.or.traffic(p.m)
			}
		}
		if f, sig := e.or.check(msgs); f != "" {
			return core.Result{Impl: "conc", Fail: "totals at quiescence: " + f, Sig: sig}
		}
		// linearisability against the model (Props/C13/Conc.lean, batch_linearisable): the report at
		// quiescence is, as a multiset, the report of the sequential model after the same exchanges in
		// any order; the model gets them goroutine by goroutine and both sides sort the report
		sorted := append([]string{}, msgs...)
		sort.Strings(sorted)
		hs := make([]string, len(sorted))
		for i, s := range sorted {
			hs[i] = core.HexS(s)
		}
		sort.Strings(hs)
		res.Impl = strings.Join(append([]string{"conc", strconv.Itoa(len(hs))}, hs...), " ")
		mo := []string{"concq", strconv.Itoa(concG * concK)}
		for g := range plan {
			for _, p := range plan[g] {
				mo = append(mo, strings.Split(p.m.op(), " ")[1:]...)
			}
		}
		res.ModelOp = strings.Join(mo, " ")
		core.Count("conc:quiescent-report-compared-with-model")
	}
	if code := im.reset(); code != 204 {
		return core.Result{Impl: "conc", Fail: "reset handler answered " + strconv.Itoa(code), Sig: "c13:handler"}
	}
	e.or.reset()
	for g := range plan {
		for _, p := range plan[g] {
			e.or.epoch[p.m.id] = e.or.resets - 1
		}
	}
	if _, r := e.checkedQuery(); r.Fail != "" {
		return core.Result{Impl: "conc", Fail: "after the final reset: " + r.Fail, Sig: r.Sig}
	}
	return res
}

// ---------------------------------------------------------------------------------------------
// overlapping queries (op ovl). Query 1 is let through `hold` watch probes and then held at the
// next one it reaches (if it reaches none it simply completes: nothing to overlap). While it is
// held, ovlK exchanges run, each in its own goroutine (one that has to wait for a lock query 1
// holds stays in flight). Then query 2 starts: by the property it must report every failure of
// every exchange that had COMPLETED before it began, and (like query 1) everything recorded before
// the op. Then the gate is opened. Each query is judged by its own start.

const ovlK = 6

func (e *ex) overlap(seed uint64) (res core.Result) {
	r := core.NewRand(seed)
	hold := int(seed % 3)
	msgs := make([]*msg, ovlK)
	unmet := make([]map[key]int, ovlK)
	for i := range msgs {
		msgs[i] = genMsg(r, 2000000+int(seed%1000)*10+i)
		if _, dup := e.or.epoch[msgs[i].id]; dup {
			return core.Result{Impl: "bad-op"}
		}
		u, _ := e.or.failuresOf(msgs[i])
		unmet[i] = map[key]int{}
		for _, l := range u {
			unmet[i][key{msgs[i].id, tagOf(l.n)}]++
		}
	}
	pre := e.or.expected()
	delete(pre, key{-1, "ping"})
	im := e.im
	type qres struct {
		msgs    []string
		problem string
	}
	watchGate.arm()
	defer watchGate.disarm()
	q1 := make(chan qres, 1)
	go func() { m, p := im.query(); q1 <- qres{m, p} }()
	held := false
	var r1 *qres
	for passed := 0; !held && r1 == nil; {
		select {
		case <-watchGate.entered:
			if passed < hold {
				passed++
				select {
				case watchGate.token <- struct{}{}:
				case <-time.After(2 * time.Second):
				}
			} else {
				held = true
			}
		case x := <-q1:
			r1 = &x
		case <-time.After(5 * time.Second):
			watchGate.disarm()
			x := <-q1
			return core.Result{Impl: "ovl", SkipModel: true, Fail: "query 1 neither finished nor reached a probe within 5 s: " + x.problem, Sig: "hang"}
		}
	}
	var done [ovlK]atomic.Bool
	var wg sync.WaitGroup
	for i := range msgs {
		wg.Add(1)
		go func(i int) { defer wg.Done(); im.traffic(msgs[i]); done[i].Store(true) }(i)
	}
	for t0 := time.Now(); time.Since(t0) < 60*time.Millisecond; time.Sleep(200 * time.Microsecond) {
		all := true
		for i := range done {
			all = all && done[i].Load()
		}
		if all {
			break
		}
	}
	var completed [ovlK]bool
	nc := 0
	for i := range done {
		if completed[i] = done[i].Load(); completed[i] {
			nc++
		}
	}
	q2 := make(chan qres, 1)
	go func() { m, p := im.query(); q2 <- qres{m, p} }()
	var r2 *qres
	if held {
		select { // let query 2 get as far as it can while query 1 is still held
		case x := <-q2:
			r2 = &x
		case <-watchGate.entered:
		case <-time.After(40 * time.Millisecond):
		}
		core.Count("ovl:query1-held-mid-walk")
		core.Stats["ovl:exchanges-completed-while-held"] += nc
	} else {
		core.Count("ovl:query1-not-held")
	}
	watchGate.disarm()
	wait := func(c chan qres, have *qres) (qres, bool) {
		if have != nil {
			return *have, true
		}
		select {
		case x := <-c:
			return x, true
		case <-time.After(10 * time.Second):
			return qres{}, false
		}
	}
	x1, ok1 := wait(q1, r1)
	x2, ok2 := wait(q2, r2)
	wgDone := make(chan struct{})
	go func() { wg.Wait(); close(wgDone) }()
	select {
	case <-wgDone:
	case <-time.After(10 * time.Second):
		return core.Result{Impl: "ovl", SkipModel: true, Fail: "exchanges did not finish after the gate was opened", Sig: "hang"}
	}
	for _, m := range msgs {
		e.or.traffic(m)
	}
	// the exchanges ran concurrently, so the order inside a verifier's list is not determined: the op
	// ends with a reset (as conc does), after which model and implementation agree again
	res = core.Result{Impl: "ovl"}
	defer func() {
		if code := im.reset(); code != 204 && res.Fail == "" {
			res.Fail, res.Sig = "reset handler answered "+strconv.Itoa(code), "c13:handler"
		}
		e.or.reset()
	}()
	if !ok1 || !ok2 {
		res.Fail, res.Sig = "a query did not return within 10 s after the gate was opened", "hang"
		return res
	}
	for qi, x := range []qres{x1, x2} {
		if x.problem != "" {
			res.Fail, res.Sig = fmt.Sprintf("verification handler (overlapping query %d): %s", qi+1, x.problem), "c13:handler"
			return res
		}
		got := count(x.msgs)
		need, may := map[key]int{}, map[key]int{}
		for k, n := range pre {
			need[k], may[k] = n, n
		}
		for i := range msgs {
			for k, n := range unmet[i] {
				may[k] += n
				if qi == 1 && completed[i] {
					need[k] += n
				}
			}
		}
		for k, n := range need {
			if got[k] < n {
				res.Fail = fmt.Sprintf("overlapping queries: query %d lost a failure: exchange m%d (%s verifier) completed before this query began (query 1 was still in progress, held mid-walk: %v), reported %d of %d", qi+1, k.id, k.tag, held, got[k], n)
				res.Sig = "c13:overlap-lost"
				return res
			}
		}
		for k, g := range got {
			if k.tag != "ping" && g > may[k] {
				res.Fail = fmt.Sprintf("overlapping queries: query %d reports exchange m%d, %s verifier %d time(s), at most %d possible", qi+1, k.id, k.tag, g, may[k])
				res.Sig = "c13:conc-extra"
				return res
			}
		}
	}
	if _, rq := e.checkedQuery(); rq.Fail != "" {
		res.Fail, res.Sig = "after the overlapping queries: "+rq.Fail, rq.Sig
	}
	return res
}
