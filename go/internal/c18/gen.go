package c18

import (
	"fmt"
	"strconv"
	"strings"
	"sync"
	"time"

	"github.com/google/martian/v3/trafficshape"

	"verif/harness/internal/core"
)

// ---- concurrent connections sharing the shapes (oracle only) ----

func (e *ex) doPar(t []string) core.Result {
	n, err0 := strconv.Atoi(t[0])
	url, ok := urlOf[t[1]]
	rs, err1 := strconv.ParseInt(t[2], 10, 64)
	hl, err2 := strconv.ParseInt(t[3], 10, 64)
	data, ok2 := core.Unhex(t[5])
	if err0 != nil || !ok || err1 != nil || err2 != nil || !ok2 || n < 1 || n > 64 || hl > int64(len(data)) {
		return core.Result{Impl: "bad-op", SkipModel: true}
	}
	res := core.Result{SkipModel: true, Impl: "par ok"}
	type one struct {
		c      *trafficshape.Conn
		rec    *recConn
		closed bool
		err    error
	}
	cs := make([]*one, n)
	nExtra := len(e.extra)
	nLocal := 0
	for i := range cs {
		rec := &recConn{}
		c := e.tsl.GetTrafficShapedConn(rec)
		nLocal = len(c.LocalBuckets)
		setContext(c, url, rs, hl)
		e.useFast(c, t[4])
		cs[i] = &one{c: c, rec: rec}
	}
	var wg sync.WaitGroup
	for i, o := range cs {
		wg.Add(1)
		go func(i int, o *one) {
			defer wg.Done()
			step := 1 + (i*7)%23
			for p := 0; p < len(data); p += step {
				q := p + step
				if q > len(data) {
					q = len(data)
				}
				if _, err := o.c.Write(data[p:q]); err != nil {
					_, fc := err.(*trafficshape.ErrForceClose)
					o.closed, o.err = fc, err
					return
				}
			}
			o.err = nil
		}(i, o)
	}
	done := make(chan struct{})
	go func() { wg.Wait(); close(done) }()
	select {
	case <-done:
	case <-time.After(20 * time.Second):
		return core.Result{SkipModel: true, Impl: "hang", Sig: "hang", Fail: "concurrent shaped writes did not finish"}
	}
	theHook.take()
	os := e.cfg[t[1]]
	closedAt := map[int64]int64{}
	nClosed := 0
	for i, o := range cs {
		got := o.rec.snapshot()
		if !isPrefix(got, data) {
			res.Sig, res.Fail = "c18:bytes-altered", fmt.Sprintf("concurrent conn %d received %x, written %x", i, got, data)
			return res
		}
		if o.err != nil && !o.closed {
			res.Sig, res.Fail = "c18:write-error", fmt.Sprintf("concurrent conn %d: %v", i, o.err)
			return res
		}
		if !o.closed {
			if len(got) != len(data) {
				res.Sig, res.Fail = "c18:short-write", fmt.Sprintf("concurrent conn %d: no error but %d of %d bytes", i, len(got), len(data))
				return res
			}
			continue
		}
		nClosed++
		if os == nil || int64(len(got)) < hl {
			res.Sig, res.Fail = "c18:close-at-wrong-offset", fmt.Sprintf("concurrent conn %d closed inside the head or without a shape", i)
			return res
		}
		closedAt[rs+int64(len(got))-hl]++
	}
	if os != nil {
		for k, cnt := range closedAt {
			var budget int64
			found := false
			for _, c := range os.closes {
				if c.byt == k && c.byt >= rs && c.rem != 0 {
					found = true
					if c.rem < 0 {
						budget = 1 << 40
					} else {
						budget += c.rem
					}
				}
			}
			if !found {
				res.Sig, res.Fail = "c18:close-at-wrong-offset", fmt.Sprintf("concurrent conns closed at body offset %d where no active close action is", k)
				return res
			}
			if cnt > budget {
				res.Sig, res.Fail = "c18:close-count-exceeded", fmt.Sprintf("%d connections closed at offset %d, the close actions there allow %d", cnt, k, budget)
				return res
			}
		}
		// an infinite close inside the body closes every connection
		for _, c := range os.closes {
			if c.rem == -1 && c.byt >= rs && c.byt < rs+int64(len(data))-hl && nClosed != n {
				res.Sig, res.Fail = "c18:close-skipped", fmt.Sprintf("close action with infinite count at %d closed only %d of %d connections", c.byt, nClosed, n)
				return res
			}
		}
	}
	for _, o := range cs {
		o.c.Close()
	}
	for _, b := range e.extra[nExtra:] {
		b.Close()
	}
	e.extra = e.extra[:nExtra]
	if d := e.settle(); d != 0 {
		res.Sig = "c18:leak:conn-local-buckets"
		res.Fail = fmt.Sprintf("%d concurrent shaped connections (%d shapes each) were closed; %d drain goroutines remain", n, nLocal, d)
		return res
	}
	core.Count("par")
	core.Count(fmt.Sprintf("par:closed=%v", nClosed > 0))
	return res
}

// ---- wall-clock measurement of a throttle with the real one-second buckets (oracle only) ----

func (e *ex) doSlow(t []string) core.Result {
	url, ok := urlOf[t[0]]
	rs, err1 := strconv.ParseInt(t[1], 10, 64)
	bw, err2 := strconv.ParseInt(t[2], 10, 64)
	ln, err3 := strconv.Atoi(t[3])
	if !ok || t[0] == "n" || err1 != nil || err2 != nil || err3 != nil || bw < 1 || ln < 1 || int64(ln)/bw > 6 {
		return core.Result{Impl: "bad-op", SkipModel: true}
	}
	res := core.Result{SkipModel: true, Impl: "slow ok"}
	sl := &stubListener{ch: make(chan struct{})}
	tsl := trafficshape.NewListener(sl)
	closeAll := func() {}
	defer func() { closeAll(); tsl.Close(); e.settle() }()
	h := &ex{tsl: tsl, h: trafficshape.NewHandler(tsl)}
	body := fmt.Sprintf(`{"trafficshape":{"shapes":[{"url_regex":%s,"throttles":[{"bytes":"%d-","bandwidth":%d}]}]}}`, jsonStr(regexOf[t[0]]), rs, bw)
	if code, _ := h.post(body); code != 200 {
		res.Sig, res.Fail = "c18:valid-config-rejected", "throttle configuration refused: "+body
		return res
	}
	e.cfgLoops++ // its global bucket is never closed (known finding, accounted in leak)
	e.collect(tsl)
	rec := &recConn{}
	c := tsl.GetTrafficShapedConn(rec)
	closeAll = func() { c.Close() }
	setContext(c, url, rs, 10)
	data := make([]byte, 10+ln)
	for i := range data {
		data[i] = byte(i*31 + 7)
	}
	t0 := time.Now()
	done := make(chan error, 1)
	go func() { _, err := c.Write(data); done <- err }()
	select {
	case err := <-done:
		if err != nil {
			res.Sig, res.Fail = "c18:write-error", err.Error()
			return res
		}
	case <-time.After(15 * time.Second):
		return core.Result{SkipModel: true, Impl: "hang", Sig: "hang", Fail: "throttled write did not finish"}
	}
	el := time.Since(t0)
	if string(rec.snapshot()) != string(data) {
		res.Sig, res.Fail = "c18:bytes-altered", "throttled write altered the bytes"
		return res
	}
	// ceil(ln/bw) bucket fills are needed; the first may be cut short by the drain phase, hence -2 intervals.
	fills := (int64(ln) + bw - 1) / bw
	want := time.Duration(fills-2)*time.Second - 50*time.Millisecond
	core.Count("slow")
	core.Notes["slow-measurement"] = fmt.Sprintf("%d bytes at %d B/s took %v (lower bound used %v)", ln, bw, el, want)
	if want > 0 && el < want {
		res.Sig, res.Fail = "c18:delay-too-short", fmt.Sprintf("%d bytes at %d B/s took only %v", ln, bw, el)
	}
	return res
}

// ---- generators ----

type gShape struct {
	id     string
	maxbw  int64
	thr    []string // items
	halts  []string
	closes []string
	acts   []int64    // offsets at which something happens
	ivs    [][2]int64 // throttle intervals (end -1 = open)
}

func item(xs []string) string {
	if len(xs) == 0 {
		return "-"
	}
	return strings.Join(xs, ",")
}

func (s gShape) tok() string {
	return fmt.Sprintf("s:%s:%d:%s:%s:%s", s.id, s.maxbw, item(s.thr), item(s.halts), item(s.closes))
}

func count(r *core.Rand) int64 {
	return []int64{-1, -1, 1, 1, 2, 3}[r.Intn(6)]
}

// validShape: non-overlapping throttles (possibly adjacent, possibly open-ended, shuffled), halts, closes.
func validShape(r *core.Rand, id string, fast bool, span int) gShape {
	s := gShape{id: id}
	if r.Chance(1, 3) {
		s.maxbw = int64(r.Range(200000, 900000))
	}
	bwOf := func() int64 {
		if fast {
			return int64(r.Range(1, 40))
		}
		return int64(r.Range(100000, 900000))
	}
	// throttles
	nt := r.Intn(4)
	pos := int64(r.Intn(span / 3))
	var thr []string
	for i := 0; i < nt; i++ {
		st := pos
		en := st + int64(r.Range(1, span/3))
		pos = en
		if !r.Chance(1, 3) {
			pos += int64(r.Range(1, span/4))
		}
		stS, enS := strconv.FormatInt(st, 10), strconv.FormatInt(en, 10)
		if st == 0 && r.Bool() {
			stS = ""
		}
		if i == nt-1 && r.Chance(1, 3) {
			enS = ""
			en = -1
		}
		if r.Chance(1, 12) {
			stS = "+" + strconv.FormatInt(st, 10)
		}
		thr = append(thr, fmt.Sprintf("%s/%d", core.HexS(stS+"-"+enS), bwOf()))
		s.acts = append(s.acts, st)
		s.ivs = append(s.ivs, [2]int64{st, en})
		if en >= 0 {
			s.acts = append(s.acts, en)
		}
	}
	// the order they are posted in (the code sorts them): ascending, descending, shuffled
	switch r.Intn(4) {
	case 0:
	case 1:
		for i, j := 0, len(thr)-1; i < j; i, j = i+1, j-1 {
			thr[i], thr[j] = thr[j], thr[i]
		}
	default:
		for i := len(thr) - 1; i > 0; i-- {
			j := r.Intn(i + 1)
			thr[i], thr[j] = thr[j], thr[i]
		}
	}
	s.thr = thr
	off := func() int64 {
		if len(s.acts) > 0 && r.Chance(1, 3) {
			return s.acts[r.Intn(len(s.acts))] // collide with another action
		}
		return int64(r.Intn(span))
	}
	for i, n := 0, r.Intn(4); i < n; i++ {
		b := off()
		s.halts = append(s.halts, fmt.Sprintf("%d/%d/%d", b, r.Intn(4), count(r)))
		s.acts = append(s.acts, b)
	}
	for i, n := 0, r.Intn(3); i < n; i++ {
		b := off()
		s.closes = append(s.closes, fmt.Sprintf("%d/%d", b, count(r)))
		s.acts = append(s.acts, b)
	}
	return s
}

// breakShape applies one defect; returns the name of the defect class.
func breakShape(r *core.Rand, s *gShape) string {
	thrItem := func(b string, bw int64) string { return fmt.Sprintf("%s/%d", core.HexS(b), bw) }
	k := r.Intn(20)
	switch k {
	case 0:
		s.id = "bad"
	case 1:
		s.id = "empty"
	case 2:
		s.maxbw = -int64(r.Range(1, 1000))
	case 3:
		s.thr = append(s.thr, "nil")
	case 4:
		s.thr = append(s.thr, thrItem("10-20", int64(-r.Intn(2)*5)))
	case 5:
		s.thr = append(s.thr, thrItem(r.Pick("", "5", "1-2-3", "a-b", "5-x", " 1-2", "1 -2", "0x1-9", "-5-9", "1_0-20", "99999999999999999999-", "3-99999999999999999999"), 100000))
	case 6:
		v := r.Intn(50)
		s.thr = append(s.thr, thrItem(fmt.Sprintf("%d-%d", v, v-r.Intn(3)), 100000)) // end <= start
	case 7, 8, 9:
		// overlap with an existing or a fresh pair
		a := r.Intn(100)
		l := r.Range(2, 40)
		o := a + r.Intn(l)
		first, second := thrItem(fmt.Sprintf("%d-%d", a, a+l), 100000), thrItem(fmt.Sprintf("%d-%d", o, o+r.Range(1, 30)), 100000)
		if r.Chance(1, 4) {
			first = thrItem(fmt.Sprintf("%d-", a), 100000) // open-ended, then one after it
			second = thrItem(fmt.Sprintf("%d-%d", a+l, a+l+5), 100000)
		}
		if r.Bool() {
			first, second = second, first
		}
		s.thr = []string{first, second}
	case 10:
		s.halts = append(s.halts, "nil")
	case 11:
		s.halts = append(s.halts, fmt.Sprintf("%d/%d/1", -r.Range(1, 9), r.Intn(3)))
	case 12:
		s.halts = append(s.halts, fmt.Sprintf("%d/%d/-1", r.Intn(50), -r.Range(1, 9)))
	case 13:
		s.halts = append(s.halts, fmt.Sprintf("%d/1/0", r.Intn(50)))
	case 14:
		s.closes = append(s.closes, "nil")
	case 15:
		s.closes = append(s.closes, fmt.Sprintf("%d/1", -r.Range(1, 9)))
	case 16:
		s.closes = append(s.closes, fmt.Sprintf("%d/0", r.Intn(50)))
	case 17:
		s.thr = append(s.thr, thrItem("3-3", 100000))
	case 18:
		s.thr = append(s.thr, thrItem("0-5", 0))
	default:
		s.id = "bad"
	}
	return fmt.Sprintf("break%d", k)
}

func defaults(r *core.Rand, valid bool) string {
	if !valid {
		v := []int64{int64(r.Range(100000, 900000)), int64(r.Range(100000, 900000)), int64(r.Intn(3))}
		v[r.Intn(3)] = -int64(r.Range(1, 1000))
		return fmt.Sprintf("d:%d:%d:%d", v[0], v[1], v[2])
	}
	switch r.Intn(4) {
	case 0:
		return "d:none"
	case 1:
		return "d:0:0:0"
	default:
		return fmt.Sprintf("d:%d:%d:%d", r.Range(200000, 900000), r.Range(200000, 900000), r.Intn(3))
	}
}

type genCfg struct {
	tok    string
	valid  bool
	shapes []gShape
}

func genConfig(r *core.Rand, valid bool, fast bool, span int) genCfg {
	ids := []string{"a", "b", "c"}
	n := r.Range(1, 3)
	if r.Chance(1, 10) {
		n = 0
	}
	var g genCfg
	g.valid = valid
	for i := 0; i < n; i++ {
		id := ids[i]
		if r.Chance(1, 12) {
			id = ids[r.Intn(3)] // duplicate regex: the later shape replaces the earlier one in the map
		}
		g.shapes = append(g.shapes, validShape(r, id, fast, span))
	}
	d := defaults(r, true)
	toks := []string{}
	nullAt := -1
	if !valid {
		switch {
		case r.Chance(1, 8):
			d = defaults(r, false)
			core.Count("gen:break-defaults")
		case r.Chance(1, 10) || n == 0:
			nullAt = r.Intn(n + 1)
			core.Count("gen:break-nullshape")
		default:
			core.Count("gen:" + breakShape(r, &g.shapes[r.Intn(n)]))
		}
	}
	toks = append(toks, d)
	for i, s := range g.shapes {
		if i == nullAt {
			toks = append(toks, "null")
		}
		toks = append(toks, s.tok())
	}
	if nullAt == n {
		toks = append(toks, "null")
	}
	g.tok = "config " + strings.Join(toks, " ")
	return g
}

// response emits ctx + writes for one response on conn id.
func response(r *core.Rand, ops *[]string, id string, g *genCfg, fast bool, span int) {
	responseI(r, ops, id, g, fast, span, nil)
}

// responseI: the same, but one of the writes is parked inside the inner connection (`wstart`) while
// `middle` emits other ops, and is then resumed (`wend`).
func responseI(r *core.Rand, ops *[]string, id string, g *genCfg, fast bool, span int, middle func()) {
	u := r.Pick("a", "b", "c", "n", "a", "a")
	if g != nil && len(g.shapes) > 0 && r.Chance(2, 3) {
		u = g.shapes[r.Intn(len(g.shapes))].id
	}
	var acts []int64
	var ivs [][2]int64
	if g != nil {
		for _, s := range g.shapes {
			if s.id == u {
				acts, ivs = s.acts, s.ivs
			}
		}
	}
	rs := int64(0)
	switch r.Intn(7) {
	case 6: // strictly inside a throttle interval (or at its first / last byte)
		if len(ivs) > 0 {
			iv := ivs[r.Intn(len(ivs))]
			en := iv[1]
			if en < 0 {
				en = iv[0] + int64(span)
			}
			rs = iv[0] + int64(r.Intn(int(en-iv[0])))
		}
	case 0, 1:
		rs = int64(r.Intn(span))
	case 2:
		if len(acts) > 0 {
			rs = acts[r.Intn(len(acts))] + int64(r.Range(-1, 1))
			if rs < 0 {
				rs = 0
			}
		}
	case 3:
		if r.Chance(1, 4) {
			rs = -1
		}
	}
	hl := r.Intn(40)
	if r.Chance(1, 8) {
		hl = 0
	}
	bodyLen := r.Intn(span)
	if len(acts) > 0 && r.Chance(1, 3) && rs >= 0 {
		// end exactly at (or next to) an action
		a := acts[r.Intn(len(acts))] - rs + int64(r.Range(-1, 1))
		if a >= 0 {
			bodyLen = int(a)
		}
	}
	f := "-"
	if fast {
		f = strconv.Itoa(r.Range(1, 16))
	}
	if r.Chance(1, 3) {
		// the bucket shared by all connections of the shape is limited too, independently of the
		// connection's own: smaller, equal or larger, and partly used by whoever wrote before
		if fast {
			f += "/" + strconv.Itoa(r.Range(1, 24))
		} else {
			f += "/" + strconv.Itoa(r.Range(8, 400))
		}
	}
	*ops = append(*ops, fmt.Sprintf("ctx %s %s %d %d %s", id, u, rs, hl, f))
	data := r.Bytes(hl + bodyLen)
	if middle != nil && len(data) == 0 {
		data = r.Bytes(1 + r.Intn(20))
	}
	parkAt := -1 // the write that covers this byte is the parked one
	if middle != nil {
		parkAt = r.Intn(len(data))
		if r.Chance(1, 3) {
			parkAt = 0
		}
	}
	// random write sizes; boundaries biased to the head end and to action offsets
	for p := 0; p < len(data); {
		var q int
		switch r.Intn(5) {
		case 0:
			q = p + 1
		case 1:
			q = hl
		case 2:
			if len(acts) > 0 && rs >= 0 {
				q = hl + int(acts[r.Intn(len(acts))]-rs)
			}
		case 3:
			q = len(data)
		default:
			q = p + r.Range(1, 60)
		}
		if q <= p || q > len(data) {
			q = p + r.Range(1, len(data)-p)
		}
		if middle != nil && p <= parkAt && parkAt < q {
			// park position within this call: anywhere, the very beginning, or just before / at an action
			pp := r.Intn(q - p)
			switch r.Intn(4) {
			case 0:
				pp = 0
			case 1:
				if len(acts) > 0 && rs >= 0 {
					if x := hl + int(acts[r.Intn(len(acts))]-rs) - p - r.Intn(3); x >= 0 && x < q-p {
						pp = x
					}
				}
			}
			*ops = append(*ops, fmt.Sprintf("wstart %s %s %d", id, core.Hex(data[p:q]), pp))
			middle()
			*ops = append(*ops, "wend "+id)
		} else {
			*ops = append(*ops, "write "+id+" "+core.Hex(data[p:q]))
		}
		p = q
	}
	if r.Chance(1, 10) {
		*ops = append(*ops, "write "+id+" -")
	}
}

func (P) Gen(r *core.Rand, tier string, emit func([]string)) {
	nMain, nCfg, nPar, nSlow := 70, 40, 6, 1
	nInter, nFlight, nE2E := 50, 30, 24
	nTimed, nFault, nRepeat := 3, 30, 30
	if tier == "thorough" {
		nTimed, nFault, nRepeat = 30, 500, 500
		nMain, nCfg, nPar, nSlow = 1500, 600, 60, 4
		nInter, nFlight, nE2E = 1000, 500, 400
	}
	// A. shaped write histories
	for i := 0; i < nMain; i++ {
		fast := r.Chance(1, 2)
		span := r.Pick2(60, 300)
		var ops []string
		var cur *genCfg
		if r.Chance(1, 8) {
			ops = append(ops, "conn z") // a connection older than every configuration
		}
		nconn := 0
		var live []string
		for round, rounds := 0, r.Range(1, 3); round < rounds; round++ {
			g := genConfig(r, !r.Chance(1, 4), fast, span)
			ops = append(ops, g.tok)
			if g.valid {
				cur = &g
			}
			for k, nk := 0, r.Range(1, 2); k < nk; k++ {
				id := fmt.Sprintf("k%d", nconn)
				nconn++
				ops = append(ops, "conn "+id)
				live = append(live, id)
			}
			for k, nk := 0, r.Range(1, 4); k < nk; k++ {
				id := live[r.Intn(len(live))]
				if r.Chance(1, 10) && len(ops) > 0 && ops[0] == "conn z" {
					id = "z"
				}
				response(r, &ops, id, cur, fast, span)
			}
			if r.Chance(1, 3) && len(live) > 1 {
				j := r.Intn(len(live))
				ops = append(ops, "close "+live[j])
				live = append(live[:j], live[j+1:]...)
			}
		}
		ops = append(ops, "leak")
		emit(ops)
	}
	// B. configuration histories: valid / invalid alternation, probes in between
	for i := 0; i < nCfg; i++ {
		var ops []string
		var cur *genCfg
		for k, nk := 0, r.Range(2, 6); k < nk; k++ {
			if r.Chance(1, 10) {
				ops = append(ops, "configraw "+core.HexS(r.Pick(`{`, `{"trafficshape":null}`, `{}`, `[]`, `{"trafficshape":{"shapes":[{"url_regex":"x","Actions":[{}]}]}}`,
					`{"trafficshape":{"shapes":"x"}}`, `{"trafficshape":{"default":{"latency":"1"}}}`, ``, `{"trafficshape":{"shapes":[{"url_regex":"a","halts":[{"byte":1.5}]}]}}`)))
				continue
			}
			g := genConfig(r, r.Chance(2, 5), false, 120)
			ops = append(ops, g.tok)
			if g.valid {
				cur = &g
			}
			id := fmt.Sprintf("p%d", k)
			ops = append(ops, "conn "+id)
			response(r, &ops, id, cur, false, 120)
		}
		ops = append(ops, "leak")
		emit(ops)
	}
	// C. concurrent connections sharing one configuration
	for i := 0; i < nPar; i++ {
		g := genConfig(r, true, true, 120)
		u := "a"
		if len(g.shapes) > 0 {
			u = g.shapes[r.Intn(len(g.shapes))].id
		}
		hl := r.Intn(30)
		data := r.Bytes(hl + r.Range(20, 150))
		f := strconv.Itoa(r.Range(1, 16))
		if r.Bool() {
			f += "/" + strconv.Itoa(r.Range(1, 24)) // all of them share one small bucket as well
		}
		emit([]string{g.tok, fmt.Sprintf("par %d %s %d %d %s %s", r.Range(2, 12), u, r.Intn(40), hl, f, core.Hex(data)), "leak"})
	}
	// D. wall-clock throttle measurement (seconds each)
	for i := 0; i < nSlow; i++ {
		bw := r.Range(40, 90)
		emit([]string{fmt.Sprintf("slow %s %d %d %d", r.Pick("a", "b", "c"), r.Intn(50), bw, bw*3+r.Range(1, bw-1)), "leak"})
	}
	// F. interleaved histories: configuration requests, accepts and stalled uploads while a Write is between two rounds
	for i := 0; i < nInter; i++ {
		fast := r.Chance(1, 2)
		span := r.Pick2(60, 300)
		g := genConfig(r, true, fast, span)
		ops := []string{g.tok, "conn k0"}
		cur := &g
		if r.Chance(1, 3) {
			response(r, &ops, "k0", cur, fast, span)
		}
		var later []string
		var g2 genCfg
		have2 := false
		middle := func() {
			switch k := r.Intn(8); {
			case k < 4: // an accepted configuration (the same patterns, other actions)
				g2, have2 = genConfig(r, true, fast, span), true
				ops = append(ops, g2.tok)
				core.Count("gen:inter:config-accepted")
			case k == 4: // a refused one: nothing may change
				ops = append(ops, genConfig(r, false, fast, span).tok)
				core.Count("gen:inter:config-rejected")
			case k == 5: // a stalled upload around an accept
				g2, have2 = genConfig(r, true, fast, span), true
				ops = append(ops, "cfgstart "+strings.TrimPrefix(g2.tok, "config "), "conn k1", "cfgend")
				later = append(later, "k1")
				core.Count("gen:inter:stalled-upload")
			case k == 6: // another connection is accepted meanwhile
				ops = append(ops, "conn k1")
				later = append(later, "k1")
				core.Count("gen:inter:accept")
			default:
				core.Count("gen:inter:nothing")
			}
		}
		responseI(r, &ops, "k0", cur, fast, span, middle)
		if have2 {
			cur = &g2
		}
		if r.Chance(1, 2) {
			ops = append(ops, "conn k2")
			later = append(later, "k2")
		}
		later = append(later, "k0")
		for _, id := range later {
			if r.Chance(2, 3) {
				response(r, &ops, id, cur, fast, span)
			}
		}
		ops = append(ops, "leak")
		emit(ops)
	}
	// G. connections accepted while a configuration request is still being uploaded
	for i := 0; i < nFlight; i++ {
		fast := r.Chance(1, 2)
		span := r.Pick2(60, 300)
		var ops []string
		var g1 genCfg
		var cur *genCfg
		if !r.Chance(1, 6) {
			g1 = genConfig(r, true, fast, span)
			ops = append(ops, g1.tok)
			cur = &g1
		}
		hasK0 := r.Chance(1, 2)
		if hasK0 {
			ops = append(ops, "conn k0")
		}
		g2 := genConfig(r, !r.Chance(1, 5), fast, span)
		ops = append(ops, "cfgstart "+strings.TrimPrefix(g2.tok, "config "))
		ops = append(ops, "conn k1")
		if r.Chance(1, 3) {
			response(r, &ops, "k1", cur, fast, span) // the old configuration is still the active one
		}
		if r.Chance(1, 3) {
			ops = append(ops, "conn k1b")
		}
		ops = append(ops, "cfgend")
		if g2.valid {
			cur = &g2
		}
		ops = append(ops, "conn k2")
		// k1 was accepted before the configuration became active: its actions must not reach it
		for _, id := range []string{"k1", "k2", "k1", "k0", "k1b"} {
			if (id == "k0" && !hasK0) || (id == "k1b" && !contains(ops, "conn k1b")) {
				continue
			}
			if id == "k1" || r.Chance(1, 2) {
				response(r, &ops, id, cur, fast, span)
			}
		}
		ops = append(ops, "leak")
		emit(ops)
	}
	// H. end to end: a real proxy on the shaped listener, keep-alive sequences of matching and non-matching URLs
	for i := 0; i < nE2E; i++ {
		span := []int{300, 3000, 12000}[r.Intn(3)]
		g := genConfig(r, true, false, span)
		cur := &g
		shared := "" // every dialled connection of the case shares small real global buckets
		if r.Chance(1, 3) {
			shared = " " + strconv.Itoa(r.Range(16, 600))
		}
		ops := []string{g.tok, "dial c0" + shared}
		live := []string{"c0"}
		nreq := r.Range(2, 4)
		for k := 0; k < nreq; k++ {
			if k > 0 && r.Chance(1, 5) {
				switch r.Intn(3) {
				case 0:
					g2 := genConfig(r, true, false, span)
					ops = append(ops, g2.tok)
					cur = &g2
				case 1:
					ops = append(ops, genConfig(r, false, false, span).tok)
				default:
					g2 := genConfig(r, true, false, span)
					id := fmt.Sprintf("c%d", len(live))
					ops = append(ops, "cfgstart "+strings.TrimPrefix(g2.tok, "config "), "dial "+id+shared, "cfgend")
					live = append(live, id)
					cur = &g2
				}
				if r.Chance(1, 2) {
					id := fmt.Sprintf("c%d", len(live))
					ops = append(ops, "dial "+id+shared)
					live = append(live, id)
				}
			}
			k := r.Intn(len(live))
			rq, closes := request(r, live[k], cur, span)
			ops = append(ops, rq)
			if closes { // the client asked for the connection to be closed after this response
				live = append(live[:k], live[k+1:]...)
				if len(live) == 0 {
					id := fmt.Sprintf("d%d", k+len(ops))
					ops = append(ops, "dial "+id+shared)
					live = append(live, id)
				}
			}
		}
		if r.Chance(1, 2) {
			ops = append(ops, "hangup "+live[r.Intn(len(live))])
		}
		ops = append(ops, "leak")
		emit(ops)
	}
	// I. end to end, throttles with nothing ahead: open-ended ranges and range starts past the last action, bodies
	// beyond the proxy's write buffer; the connection's own buckets drain every 10 ms, so "at least the configured
	// delay" of a throttled body is a wall-clock lower bound of tenths of a second
	for i := 0; i < nTimed; i++ {
		bw := r.Range(300, 500)
		k := []int{0, r.Intn(300), r.Range(1000, 2000)}[r.Intn(3)]
		thr := fmt.Sprintf("%s/%d", core.HexS(fmt.Sprintf("%d-", k)), bw)
		if k > 600 && r.Bool() {
			thr = fmt.Sprintf("%s/%d,%s", core.HexS(fmt.Sprintf("0-%d", k-r.Range(1, 500))), r.Range(2000, 4000), thr)
		}
		halts := "-"
		if r.Bool() {
			halts = fmt.Sprintf("%d/%d/-1", r.Intn(k+50), r.Range(1, 5))
		}
		id := r.Pick("a", "b", "c")
		ops := []string{fmt.Sprintf("config d:none s:%s:0:%s:%s:-", id, thr, halts), "dial c0 - 10"}
		ops = append(ops, fmt.Sprintf("req c0 %s - %d", id, k+r.Range(8000, 12000)))
		if r.Bool() {
			ops = append(ops, fmt.Sprintf("req c0 n - %d", r.Range(4000, 9000))) // the unmatched URL is not slowed down... nor sped up
		}
		ops = append(ops, "dial c1 - 10", fmt.Sprintf("req c1 %s %d %d%s", id, k+r.Range(1, 3000), r.Range(8000, 12000), r.Pick("", "", " c", " h10")))
		ops = append(ops, "leak")
		emit(ops)
	}
	// J. faults of the wrapped connection: Close reporting an error, a Write failing mid-round, a failing Read, a
	// second Close - whatever they report, delivered bytes stay a prefix and closing releases the buckets
	for i := 0; i < nFault; i++ {
		fast := r.Chance(1, 2)
		span := r.Pick2(60, 300)
		g := genConfig(r, true, fast, span)
		ops := []string{g.tok, "conn k0", "conn k1"}
		if r.Chance(1, 2) {
			response(r, &ops, "k0", &g, fast, span)
		}
		switch r.Intn(5) {
		case 0, 1: // the wrapped Close reports an error
			ops = append(ops, "fault k0 close", "close k0")
			if r.Bool() {
				ops = append(ops, "reclose k0")
			}
		case 2: // a Write of the wrapped connection fails after n more bytes, anywhere in the next response
			ops = append(ops, fmt.Sprintf("fault k0 write %d", r.Intn(span)))
			response(r, &ops, "k0", &g, fast, span)
		case 3:
			ops = append(ops, "fault k0 read", "read k0", "close k0", "reclose k0")
		default:
			ops = append(ops, "close k0", "reclose k0", "reclose k0")
		}
		response(r, &ops, "k1", &g, fast, span)
		if r.Bool() {
			ops = append(ops, "fault k1 close")
		}
		ops = append(ops, "leak")
		emit(ops)
	}
	// K. configuration histories with REPEATS: the same body is posted again after its counted actions were consumed
	// (also after a refused one, also A B A); an accepted configuration applies in full - fresh counts - to the
	// connections accepted afterwards
	for i := 0; i < nRepeat; i++ {
		fast := r.Chance(1, 2)
		span := r.Pick2(60, 300)
		gA := genConfig(r, true, fast, span)
		for len(gA.shapes) == 0 {
			gA = genConfig(r, true, fast, span)
		}
		// a counted close (and sometimes a counted halt) early in the first shape
		sh := &gA.shapes[0]
		k, cnt := r.Intn(30), r.Range(1, 2)
		sh.closes = append(sh.closes, fmt.Sprintf("%d/%d", k, cnt))
		sh.acts = append(sh.acts, int64(k))
		if r.Bool() {
			sh.halts = append(sh.halts, fmt.Sprintf("%d/%d/1", r.Intn(k+1), r.Intn(3)))
		}
		toks := strings.Fields(gA.tok)
		gA.tok = strings.Join(toks[:2], " ")
		for _, s := range gA.shapes {
			gA.tok += " " + s.tok()
		}
		e2e := r.Chance(1, 4)
		nconn := 0
		hit := func(ops *[]string) { // one response on a fresh connection that runs into the counted close
			id := fmt.Sprintf("k%d", nconn)
			nconn++
			if e2e {
				*ops = append(*ops, "dial "+id, fmt.Sprintf("req %s %s - %d", id, sh.id, k+r.Range(1, 40)))
				return
			}
			hl := r.Intn(20)
			f := "-"
			if fast {
				f = strconv.Itoa(r.Range(1, 16))
			}
			*ops = append(*ops, "conn "+id, fmt.Sprintf("ctx %s %s 0 %d %s", id, sh.id, hl, f), "write "+id+" "+core.Hex(r.Bytes(hl+k+r.Range(1, 40))))
		}
		ops := []string{gA.tok}
		for j := 0; j < cnt+r.Intn(2); j++ {
			hit(&ops)
		}
		switch r.Intn(4) {
		case 0: // A, refused, A
			ops = append(ops, genConfig(r, false, fast, span).tok)
		case 1: // A, B, A
			ops = append(ops, genConfig(r, true, fast, span).tok)
			if r.Bool() {
				hit(&ops)
			}
		}
		ops = append(ops, gA.tok) // the byte-identical body again
		hit(&ops)
		if r.Bool() {
			ops = append(ops, gA.tok)
			hit(&ops)
		}
		ops = append(ops, "leak")
		emit(ops)
	}
	// E. the resource clause in its strict reading (global shape buckets of replaced configurations)
	emit([]string{"config d:none s:a:0:-:5/1/1:-", "conn k0", "config d:none s:b:0:-:-:9/1", "conn k1", "close k0", "close k1", "leak strict"})
}

func contains(xs []string, x string) bool {
	for _, y := range xs {
		if y == x {
			return true
		}
	}
	return false
}

// request emits one exchange of the end-to-end tier: URL class, Range form, body length, connection options.
func request(r *core.Rand, id string, g *genCfg, span int) (string, bool) {
	u := r.Pick("a", "b", "c", "n", "n", "a")
	if g != nil && len(g.shapes) > 0 && r.Chance(1, 2) {
		u = g.shapes[r.Intn(len(g.shapes))].id
	}
	var acts []int64
	var ivs [][2]int64
	if g != nil {
		for _, s := range g.shapes {
			if s.id == u {
				acts, ivs = s.acts, s.ivs
			}
		}
	}
	rs := int64(0)
	R := "-"
	switch r.Intn(9) {
	case 8: // a 206 whose Content-Range start lies inside a throttle interval
		if len(ivs) > 0 {
			iv := ivs[r.Intn(len(ivs))]
			en := iv[1]
			if en < 0 {
				en = iv[0] + int64(span)
			}
			rs = iv[0] + int64(r.Intn(int(en-iv[0])))
			R = strconv.FormatInt(rs, 10)
		}
	case 0, 1:
		rs = int64(r.Intn(span))
		R = strconv.FormatInt(rs, 10)
	case 2:
		if len(acts) > 0 {
			rs = acts[r.Intn(len(acts))] + int64(r.Range(-1, 1))
			if rs < 0 {
				rs = 0
			}
			R = strconv.FormatInt(rs, 10)
		}
	case 3:
		R = r.Pick("m", "x") + strconv.Itoa(r.Intn(span))
	}
	var blen int
	switch r.Intn(6) {
	case 0:
		blen = r.Intn(40)
	case 1:
		blen = r.Range(3900, 4300) // around the proxy's 4096-byte write buffer
	case 2:
		blen = r.Range(4097, 12000)
	default:
		blen = r.Intn(span + span/4)
	}
	if len(acts) > 0 && r.Chance(1, 3) && R[0] != 'm' && R[0] != 'x' {
		if a := acts[r.Intn(len(acts))] - rs + int64(r.Range(-1, 2)); a >= 0 {
			blen = int(a)
		}
	}
	// connection options: Connection: close or an HTTP/1.0 request, the origin echoing the close or not
	opt := ""
	if r.Chance(1, 4) {
		opt = " " + r.Pick("c", "c", "ce", "h10", "h10e")
	}
	return fmt.Sprintf("req %s %s %s %d%s", id, u, R, blen, opt), opt != ""
}
