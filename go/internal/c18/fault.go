package c18

// Faults of the wrapped net.Conn: the shaper forwards Close, Write, Read and the deadlines to it, and
// whatever they report, the bytes that did go out must be a prefix of what was written and closing the
// shaped connection must release what was created for it.
//
//	fault <id> close           the wrapped Close reports an error (a TLS peer that is gone, an owner that closed first)
//	fault <id> write <n>       after n more bytes the wrapped Write accepts a part and fails; later writes fail
//	fault <id> read            the wrapped Read fails
//	read <id>                  Conn.Read (oracle only)
//	reclose <id>               Conn.Close on a connection that is closed already (oracle only)

import (
	"errors"
	"fmt"
	"strconv"
	"time"

	"verif/harness/internal/core"
)

var errInjected = errors.New("injected fault of the wrapped connection")

func (c *recConn) struck() bool {
	c.mu.Lock()
	defer c.mu.Unlock()
	return c.fired
}

func (e *ex) doFault(t []string) core.Result {
	cs, ok := e.conns[t[0]]
	if !ok || cs.rec == nil || cs.closed || cs.pend != nil {
		return core.Result{Impl: "bad-op", SkipModel: true}
	}
	cs.rec.mu.Lock()
	defer cs.rec.mu.Unlock()
	switch {
	case t[1] == "close" && len(t) == 2:
		cs.rec.closeErr = true
	case t[1] == "read" && len(t) == 2:
		cs.rec.readErr = true
	case t[1] == "write" && len(t) == 3:
		n, err := strconv.Atoi(t[2])
		if err != nil || n < 0 {
			return core.Result{Impl: "bad-op", SkipModel: true}
		}
		cs.rec.armed, cs.rec.failAfter = true, len(cs.rec.buf)+n
		e.noModel = true // failing writes of the wrapped connection are outside the model's domain
	default:
		return core.Result{Impl: "bad-op", SkipModel: true}
	}
	core.Count("fault:" + t[1])
	return core.Result{Impl: "fault armed", SkipModel: true}
}

// writeFaulted judges a Write during which the wrapped connection failed: the error must surface, what
// went out before is a prefix of the data, and the proxy's reaction (close the connection) must
// release the connection's buckets.
func (e *ex) writeFaulted(id string, cs *cstate, data, delta []byte, n int, err error) core.Result {
	theHook.take()
	e.noModel = true
	res := core.Result{Impl: "write faulted", SkipModel: true}
	cs.written = append(cs.written, data...)
	core.Count("write:wrapped-conn-failed")
	switch {
	case len(delta) > len(data) || string(delta) != string(data[:len(delta)]) || !isPrefix(cs.rec.snapshot(), cs.written):
		res.Sig, res.Fail = "c18:bytes-altered", fmt.Sprintf("before the wrapped connection failed this write delivered %s, not a prefix of its data %s", brief(delta), brief(data))
	case err == nil:
		res.Sig, res.Fail = "c18:write-error-swallowed", fmt.Sprintf("the wrapped connection failed after %d of %d bytes but Write reported success (n=%d)", len(delta), len(data), n)
	case n > len(delta):
		res.Sig, res.Fail = "c18:write-count", fmt.Sprintf("Write reported %d bytes written, the wrapped connection took %d", n, len(delta))
	}
	// the proxy closes a connection whose write failed
	cs.c.Close()
	cs.closed = true
	if d := e.settle(); d != 0 && res.Fail == "" {
		res.Sig, res.Fail = "c18:leak:conn-local-buckets", fmt.Sprintf("closing the connection after a failed write (%d per-shape bucket pairs) left %d drain goroutines running", cs.nLocal, d)
	}
	return res
}

func (e *ex) doReclose(id string) core.Result {
	cs, ok := e.conns[id]
	if !ok || cs.rec == nil || !cs.closed || cs.pend != nil {
		return core.Result{Impl: "bad-op", SkipModel: true}
	}
	cs.c.Close() // a second Close must neither panic nor block
	core.Count("reclose")
	res := core.Result{Impl: "reclosed", SkipModel: true}
	if d := e.settle(); d != 0 {
		res.Sig, res.Fail = "c18:leak:conn-local-buckets", fmt.Sprintf("after a second Close %d drain goroutines are unaccounted for", d)
	}
	return res
}

func (e *ex) doRead(id string) core.Result {
	cs, ok := e.conns[id]
	if !ok || cs.rec == nil || cs.closed {
		return core.Result{Impl: "bad-op", SkipModel: true}
	}
	type rr struct {
		n   int
		err error
	}
	ch := make(chan rr, 1)
	go func() { n, err := cs.c.Read(make([]byte, 64)); ch <- rr{n, err} }()
	core.Count("read")
	select {
	case r := <-ch:
		if r.n != 0 || r.err == nil {
			return core.Result{Impl: "read", SkipModel: true, Sig: "c18:read-error-swallowed", Fail: fmt.Sprintf("the wrapped Read failed, Conn.Read returned n=%d err=%v", r.n, r.err)}
		}
		return core.Result{Impl: "read", SkipModel: true}
	case <-time.After(10 * time.Second):
		return core.Result{Impl: "hang", SkipModel: true, Sig: "hang", Fail: "Conn.Read did not return although the wrapped Read fails at once"}
	}
}
