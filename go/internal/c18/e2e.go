package c18

// End-to-end tier: a real martian.Proxy serves the shaped listener over TCP; the origin is a
// RoundTripper answering with Content-Length bodies (200, 206 with Content-Range, multipart 206).
// The shaping context is therefore the one Proxy.handle sets, per response, on a keep-alive
// connection, and the bytes are what a TCP client of the shaped listener receives.

import (
	"bufio"
	"bytes"
	"fmt"
	"io"
	"io/ioutil"
	"net"
	"net/http"
	"sort"
	"strconv"
	"strings"
	"sync"
	"time"

	martian "github.com/google/martian/v3"
	"github.com/google/martian/v3/trafficshape"

	"verif/harness/internal/core"
)

type plan struct {
	close  bool // the origin's answer carries Connection: close
	status int
	hdr    [][2]string
	body   []byte
}

type e2eWorld struct {
	tcp net.Listener
	p   *martian.Proxy
	acc chan *trafficshape.Conn

	mu   sync.Mutex
	plan *plan
}

// RoundTrip is the origin.
func (w *e2eWorld) RoundTrip(req *http.Request) (*http.Response, error) {
	w.mu.Lock()
	pl := w.plan
	w.mu.Unlock()
	if pl == nil {
		return nil, fmt.Errorf("no response planned")
	}
	h := http.Header{}
	for _, kv := range pl.hdr {
		h.Add(kv[0], kv[1])
	}
	return &http.Response{StatusCode: pl.status, Status: fmt.Sprintf("%d %s", pl.status, http.StatusText(pl.status)),
		Proto: "HTTP/1.1", ProtoMajor: 1, ProtoMinor: 1, Header: h, ContentLength: int64(len(pl.body)),
		Body: ioutil.NopCloser(bytes.NewReader(pl.body)), Request: req, Close: pl.close}, nil
}

// notifyLn hands every accepted shaped connection to the harness as well (the proxy still receives
// the *trafficshape.Conn itself, as it must for its type assertion).
type notifyLn struct {
	*trafficshape.Listener
	acc chan *trafficshape.Conn
}

func (n notifyLn) Accept() (net.Conn, error) {
	c, err := n.Listener.Accept()
	if tc, ok := c.(*trafficshape.Conn); err == nil && ok {
		n.acc <- tc
	}
	return c, err
}

func (e *ex) world() (*e2eWorld, error) {
	if e.w != nil {
		return e.w, nil
	}
	tcp, err := net.Listen("tcp", "127.0.0.1:0")
	if err != nil {
		return nil, err
	}
	w := &e2eWorld{tcp: tcp, acc: make(chan *trafficshape.Conn, 64)}
	sl := e.sl
	go func() { // feed the TCP connections to the shaped listener's inner listener
		for {
			c, err := tcp.Accept()
			if err != nil {
				return
			}
			select {
			case sl.in <- c:
			case <-sl.ch:
				c.Close()
				return
			}
		}
	}()
	w.p = martian.NewProxy()
	w.p.SetRoundTripper(w)
	go w.p.Serve(notifyLn{e.tsl, w.acc})
	e.w = w
	return w, nil
}

func (w *e2eWorld) stop() { w.tcp.Close() }

// finish: after the shaped listener is closed Serve has returned; Close waits for the connection
// handlers (their clients are closed), bounded.
func (w *e2eWorld) finish() {
	done := make(chan struct{})
	go func() { w.p.Close(); close(done) }()
	select {
	case <-done:
	case <-time.After(3 * time.Second):
	}
}

const e2eWait = 20 * time.Second

func (e *ex) doDial(id, gS, tickS string) core.Result {
	g, gerr := strconv.ParseInt(gS, 10, 64)
	tickMs, terr := strconv.Atoi(tickS)
	if _, dup := e.conns[id]; dup || e.tsl == nil || (gS != "" && (gerr != nil || g < 1)) || (tickS != "" && (terr != nil || tickMs < 1 || tickMs > 100)) {
		return core.Result{Impl: "bad-op"}
	}
	w, err := e.world()
	if err != nil {
		return core.Result{Impl: "bad-op", SkipModel: true}
	}
	c, err := net.DialTimeout("tcp", w.tcp.Addr().String(), 5*time.Second)
	if err != nil {
		return fail("c18:e2e:dial", "dial: %v", err)
	}
	var tc *trafficshape.Conn
	select {
	case tc = <-w.acc:
	case <-time.After(e2eWait):
		c.Close()
		return core.Result{Impl: "hang", Sig: "hang", Fail: "the proxy did not accept the connection"}
	}
	cs := &cstate{c: tc, gen: e.gen, nLocal: len(tc.LocalBuckets), lat: e.latency, client: c, br: bufio.NewReaderSize(c, 1<<16), addr: c.LocalAddr().String()}
	e.conns[id] = cs
	e.order = append(e.order, id)
	var keys []string
	for re, b := range tc.LocalBuckets {
		k, ok := idOfRegex[re]
		if !ok {
			k = "?"
		}
		keys = append(keys, fmt.Sprintf("%s:%d", k, b.WriteBucket.Capacity()))
	}
	sort.Strings(keys)
	if gS != "" {
		// the handler does not look at the connection's buckets before the first request arrives
		for re := range tc.GlobalBuckets {
			tc.GlobalBuckets[re] = e.sharedFast(re, g)
		}
		core.Count("dial:shared-bucket-limited")
	}
	if tickS != "" {
		// the connection's own write buckets drain every few milliseconds instead of every second
		cs.tick = time.Duration(tickMs) * time.Millisecond
		for re, b := range tc.LocalBuckets {
			nb := trafficshape.NewBucket(b.WriteBucket.Capacity(), cs.tick)
			b.WriteBucket.Close()
			tc.LocalBuckets[re] = &trafficshape.Buckets{ReadBucket: b.ReadBucket, WriteBucket: nb}
		}
		core.Count("dial:own-buckets-fast-tick")
	}
	core.Count("dial")
	impl := "conn -"
	if len(keys) > 0 {
		impl = "conn " + strings.Join(keys, ",")
	}
	return core.Result{Impl: impl, ModelOp: "conn " + id}
}

// originByte: the byte at absolute offset i of the resource behind URL class u.
func originByte(u string, i int64) byte {
	return byte(i*131+(i>>8)*17+(i>>16)*29) ^ u[0]
}

// waitProxy waits until the proxy has finished the exchange on the client connection: it either
// waits for the next request or closes the connection.
func waitProxy(addr string, w0, c0 int, d time.Duration) (closed, ok bool) {
	dl := time.Now().Add(d)
	for {
		w1, c1 := theHook.seen(addr)
		if c1 > c0 {
			return true, true
		}
		if w1 > w0 {
			return false, true
		}
		if time.Now().After(dl) {
			return false, false
		}
		time.Sleep(200 * time.Microsecond)
	}
}

func (e *ex) doReq(id, u, rS, lenS, opt string) core.Result {
	cs, ok := e.conns[id]
	url, ok2 := urlOf[u]
	blen, err := strconv.Atoi(lenS)
	if !ok || !ok2 || err != nil || blen < 0 || blen > 1<<22 || cs.client == nil || cs.closed || e.w == nil ||
		(opt != "" && opt != "c" && opt != "ce" && opt != "h10" && opt != "h10e") {
		return core.Result{Impl: "bad-op"}
	}
	// connection options: the client asks for the connection to be closed after this response
	// (Connection: close, or an HTTP/1.0 request); the origin's answer says so too ("e") or not
	wantClose := opt != ""
	echo := strings.HasSuffix(opt, "e")
	proto := "HTTP/1.1"
	if strings.HasPrefix(opt, "h10") {
		proto = "HTTP/1.0"
	}
	// the origin's answer
	var k, rs int64
	pl := &plan{status: 200, hdr: [][2]string{{"Content-Type", "application/octet-stream"}}}
	switch {
	case rS == "-":
	case rS[0] == 'm' || rS[0] == 'x':
		v, err := strconv.ParseInt(rS[1:], 10, 64)
		if err != nil || v < 0 {
			return core.Result{Impl: "bad-op"}
		}
		k, rs = v, -1
		pl.status = 206
		if rS[0] == 'm' {
			pl.hdr = [][2]string{{"Content-Type", "multipart/byteranges; boundary=xyz"}}
		} else {
			pl.hdr = append(pl.hdr, [2]string{"Content-Range", "bytes */" + strconv.FormatInt(k+int64(blen), 10)})
		}
	default:
		v, err := strconv.ParseInt(rS, 10, 64)
		if err != nil || v < 0 {
			return core.Result{Impl: "bad-op"}
		}
		k, rs = v, v
		pl.status = 206
		pl.hdr = append(pl.hdr, [2]string{"Content-Range", fmt.Sprintf("bytes %d-%d/%d", k, k+int64(blen)-1, k+int64(blen))})
	}
	pl.body = make([]byte, blen)
	for i := range pl.body {
		pl.body[i] = originByte(u, k+int64(i))
	}
	pl.close = echo
	e.w.mu.Lock()
	e.w.plan = pl
	e.w.mu.Unlock()

	theHook.take()
	w0, c0 := theHook.seen(cs.addr)
	if cs.nreq == 0 && w0 == 0 {
		// the handler has not reached its first "waiting for request" yet; it will, once
		if _, ok := waitProxy(cs.addr, 0, c0, e2eWait); !ok {
			return core.Result{Impl: "hang", Sig: "hang", Fail: "the proxy never started to serve the connection"}
		}
		w0, c0 = theHook.seen(cs.addr)
	}
	cs.nreq++
	var rq strings.Builder
	fmt.Fprintf(&rq, "GET %s %s\r\nHost: %s\r\n", url, proto, strings.SplitN(strings.TrimPrefix(url, "http://"), "/", 2)[0])
	if opt == "c" || opt == "ce" {
		rq.WriteString("Connection: close\r\n")
	}
	if pl.status == 206 {
		fmt.Fprintf(&rq, "Range: bytes=%d-\r\n", k)
	}
	rq.WriteString("\r\n")
	t0 := time.Now()
	cs.client.SetDeadline(t0.Add(e2eWait))
	if _, err := io.WriteString(cs.client, rq.String()); err != nil {
		return fail("c18:e2e:request", "sending the request: %v", err)
	}
	// the response head, raw
	var head []byte
	headOK := false
	cl := int64(-1)
	status := 0
	for {
		line, err := cs.br.ReadBytes('\n')
		head = append(head, line...)
		if err != nil {
			break
		}
		if len(head) == len(line) {
			if f := strings.Fields(string(line)); len(f) >= 2 {
				status, _ = strconv.Atoi(f[1])
			}
		}
		if string(line) == "\r\n" {
			headOK = true
			break
		}
		if i := bytes.IndexByte(line, ':'); i > 0 && strings.EqualFold(string(line[:i]), "Content-Length") {
			cl, _ = strconv.ParseInt(strings.TrimSpace(string(line[i+1:])), 10, 64)
		}
	}
	var got []byte
	var rerr error
	if headOK && cl >= 0 {
		got = make([]byte, cl)
		var n int
		n, rerr = io.ReadFull(cs.br, got)
		got = got[:n]
	}
	el := time.Since(t0)
	closed, settled := waitProxy(cs.addr, w0, c0, e2eWait)
	if !settled {
		return core.Result{Impl: "hang", Sig: "hang", Fail: fmt.Sprintf("the proxy neither finished nor closed the exchange (head complete=%v, %d of %d body bytes, read error %v)", headOK, len(got), cl, rerr)}
	}
	core.Count("req")
	if wantClose {
		core.Count("req:client-asks-close:" + opt)
	}
	// the proxy closing the connection after a response whose request asked for it is not a cut:
	// a cut shows as a short body or as the close action's event
	connClosed := closed
	if wantClose && closed && len(got) == blen && !theHook.has("c@") {
		closed = false
	}
	core.Count(fmt.Sprintf("req:body>4096=%v", blen > 4096))
	// the oracle's view of this response (same bookkeeping as `ctx`)
	hl := int64(len(head))
	r := &resp{rs: rs, hl: hl, headLeft: hl, pos: rs, gen: e.gen}
	if os, has := e.cfg[u]; has && cs.gen == e.gen && rs > -1 {
		r.shaped, r.regex, r.os = true, u, os
	}
	cs.resp = r
	var werr error
	if closed {
		werr = &trafficshape.ErrForceClose{}
	}
	data := append(append([]byte{}, head...), pl.body...)
	delta := append(append([]byte{}, head...), got...)
	res := e.wrote(id, cs, data, delta, len(delta), werr, el, -1, "r", false)
	keep := "keep"
	if wantClose {
		keep = "close"
	}
	res.ModelOp = fmt.Sprintf("resp %s %s %d %d %d %s", id, u, rs, hl, blen, keep)
	if wantClose && !connClosed {
		// the proxy must not keep a connection its client wanted closed; either way this connection is done
		connClosed = true
		core.Count("req:close-not-honoured")
	}
	if connClosed {
		// the proxy closed its side (Conn.Close runs in handleLoop); the client follows
		cs.client.Close()
		cs.closed = true
		if d := e.settle(); d != 0 && res.Fail == "" {
			res.Sig, res.Fail = "c18:leak:conn-local-buckets", fmt.Sprintf("the proxy closed the cut connection (%d per-shape bucket pairs); %d drain goroutines remain", cs.nLocal, d)
		}
	}
	if res.Fail != "" {
		return res
	}
	switch {
	case !headOK && !closed:
		res.Sig, res.Fail = "c18:e2e:head-incomplete", fmt.Sprintf("the response head is incomplete (%q) although the connection stays open", brief(head))
	case headOK && (status != pl.status || cl != int64(blen)):
		res.Sig, res.Fail = "c18:e2e:head-altered", fmt.Sprintf("origin answered %d with %d body bytes, the client got status %d, Content-Length %d", pl.status, blen, status, cl)
	case !closed && len(got) != blen:
		res.Sig, res.Fail = "c18:short-write", fmt.Sprintf("the connection stays open but only %d of %d body bytes arrived (%v)", len(got), blen, rerr)
	case r.shaped && cs.c.Context.URLRegex != "" && func() bool {
		sig, msg := throttleAtStart(r.os, rs, cs.c.Context)
		if sig != "" {
			res.Sig, res.Fail = sig, fmt.Sprintf("conn %s, URL %s: %s", id, url, msg)
		}
		return sig != ""
	}():
	case r.shaped && cs.c.Context.URLRegex == "":
		res.Sig, res.Fail = "c18:matching-url-not-shaped", fmt.Sprintf("URL %s matches shape %s of the configuration the connection was accepted under, but the proxy set no shaping context", url, u)
	}
	return res
}

func (e *ex) doHangup(id string) core.Result {
	cs, ok := e.conns[id]
	if !ok || cs.client == nil || cs.closed {
		return core.Result{Impl: "bad-op"}
	}
	w0, c0 := theHook.seen(cs.addr)
	cs.client.Close()
	if _, ok := waitProxy(cs.addr, w0+1<<30, c0, e2eWait); !ok {
		return core.Result{Impl: "hang", Sig: "hang", Fail: "the proxy did not close the connection its client hung up"}
	}
	cs.closed = true
	res := core.Result{Impl: "closed", ModelOp: "close " + id}
	if d := e.settle(); d != 0 {
		res.Sig = "c18:leak:conn-local-buckets"
		res.Fail = fmt.Sprintf("the proxy closed a shaped connection with %d per-shape bucket pairs; %d of its %d drain goroutines remain", cs.nLocal, d, 2*cs.nLocal)
	}
	return res
}
